"""shared machinery of the vorbisfile checks (C03 C07 C08 C09 C10 C12 C13 C19 C20): case generation,
construction of the model's input from the harness' page table, line-by-line comparison."""
import re
import vlib

MODEL_OPS = {"open", "test", "testopen", "tell", "rawtell", "timetell", "total", "rawtotal", "timetotal", "serial", "streams",
             "seekable", "info", "read", "readto", "readi", "rawseek", "pcmseek", "pcmseekpage", "timeseek", "timeseekpage",
             "rawseeklap", "pcmseeklap", "pcmseekpagelap", "timeseeklap", "timeseekpagelap", "halfrate", "crosslap", "clear"}
BUILD_OPS = {"link", "garbage", "damage", "rawlink"}


def kv(line):
    d = {}
    for t in line.split(" "):
        if "=" in t:
            k, v = t.split("=", 1)
            d[k] = v
    return d


def gen_links(rng, nlinks=None, tiny=False):
    """the physical stream: 1..4 links with differing channels / rates / lengths / page layouts"""
    n = nlinks or rng.choice([1, 1, 2, 2, 3, 4])
    out = []
    used = set()
    for _ in range(n):
        ch = rng.choice([1, 2, 2, 1, 3])
        rate = rng.choice([8000, 11025, 22050, 44100, 48000])
        q = rng.choice([-0.1, 0.1, 0.4, 0.7])
        length = rng.choice([0, 1, 37, 300, 1024, 3000, 5000, 9000, 20000] if not tiny else [0, 1, 37, 300, 1500])
        sig = rng.randrange(6)
        if rng.random() < 0.2:
            # a link whose packets exceed 255 bytes from the first one on (three channels of noise at high quality): its pages can be
            # cut inside a packet, the first audio page included (gen_splits)
            ch, rate, q, sig = 3, rng.choice([44100, 48000]), 0.7, 5
            length = max(length, 300)
        seed = rng.randrange(1, 90000)
        while seed in used:       # the serial number is seed+1000: Ogg requires it to be unique within the physical stream
            seed = rng.randrange(1, 90000)
        used.add(seed)
        pagemode = rng.choice([0, 0, 1, 2])
        fill = rng.choice([0, 200, 1000, 4000])
        out.append("link %d %d %s %d %d %d %d %d" % (ch, rate, q, length, sig, seed, pagemode, fill))
    return out


def with_mux(rng, links, p=0.2):
    """the link ops, some of them followed by a `mux` op: a foreign logical stream interleaved page by page with that link (grouped
    streams are legal Ogg; the foreign stream may end after the Vorbis stream does, so the link's last page is not the file's)"""
    out = []
    for l in links:
        out.append(l)
        if rng.random() < p:
            t = gen_links(rng, 1, tiny=True)[0].split(" ")
            t[6] = str(100000 + int(t[6]))          # its own serial number range (500000+seed%100000 in the harness)
            out.append("mux " + " ".join(t[1:]))
    return out


def serial_of(seed):
    """the serial number the harness gives the link made from this seed (as ov_serialnumber reports it: sign-extended 32 bits)"""
    return seed - (1 << 31) if seed % 5 == 3 else 1000 + seed % 100000


def gen_splits(rng, links, p=0.45):
    """legal re-pagination: cut pages inside their first packet (harness op pagedamage 15/16), so that pages without a granule position
    and 'continued' pages occur — also as the first audio page of a link.  A page whose first packet is shorter than 255 bytes stays."""
    fat = [k for k, l in enumerate(links) if l.split(" ")[1] == "3" and l.split(" ")[3] == "0.7" and l.split(" ")[5] == "5"]
    out = []
    if fat and rng.random() < 0.8:
        out.append("pagedamage 15 %d 0 %d" % (rng.choice(fat), rng.randrange(0, 8)))     # the first audio page of a link
    if rng.random() < p:
        for _ in range(rng.choice([1, 1, 2, 3])):
            if rng.random() < 0.3:
                out.append("pagedamage 15 %d 0 %d" % (rng.randrange(len(links)), rng.randrange(0, 8)))
            else:
                out.append("pagedamage 16 %d 0 %d" % (rng.randrange(0, 40), rng.randrange(0, 8)))
    return out


def model_case(cops, cout):
    """from the harness ops and output build the op list for the model: the page table, the header
    packets, then every modelled op.  Returns (model ops, list of (op, harness line) to compare)."""
    mops = [cops[0]]
    pairs = []
    lines = cout[1:]
    li = 0
    table_bytes = None
    for op in cops[1:]:
        name = op.split(" ")[0]
        if name == "table":
            # consume 'table bytes=', pg..., tableend, hdrpk...
            tb = lines[li]
            li += 1
            table_bytes = int(kv(tb)["bytes"])
            mops.append("phys %d" % table_bytes)
            while li < len(lines) and lines[li].startswith("pg "):
                mops.append(lines[li])
                li += 1
            assert lines[li].startswith("tableend"), lines[li]
            st = kv(lines[li]).get("stalls", "-")
            li += 1
            while li < len(lines) and lines[li].startswith("hdrpk "):
                mops.append(lines[li])
                li += 1
            mops.append("stalls " + st)
            mops.append("build")
            continue
        if li >= len(lines):
            break
        if name == "refpk":
            while li < len(lines) and lines[li].startswith("refpk "):
                li += 1
            continue
        ans = lines[li]
        li += 1
        if name in MODEL_OPS:
            mops.append(op)
            pairs.append((op, ans))
    return mops, pairs


FLOAT_OPS = {"timetell", "timetotal"}


def compare(op, cline, mline):
    """None if the model's answer agrees with the library's on every field the model carries"""
    name = op.split(" ")[0]
    if mline is not None and "wfbroken=1" in mline:
        return "%s: the model reached a state outside DecWF (hypothesis of C07_seek_history_independent / C12_state_after_failure_is_forgotten)" % name
    if name == "rawtell" and " tail=" in mline:
        # the model's cursor is within the last 26 bytes of the file: the library's may rest anywhere from there up to the model's
        try:
            mv, tail = int(mline.split(" ")[1]), int(kv(mline)["tail"])
            cv = int(cline.split(" ")[1])
        except Exception:
            return "library '%s' model '%s'" % (cline, mline)
        return None if max(tail, 0) <= cv <= mv or cv == mv else "rawtell: library %d model %d (tail from %d)" % (cv, mv, tail)
    if name in FLOAT_OPS:
        if cline == mline:
            return None
        try:
            cv = float(cline.split(" ")[1])
            mv = int(mline.split(" ")[1]) / 1e9
        except Exception:
            return "unparsable: %s | %s" % (cline, mline)
        return None if abs(cv - mv) <= 2e-9 * max(1.0, abs(cv)) else "%s: library %r model %r" % (name, cv, mv)
    if "=" not in mline:
        return None if cline == mline else "library '%s' model '%s'" % (cline, mline)
    a, b = kv(cline), kv(mline)
    if cline.split(" ")[0] != mline.split(" ")[0]:
        return "library '%s' model '%s'" % (cline, mline)
    for k, v in b.items():
        if k in a and a[k] != v:
            return "%s: %s: library %s model %s" % (name, k, a[k], v)
    return None


def answers(cops, cout):
    """pair every op of a case with the answer line(s) the harness printed for it"""
    out = []
    lines = cout[1:]
    li = 0
    for op in cops[1:]:
        name = op.split(" ")[0]
        if li >= len(lines):
            out.append((op, None))
            continue
        if name == "table":
            start = li
            li += 1
            while li < len(lines) and lines[li].startswith("pg "):
                li += 1
            li += 1
            while li < len(lines) and lines[li].startswith("hdrpk "):
                li += 1
            out.append((op, lines[start:li]))
            continue
        if name == "refpk":
            while li < len(lines) and lines[li].startswith("refpk "):
                out.append((op, lines[li]))
                li += 1
            continue
        out.append((op, lines[li]))
        li += 1
    return out


def run_vf(cases, model=True, variant="san", timeout=1800, env=None, wrap=None):
    """two-phase run: harness on every case, then the model on the page tables the harness printed.
    Returns per case {ops, c, crash, err, ans, dis:[(op, text)], mlines}"""
    hres = vlib.run_harness_only("c07", cases, variant=variant, timeout=timeout, env_extra=env, wrap=wrap)
    out = []
    mcases, midx = [], []
    for i, r in enumerate(hres):
        d = {"ops": r["ops"], "c": r["c"], "crash": r["c"] is None or (r["rc_c"] != 0 and bool(r["err_c"])),
             "err": r.get("err_c", ""), "rc": r["rc_c"], "partial": r.get("c_partial"), "dis": [], "mlines": None, "ans": []}
        if not d["crash"]:
            d["ans"] = answers(r["ops"], r["c"])
            if model and any(o.startswith("table") for o in r["ops"]):
                try:
                    mops, pairs = model_case(r["ops"], r["c"])
                    d["pairs"] = pairs
                    mcases.append(mops)
                    midx.append(i)
                except Exception as e:        # malformed harness output
                    d["dis"].append(("<table>", "cannot build model input: %r" % (e,)))
        out.append(d)
    if mcases:
        mres = vlib.run_model_only("c07", mcases, timeout=timeout)
        for i, mr in zip(midx, mres):
            d = out[i]
            if mr["m"] is None:
                d["dis"].append(("<model>", "model produced no output: " + mr.get("err_m", "")[-300:]))
                continue
            ml = [l for l in mr["m"][1:] if not l.startswith("build ")]
            d["mlines"] = ml
            if len(ml) != len(d["pairs"]):
                d["dis"].append(("<model>", "model answered %d ops, library %d" % (len(ml), len(d["pairs"]))))
                continue
            for (op, cl), m in zip(d["pairs"], ml):
                x = compare(op, cl, m)
                if x:
                    d["dis"].append((op, x))
                    break
                if "rc=-99999" in m or " -99999" in m:
                    d["dis"].append((op, "model ran out of fuel: " + m))
                    break
    return out


def settle_vf(chk, res, broken, ofail, tag="c07"):
    """res: run_vf output; ofail: [(case dict, 'class: text')]"""
    crash = [d for d in res if d["crash"]]
    for d in crash[:4]:
        chk.violation("crash:" + tag, "implementation aborted (sanitizer report, signal or time-out)",
                      {"stream": "c07", "ops": d["ops"], "exit": d["rc"], "stderr": d["err"][-2500:]}, True)
    for d, o in ofail[:4]:
        chk.violation("oracle:" + tag + ":" + o.split(": ")[0], "property oracle failed on the implementation: " + o,
                      {"stream": "c07", "ops": d["ops"], "observed": d["c"]}, True)
    have_input = bool(crash or ofail)
    dis = [d for d in res if d["dis"]]
    if not have_input:
        for d in dis[:4]:
            op, x = d["dis"][0]
            chk.violation("corr:" + tag, "vorbisfile model and implementation disagree at '%s': %s" % (op, x),
                          {"broken": "correspondence stream c07 (Vorbis/File/Model.lean)", "stream": "c07", "ops": d["ops"],
                           "c": d["c"], "model": d["mlines"]}, False)
    if broken and not have_input and not dis:
        chk.violation("proof", "proof obligation no longer checks: " + "; ".join(broken)[:600],
                      {"broken": broken, "lean_log": getattr(chk, "lean_log", "")[-3000:]}, False)
    elif broken:
        chk.coverage["broken_obligations"] = broken
    chk.coverage["disagreements"] = len(dis)
    chk.coverage["crashes"] = len(crash)


def _links_of(ops):
    """(channels, rate, samples) of every link of the chain, encoder-made (`link`) or hand-muxed (`rawbegin` .. `rawend`), in file order"""
    out, raw = [], None
    for o in ops:
        if o.startswith("link "):
            t = o.split(" ")
            out.append((int(t[1]), int(t[2]), int(t[4])))
        elif o.startswith("rawbegin "):
            b = bytes.fromhex(o.split(" ")[2])
            raw = [b[11], int.from_bytes(b[12:16], "little"), 0]
        elif o.startswith("rawpk ") and raw is not None:
            raw[2] = int(o.split(" ")[2])
        elif o.startswith("rawend") and raw is not None:
            out.append((raw[0], raw[1], max(0, raw[2])))
            raw = None
    return out


def link_lengths(ops):
    return [x[2] for x in _links_of(ops)]


def link_rates(ops):
    return [x[1] for x in _links_of(ops)]


def link_channels(ops):
    return [x[0] for x in _links_of(ops)]


# ---- hand-made links: any legal set-up, silent audio packets --------------------------------------
def raw_link(rng, serial, channels, rate, b0, b1, npackets, trim=None, flush_p=0.2, big=False, tries=40):
    """ops building a link from a generated set-up header (checks/gen_setup.py) and audio packets that
    select a random mode and carry nothing else (every floor reads 'unused': silence).  Granule positions
    follow the specification.  Returns (ops, samples, info) — the harness may still refuse the set-up
    (e.g. an over-subscribed Huffman tree); callers look at the open result."""
    from . import gen_setup as G
    t, meta = G.gen_setup(rng, channels, 1 << b0, 1 << b1, big=big)
    flags = [f[0] for f in t.f if f[2] == "mode.bf"]
    nm = len(flags)
    mb = G.ilog(nm - 1)
    ops = ["rawbegin %d %s %s %s" % (serial, vlib.hexs(G.ident(channels, rate, b0, b1)), vlib.hexs(G.comment()), vlib.hexs(t.pack()))]
    pos, prev = 0, None
    sizes = []
    for k in range(npackets):
        m = rng.randrange(nm)
        bs = (1 << b1) if flags[m] else (1 << b0)
        bits, nb = 0, 1
        bits |= m << nb
        nb += mb
        if flags[m]:
            bits |= rng.getrandbits(2) << nb
            nb += 2
        body = bits.to_bytes((nb + 7) // 8, "little") + bytes(rng.choice([0, 1, 4, 9]))
        if prev is not None:
            pos += (prev + bs) // 4
        prev = bs
        sizes.append(bs)
        last = (k == npackets - 1)
        gran = pos
        if last and trim is not None:
            gran = max(0, pos - trim)
        ops.append("rawpk %s %d %d %d" % (vlib.hexs(body), gran, 1 if last else 0, 1 if (last or rng.random() < flush_p) else 0))
    ops.append("rawend")
    total = pos if trim is None else max(0, pos - trim)
    return ops, (total if npackets > 0 else 0), {"channels": channels, "rate": rate, "bs0": 1 << b0, "bs1": 1 << b1, "sizes": sizes}


def valid_setups(rng, count, combos=None, attempts=6, sane=False, channels=None):
    """set-up headers the decoder accepts *and* can build a decoder for: candidates from the type-directed
    generator are filtered through the harness (stream c02: three headers + vorbis_synthesis_init).
    Returns a list of dicts {channels, b0, b1, trace, flags}."""
    from . import gen_setup as G
    combos = combos or [(6, 6), (6, 8), (6, 11), (6, 13), (7, 7), (7, 9), (8, 11), (9, 10)]
    cand = []
    for i in range(count * attempts):
        ch = rng.choice(channels or [1, 2, 2, 3, 6])
        b0, b1 = rng.choice(combos)
        t, meta = G.gen_setup(rng, ch, 1 << b0, 1 << b1, sane=sane)
        cand.append({"channels": ch, "b0": b0, "b1": b1, "trace": t, "flags": [f[0] for f in t.f if f[2] == "mode.bf"]})
    cases = []
    for i, c in enumerate(cand):
        cases.append(["case %d" % i, "new", "hdr 1 %s" % vlib.hexs(G.ident(c["channels"], 44100, c["b0"], c["b1"])),
                      "hdr 0 %s" % vlib.hexs(G.comment()), "hdr 0 %s" % vlib.hexs(c["trace"].pack()), "init", "clear"])
    res = vlib.run_harness_only("c02", cases, timeout=600)
    good = []
    for c, r in zip(cand, res):
        if r["c"] and any(l.startswith("init rc=0") for l in r["c"]):
            good.append(c)
    rng.shuffle(good)
    return good[:count]


def raw_link_from(rng, su, serial, rate, npackets, trim=None, flush_p=0.2):
    """like raw_link, from a pre-validated set-up (valid_setups)"""
    from . import gen_setup as G
    flags = su["flags"]
    nm = len(flags)
    mb = G.ilog(nm - 1)
    b0, b1, channels = su["b0"], su["b1"], su["channels"]
    ops = ["rawbegin %d %s %s %s" % (serial, vlib.hexs(G.ident(channels, rate, b0, b1)), vlib.hexs(G.comment()), vlib.hexs(su["trace"].pack()))]
    pos, prev = 0, None
    for k in range(npackets):
        m = rng.randrange(nm)
        bs = (1 << b1) if flags[m] else (1 << b0)
        bits, nb = 0, 1
        bits |= m << nb
        nb += mb
        if flags[m]:
            bits |= rng.getrandbits(2) << nb
            nb += 2
        body = bits.to_bytes((nb + 7) // 8, "little") + bytes(rng.choice([0, 1, 4, 9]))
        before = pos
        if prev is not None:
            pos += (prev + bs) // 4
        prev = bs
        last = (k == npackets - 1)
        if last and trim is not None:
            trim = min(trim, pos - before)      # the end may be trimmed inside the last block only
        gran = pos - trim if (last and trim is not None) else pos
        ops.append("rawpk %s %d %d %d" % (vlib.hexs(body), gran, 1 if last else 0, 1 if (last or rng.random() < flush_p) else 0))
    ops.append("rawend")
    total = (pos - trim if trim is not None else pos) if npackets > 0 else 0
    return ops, total, {"channels": channels, "rate": rate, "bs0": 1 << b0, "bs1": 1 << b1, "serial": serial}
