"""C19 — lapped seeks differ from plain seeks only inside the first half short block."""
from . import common, vfcommon as V
import vlib

LEVEL = "proof"
KINDS = ["rawseek", "pcmseek", "pcmseekpage", "timeseek", "timeseekpage"]


def lapname(k):
    return k + "lap"


def gen_case(rng, i, tier):
    links = V.gen_links(rng)
    lens = [int(l.split(" ")[4]) for l in links]
    rates = [int(l.split(" ")[2]) for l in links]
    total = sum(lens)
    dur = int(sum(1000.0 * n / r for n, r in zip(lens, rates)))
    bounds = [0]
    for n in lens:
        bounds.append(bounds[-1] + n)
    # (a third of the chains carry a multiplexed foreign stream: its pages lie between the Vorbis pages, also between a lapped seek's old position and
    # the audio that follows it)
    ops = ["case %d" % i] + V.with_mux(rng, links, p=0.35) + V.gen_splits(rng, links) + ["table", "ref 0", "open 0 1 %d" % rng.choice([4096, 513, 1]), "open 1 1 4096"]
    if rng.random() < 0.3:
        ops.append("open 2 1 4096")
        if rng.random() < 0.5:
            # the two handles of ov_crosslap decode at different rates (refused on links with 64-sample blocks: then both stay at full rate)
            # (the lapping handle and its plain twin always share one rate)
            ops += ["ref 1"] + rng.choice([["halfrate 2 1"], ["halfrate 2 1"], ["halfrate 0 1", "halfrate 1 1"]])

    def pos():
        b = rng.choice(bounds)
        return max(-2, min(total + 2, rng.choice([b, b - 1, b + 1, b - 100, b + 100, rng.randrange(0, total + 1), total, 0])))
    for _ in range(rng.randint(3, 12)):
        # old position of the lapping handle: anywhere, including link ends and end of stream
        r = rng.random()
        if r < 0.6:
            ops.append("pcmseek 0 %d" % max(0, min(total, pos())))
            ops += ["read 0 %d" % rng.choice([1, 64, 4096]) for _ in range(rng.choice([0, 0, 1, 2]))]
        elif r < 0.7:
            ops += ["read 0 4096"] * rng.choice([1, 5, 30])
        elif r < 0.78:
            # played (not sought) to within a fraction of a half short block of a link's end: the lapping samples are the link's last
            # few samples continued by the decoder's overlap half
            k = rng.randrange(len(lens))
            if lens[k] > 300:
                e = bounds[k + 1]
                ops.append("pcmseek 0 %d" % max(bounds[k], e - 10000))
                ops.append("readto 0 %d" % (e - rng.choice([1, 7, 40, 64, 100, 111, 127, 200, 500, 1000])))
        elif r < 0.85 and total <= 20000:
            # play on to the end of the stream without any seek: the decoder instance that has lapped before is the one asked for its
            # overlap half by the next lapped seek (which the oracle takes from a handle that was simply played to the end)
            if rng.random() < 0.5 and lens[-1] > 0:
                ops.append("pcmseeklap 0 %d" % (bounds[-2] + rng.randrange(0, lens[-1])))
            ops += ["read 0 4096"] * (total // 100 + 10)
        ops.append("tell 0")
        if "open 2 1 4096" in ops and rng.random() < 0.3:
            ops.append("pcmseek 2 %d" % max(0, min(total, pos())))
            ops.append("tell 2")
            ops.append("crosslap 0 2")
            ops += ["read 2 %d" % rng.choice([1, 64, 4096]) for _ in range(3)]
            continue
        k = rng.choice(KINDS + ["pcmseek", "pcmseek"])
        if k.startswith("time"):
            a = rng.choice([0, dur, dur - 1, rng.randrange(0, dur + 2), -1, "end", "endm", "endp", "nan"])
        elif k == "rawseek":
            a = rng.randrange(0, 14000)
        else:
            a = pos()
        ops.append("%s 1 %s" % (k, a))
        ops.append("%s 0 %s" % (lapname(k), a))
        ops += ["tell 1", "tell 0"]
        for _ in range(rng.choice([1, 2, 4])):
            ln = rng.choice([1, 17, 64, 4096])
            ops += ["read 1 %d" % ln, "read 0 %d" % ln]
    ops += ["clear 0", "clear 1"]
    return ops


def oracle(d):
    total = sum(V.link_lengths(d["ops"]))
    last_tell = {0: 0, 1: 0, 2: 0}
    plain = None      # (kind, arg, rc, tell) of the twin's plain seek
    synced = False    # slot 0 landed by a lapped seek that succeeded, twin by the plain one
    stale = {}
    hr = {}
    for op, a in d["ans"]:
        if a is None or isinstance(a, list):
            continue
        t = op.split(" ")
        f = V.kv(a)
        if a.endswith("notopen"):
            continue
        if "seek" in t[0] and f.get("rc") == "0":
            stale[int(t[1])] = False
        if t[0] == "tell":
            last_tell[int(t[1])] = int(a.split(" ")[1])
        elif t[0] in KINDS and t[1] == "1":
            plain = (t[0], t[2], f["rc"], f["tell"])
            synced = False
        elif t[0].endswith("lap") and t[0][:-3] in KINDS and t[1] == "0":
            if plain is None or plain[0] != t[0][:-3] or plain[1] != t[2]:
                continue
            if plain[2] != "0":
                if f["rc"] == "0":
                    return "fails-where-plain-fails: %s succeeded, plain seek returned %s" % (op, plain[2])
                if int(f["tell"]) != last_tell[0]:
                    return "undisturbed: refused %s moved the position %d -> %s" % (op, last_tell[0], f["tell"])
            else:
                if f["rc"] == "OV_EOF":
                    if not (int(plain[3]) >= total or last_tell[0] >= total):
                        return "spurious-eof: %s reported end of file: target lands at %s, old position %d, total %d" % (op, plain[3], last_tell[0], total)
                elif f["rc"] != "0":
                    return "lap-fails: %s returned %s where the plain seek succeeds" % (op, f["rc"])
                else:
                    if f["tell"] != plain[3]:
                        return "same-landing: %s landed at %s, plain seek at %s" % (op, f["tell"], plain[3])
                    synced = True
        elif t[0] == "read":
            rc = f["rc"]
            if stale.get(int(t[1])):
                continue          # the old handle of ov_crosslap: not meant to be read on (ov_crosslap.html)
            if rc.startswith("OV_"):
                return "hole: %s returned %s" % (op, rc)
            if int(rc) > 0:
                if f.get("ok") not in ("1", "2"):
                    return "data: slot %s: %s" % (t[1], a)
                adv = int(f["t1"]) - int(f["t0"])
                # (at half rate: two positions per sample, one for the last sample of an odd-length link — C20's subject)
                if (adv not in (2 * int(rc), 2 * int(rc) - 1)) if hr.get(t[1]) else (adv != int(rc)):
                    return "advance: " + a
        elif t[0] == "readto":
            if f.get("rc", "").startswith("OV_"):
                return "hole: %s returned %s" % (op, f["rc"])
            if f.get("ok") == "0":
                return "data: slot %s: %s" % (t[1], a)
            last_tell[int(t[1])] = int(f["tell"])
        elif t[0] == "halfrate":
            hr[t[1]] = f.get("p") == "1"
        elif t[0] == "crosslap":
            if f["rc"] not in ("0", "OV_EOF"):
                return "crosslap: returned " + f["rc"]
            stale[int(t[1])] = True
    return None


def run(chk):
    theorems = vlib.theorem_names("C19")
    broken = chk.proof_side(theorems)
    n = 60 if chk.tier == "quick" else 1500
    cases = common.load_corpus("C19", 100000) + [gen_case(chk.rng, i, chk.tier) for i in range(n)]
    res = V.run_vf(cases)
    ofail = []
    lapped, unknown = 0, 0
    for d in res:
        if d["crash"]:
            continue
        o = oracle(d)
        if o:
            ofail.append((d, o))
        for op, a in d["ans"]:
            if isinstance(a, str) and op.startswith("read") and "ok=2" in a:
                unknown += 1
            if isinstance(a, str) and "lap" in op.split(" ")[0] and " rc=0" in a:
                lapped += 1
        chk.note_case("|".join(o for o in d["ops"] if o.startswith("link")), True,
                      {"ops": d["ops"][1:10], "answers": [a for _, a in d["ans"] if isinstance(a, str)][:10]})
    chk.coverage["rule"] = ("chains with differing channel counts, rates and short-block sizes; the lapping handle is first put at an arbitrary old position (link ends ±1/±100, end of stream, "
                            "after reads), then every lapped seek kind and its plain counterpart (on a twin handle) are given the same target; ov_crosslap between two handles; "
                            "the harness computes the expected cross-fade new*w^2+old*(1-w^2) (old = audio following the old position in the reference decode, w = smaller short window) "
                            "in float and compares every sample read bit for bit: inside the lap region against the cross-fade, outside against the plain reference")
    chk.coverage["successful_lapped_calls"] = lapped
    chk.coverage["reads_with_old_audio_beyond_link_end"] = unknown
    chk.assumptions += ["when the old position is within half a short block of its link's end the old audio comes from the decoder's overlap half, which the reference decode "
                        "does not contain: those samples of the lap region are not compared (ok=2), everything after the region is"]
    V.settle_vf(chk, res, broken, ofail)


replay = __import__("checks.c07", fromlist=["replay"]).replay
