"""C04 — encode then decode preserves the exact sample count and starts at zero."""
import os, sys
from . import common
import vlib

LEVEL = "proof"
THEOREMS = []   # filled from the Props file (all C04_* theorems are audited)

CONFIGS = [(1, 8000, "0.1"), (1, 8000, "0.9"), (2, 8000, "0.3"), (1, 11025, "0.4"), (2, 16000, "0.2"), (1, 22050, "0.5"),
           (2, 22050, "0.0"), (2, 32000, "0.6"), (1, 44100, "0.4"), (2, 44100, "-0.1"), (2, 44100, "1.0"), (2, 48000, "0.5"),
           (1, 48000, "0.8"), (3, 44100, "0.3"), (6, 48000, "0.4"), (2, 96000, "0.5"), (2, 44100, "m128000"), (1, 22050, "m32000"),
           (2, 48000, "m64000"), (4, 32000, "0.5"), (2, 26000, "0.5"), (2, 40000, "0.3"), (1, 19000, "0.2"), (1, 9000, "0.5")]


def partition(rng, N):
    if N == 0:
        return []
    style = rng.choice(["one", "1024", "odd", "random", "tiny-first", "huge-first"])
    if style == "one":
        return [N]
    if style == "1024":
        step = 1024
    elif style == "odd":
        step = rng.choice([1, 7, 33, 257, 1000, 4097]) if N < 20000 else rng.choice([257, 1000, 4097])
    else:
        step = None
    out, left = [], N
    if style == "tiny-first":
        first = min(left, rng.choice([1, 2, 31, 32, 33, 64]))
        out.append(first)
        left -= first
        step = 3000
    if style == "huge-first":
        first = min(left, rng.choice([5000, 20000, 70000]))
        out.append(first)
        left -= first
        step = 2048
    while left > 0:
        k = min(left, step if step else rng.choice([1, 5, 100, 1024, 2048, 5000, 9999]))
        out.append(k)
        left -= k
        if len(out) > 3000:
            out.append(left)
            break
    return [x for x in out if x > 0]


def gen_case(rng, i, tier):
    ch, rate, q = rng.choice(CONFIGS)
    if tier == "thorough" and i % 60 == 11:
        ch = rng.choice([8, 16, 255])
        q = "0.3"
    small = [0, 1, 2, 3, 15, 16, 17, 31, 32, 33, 34, 63, 64, 65, 127, 128, 129, 255, 256, 257, 300, 511, 512, 513, 1023, 1024, 1025, 2047, 2048, 2049, 4095, 4096, 4097]
    r = rng.random()
    if r < 0.08:
        N = 0
    elif r < 0.5:
        N = rng.choice(small)
    elif r < 0.85:
        N = rng.randint(0, 30000)
    else:
        N = rng.choice([50000, 100000, 250000] if tier == "quick" else [100000, 500000, 1000000])
    if ch > 8:
        N = min(N, 6000)
    if not q.startswith(("m", "M", "Q")) and rng.random() < 0.3:
        q = "D" + q          # packets straight from vorbis_analysis(vb,&op): the other documented way to get them on an unmanaged stream
    part = partition(rng, N)
    if rng.random() < 0.3:
        # over-submissions in between (more than vorbis_analysis_buffer handed out): refused, and the encode goes on as if nothing had been asked
        part = list(part)
        for _ in range(rng.choice([1, 1, 2])):
            part.insert(rng.randrange(len(part) + 1), "x%d" % rng.choice([5 * 10 ** 7, 2 * 10 ** 8, 10 ** 9]))
    pagemode = rng.choice([0, 0, 1, 2])
    fill = rng.choice([1, 255, 1000, 4096, 60000])
    sig = rng.choice([0, 1, 2, 3, 4])
    return ["case %d" % i, "enc %d %d %s %d %d %d %d %s" % (ch, rate, q, sig, rng.randint(1, 10 ** 6), pagemode, fill, " ".join(map(str, part)))], N


def kv(line):
    return dict(t.split("=", 1) for t in line.split(" ")[1:] if "=" in t)


def run(chk):
    global THEOREMS
    THEOREMS = vlib.theorem_names("C04")
    broken = chk.proof_side(THEOREMS)
    if not THEOREMS:
        broken.append("no C04_* theorem found in Props/C04.lean")
    n = 90 if chk.tier == "quick" else 1500
    cases, Ns = [], []
    for i in range(n):
        lines, N = gen_case(chk.rng, i, chk.tier)
        cases.append(lines)
        Ns.append(N)
    # managed streams pressed against a hard maximum for longer than the reservoir lasts (loud noise): the manager truncates packets,
    # and every one of them must still be an audio packet the decoder accepts, or samples are lost
    for (chn, rate, q) in ((1, 44100, "Q0.4:48"), (2, 44100, "Q0.6:96"), (1, 44100, "M48000:48000:-1"), (1, 22050, "M32000:32000:32000"), (2, 32000, "M64000:48000:16000")):
        N = 450000 if chk.tier == "quick" else 900000
        cases.append(["case %d" % len(cases), "enc %d %d %s %d %d 0 4096 %s" % (chn, rate, q, chk.rng.choice([1, 4]), chk.rng.randint(1, 10 ** 6),
                                                                                  " ".join(map(str, partition(chk.rng, N))))])
        Ns.append(N)
    res = vlib.run_harness_only("c04", cases, timeout=3000)
    crash, ofail, dis = [], [], []
    mcases, idx, expect = [], [], []
    dist = {"N=0": 0, "N<bs0": 0, "N<bs1": 0, "long": 0, "short_blocks": 0, "long_blocks": 0, "rejected_setup": 0}
    for ci, r in enumerate(res):
        if r["c"] is None or (r["rc_c"] != 0 and r["err_c"]):
            crash.append(r)
            continue
        out = r["c"]
        init = [l for l in out if l.startswith("init ")]
        if not init or "rc=0" not in init[0]:
            dist["rejected_setup"] += 1
            chk.note_case("rejected " + r["ops"][1][:40], False)
            continue
        iv = kv(init[0])
        bs0, bs1 = int(iv["bs0"]), int(iv["bs1"])
        N = Ns[ci]
        dist["N=0" if N == 0 else "N<bs0" if N < bs0 else "N<bs1" if N < bs1 else "long"] += 1
        ml = [r["ops"][0], "sizes %d %d 0" % (bs0, bs1)]
        ex = []
        pk = []
        for l in out[2:]:
            k = kv(l)
            if l.startswith("buffer "):
                ml.append("buffer " + k["n"])
                ex.append("cur=%s storage=%s" % (k["cur"], k["storage"]))
            elif l.startswith("wrote "):
                ml.append("wrote " + k["n"])
                ex.append("rc=%s cur=%s eof=%s pre=%s" % (k["rc"], k["cur"], k["eof"], k["pre"]))
            elif l.startswith("blockout "):
                rc = k["rc"]
                # oracle answer of _ve_envelope_search, reconstructed from what the call did
                bp = "-1" if (rc == "0" and k["eof"] == "0") else k["nW"]
                ml.append("blockout " + bp)
                ex.append(l[len("blockout "):].replace("nW=%s " % k["nW"], "", 1))
                if rc == "1":
                    p = kv(l[l.index(" pkt ") + 1:])
                    pk.append(p)
                    dist["long_blocks" if p["W"] == "1" else "short_blocks"] += 1
            elif l.startswith("dec "):
                ml.append("dec %s %s %s %s" % (k["W"], k["gp"], k["eos"], k["seq"]))
                ex.append("brc=%s n=%s" % (k["brc"], k["n"]))
        if pk:
            ml.append("coh %d %s" % (N, " ".join("%s:%s:%s:%s" % (p["W"], p["gp"], p["eos"], p["seq"]) for p in pk)))
            ex.append("coherent=1")
        tot = [l for l in out if l.startswith("totals ")]
        bad = None
        if not tot:
            bad = "totals: encoder loop did not finish"
        else:
            t = kv(tot[0])
            gps = [int(p["gp"]) for p in pk]
            if int(t["decoded"]) != N:
                bad = "count: submitted %d samples, packet-level decode delivered %s" % (N, t["decoded"])
            elif not pk or pk[-1]["eos"] != "1" or any(p["eos"] == "1" for p in pk[:-1]):
                bad = "eos: end-of-stream flag missing or not only on the last packet (%d packets)" % len(pk)
            elif gps[-1] != N:
                bad = "granule: last packet granule position %d, expected %d" % (gps[-1], N)
            elif any(b < a for a, b in zip(gps, gps[1:])):
                bad = "granule: positions decrease"
            elif gps[0] != 0:
                bad = "start: first packet granule position %d, expected 0" % gps[0]
            elif int(t["vf_total"]) != N:
                bad = "vf_total: ov_pcm_total reports %s for %d submitted samples" % (t["vf_total"], N)
            elif int(t["vf_read"]) != N or int(t["vf_stream_read"]) != N or t["holes"] != "0":
                bad = "vf_read: vorbisfile delivered %s (seekable) / %s (streaming, short reads) of %d samples, holes=%s" % (t["vf_read"], t["vf_stream_read"], N, t["holes"])
        if bad:
            ofail.append((r, bad))
        chk.note_case(r["ops"][1][:80], True, {"op": r["ops"][1][:160], "totals": tot[0] if tot else None, "packets": len(pk)})
        mcases.append(ml)
        expect.append(ex)
        idx.append(ci)
    mres = vlib.run_model_only("c04", mcases, timeout=3000)
    for k, mr in enumerate(mres):
        r = res[idx[k]]
        mo = (mr["m"] or [])[1:]
        d = vlib.first_diff(expect[k], mo)
        if mr["m"] is None or d:
            d = d or (0, "", "model produced no output " + mr.get("err_m", "")[-200:])
            j = d[0]
            dis.append(({"ops": r["ops"], "model_ops": mcases[k][max(0, j - 3):j + 3], "c": expect[k][max(0, j - 3):j + 2], "m": mo[max(0, j - 3):j + 2]}, d))
    chk.coverage["rule"] = ("real encoder over 24 configurations (1..6 channels, 255 in thorough; 8k..96k; VBR and managed), N in {0,1,..,around 32/64/.../4096, random <=30000, up to 10^6}, "
                            "partitions (one call, 1024, odd small sizes, random, tiny-first, huge-first), 4 paging modes; every encoder API call and every decoder blockin is replayed through the Lean model; "
                            "distinct = distinct op lines")
    chk.coverage["distribution"] = dist
    chk.coverage["disagreements"] = len(dis)
    chk.assumptions += ["the answer of _ve_envelope_search is an oracle parameter of the model (reconstructed per call from nW / return value); the theorems hold for every answer sequence",
                        "vorbisfile's length computation at open is checked here by the oracle only (modelled under C07-C09)"]
    common.settle(chk, "c04", broken, dis, crash, ofail)


def replay(chk, obj):
    res = vlib.run_harness_only("c04", [obj["replay"]["ops"]])
    for r in res:
        print("\n".join(l[:300] for l in (r["c"] or [])))
