"""C20 — half-rate decoding halves the sample count and keeps positions truthful."""
from . import common, vfcommon as V
import vlib

LEVEL = "proof"


def gen_case(rng, i, tier, setups):
    ops = ["case %d" % i]
    lens, small, small0 = [], False, False
    nl = rng.choice([1, 1, 2, 3])
    streaming = rng.random() < 0.15
    for k in range(nl):
        if setups and rng.random() < 0.35:
            su = rng.choice(setups)
            if streaming and su["b0"] <= 6:
                # a streaming handle cannot know that a later link will refuse half-rate: out of the property's scope
                su = next((x for x in setups if x["b0"] > 6), None)
                if su is None:
                    continue
            o, n, inf = V.raw_link_from(rng, su, 7000 + k, rng.choice([8000, 44100]), rng.randint(1, 40), trim=rng.choice([None, None, 3, 50]))
            ops += o
            lens.append(n)
            small = small or inf["bs0"] <= 64
            if k == 0:
                small0 = inf["bs0"] <= 64
        else:
            l = V.gen_links(rng, 1)[0]
            if k < nl - 1 and rng.random() < 0.6:
                # an odd-length link in front: the half-rate sample grid of everything behind it sits on odd positions
                tt = l.split(" ")
                tt[4] = str(rng.choice([int(tt[4]) | 1, 2001, 4097, 301]))
                l = " ".join(tt)
            ops.append(l)
            lens.append(int(l.split(" ")[4]))
    total = sum(lens)
    ops += ["table", "ref 0", "ref 1"]
    if not lens:
        l = V.gen_links(rng, 1)[0]
        ops.insert(1, l)
        lens.append(int(l.split(" ")[4]))
    if streaming:
        ops.append("open 0 0 %d" % rng.choice([4096, 7, 513]))
        if rng.random() < 0.8:
            ops.append("halfrate 0 %d" % rng.choice([1, 1, 1, 2, 7]))
        ops += ["read 0 %d" % rng.choice([64, 4096]) for _ in range(rng.randint(3, 60))]
        ops.append("clear 0")
        return ops, lens, small0          # a streaming handle knows the first link only
    ops.append("open 0 1 %d" % rng.choice([4096, 1, 513]))
    ops += ["total 0 -1"]
    if rng.random() < 0.25:
        # the whole file at half rate: counts per link
        ops.append("halfrate 0 %d" % rng.choice([1, 1, 4]))
        ops.append("total 0 -1")
        ops += ["read 0 4096"] * (total // 64 + 12 * nl + 8)
        ops += ["tell 0", "clear 0"]
        return ops, lens, small
    offgrid = nl > 1 and rng.random() < 0.5
    if offgrid:
        ops.append("halfrate 0 %d" % rng.choice([1, 1, 2]))
    for _ in range(rng.randint(4, 16)):
        r = rng.random()
        if offgrid and r < 0.15:
            # byte-position seeks at half rate: the position told is reconstructed from packet block sizes (full-rate units)
            ops.append("rawseek 0 %d" % rng.randrange(0, 60000))
            ops.append("tell 0")
            ops.append("read 0 %d" % rng.choice([1, 64, 4096]))
        elif offgrid and r < 0.5:
            # sample-accurate seeks into the later links, on and off their grid, reads and toggles there
            b = sum(lens[:rng.randrange(1, nl)])
            ops.append("pcmseek 0 %d" % min(total, b + rng.choice([0, 1, 2, 3, 64, 65, 1000, 1001, rng.randrange(0, 3000)])))
            ops.append("tell 0")
            if rng.random() < 0.4:
                ops.append("read 0 %d" % rng.choice([1, 64, 4096]))
            if rng.random() < 0.3:
                ops += ["tell 0", "halfrate 0 %d" % rng.randint(0, 1), "tell 0"]
        elif r < 0.3:
            ops.append("tell 0")
            # "zero turns it off; nonzero turns it on" (ov_halfrate): any non-zero flag is the same switch
            ops.append("halfrate 0 %d" % rng.choice([0, 0, 0, 1, 1, 1, 2, -1, 256, 3]))
            ops.append("tell 0")
        elif r < 0.6:
            ops += ["read 0 %d" % rng.choice([1, 7, 64, 4096]) for _ in range(rng.randint(1, 4))]
        elif r < 0.85:
            ops.append("pcmseek 0 %d" % rng.choice([0, total, max(0, total - 1), rng.randrange(0, total + 1), rng.randrange(0, total + 1) | 1]))
            ops.append("tell 0")
        elif r < 0.92:
            ops.append("%s 0 %d" % (rng.choice(["pcmseekpage", "rawseek"]), rng.randrange(0, max(1, total))))
            ops.append("tell 0")
            ops.append("read 0 %d" % rng.choice([1, 64, 4096]))       # the audio at the position just told
        else:
            ops.append("timeseek 0 %d" % rng.randrange(0, 800))
            ops.append("tell 0")
    ops += ["halfrate 0 0", "pcmseek 0 %d" % rng.randrange(0, total + 1), "read 0 4096", "read 0 4096", "clear 0"]
    return ops, lens, small


def oracle(d, lens, small):
    total = sum(lens)
    bounds = [0]
    for n in lens:
        bounds.append(bounds[-1] + n)
    hs = 0
    last_tell = None
    seekable = True
    perlink = {}
    have_ref1 = True
    linear = True       # nothing but reads (and the initial toggle) so far
    eof = False
    for op, a in d["ans"]:
        if a is None or isinstance(a, list) or a.endswith("notopen"):
            continue
        t = op.split(" ")
        f = V.kv(a)
        if t[0] == "ref" and t[1] == "1":
            have_ref1 = f.get("links") != "0"
        elif t[0] == "open":
            if f.get("rc") != "0":
                return "open: " + a
            seekable = t[2] == "1"
        elif t[0] == "tell":
            last_tell = int(a.split(" ")[1])
        elif t[0] == "total":
            if int(a.split(" ")[1]) != total:
                return "total: ov_pcm_total says %s with half-rate %d, the file has %d full-rate samples" % (a.split(" ")[1], hs, total)
        elif t[0] == "halfrate":
            want = 1 if int(t[2]) != 0 else 0
            if want and small:
                if f["rc"] != "OV_EINVAL" or f["p"] != "0":
                    return "refuse-64: half-rate accepted on a chain with 64-sample short blocks: " + a
                if hs != 0:
                    return "refuse-64: internal"
                if last_tell is not None and int(f["tell"]) != last_tell:
                    return "refuse-keeps-position: refused toggle moved %d -> %s" % (last_tell, f["tell"])
            else:
                if f["rc"] != "0" or int(f["p"]) != want:
                    return "toggle: %s -> %s" % (op, a)
                if seekable and last_tell is not None and last_tell >= 0 and linear is False:
                    nt = int(f["tell"])
                    lt = min(last_tell, total)      # one past the total after the last half-rate sample of an odd-length stream
                    if want and not (lt - 1 <= nt <= lt):
                        return "toggle-position: switching on moved %d -> %d" % (last_tell, nt)
                    if not want and nt != lt:
                        return "toggle-position: switching off moved %d -> %d" % (last_tell, nt)
                hs = want
            last_tell = int(f["tell"])
        elif t[0] == "pcmseek":
            linear = False
            p = int(t[2])
            if f["rc"] == "0":
                # the half-rate sample grid of a link starts at the link's first sample
                k = max(j for j in range(len(lens)) if bounds[j] <= p) if p < total else len(lens) - 1
                while k > 0 and lens[k] == 0 and p == bounds[k]:
                    k -= 0 if True else 1
                    break
                want = p - (((p - bounds[k]) & 1) if hs else 0)
                got = int(f["tell"])
                if got != want and not (hs and p - 1 <= got <= p):
                    return "seek-even: with half-rate %d, %s landed at %s (link grid position %d)" % (hs, op, f["tell"], want)
            elif 0 <= p <= total:
                return "seek: %s -> %s" % (op, a)
            last_tell = int(f["tell"])
        elif t[0] in ("pcmseekpage", "rawseek", "timeseek"):
            linear = False
            last_tell = int(f["tell"])
        elif t[0] == "read":
            rc = f["rc"]
            if rc.startswith("OV_"):
                return "hole: %s" % a
            n = int(rc)
            if n == 0:
                eof = True
                continue
            t0, t1 = int(f["t0"]), int(f["t1"])
            # at half rate a sample stands for two positions; after an odd-length link the count runs one ahead until the
            # next granule position of a packet that does not end its link pulls it back (a short link has none): one position of
            # slack per odd-length link passed, never more
            odd = sum(1 for x in lens[:int(f["link"]) + 1] if x & 1)
            if seekable and (abs((t1 - t0) - (n << hs)) > hs * max(1, odd)):
                return "advance: %d samples returned at half-rate %d, position moved by %d" % (n, hs, t1 - t0)
            if f.get("ok") == "-1" and hs and not have_ref1:
                pass      # no half-rate reference exists for this chain (some link refuses half-rate)
            elif f.get("ok") not in ("1",):
                return "data: half-rate %d: %s" % (hs, a)
            link = int(f["link"])
            perlink[link] = perlink.get(link, 0) + n
            last_tell = t1
    if linear and eof:
        for k, n in enumerate(lens):
            want = (n + 1) // 2 if hs else n
            if perlink.get(k, 0) != want:
                return "half-count: link %d of %d samples delivered %d at half-rate %d, expected %d" % (k, n, perlink.get(k, 0), hs, want)
    return None


def run(chk):
    theorems = vlib.theorem_names("C20")
    broken = chk.proof_side(theorems)
    n = 60 if chk.tier == "quick" else 1200
    setups = V.valid_setups(chk.rng, 10 if chk.tier == "quick" else 40)
    gens = [gen_case(chk.rng, i, chk.tier, setups) for i in range(n)]
    res = V.run_vf([g[0] for g in gens])
    ofail = []
    refused = toggles = 0
    for d, (ops, lens, small) in zip(res, gens):
        if d["crash"]:
            continue
        o = oracle(d, lens, small)
        if o:
            ofail.append((d, o))
        for op, a in d["ans"]:
            if isinstance(a, str) and op.startswith("halfrate"):
                toggles += 1
                refused += "OV_EINVAL" in a
        chk.note_case("|".join(o[:60] for o in d["ops"] if o.startswith(("link", "rawbegin"))), True,
                      {"ops": [o[:100] for o in d["ops"][1:8]], "answers": [a for _, a in d["ans"] if isinstance(a, str)][:8]})
    chk.coverage["rule"] = ("chains mixing encoder-made links with hand-muxed links over generated set-ups (block sizes 64..8192, so some chains must refuse half-rate); "
                            "half-rate toggled at random points of read/seek histories, whole-file half-rate reads (per-link counts = ceil(N/2)), streaming handles toggled before the first read; "
                            "data oracle against a half-rate and a full-rate linear reference; all answers compared with the Lean model")
    chk.coverage["toggles"] = toggles
    chk.coverage["refused"] = refused
    chk.assumptions += ["hand-muxed links carry silent packets (every floor 'unused'): they exercise counts, positions and refusal, the encoder-made links exercise the sample values"]
    V.settle_vf(chk, res, broken, ofail)


replay = __import__("checks.c07", fromlist=["replay"]).replay
