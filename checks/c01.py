"""C01 — decoder output conforms to the Vorbis I specification."""
import struct, re
from . import common, vfcommon as V, gen_setup as G
import vlib

LEVEL = "other"
RTOL = 2e-3          # of the block's peak: single precision through ill-conditioned floor-0 curves and reordered transform sums
ATOL = 1e-7


def f32(h):
    return struct.unpack(">f", bytes.fromhex(h))[0]


def f64(h):
    return struct.unpack(">d", bytes.fromhex(h))[0]


def unused_bits(su):
    """per mode: for every channel the number of leading zero bits that make its floor 'unused' (floor 1: the nonzero flag;
    floor 0: the amplitude field)"""
    floors, maps, modes = [], [], []
    cur = None
    ch = su["channels"]
    for v, n, label in su["trace"].f:
        if label == "floor.type":
            floors.append(1 if v == 1 else None)
        elif label == "f0.ampbits":
            floors[-1] = max(v, 0)
        elif label == "map.type":
            cur = {"mux": [], "floor": []}
            maps.append(cur)
        elif label == "map.chmux":
            cur["mux"].append(v)
        elif label == "map.floor":
            cur["floor"].append(v)
        elif label == "mode.map":
            modes.append(v)
    out = []
    for m in modes:
        mp = maps[m] if m < len(maps) else {"mux": [], "floor": [0]}
        mux = mp["mux"] if mp["mux"] else [0] * ch
        out.append([floors[mp["floor"][mux[c] if c < len(mux) else 0]] if mp["floor"] else 1 for c in range(ch)])
    return out


def gen_case(rng, i, su, npk, modes=None, jfix=None):
    ops = ["case %d" % i, "new", "hdr 1 %s" % vlib.hexs(G.ident(su["channels"], rng.choice([8000, 44100, 96000]), su["b0"], su["b1"])),
           "hdr 0 %s" % vlib.hexs(G.comment()), "hdr 0 %s" % vlib.hexs(su["trace"].pack()), "init"]
    flags = su["flags"]
    ubits = unused_bits(su)
    mb = G.ilog(len(flags) - 1)
    if modes is None:
        modes = [rng.randrange(len(flags)) for _ in range(npk + 1)]
    size = 1500 * su["channels"] * max(1, (1 << su["b1"]) // 256)
    for k in range(npk):
        m = modes[k]
        bits, nb = 0, 1
        bits |= m << nb
        nb += mb
        if flags[m]:
            # a well-formed stream: the window flags of a long block name its real neighbours
            pf = flags[modes[k - 1]] if k > 0 else rng.randint(0, 1)
            nf = flags[modes[k + 1]]
            bits |= (pf | (nf << 1)) << nb
            nb += 2
        body = bytearray(rng.getrandbits(8) for _ in range(min(size, 60000)))
        # a run of zero bits after the header: the first channels' floors come out "unused" (floor 1: one bit, floor 0: the amplitude
        # bits), so that patterns such as "only the last channel has a floor" occur — what the coupling steps do with them is part of the format
        ub = ubits[m] if m < len(ubits) else []
        j = rng.choice([0, 0] + list(range(len(ub) + 1)))            # the first j channels without a floor
        if jfix is not None and rng.random() < 0.6:
            j = min(jfix, len(ub))
        z = sum(x or 0 for x in ub[:j])
        one = 1 if (j < len(ub) and rng.random() < 0.7) else rng.getrandbits(1)   # ... and the next one with (floor 1: flag set; floor 0: low amplitude bit)
        hv = bits | (one << (nb + z)) | (rng.getrandbits(128) << (nb + z + 1))
        head = hv.to_bytes((hv.bit_length() + 7) // 8 + 16, "little")        # (many channels: the run of floor bits alone can exceed 16 bytes)
        keep = max(16, (nb + z + 1 + 7) // 8)
        body[:keep] = head[:keep]
        body[0] &= 0xfe
        ops.append("pkt %s" % vlib.hexs(bytes(body)))
    return ops


def features(su):
    """feature tags of a generated set-up: which codebook layouts are used where, floor/residue kinds, mapping shape"""
    books, cur = [], None
    tags = set()
    ch = su["channels"]
    res = None
    maps, restypes = [], []
    for v, n, label in su["trace"].f:
        if label == "book.sync":
            cur = {"sparse": 0, "ordered": 0, "maptype": 0, "seq": 0, "entries": 0}
            books.append(cur)
        elif label == "book.entries":
            cur["entries"] = v
        elif label == "book.ordered":
            cur["ordered"] = v
        elif label == "book.sparse":
            cur["sparse"] = v
        elif label == "book.maptype":
            cur["maptype"] = v
        elif label == "book.qseq":
            cur["seq"] = v
        elif label == "floor.type":
            tags.add("floor%d" % v)
        elif label == "res.type":
            res = v
            restypes.append(v)
            tags.add("res%d" % v)
        elif label == "res.grouping" and res == 2 and (v + 1) % ch != 0:
            tags.add("res2-unaligned")
        elif label in ("res.book", "f0.book") and v < len(books):
            b = books[v]
            use = "res" if label == "res.book" else "lsp"
            tags.add("%s:type%d%s%s%s" % (use, b["maptype"], "-sparse" if b["sparse"] else "", "-ordered" if b["ordered"] else "", "-seq" if b["seq"] else ""))
            if b["entries"] == 1:
                tags.add(use + ":single-entry")
        elif label == "map.submaps" and v > 0:
            tags.add("submaps>1")
        elif label == "map.cflag" and v:
            tags.add("coupling")
        elif label == "map.type":
            cmap = {"mag": [], "ang": [], "res": []}
            maps.append(cmap)
        elif label in ("map.mag", "map.ang") and maps:
            maps[-1][label[4:]].append(v)
        elif label == "map.res" and maps:
            maps[-1]["res"].append(v)
    for mp in maps:
        # coupling steps that pass a channel on (0,1),(1,2): the order in which the "floor used" flags are spread matters; it is visible with
        # residue types 0/1, which decode per channel
        pairs = list(zip(mp["mag"], mp["ang"]))

        def spread(flags, order):
            f = list(flags)
            for a, b in order:
                if a < len(f) and b < len(f) and (f[a] or f[b]):
                    f[a] = f[b] = 1
            return f
        n = min(ch, 8)
        chain = any(spread([(pat >> c) & 1 for c in range(n)], pairs) != spread([(pat >> c) & 1 for c in range(n)], pairs[::-1])
                    for pat in range(1 << n))
        if chain:
            tags.add("coupling-order-matters")
            if any(r < len(restypes) and restypes[r] in (0, 1) for r in mp["res"]):
                tags.add("coupling-order-matters:res01")
    if len(su["flags"]) > 2:
        tags.add("modes>2")
    if 1 in su["flags"] and 0 in su["flags"] and su["b0"] != su["b1"]:
        tags.add("mixed-blocks")
    return tags


# features whose effect shows only for particular packet contents are wanted more often
WANT = {"coupling-order-matters:res01": 14, "coupling-order-matters": 14}


def choose(rng, cands, count, per_tag=3):
    """a subset in which every feature tag that occurs at all occurs at least per_tag times (greedy), filled up at random"""
    feats = [features(su) for su in cands]
    need = {}
    for f in feats:
        for t in f:
            need[t] = WANT.get(t, per_tag)
    chosen, rest = [], list(range(len(cands)))
    while rest and any(v > 0 for v in need.values()) and len(chosen) < count:
        best = max(rest, key=lambda k: sum(1 for t in feats[k] if need.get(t, 0) > 0))
        if sum(1 for t in feats[best] if need.get(t, 0) > 0) == 0:
            break
        chosen.append(best)
        rest.remove(best)
        for t in feats[best]:
            need[t] = need.get(t, 0) - 1
    rng.shuffle(rest)
    chosen += rest[:max(0, count - len(chosen))]
    hist = {}
    for k in chosen:
        for t in feats[k]:
            hist[t] = hist.get(t, 0) + 1
    return [cands[k] for k in chosen], hist


def compare(r, has_floor0=False):
    """returns (problem or None, stats)"""
    st = {"packets": 0, "complete": 0, "samples": 0, "nonzero": 0, "singular": 0}
    c, m = r["c"], r["m"]
    if m is None:
        return "model produced no output: " + (r.get("err_m") or "")[-200:], st
    if len(c) != len(m):
        return "library printed %d lines, specification decoder %d" % (len(c), len(m)), st
    complete = True
    for lc, lm in zip(c, m):
        tc = lc.split()
        if tc[0] == "pkt":
            st["packets"] += 1
            if re.sub(r" eop=\d", "", lc) != re.sub(r" eop=\d", "", lm):
                return "packet result: library '%s', specification '%s'" % (lc, lm), st
            complete = " eop=0" in lm
            st["complete"] += complete
        elif tc[0] == "pcm":
            tm = lm.split()
            if len(tc) != len(tm):
                return "sample count: channel %s: library %d, specification %d" % (tc[1], len(tc) - 2, len(tm) - 2), st
            if not complete:
                continue          # a truncated packet (end of packet inside decode): outside 'complete audio packets'
            a = [f32(x) for x in tc[2:]]
            b = [f64(x) for x in tm[2:]]
            peak = max([abs(y) for y in b] + [0.0])
            if not peak < 1e30:
                continue          # beyond single precision's range
            if has_floor0 and (peak > 1e4 or any(x != x or abs(x) > 1e30 for x in a)):
                # a floor-0 curve evaluated where its denominator p+q vanishes (an LSP root on a bark bin): the specification's formula divides
                # by zero there, single precision overflows, and close to it the gain (>80 dB above full scale) amplifies rounding without bound; not a value to compare.  Counted.
                st["singular"] += 1
                continue
            st["samples"] += len(a)
            st["nonzero"] += sum(1 for y in b if y != 0.0)
            for k, (x, y) in enumerate(zip(a, b)):
                if not abs(x - y) <= RTOL * peak + ATOL:
                    return "sample: channel %s sample %d: library %.9g, specification %.9g (block peak %.4g)" % (tc[1], k, x, y, peak), st
        elif lc != lm:
            return "header: library '%s', specification '%s'" % (lc, lm), st
    return None, st


def run(chk):
    theorems = vlib.theorem_names("C01")
    broken = chk.proof_side(theorems)
    quick = chk.tier == "quick"
    combos = [(6, 6), (6, 7), (6, 8), (7, 8), (8, 8), (6, 10), (7, 9), (9, 9)] + ([] if quick else [(8, 11), (6, 12), (11, 11)])
    cands = V.valid_setups(chk.rng, 320 if quick else 1500, combos=combos, sane=True, channels=[1, 2, 2, 3, 6] + ([] if quick else [8, 17]))
    setups, feathist = choose(chk.rng, cands, 60 if quick else 600)
    cases = common.load_corpus("C01", 100000) + [gen_case(chk.rng, i, su, 16 if quick else 24) for i, su in enumerate(setups)]
    res = vlib.run_pair("c01", cases, timeout=3000)
    crash, ofail = [], []
    tot = {"packets": 0, "complete": 0, "samples": 0, "nonzero": 0, "singular": 0}
    feat = {}
    for r, su in zip(res[len(cases) - len(setups):], setups):
        for f in su["trace"].f:
            if f[2] in ("floor.type", "res.type", "book.maptype"):
                k = "%s=%d" % (f[2], f[0])
                feat[k] = feat.get(k, 0) + 1
    for r in res:
        if r["c"] is None or (r["rc_c"] != 0 and r.get("err_c")):
            crash.append(r)
            continue
        p, st = compare(r, "0576" in r["ops"][4] and any(f[2] == "floor.type" and f[0] == 0 for su in setups if vlib.hexs(su["trace"].pack()) in r["ops"][4] for f in su["trace"].f))
        for k in tot:
            tot[k] += st[k]
        if p:
            ofail.append((r, p))
        chk.note_case(r["ops"][4][:120], st["nonzero"] > 0, {"ops": [o[:80] for o in r["ops"][1:8]], "answer": [l[:100] for l in r["c"][1:8]]})
    for r in crash[:4]:
        chk.violation("crash:c01", "implementation aborted", {"stream": "c01", "ops": r["ops"], "exit": r["rc_c"], "stderr": (r.get("err_c") or "")[-2000:]}, True)
    for r, p in ofail[:4]:
        chk.violation("oracle:c01:" + p.split(": ")[0], "the library's output differs from the specification decoder: " + p, {"stream": "c01", "ops": r["ops"]}, True)
    if broken and not crash and not ofail:
        chk.violation("proof", "proof obligation no longer checks: " + "; ".join(broken)[:600], {"broken": broken, "lean_log": getattr(chk, "lean_log", "")[-3000:]}, False)
    chk.coverage["rule"] = ("generated set-ups the library accepts (ordered/sparse/single-entry/lattice/explicit-table books with sequence mode, floor 0 and 1, residue 0/1/2 incl. partition sizes "
                            "not dividing the channel count, 1-3 submaps, coupling steps, 1-5 modes, block sizes 64..512 quick / ..4096 thorough, 1-6 (17) channels; value ranges an encoder would use) "
                            "x sequences of complete audio packets: random mode, window flags consistent with the neighbours, random payload long enough that decode never reaches the end of the packet; "
                            "every sample of every channel compared with the Lean specification decoder (double precision, direct-form IMDCT): |lib - spec| <= 2e-3 * block peak + 1e-7; counts compared exactly; "
                            "packets the specification decoder reports as truncated are compared for counts only")
    chk.coverage["totals"] = tot
    chk.coverage["features_in_setups"] = feat
    chk.coverage["feature_tags_covered"] = feathist
    chk.assumptions += ["where the specification leaves behaviour undefined (floor-1 values outside the table, residue class words >= classifications^dim, bark-map ties within float rounding) "
                        "the specification decoder follows the reference and says so in its source; truncated packets (end of packet inside a floor or a format-0 partition) are out of the property's scope",
                        "sample arithmetic of the reference is Lean Float (IEEE double, libm cos/exp/atan): trusted, not proved"]


def replay(chk, obj):
    r = vlib.run_pair("c01", [obj["replay"]["ops"]])[0]
    print(compare(r, True))
