"""C15 — encoder set-up succeeds completely or fails cleanly for all arguments."""
import os, sys, struct, math
from . import common
import vlib

LEVEL = "proof"
EDGES = [8000, 9000, 15000, 19000, 26000, 40000, 50000, 70000, 200000]
CODES = {"0", "OV_EINVAL", "OV_EIMPL", "OV_EFAULT"}


def fbits(x):
    return struct.unpack(">I", struct.pack(">f", x))[0]


def dbits(x):
    return struct.unpack(">Q", struct.pack(">d", x))[0]


def dbl_tokens(hexs):
    """C's %a output -> model tokens"""
    if "nan" in hexs:
        return "nan"
    if "inf" in hexs:
        return "-inf" if hexs.startswith("-") else "inf"
    n, d = float.fromhex(hexs).as_integer_ratio()
    return "%d %d" % (n, d)


def rand_rate(rng):
    r = rng.random()
    if r < 0.5:
        return rng.choice(EDGES) + rng.choice([-1, 0, 1])
    if r < 0.6:
        return rng.choice([-1, 0, 1, 2 ** 31 - 1, 2 ** 31 - 2, 7999, 200001, 1000000])
    return rng.choice([8000, 11025, 16000, 22050, 24000, 32000, 44100, 48000, 64000, 96000, 192000, rng.randint(1, 250000)])


def rand_ch(rng):
    r = rng.random()
    if r < 0.7:
        return rng.choice([1, 2, 2, 3, 4, 5, 6, 8])
    return rng.choice([-1, 0, 7, 16, 100, 254, 255, 256, 257, 300])


def rand_q(rng):
    r = rng.random()
    if r < 0.5:
        return rng.choice([-0.1, 0.0, 0.1, 0.2, 0.3, 0.4, 0.5, 0.6, 0.7, 0.8, 0.9, 1.0])
    if r < 0.7:
        base = rng.choice([-0.1, 0.0, 0.1, 0.5, 0.9, 1.0])
        b = fbits(base)
        return struct.unpack(">f", struct.pack(">I", (b + rng.choice([-2, -1, 1, 2])) & 0xffffffff))[0]
    if r < 0.85:
        return rng.choice([-1.0, -0.1000001, -0.11, 0.9999, 0.99999994, 1.0000001, 2.0, 1e30, -1e30, float("inf"), float("-inf"), float("nan")])
    return rng.uniform(-0.2, 1.1)


def rand_triple(rng, ch):
    k = rng.random()
    per = max(1, ch if isinstance(ch, int) and ch > 0 else 1)
    base = rng.choice([8000, 16000, 22500, 32000, 45000, 64000, 96000, 128000, 160000, 250000, 250001, 500000]) * (per if rng.random() < 0.6 else 1)
    if k < 0.3:
        return (-1, base, -1)
    if k < 0.45:
        return (base, -1, -1)
    if k < 0.55:
        return (-1, -1, base)
    if k < 0.7:
        return (base + 16000, base, max(0, base - 16000))
    if k < 0.8:
        return (0, 0, 0)
    if k < 0.9:
        return (base, -1, base * 2)
    return (rng.choice([-1, 0, 1]), rng.choice([-1, 0, 1, 2 ** 31 - 1]), rng.choice([-1, 0, 1]))


def gen_case(rng, i, tier):
    lines = ["case %d" % i]
    ch, rate = rand_ch(rng), rand_rate(rng)
    style = rng.random()
    if style < 0.3:
        lines.append("initvbr %d %d %08x" % (ch, rate, fbits(rand_q(rng))))
    elif style < 0.5:
        lines.append("initmanaged %d %d %d %d %d" % ((ch, rate) + rand_triple(rng, ch)))
    else:
        if rng.random() < 0.55:
            lines.append("vbr %d %d %08x" % (ch, rate, fbits(rand_q(rng))))
        else:
            lines.append("managed %d %d %d %d %d" % ((ch, rate) + rand_triple(rng, ch)))
        for _ in range(rng.randint(0, 3)):
            r = rng.random()
            if r < 0.5:
                mnk, mxk, avk = rng.choice([(0, 0, 0), (64, 64, 64), (0, 128, 0), (32, 0, 0), (64, 32, 0), (0, 64, 128), (96, 0, 64), (-1, -1, -1)])
                bias = rng.choice([0.0, 0.1, 1.0, -0.1, 1.0000001, 2.0, float("nan")])
                damp = rng.choice([1.5, 0.0, -1.0, 1e-9, float("nan")])
                lines.append("rm2 %d %d %d %d %d %016x %016x" % (rng.randint(0, 1), mnk, mxk, avk, rng.choice([0, 1, 3, 4096, 200000, -1]), dbits(bias), dbits(damp)))
            else:
                num = rng.choice([0x10, 0x11, 0x12, 0x13, 0x14, 0x20, 0x21, 0x30, 0x31, 0x40, 0x41, 0x99, 0])
                lines.append("ctl 0x%x %d" % (num, rng.choice([0, 1, 15, -20])))
        lines.append("setupinit")
        if rng.random() < 0.3:
            lines.append("ctl 0x%x 1" % rng.choice([0x21, 0x31, 0x41, 0x15, 0x20]))
            lines.append("setupinit")
    sig = rng.choice(["", "", "", " silence", " faint"])
    lines.append("encode %d%s" % (rng.choice([0, 1, 255, 4096, 30000] + ([100000] if tier == "thorough" else [])), sig))
    lines.append("clear")
    return lines


def run(chk):
    theorems = vlib.theorem_names("C15")
    broken = chk.proof_side(theorems)
    n = 500 if chk.tier == "quick" else 8000
    cases = [gen_case(chk.rng, i, chk.tier) for i in range(n)]
    if chk.tier == "thorough":
        cases.append(["case %d" % n, "initvbr 2 44100 %08x" % fbits(0.4), "encode 3000000", "clear"])   # F7 regression
    # lowpass requests from well below to just under (and at) the Nyquist frequency, every layout family; rates whose table lowpass lands close
    # under Nyquist: the residue range is rounded up to whole partitions and must still end inside the work vectors
    for (chn, rate) in ((6, 44100), (6, 48000), (6, 40500), (2, 44100), (1, 44100), (3, 48000), (2, 22050), (6, 32000)):
        nyq = rate / 2000.0
        for eps in (0.0, 0.002, 0.006, 0.01, 0.013, 0.03, 0.1, 0.3):
            for qq in ((0.5,) if chk.tier == "quick" and eps in (0.03, 0.1, 0.3) else (0.1, 0.5, 0.9)):
                cases.append(["case %d" % len(cases), "vbr %d %d %08x" % (chn, rate, fbits(qq)), "ctl 0x21 %.6f" % (nyq * (1 - eps)), "setupinit", "encode 5000", "clear"])
    for rate in (40201, 40300, 40500, 40743, 41000, 45000, 50000, 26000, 26001, 19000):
        for chn in (6, 2):
            cases.append(["case %d" % len(cases), "initvbr %d %d %08x" % (chn, rate, fbits(0.5)), "encode 5000", "clear"])
    # boundary block: every range check of the set-up API at limit-1 / limit / limit+1 with otherwise valid arguments
    for chn in (-1, 0, 1, 2, 254, 255, 256, 257):
        for (rate, qb, nom) in ((44100, fbits(0.4), 64000 * max(1, chn)), (8000, fbits(0.1), 16000 * max(1, chn))):
            cases.append(["case %d" % len(cases), "vbr %d %d %08x" % (chn, rate, qb), "setupinit", "encode 300", "clear"])
            cases.append(["case %d" % len(cases), "initmanaged %d %d -1 %d -1" % (chn, rate, nom), "encode 300", "clear"])
    # managed triples with a hard minimum fed with silence / a faint tone for a second: every candidate packet is below the minimum,
    # the manager has to go to the top of its candidates and pad
    for chn, rate, nom in ((1, 44100, 64000), (2, 44100, 128000), (1, 8000, 16000), (2, 22050, 48000), (6, 48000, 256000)):
        for mx, mn in ((-1, nom // 2), (nom * 2, nom // 2), (nom, nom), (-1, nom)):
            for sig in ("silence", "faint"):
                cases.append(["case %d" % len(cases), "initmanaged %d %d %d %d %d" % (chn, rate, mx, nom, mn), "encode %d %s" % (rate, sig), "clear"])
    for rate in (-1, 0, 1, 7999, 8000, 8001, 200000, 200001, 2 ** 31 - 1):
        cases.append(["case %d" % len(cases), "initvbr 2 %d %08x" % (rate, fbits(0.5)), "encode 300", "clear"])
    cases += common.load_corpus("C15", len(cases))
    res = vlib.run_harness_only("c15", cases, timeout=3000)
    crash, ofail, dis = [], [], []
    mcases, expect, idx = [], [], []
    dist = {}
    for ci, r in enumerate(res):
        if r["c"] is None or (r["rc_c"] != 0 and r["err_c"]):
            crash.append(r)
            continue
        ml, ex = [r["ops"][0]], []
        bad = None
        ops = r["ops"][1:]
        outs = r["c"][1:]
        for op, o in zip(ops, outs):
            t = op.split()
            kv = dict(x.split("=", 1) for x in o.split()[1:] if "=" in x)
            rc = kv.get("rc")
            if rc is not None:
                dist[t[0] + ":" + rc] = dist.get(t[0] + ":" + rc, 0) + 1
                if rc not in CODES:
                    bad = "codes: %s returned %s" % (t[0], rc)
            if t[0] in ("initvbr", "initmanaged") and rc not in (None, "0") and kv.get("cleared") != "1":
                bad = "clean: %s failed with %s but the info structure is not cleared" % (t[0], rc)
            if t[0] == "encode" and "headerout" in kv:
                if kv["headerout"] != "0" or kv["bytes_ok"] != "1" or kv["eos"] != "1":
                    bad = "encode: after a successful set-up: " + o
            if t[0] == "setupinit" and rc == "0":
                want = [x for x in ops if x.split()[0] in ("vbr", "managed", "initvbr", "initmanaged")][0].split()
                if kv["ch"] != want[1] or kv["rate"] != want[2]:
                    bad = "reports: set-up for %s channels / %s Hz reports ch=%s rate=%s" % (want[1], want[2], kv["ch"], kv["rate"])
            # model line
            if t[0] in ("vbr", "initvbr"):
                if "skipped" in o or kv.get("cleared") == "1" and "req" not in kv:
                    # req is not observable once the struct is cleared: recompute it as the C does (float)
                    q = struct.unpack(">f", struct.pack(">I", int(t[3], 16)))[0]
                    q = struct.unpack(">f", struct.pack(">f", q + .0000001))[0] if q == q and abs(q) != float("inf") else q
                    if q >= 1.0:
                        q = struct.unpack(">f", struct.pack(">f", .9999))[0]
                    req = "nan" if q != q else ("inf" if q == float("inf") else "-inf" if q == float("-inf") else "%d %d" % q.as_integer_ratio())
                else:
                    req = dbl_tokens(kv["req"])
                ml.append("%s %s %s %s" % (t[0], t[1], t[2], req))
            elif t[0] == "rm2":
                bias = struct.unpack(">d", struct.pack(">Q", int(t[6], 16)))[0]
                damp = struct.unpack(">d", struct.pack(">Q", int(t[7], 16)))[0]
                f = lambda x: "nan 0" if x != x else ("inf 0" if x == float("inf") else "-inf 0" if x == float("-inf") else "%d %d" % x.as_integer_ratio())
                ml.append("rm2 %s %s %s %s %s %s %s" % (t[1], t[2], t[3], t[4], t[5], f(bias), f(damp)))
            elif t[0] in ("ctl", "encode"):
                continue
            else:
                ml.append(op)
            if "skipped" in o or o == "clear done":
                ex.append(o)
            else:
                keep = ["rc", "cleared", "tmpl", "is", "managed", "stone", "ch", "rate"]
                ex.append(t[0] + " " + " ".join("%s=%s" % (k, kv[k]) for k in keep if k in kv and not (kv.get("cleared") == "1" and k in ("ch", "rate"))))
        if bad:
            ofail.append((r, bad))
        chk.note_case(" | ".join(outs[:2])[:200], True, {"ops": r["ops"][1:4], "answer": outs[:3]})
        mcases.append(ml)
        expect.append(ex)
        idx.append(ci)
    # ctl ops that change `managed` are not modelled beyond rm2: drop cases containing deprecated ratemanage SETs from the comparison
    mres = vlib.run_model_only("c15", mcases, timeout=1800)
    for k, mr in enumerate(mres):
        r = res[idx[k]]
        if any(op.startswith("ctl 0x11") or op.startswith("ctl 0x12") or op.startswith("ctl 0x13") or op.startswith("ctl 0x41") for op in r["ops"]):
            continue
        mo = (mr["m"] or [])[1:]
        d = vlib.first_diff(expect[k], mo)
        if mr["m"] is None or d:
            d = d or (0, "", "model produced no output")
            dis.append(({"ops": r["ops"], "c": expect[k], "m": mo, "model_ops": mcases[k]}, d))
    # ---- search (DESIGN §3.6): a disagreement on a control request is escalated — the same request is
    # replayed in front of managed set-ups that stress the rate manager, then audio is encoded
    if dis and not ofail and not crash:
        search = []
        for d_, (ln, cl, ml_) in dis[:6]:
            mo_ = d_["model_ops"]
            culprit = None
            cops = [o for o in d_["ops"][1:] if o.split()[0] not in ("ctl", "encode")]
            if ln < len(cops):
                culprit = cops[ln]
            if not culprit or culprit.split()[0] != "rm2":
                continue
            t = culprit.split()
            for (chn, rate, nom) in ((2, 44100, 64000), (2, 48000, 64000), (1, 22050, 32000)):
                for mxk in (nom // 1000, 24):
                    for resv in (t[5], "4096"):
                        search.append(["case %d" % len(search), "managed %d %d -1 %d -1" % (chn, rate, nom),
                                       "rm2 1 0 %d 0 %s %s %s" % (mxk, resv, t[6], t[7]), "setupinit", "encode 30000", "clear"])
        if search:
            sres = vlib.run_harness_only("c15", search, timeout=600)
            for r in sres:
                if r["c"] is None or (r["rc_c"] != 0 and r["err_c"]):
                    crash.append(r)
                    continue
                for o in r["c"][1:]:
                    if o.startswith("encode headerout") and ("bytes_ok=0" in o or "eos=0" in o):
                        ofail.append((r, "encode: after an accepted control request the encoder produced: " + o))
            chk.coverage["search_cases"] = len(search)
    chk.coverage["rule"] = ("argument grid: channels -1..300, rates dense at the template edges (8k,9k,15k,19k,26k,40k,50k,70k,200k ±1) and extremes, qualities incl. ±1 ulp at "
                            "every map point, out of range, ±inf, NaN; bitrate triples (nominal only, max only, min only, all, zero, inverted, per-channel-scaled); RATEMANAGE2 sets "
                            "(valid, inverted, bias/damping out of range, NaN), other ctl numbers incl. unknown, before and after setup_init; then analysis_init, headerout and "
                            "encoding 0..30000 samples (3,000,000 in thorough) under ASan/UBSan. distinct = distinct first two answer lines")
    chk.coverage["distribution"] = dict(sorted(dist.items()))
    chk.coverage["disagreements"] = len(dis)
    chk.assumptions += ["the interpolation weight del=(req-low)/(high-low) is computed in float by the C; the model assumes 0 <= del < 1 inside an interval (so (int)base_setting = interval number); "
                        "the check probes every map point ±1..2 ulp and compares (int)base_setting",
                        "hi->req for VBR requests is taken from the implementation (float arithmetic quality+1e-7, clamp to .9999)",
                        "ctl requests other than RATEMANAGE2_SET are exercised for return codes and memory safety, not modelled"]
    common.settle(chk, "c15", broken, dis, crash, ofail)


def replay(chk, obj):
    res = vlib.run_harness_only("c15", [obj["replay"]["ops"]])
    for r in res:
        print("\n".join(r["c"] or []))
