"""C02 — packet-level decoder is memory-safe and terminates on arbitrary input."""
import os, sys
from . import common, gen_setup as G
import vlib

LEVEL = "proof"
HDR_CODES = {"0", "OV_ENOTVORBIS", "OV_EBADHEADER", "OV_EVERSION", "OV_EFAULT"}
PKT_CODES = {"0", "OV_ENOTAUDIO", "OV_EBADPACKET"}


def rand_packet(rng, nmodes):
    n = rng.choice([0, 1, 2, 3, 5, 8, 20, 60, 200, 600])
    b = bytearray(rng.getrandbits(8) for _ in range(n))
    if b and rng.random() < 0.9:
        b[0] &= 0xfe                       # audio packet
        if rng.random() < 0.7:             # a valid mode number
            mb = G.ilog(nmodes - 1)
            m = rng.randrange(nmodes)
            b[0] = (b[0] & ~(((1 << mb) - 1) << 1)) | (m << 1)
            b[0] &= 0xff
    if rng.random() < 0.15:
        b = bytearray(b"\x00" * n)
    if rng.random() < 0.1:
        b = bytearray(b"\xfe" + b"\xff" * max(0, n - 1)) if n else b
    return bytes(b)


def gen_case(rng, i, tier, force=None):
    ch = rng.choice([1, 1, 2, 2, 3, 6] + ([255] if i % 50 == 17 else []))
    b0 = rng.choice([6, 6, 7, 8, 9])
    b1 = rng.choice([x for x in (6, 7, 8, 9, 10, 11, 13) if x >= b0])
    rate = rng.choice([8000, 44100, 1, 4294967295])
    t, meta = G.gen_setup(rng, ch, 1 << b0, 1 << b1, big=(tier == "thorough" and i % 40 == 3))
    style = rng.random()
    setup = t.pack()
    tag = "valid"
    if force == "index":
        setup, tag = G.mutate(rng, t, index_only=True)
    elif style < 0.45:
        pass
    elif style < 0.9:
        setup, tag = G.mutate(rng, t)
    else:
        setup = bytes(rng.getrandbits(8) for _ in range(rng.randint(0, 60)))
        if rng.random() < 0.7:
            setup = b"\x05vorbis" + setup
        tag = "random"
    idh = G.ident(ch, rate, b0, b1)
    if rng.random() < 0.12 and not force:
        k = rng.random()
        if k < 0.25:
            idh = G.ident(ch, rate, b0, b1, version=1)
        elif k < 0.5:
            idh = G.ident(ch, rate, rng.choice([5, 6, 14]), rng.choice([5, 6, 13, 14]))
        elif k < 0.75:
            idh = idh[:rng.randint(0, len(idh))]
        else:
            idh = G.ident(rng.choice([0, 255]), rng.choice([0, 1]), b0, b1, framing=rng.choice([0, 1]))
    lines = ["case %d" % i, "new"]
    order = rng.random()
    hdrs = [("1", idh), ("0", G.comment()), ("0", setup)]
    if order < 0.8 or force:
        pass
    elif order < 0.9:
        rng.shuffle(hdrs)
    else:
        hdrs = hdrs + [rng.choice(hdrs)]
        if rng.random() < 0.5:
            hdrs[0] = ("0", hdrs[0][1])
    for bos, h in hdrs:
        lines.append("hdr %s %s" % (bos, vlib.hexs(h)))
    if rng.random() < 0.1:
        lines.append("halfrate 1")
    lines.append("init")
    if rng.random() < 0.3:
        lines.append("init")               # again (after failure: must fail again; after success: skipped)
    seq, gp = 3, 0
    for _ in range(rng.randint(3, 14)):
        r = rng.random()
        if r < 0.75:
            lines.append("pkt %s %d %d %d" % (vlib.hexs(rand_packet(rng, meta["modes"])), rng.choice([-1, gp, gp + 100, 0]), 1 if rng.random() < 0.05 else 0, seq))
            seq += rng.choice([1, 1, 1, 2, 0])
            gp += 64
        elif r < 0.85:
            lines.append("track %s %d 0 %d" % (vlib.hexs(rand_packet(rng, meta["modes"])), gp, seq))
            seq += 1
        elif r < 0.92:
            lines.append("restart")
        else:
            lines.append("halfrate %d" % rng.randint(0, 1))
    if rng.random() < 0.5:
        # the exported functions whose bodies the translator re-emits: the library's compiled code against the GENERATED Lean on the same arguments
        for _ in range(4):
            lines.append("fn ilog %d" % rng.choice([0, 1, 2, 3, 255, 256, 2 ** 31, 2 ** 32 - 1, rng.getrandbits(rng.randint(1, 32))]))
            ent = rng.choice([0, 1, 2, 15, 16, 17, 624, 625, 626, 4095, 4096, 6561, 2 ** 24 - 1, rng.randrange(1, 2 ** 24), rng.randrange(1, 5000)])
            lines.append("fn qv %d %d" % (ent, rng.choice([1, 2, 2, 3, 4, 5, 8, 16, 24, 63, 64, 100, rng.randint(1, 200)])))
    lines.append("clear")
    return lines, tag


def oracle(r):
    for l in r["c"][1:]:
        t = l.split(" ")
        if t[0] == "hdr":
            rc = t[1].split("=")[1]
            if rc not in HDR_CODES:
                return "codes: vorbis_synthesis_headerin returned %s" % rc
        elif t[0] in ("pkt", "track"):
            rc = t[1].split("=")[1]
            if rc not in PKT_CODES:
                return "codes: vorbis_synthesis returned %s" % rc
            kv = dict(x.split("=") for x in t[1:] if "=" in x)
            if "n" in kv and int(kv["n"]) < 0:
                return "count: negative sample count"
    return None


def complete_packet_cases(chk, per_kind, combos, npk=10):
    """cases of the c01 stream: valid generated set-ups (encoder-like and wild value ranges) followed by complete audio packets"""
    from . import c01 as C01, vfcommon as V2
    out = []
    for sane in (True, False):
        for su in V2.valid_setups(chk.rng, per_kind, combos=combos, sane=sane, channels=[1, 2, 3, 3, 6]):
            out.append(C01.gen_case(chk.rng, 600000 + len(out), su, npk))
    return out


def run(chk):
    theorems = vlib.theorem_names("C02")
    broken = chk.proof_side(theorems)
    n = 500 if chk.tier == "quick" else 12000
    cases, tags = [], []
    for i in range(n):
        lines, tag = gen_case(chk.rng, i, chk.tier)
        cases.append(lines)
        tags.append(tag)
    # corpus of minimised past failures / boundary cases always runs first
    cdir = os.path.join(vlib.VERIF, "corpus", "C02")
    corpus = []
    if os.path.isdir(cdir):
        for f in sorted(os.listdir(cdir)):
            corpus.append([l.rstrip("\n") for l in open(os.path.join(cdir, f)) if l.strip()])
    for k, c in enumerate(corpus):
        c[0] = "case %d" % (n + k)
    os.environ.setdefault("VERIF_CASE_TIMEOUT", "30")       # no call of this stream takes a second; one that never returns is cut off here
    res = vlib.run_pair("c02", corpus + cases, timeout=1200)
    dis, crash, ofail = common.judge_pairs(chk, "c02", res, oracle)
    if dis and not crash and not ofail:
        # the parse correspondence broke but nothing crashed: search (library only, sanitizer build) among set-ups in which a field naming an entry of
        # another table, or a table's count, sits around every table's count — the inputs a wrong range check lets through
        extra = [gen_case(chk.rng, 500000 + j, chk.tier, force="index")[0] for j in range(2500 if chk.tier == "quick" else 20000)]
        xres = vlib.run_harness_only("c02", extra, variant="san", timeout=1200)
        xc = [dict(r, m=None, rc_m=0, err_m="") for r in xres if r["c"] is None or (r["rc_c"] != 0 and r["err_c"])]
        crash += xc
        chk.coverage["escalation_cases"] = len(extra)
        chk.coverage["escalation_crashes"] = len(xc)
    # complete audio packets (the c01 generator: every floor/residue/codebook path walked to its end, residue ranges beyond half a block, 3-6
    # channels with floors in use) over valid set-ups with encoder-like and with wild value ranges — library only, sanitizer build: the random
    # packets above rarely get past the floor decode
    pk_cases = complete_packet_cases(chk, 70 if chk.tier == "quick" else 700, [(6, 6), (6, 8), (7, 9), (8, 8), (6, 10)])
    pres = vlib.run_harness_only("c01", pk_cases, variant="san", timeout=1800)
    pc = [dict(r, m=None, rc_m=0, err_m="") for r in pres if r["c"] is None or (r["rc_c"] != 0 and r["err_c"])]
    crash += pc
    chk.coverage["complete_packet_cases"] = len(pk_cases)
    dist = {"setup_accepted": 0, "setup_rejected": 0, "init_ok": 0, "init_failed": 0, "pkt_decoded": 0, "pkt_rejected": 0, "samples_out": 0}
    reject_by = {}
    for k, r in enumerate(res):
        if not r or not r["c"]:
            continue
        acc = any(l.startswith("setup books=") for l in r["c"])
        dist["setup_accepted" if acc else "setup_rejected"] += 1
        tag = tags[k - len(corpus)] if k >= len(corpus) else "corpus"
        if not acc:
            reject_by[tag] = reject_by.get(tag, 0) + 1
        for l in r["c"]:
            if l.startswith("init rc=0"):
                dist["init_ok"] += 1
            elif l.startswith("init rc="):
                dist["init_failed"] += 1
            elif l.startswith("pkt rc=0"):
                dist["pkt_decoded"] += 1
                dist["samples_out"] += int(l.rsplit("n=", 1)[1])
            elif l.startswith("pkt rc="):
                dist["pkt_rejected"] += 1
        chk.note_case("|".join(r["c"][1:6])[:300], acc, {"tag": tag, "ops": [o[:100] for o in r["ops"][2:6]], "answer": [l[:120] for l in r["c"][1:8]]})
    # heap budget: the same cases through the counting allocator — whatever was refused, the clear calls must return every block
    from . import c13 as C13
    leak_cases = [[c[0], "live"] + [o for o in c[1:] if o != "live"] + ["clear", "live", "clear", "live"] for c in (corpus + cases)]
    lres = vlib.run_harness_only("c02", leak_cases, variant="cnt", timeout=1200)
    nleak = 0
    for r in lres:
        if r["c"] is None:
            continue
        nleak += 1
        o = C13.oracle("c02", r["ops"], r["c"])
        if o:
            ofail.append((dict(r, m=None), "heap: " + o))
    chk.coverage["leak_checked_cases"] = nleak
    chk.coverage["rule"] = ("type-directed set-up generator (ordered/sparse/single-entry/lattice/explicit books, valid and invalid Huffman trees, floor 0/1, residue 0/1/2, "
                            "submaps, coupling, 1-5 modes, block sizes 64..8192, 1..255 channels) + boundary stream (one field set to 0/max/half/±1, cut at a field boundary) + random bytes; "
                            "header order permutations/duplicates/wrong b_o_s; init (twice), random/structured packets, complete audio packets from the c01 generator over valid set-ups (encoder-like and wild value ranges, 1-6 channels) under the sanitizers, trackonly, restart, halfrate, clear twice. "
                            "Every return code, the full parse dump, window flags and sample counts are compared with the Lean model; everything runs under ASan+UBSan; the same cases run through a counting allocator and the clear calls must return every block whatever was refused. "
                            "distinct = distinct first five answer lines; non-trivial = set-up accepted")
    chk.coverage["distribution"] = dist
    chk.coverage["rejected_by_stream"] = reject_by
    chk.coverage["disagreements"] = len(dis)
    chk.assumptions += ["floor/residue/codebook packet decoding is exercised under sanitizers only (not modelled): its only modelled effect is 'returns 0'",
                        "libogg's bit reader is modelled (Vorbis/Bits.lean) and validated by this stream only"]
    common.settle(chk, "c02", broken, dis, crash, ofail)


def replay(chk, obj):
    res = vlib.run_pair("c02", [obj["replay"]["ops"]])
    for r in res:
        print("\n".join(l[:300] for l in (r["c"] or [])))
        print("--- model")
        print("\n".join(l[:300] for l in (r["m"] or [])))
        print(r.get("err_c", ""))
