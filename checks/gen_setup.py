"""Type-directed generator of Vorbis I set-up headers (independent Python bit packer).

A header is first produced as a *field trace* [(value, nbits, label), ...]; valid traces are packed as
they are, the boundary stream mutates one field (0, max, ±1, half) or cuts the trace at a field
boundary, so every range / end-of-packet check in the parser gets hit from both sides."""
import struct


class Trace:
    def __init__(self):
        self.f = []

    def w(self, v, n, label=""):
        self.f.append([int(v) & ((1 << n) - 1) if n else 0, n, label])

    def pack(self, upto=None):
        acc, nb, out = 0, 0, bytearray()
        for v, n, _ in (self.f if upto is None else self.f[:upto]):
            acc |= (v & ((1 << n) - 1)) << nb
            nb += n
            while nb >= 8:
                out.append(acc & 255)
                acc >>= 8
                nb -= 8
        if nb:
            out.append(acc & 255)
        return bytes(out)


def ilog(v):
    n = 0
    while v:
        n += 1
        v >>= 1
    return n


def lookup1(entries, dim):
    if entries < 1:
        return 0
    v = 1
    while (v + 1) ** dim <= entries:
        v += 1
    return v


def float32_pack(val):
    import math
    if val == 0:
        return 0
    sign = 0
    if val < 0:
        sign = 0x80000000
        val = -val
    exp = int(math.floor(math.log(val, 2) + .001))
    mant = int(round(math.ldexp(val, 20 - exp)))
    return sign | ((exp + 768) << 21) | mant


def random_lengths(rng, used, maxlen=12):
    """lengths of a complete prefix code with `used` leaves (Kraft sum 1)"""
    if used == 1:
        return [1]
    if used > 600:
        L = ilog(used - 1)
        a = (1 << L) - used
        leaves = [L - 1] * a + [L] * (used - a)
        rng.shuffle(leaves)
        return leaves
    leaves = [1, 1]
    while len(leaves) < used:
        cand = [i for i, l in enumerate(leaves) if l < maxlen]
        if not cand:
            break
        i = rng.choice(cand)
        l = leaves.pop(i)
        leaves += [l + 1, l + 1]
    while len(leaves) < used:      # cannot happen for used <= 2^maxlen
        leaves.append(maxlen)
    rng.shuffle(leaves)
    return leaves[:used]


def gen_book(rng, t, kind=None, big=False, sane=False):
    """returns dict describing the book (dim, entries, maptype, used, valid_tree)"""
    maptype = kind if kind is not None else rng.choice([0, 1, 1, 2])
    dim = rng.choice([1, 1, 2, 2, 3, 4, 8]) if maptype else rng.choice([0, 1, 1, 2, 4])
    if maptype == 1:
        q = rng.choice([2, 3, 4, 5])
        entries = q ** dim if rng.random() < 0.8 else q ** dim + rng.randint(0, 3)
        while ilog(dim) + ilog(entries) > 24 or entries > 4100:
            dim -= 1
            entries = q ** dim
    else:
        entries = rng.choice([1, 2, 3, 4, 7, 8, 16, 31, 64]) if not big else rng.choice([300, 1000, 5000])
    if maptype and not sane and not big and rng.random() < 0.07:
        # a vector far wider than any partition (legal: nothing relates a book's dimension to the residue's partition size or the block
        # size): every bound on "how many scalars of this codeword still fit" in the vector decoders is exercised
        dim = rng.choice([16, 33, 64, 255, 1000, 4096])
        entries = rng.choice([1, 2, 3]) if maptype == 1 else rng.choice([1, 2])
    sparse = rng.random() < 0.3 and entries > 2
    ordered = (not sparse) and rng.random() < 0.3
    used = entries if not sparse else rng.randint(1, entries)
    treemode = rng.random()
    if treemode < 0.96:
        lens = random_lengths(rng, used, 32 if rng.random() < 0.05 else 14)
        valid = True
        if used == 1:
            lens = [1]
    elif treemode < 0.98:
        lens = [rng.randint(1, 6) for _ in range(used)]        # most likely over/under-populated
        valid = None
    else:
        lens = random_lengths(rng, used)
        if used > 1:
            k = rng.randrange(used)
            lens[k] = lens[k] + 1                               # underpopulated
        valid = False if used > 1 else True
    if ordered:
        lens.sort()
    t.w(0x564342, 24, "book.sync")
    t.w(dim, 16, "book.dim")
    t.w(entries, 24, "book.entries")
    t.w(1 if ordered else 0, 1, "book.ordered")
    if ordered:
        t.w(lens[0] - 1, 5, "book.len0")
        i, length = 0, lens[0]
        while i < entries:
            num = sum(1 for l in lens[i:] if l == length)
            t.w(num, ilog(entries - i), "book.ordnum")
            i += num
            length += 1
            if length > 40:
                break
    else:
        t.w(1 if sparse else 0, 1, "book.sparse")
        if sparse:
            slots = [True] * used + [False] * (entries - used)
            rng.shuffle(slots)
            it = iter(lens)
            for s in slots:
                t.w(1 if s else 0, 1, "book.usedflag")
                if s:
                    t.w(next(it) - 1, 5, "book.len")
        else:
            for l in lens:
                t.w(l - 1, 5, "book.len")
    t.w(maptype, 4, "book.maptype")
    if maptype:
        if sane:
            # value ranges an encoder would use: spectral lines of a few units, LSP angles well inside [0, pi]
            t.w(float32_pack(rng.choice([-1.0, -0.5, 0.0, -4.0, 0.03125, -2.0, 0.0])), 32, "book.qmin")
            t.w(float32_pack(rng.choice([1.0, 0.5, 0.25, 0.0625, 0.015625, 0.125])), 32, "book.qdelta")
            qq = rng.randint(1, 5) if rng.random() < 0.9 else rng.randint(1, 5)
        else:
            t.w(float32_pack(rng.choice([-1.0, -0.5, 0.0, -8.0, 1.0, -1e4, 3.5e7])), 32, "book.qmin")
            t.w(float32_pack(rng.choice([1.0, 0.5, 0.25, 2.0, 1e3, 9e8])), 32, "book.qdelta")
            qq = rng.randint(1, 8) if rng.random() < 0.9 else rng.randint(9, 16)
        t.w(qq - 1, 4, "book.qquant")
        t.w(rng.randint(0, 1), 1, "book.qseq")
        nq = lookup1(entries, dim) if maptype == 1 else entries * dim
        for _ in range(nq):
            t.w(rng.getrandbits(qq), qq, "book.q")
    return {"dim": dim, "entries": entries, "maptype": maptype, "used": used, "valid": valid}


def gen_setup(rng, channels, bs0, bs1, t=None, big=False, sane=False):
    t = t or Trace()
    for c in b"\x05vorbis":
        t.w(c, 8, "preamble")
    nbooks = rng.randint(2, 7)
    t.w(nbooks - 1, 8, "books")
    books = []
    for i in range(nbooks):
        kind = None
        if i == 0:
            kind = 0          # a scalar book (floor1 classes / residue group)
        elif i == 1:
            kind = rng.choice([1, 2])
        books.append(gen_book(rng, t, kind, big and i == nbooks - 1, sane))
    vq = [i for i, b in enumerate(books) if b["maptype"] and b["dim"] >= 1]
    anyb = list(range(nbooks))
    t.w(0, 6, "times")
    t.w(0, 16, "time0")
    nfl = rng.randint(1, 3)
    t.w(nfl - 1, 6, "floors")
    for _ in range(nfl):
        if rng.random() < 0.3 and vq:
            t.w(0, 16, "floor.type")
            t.w(rng.choice([1, 2, 8, 16, 30]), 8, "f0.order")
            t.w(rng.choice([8000, 44100, 1, 65535]), 16, "f0.rate")
            t.w(rng.choice([1, 64, 256, 1000]), 16, "f0.barkmap")
            t.w(rng.randint(0, 8), 6, "f0.ampbits")
            t.w(rng.choice([1, 80, 140, 255]), 8, "f0.ampdB")
            nb = rng.randint(1, 3)
            t.w(nb - 1, 4, "f0.numbooks")
            for _ in range(nb):
                t.w(rng.choice(vq), 8, "f0.book")
        else:
            t.w(1, 16, "floor.type")
            parts = rng.choice([0, 1, 2, 3, 6])
            t.w(parts, 5, "f1.partitions")
            ncl = rng.randint(1, 3)
            pcl = [rng.randrange(ncl) for _ in range(parts)]
            for c in pcl:
                t.w(c, 4, "f1.pclass")
            cdims = []
            for c in range((max(pcl) + 1) if pcl else 0):
                d = rng.randint(1, 4)
                cdims.append(d)
                t.w(d - 1, 3, "f1.cdim")
                subs = rng.randint(0, 2)
                t.w(subs, 2, "f1.csubs")
                if subs:
                    t.w(rng.choice(anyb), 8, "f1.cbook")
                for _ in range(1 << subs):
                    t.w(rng.choice([0] + [b + 1 for b in anyb]), 8, "f1.subbook")
            t.w(rng.randint(0, 3), 2, "f1.mult")
            total = sum(cdims[c] for c in pcl)
            rb = rng.choice([6, 7, 8, 10, 12]) if total < 60 else 12
            t.w(rb, 4, "f1.rangebits")
            vals = rng.sample(range(1, 1 << rb), min(total, (1 << rb) - 1))
            if vals and rng.random() < 0.12:
                # boundary: a post equal to an implicit post (X=0) or to another explicit one
                vals[rng.randrange(len(vals))] = 0 if rng.random() < 0.6 else rng.choice(vals)
            for v in vals:
                t.w(v, rb, "f1.post")
    nres = rng.randint(1, 3)
    t.w(nres - 1, 6, "residues")
    scalar = [i for i, b in enumerate(books) if b["dim"] >= 1]
    for _ in range(nres):
        t.w(rng.choice([0, 1, 2]), 16, "res.type")
        begin = rng.choice([0, 0, 4, 32])
        end = rng.choice([bs0 // 2, bs1 // 2, bs1, 16, 100000])
        t.w(begin, 24, "res.begin")
        t.w(end, 24, "res.end")
        t.w(rng.choice([1, 2, 4, 8, 16, 32]) - 1, 24, "res.grouping")
        cand = [(i, p) for i in scalar for p in (1, 2, 3, 4) if p ** books[i]["dim"] <= books[i]["entries"]]
        gb, p = rng.choice(cand) if cand else (0, 1)
        t.w(p - 1, 6, "res.partitions")
        t.w(gb, 8, "res.groupbook")
        nb = 0
        for _ in range(p):
            casc = rng.choice([0, 1, 3, 5, 7, 0x81, 0xff]) if vq else 0
            t.w(casc & 7, 3, "res.casc")
            if casc >> 3:
                t.w(1, 1, "res.cflag")
                t.w(casc >> 3, 5, "res.casc2")
            else:
                t.w(0, 1, "res.cflag")
            nb += bin(casc).count("1")
        for _ in range(nb):
            t.w(rng.choice(vq), 8, "res.book")
    nmaps = rng.randint(1, 2)
    t.w(nmaps - 1, 6, "maps")
    for _ in range(nmaps):
        t.w(0, 16, "map.type")
        sub = rng.choice([1, 1, 2, 3]) if channels > 1 else 1
        if sub > 1 or rng.random() < 0.2:
            t.w(1, 1, "map.subflag")
            t.w(sub - 1, 4, "map.submaps")
        else:
            t.w(0, 1, "map.subflag")
        if channels > 1 and rng.random() < 0.5:
            t.w(1, 1, "map.cflag")
            steps = rng.randint(1, min(3, channels))
            t.w(steps - 1, 8, "map.steps")
            for _ in range(steps):
                m, a = rng.sample(range(channels), 2)
                t.w(m, ilog(channels - 1), "map.mag")
                t.w(a, ilog(channels - 1), "map.ang")
        else:
            t.w(0, 1, "map.cflag")
        t.w(0, 2, "map.reserved")
        if sub > 1:
            for _ in range(channels):
                t.w(rng.randrange(sub), 4, "map.chmux")
        for _ in range(sub):
            t.w(0, 8, "map.time")
            t.w(rng.randrange(nfl), 8, "map.floor")
            t.w(rng.randrange(nres), 8, "map.res")
    nmodes = rng.choice([1, 2, 2, 3, 5])
    t.w(nmodes - 1, 6, "modes")
    for _ in range(nmodes):
        t.w(rng.randint(0, 1), 1, "mode.bf")
        t.w(0, 16, "mode.wt")
        t.w(0, 16, "mode.tt")
        t.w(rng.randrange(nmaps), 8, "mode.map")
    t.w(1, 1, "framing")
    return t, {"books": books, "modes": nmodes}


INDEX_FIELDS = {"map.res", "map.floor", "mode.map", "map.chmux", "map.mag", "map.ang", "f1.cbook", "f1.subbook", "f1.pclass", "f0.book", "res.groupbook",
                "res.book", "floors", "residues", "maps", "modes", "books", "map.submaps", "f0.numbooks", "f1.partitions", "res.partitions"}


def mutate(rng, t, index_only=False):
    """boundary stream: one field changed, or the packet cut at a field boundary"""
    import copy
    m = Trace()
    m.f = copy.deepcopy(t.f)
    k = rng.randrange(7, len(m.f))
    if index_only or rng.random() < 0.4:
        # the fields that name an entry of another table (a book, floor, residue, mapping, submap, channel) and the counts of those tables: each
        # gets the values around EVERY table's count, not only around its own (a check against the wrong count accepts exactly those)
        idx = [j for j in range(7, len(m.f)) if m.f[j][2] in INDEX_FIELDS]
        if idx:
            k = rng.choice(idx)
            v, n, label = m.f[k]
            counts = [f[0] + 1 for f in m.f if f[2] in ("books", "floors", "residues", "maps", "modes", "map.submaps")]
            c = rng.choice(counts + [v + 1, v + 2])
            m.f[k][0] = rng.choice([c, c - 1, c + 1]) & ((1 << n) - 1) if n else 0
            return m.pack(), "index:" + label
    v, n, label = m.f[k]
    r = rng.random()
    if r < 0.25:
        return m.pack(upto=k) + (b"" if rng.random() < 0.5 else bytes([rng.getrandbits(8)])), "cut:" + label
    cands = [0, 1, (1 << n) - 1, (1 << n) >> 1, v + 1, v - 1, v ^ 1, rng.getrandbits(max(n, 1))]
    m.f[k][0] = rng.choice(cands) & ((1 << n) - 1) if n else 0
    return m.pack(), "field:" + label


def ident(channels, rate, b0, b1, version=0, framing=1):
    return b"\x01vorbis" + struct.pack("<IBIiiiB", version, channels, rate, 0, 128000, 0, (b1 << 4) | b0) + bytes([framing])


def comment():
    return b"\x03vorbis" + struct.pack("<I", 4) + b"test" + struct.pack("<I", 0) + b"\x01"
