"""C06 — decoded audio is time-aligned with the input, finite and quality-bounded."""
from . import common
import vlib

LEVEL = "other"
QS = [-0.1, 0.1, 0.3, 0.5, 0.7, 0.9, 1.0]
# minimum SNR (tenths of dB) measured on the unchanged tree over channels {1,2,3,4,5,6,8} x 7 rates per cell, classes 0 2 4 5 (band-limited content);
# the bound used is this value minus 6 dB, interpolated in q — it depends on the quality setting only and rises with it
CAL = {0: [75, 175, 227, 281, 338, 370, 371], 2: [30, 72, 107, 128, 167, 208, 224], 4: [150, 185, 244, 285, 338, 369, 374],
       5: [58, 175, 201, 240, 329, 373, 373]}
MARGIN = 60
LAGCLASSES = (1, 2, 3, 6)        # aperiodic content: the lag probe is meaningful
PEAK_FACTOR = 8.0                # measured maximum on the unchanged tree over the whole calibrated grid: 4.72 (sweeps, 5.1 layout, q=-0.1)
PEAK_CELL = 1.5                  # per cell: 1.5 x the ratio the unchanged encoder reaches there


CHANNELS = [1, 2, 3, 4, 5, 6, 8]
RATES = [8000, 11025, 16000, 22050, 32000, 44100, 48000]
ALLQ = QS + [0.2, 0.4, 0.6, 0.8]
NOMINALS = [32000, 48000, 64000, 96000, 128000]
LENGTHS = [20000, 40000, 70000]


def cell_key(cls, ch, rate, mode, q):
    return "%d|%d|%d|%d|%s" % (cls, ch, rate, mode, q)


def bound(cls, q):
    t = CAL[cls]
    t = [min(t[k:]) for k in range(len(t))]          # monotone in q
    if q <= QS[0]:
        return t[0] - MARGIN
    for k in range(len(QS) - 1):
        if QS[k] <= q <= QS[k + 1]:
            a = (q - QS[k]) / (QS[k + 1] - QS[k])
            return t[k] + a * (t[k + 1] - t[k]) - MARGIN
    return t[-1] - MARGIN


def kv(line):
    return dict(x.split("=", 1) for x in line.split(" ")[1:] if "=" in x)


def gen_case(rng, i, tier):
    ch = rng.choice(CHANNELS + [2])
    rate = rng.choice(RATES)
    cls = rng.choice([0, 1, 2, 3, 4, 4, 5, 6, 7, 7, 8, 8])
    n = rng.choice(LENGTHS)
    if rng.random() < 0.8:
        q = rng.choice(ALLQ)
        return ["case %d" % i, "sig %d %d 0 %s %d %d %d" % (ch, rate, q, n, cls, rng.randrange(1, 99999))], (ch, rate, 0, q, cls)
    nominal = rng.choice(NOMINALS) * max(1, ch // 2)
    return ["case %d" % i, "sig %d %d 1 %d %d %d %d" % (ch, rate, nominal, n, cls, rng.randrange(1, 99999))], (ch, rate, 1, nominal, cls)


_CAL = None


def cell_cal(cls, ch, rate, mode, q):
    """per-cell figures measured on the unchanged tree by tools/calibrate_c06.py: [min SNR, min worst-window figure, max..., max...]"""
    global _CAL
    if _CAL is None:
        import json, os
        p = os.path.join(os.path.dirname(os.path.abspath(__file__)), "c06_cal.json")
        _CAL = json.load(open(p)) if os.path.exists(p) else {}
    return _CAL.get(cell_key(cls, ch, rate, mode, q))


CELL_MARGIN = 60         # whole-signal SNR: 6 dB under the cell's calibrated minimum
ENDS_MIN = 30            # tenths of dB, see the 'ends' rule in oracle()
WIN_MARGIN = 80          # worst 256-sample window: 8 dB under the cell's calibrated minimum (deterministic signal classes only)


def oracle(line, meta):
    ch, rate, mode, q, cls = meta[:5]
    short = len(meta) > 5          # granule-visibility cases: lengths far below the calibrated ones — the calibrated SNR bounds do not apply
    f = kv(line)
    if f.get("rc") != "0":
        return None                       # this (channels, rate, setting) is not a configuration the encoder offers
    if f["finite"] != "1":
        return "finite: decoded samples are not all finite"
    if int(f["out"]) != int(f["n"]):
        return "length: %s samples in, %s out" % (f["n"], f["out"])
    pin, pout = float(f["peakin"]), float(f["peakout"])
    if pout > PEAK_FACTOR * pin + 0.05:
        return "peak: output peak %.3f for input peak %.3f" % (pout, pin)
    pc = None if short else cell_cal(cls, ch, rate, mode, q)
    if pc and len(pc) > 4 and pc[4] > 0 and pout > PEAK_CELL * max(pc[4], 1.0) * pin + 0.05:
        return "peak: output peak %.3f for input peak %.3f; the unchanged encoder stays within %.2f x for this signal, layout and setting" % (pout, pin, pc[4])
    lfe = 5 if (ch == 6 and rate >= 40000) else None      # the 5.1 set-up band-limits its LFE channel by design
    lags = f["lag"].split(",")
    selfs = f["self"].split(",")
    snrs = f["snr"].split(",")
    wwin = f.get("wwin", "").split(",")
    cc = pc if (cls in CAL or cls in (7, 8)) else None
    for c in range(ch):
        if c == lfe:
            continue
        if cc and not snrs[c].startswith("S"):
            # the bound of this quality setting for this member of the signal family, as the unchanged encoder meets it
            if cc[0] < 10 ** 8 and int(snrs[c]) < cc[0] - CELL_MARGIN:
                return "noise: channel %d SNR %.1f dB at %s %s; the bound for this signal, layout and setting is %.1f dB" % (
                    c, int(snrs[c]) / 10.0, "nominal bitrate" if mode else "quality", q, (cc[0] - CELL_MARGIN) / 10.0)
            if cls in (0, 4, 5, 7, 8) and cc[1] < 10 ** 8 and c < len(wwin) and not wwin[c].startswith("S") and int(wwin[c]) < cc[1] - WIN_MARGIN:
                return "burst: channel %d: the worst 256-sample window has its error only %.1f dB under the signal level at %s %s; bound %.1f dB" % (
                    c, int(wwin[c]) / 10.0, "nominal bitrate" if mode else "quality", q, (cc[1] - WIN_MARGIN) / 10.0)
        # (quality-mode streams only: under rate management the last blocks of an 8-channel stream at a low nominal rate are starved by design — 1.7 dB
        # on the unchanged tree — so the rule would alarm there)
        # the first and the last 1024 samples (left out by the figures above): where the whole signal is reconstructed 10 dB under its level or
        # better, the ends of a steady signal may not be worse than 3 dB — a block trimmed at the wrong end or shifted there gives about 0 dB
        ends = f.get("ends", "").split(",")
        if mode == 0 and cls in (0, 2, 4) and c < len(ends) and "/" in ends[c] and not snrs[c].startswith("S") and int(snrs[c]) >= 100:
            hd, tl = (int(x) for x in ends[c].split("/"))
            if tl < ENDS_MIN or hd < ENDS_MIN:
                return "ends: channel %d: the first / last 1024 samples come out %.1f / %.1f dB under the signal (whole signal %.1f dB): the stream's ends are not where the input's are" % (
                    c, hd / 10.0, tl / 10.0, int(snrs[c]) / 10.0)
        if cls == 9 and not snrs[c].startswith("S") and not short:
            # one speaker at a time: each channel is reconstructed from what was written for it although every partner of its coupling steps was
            # silent meanwhile (unchanged encoder, 6 layouts x 5 rates: >= 15.5 dB at q=-0.1, >= 23.9 dB from q=0.3 on)
            need = 150 if (mode == 0 and q >= 0.3) else 90
            if int(snrs[c]) < need:
                return "solo: channel %d, sounding alone in its slot, comes out at %.1f dB SNR (bound %.1f dB at this setting)" % (c, int(snrs[c]) / 10.0, need / 10.0)
        if cls in LAGCLASSES and lags[c] != "0":
            return "delay: channel %d of the output matches the input best at lag %s, not 0" % (c, lags[c])
        # sparse clicks / bursts can leak between point-coupled channels at the lowest qualities: identity is judged on dense content
        # (and only where the unchanged encoder keeps the error of this signal, layout and setting 6 dB under the signal: below that — lossy
        # channel coupling of channel-distinct sweeps at the bottom of the quality range — outputs of coupled channels legitimately resemble each other)
        if cls in (0, 1, 2, 4, 5) and int(selfs[c]) != c and not (pc and pc[0] < 60):
            return "permuted: output channel %d matches input channel %s best" % (c, selfs[c])
        if snrs[c].startswith("S"):
            if pin == 0.0:
                if pout > 1e-3:
                    return "leak: all input channels silent, output peak %.4f" % pout
            elif int(snrs[c][1:]) > -300:
                return "leak: silent input channel %d comes out only %.1f dB below the loudest channel" % (c, -int(snrs[c][1:]) / 10.0)
        elif mode == 0 and cls in CAL and not short:
            if int(snrs[c]) < bound(cls, q):
                return "noise: channel %d SNR %.1f dB at quality %s, bound %.1f dB (class %d)" % (c, int(snrs[c]) / 10.0, q, bound(cls, q) / 10.0, cls)
        elif mode == 1 and cls in CAL:
            if int(snrs[c]) < 30:
                return "noise: channel %d SNR %.1f dB in managed mode" % (c, int(snrs[c]) / 10.0)
    return None


def run(chk):
    theorems = vlib.theorem_names("C06")
    broken = chk.proof_side(theorems)
    n = 120 if chk.tier == "quick" else 2500
    gens = [gen_case(chk.rng, i, chk.tier) for i in range(n)]
    # the layouts the calibration used, at every calibrated quality, always run
    k = n
    for q in QS if chk.tier == "thorough" else (0.1, 0.5, 0.9):
        for cls in (0, 2, 4, 5):
            for (ch, rate) in ((1, 8000), (2, 44100), (3, 44100), (4, 32000), (5, 44100), (8, 48000)):
                gens.append((["case %d" % k, "sig %d %d 0 %s 40000 %d %d" % (ch, rate, q, cls, 7 + k)], (ch, rate, 0, q, cls)))
                k += 1
    # every encoder template that has its own residue books at the bottom of the quality range / at low managed bitrates
    for (ch, rate, q) in ((2, 44100, 0.6), (2, 44100, 0.9), (1, 44100, 0.7), (3, 48000, 0.8), (2, 32000, 0.7), (6, 44100, 0.6), (2, 22050, 0.8)):
        gens.append((["case %d" % k, "sig %d %d 0 %s 40000 8 %d" % (ch, rate, q, 7 + k)], (ch, rate, 0, q, 8)))
        k += 1
    for cls in (7,):
        # an onset in the first channel only, at every layout family with two block sizes
        for (ch, rate, mode, q) in ((2, 44100, 0, 0.5), (2, 48000, 0, 0.1), (2, 32000, 0, 0.9), (3, 44100, 0, 0.5), (6, 44100, 0, 0.3), (2, 22050, 0, 0.5),
                                    (4, 44100, 0, 0.7), (2, 44100, 1, 128000)):
            gens.append((["case %d" % k, "sig %d %d %d %s 40000 %d %d" % (ch, rate, mode, q, cls, 7 + k)], (ch, rate, mode, q, cls)))
            k += 1
    for cls in (0, 4, 5):
        for (ch, rate, mode, q) in ((2, 8000, 0, -0.1), (2, 11025, 0, -0.1), (2, 16000, 0, -0.1), (2, 22050, 0, -0.1), (2, 32000, 0, -0.1), (2, 44100, 0, -0.1),
                                    (6, 44100, 0, -0.1), (1, 8000, 0, -0.1), (1, 44100, 0, -0.1), (2, 22050, 1, 32000), (2, 44100, 1, 48000), (2, 44100, 1, 64000),
                                    (2, 8000, 1, 32000), (6, 44100, 1, 288000), (1, 44100, 1, 32000)):
            gens.append((["case %d" % k, "sig %d %d %d %s 40000 %d %d" % (ch, rate, mode, q, cls, 7 + k)], (ch, rate, mode, q, cls)))
            k += 1
    # granule positions as a demuxer delivers them: a short stream on ONE Ogg page (only the last packet has a position), pages of a few packets;
    # lengths off every block grid, steady content up to the last sample
    for j in range(14 if chk.tier == "quick" else 120):
        ch, rate = chk.rng.choice([(1, 44100), (2, 44100), (2, 48000), (1, 22050), (2, 32000), (3, 44100)])
        nn = chk.rng.choice([1500, 2500, 4321, 6001, 9000, 12345, 20011]) + chk.rng.randrange(0, 997)
        vis = 1 if j % 2 == 0 else chk.rng.choice([2, 3, 7])
        cls = chk.rng.choice([0, 0, 2])
        q = chk.rng.choice([0.3, 0.5, 0.7, 0.9])
        gens.append((["case %d" % k, "sig %d %d 0 %s %d %d %d %d" % (ch, rate, q, nn, cls, 7 + k, vis)], (ch, rate, 0, q, cls, vis)))
        k += 1
    # one speaker at a time, every multichannel layout family (coupled stereo, 5.1 with its chained coupling steps, uncoupled)
    for (ch, rate, q) in ((6, 44100, 0.3), (6, 48000, 0.1), (6, 44100, 0.7), (2, 44100, 0.4), (3, 44100, 0.5), (4, 32000, 0.5), (5, 44100, 0.3), (8, 48000, 0.5), (2, 22050, 0.1), (6, 44100, -0.1)):
        gens.append((["case %d" % k, "sig %d %d 0 %s 60000 9 %d" % (ch, rate, q, 7 + k)], (ch, rate, 0, q, 9)))
        k += 1
    res = vlib.run_harness_only("c06", [g[0] for g in gens], variant="plain", timeout=3000)
    crash, ofail = [], []
    hist = {}
    worst = {}
    for r, (ops, meta) in zip(res, gens):
        if r["c"] is None or (r["rc_c"] != 0 and r["err_c"]):
            crash.append(r)
            continue
        line = next((l for l in r["c"] if l.startswith("sig ")), None)
        if line is None:
            continue
        o = oracle(line, meta)
        if o:
            ofail.append((r, o))
        f = kv(line)
        ok = f.get("rc") == "0"
        hist[meta[4]] = hist.get(meta[4], 0) + (1 if ok else 0)
        if ok and meta[2] == 0 and meta[4] in CAL and len(meta) == 5:
            lfe = 5 if (meta[0] == 6 and meta[1] >= 40000) else None
            s = [int(x) for c, x in enumerate(f["snr"].split(",")) if not x.startswith("S") and c != lfe]
            if s:
                key = "class%d" % meta[4]
                worst[key] = min(worst.get(key, 10 ** 9), min(s) - int(bound(meta[4], meta[3])))
        if ok and "ends" in f and meta[4] in (0, 2, 4):
            for c, (e, sn) in enumerate(zip(f["ends"].split(","), f["snr"].split(","))):
                if "/" in e and not sn.startswith("S") and int(sn) >= 100:
                    worst["ends"] = min(worst.get("ends", 10 ** 9), min(int(x) for x in e.split("/")))
        chk.note_case(ops[1], ok, {"op": ops[1], "answer": line[:200]})
    for r in crash[:4]:
        chk.violation("crash:c06", "implementation aborted", {"stream": "c06", "ops": r["ops"], "exit": r["rc_c"], "stderr": r.get("err_c", "")[-2000:]}, True)
    for r, o in ofail[:4]:
        chk.violation("oracle:c06:" + o.split(": ")[0], "property oracle failed on the implementation: " + o, {"stream": "c06", "ops": r["ops"], "observed": r["c"]}, True)
    if broken and not crash and not ofail:
        chk.violation("proof", "proof obligation no longer checks: " + "; ".join(broken)[:600], {"broken": broken, "lean_log": getattr(chk, "lean_log", "")[-3000:]}, False)
    chk.coverage["rule"] = ("signal family (7 classes: multitone with distinct partials per channel, sweep, low-passed independent noise, click trains with distinct offsets, multitone with a silent "
                            "first channel, tone bursts with exact zeros, noise bursts, sharp onsets in the first channel only, a quiet low tone next to / after a loud one, one speaker at a time) x 1-8 channels x 7 rates x quality -0.1..1.0 / managed nominal rates; measured per channel on the decoded "
                            "output: finiteness, length, peak ratio, best cross-correlation lag over {0,±1..±4,±8,...,±2048} (aperiodic classes), which input channel it matches, SNR against its own input; "
                            "SNR bound = per-class minimum measured on the unchanged tree minus 6 dB, interpolated and made monotone in the quality setting; and per cell (class, channels, rate, "
                            "quality or nominal bitrate): the cell's minimum over three lengths (two seeds for noise) measured by tools/calibrate_c06.py minus 6 dB, plus the worst 256-sample window's error "
                            "level minus 8 dB for the deterministic classes (an error burst the whole-signal figure averages away)")
    chk.coverage["cases_per_class"] = hist
    chk.coverage["worst_margin_over_bound_tenth_dB"] = worst
    chk.assumptions += ["the SNR bounds are calibrated on the unchanged tree: they detect a loss of more than 6 dB against today's encoder, they are not derived from the psychoacoustic model",
                        "the LFE channel of the 5.1 set-up is band-limited by design and excluded from lag/SNR; time-exactness of each block's transform pair (TDAC) is measured (lag 0), not proved"]


def replay(chk, obj):
    r = vlib.run_harness_only("c06", [obj["replay"]["ops"]], variant="plain")[0]
    print("\n".join(r["c"] or []), r.get("err_c", "")[-800:])
