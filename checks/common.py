"""verdict logic shared by the per-property checks (DESIGN §3.6)"""
import os, sys, json
sys.path.insert(0, os.path.join(os.path.dirname(os.path.abspath(__file__)), "..", "tools"))
import vlib


def judge_pairs(chk, stream, results, oracle=None, sig=lambda r: "x", max_report=4):
    """results: output of vlib.run_pair. Returns (disagreements, crashes, oracle_failures)"""
    dis, crash, ofail = [], [], []
    for r in results:
        if r is None:
            continue
        if r["c"] is None or (r.get("err_c") and r["rc_c"] != 0):
            crash.append(r)
            continue
        if r["m"] is None:
            dis.append((r, (0, "<model produced no output>", r.get("err_m", ""))))
            continue
        d = vlib.first_diff(r["c"], r["m"])
        if d:
            dis.append((r, d))
        if oracle:
            o = oracle(r)
            if o:
                ofail.append((r, o))
    return dis, crash, ofail


def settle(chk, stream, broken, dis, crash, ofail, describe=lambda r: r["ops"]):
    """turn what was observed into VIOLATION lines.
       broken : list of proof obligations that no longer check
       dis    : model/implementation disagreements  [(result, (line, c, m))]
       crash  : harness aborted (sanitizer, timeout, signal)
       ofail  : property oracle failed on the real code [(result, text)]"""
    prop = chk.prop
    n0 = len(chk.violations)
    for r in crash:
        if len(chk.violations) - n0 >= 4:
            break
        chk.violation("crash:" + stream, "implementation aborted (sanitizer report, signal or time-out)",
                      {"stream": stream, "ops": describe(r), "exit": r["rc_c"], "stderr": r.get("err_c", "")[-2500:]}, True)
    for r, o in ofail:
        # every oracle failure is looked at: those listed as known findings print their KNOWN-FINDING line and do not count,
        # so a listed finding can never hide a new one behind it
        if len(chk.violations) - n0 >= 4:
            break
        chk.violation("oracle:" + stream + ":" + o.split(": ")[0], "property oracle failed on the implementation: " + o,
                      {"stream": stream, "ops": describe(r), "observed": r["c"], "model": r.get("m")}, True)
    have_input = len(chk.violations) > n0          # a NEW violation with a failing input (known findings do not count)
    for r, d in dis[:4]:
        # a disagreement without an oracle failure: the correspondence no longer checks
        if have_input:
            break
        chk.violation("corr:" + stream, "model and implementation disagree (line %d): C=%r model=%r" % d,
                      {"broken": "correspondence stream " + stream, "stream": stream, "ops": describe(r),
                       "c": r["c"], "model": r["m"]}, False)
    if broken and not have_input and not dis:
        chk.violation("proof", "proof obligation no longer checks: " + "; ".join(broken)[:600],
                      {"broken": broken, "lean_log": getattr(chk, "lean_log", "")[-3000:]}, False)
    elif broken and have_input:
        chk.coverage["broken_obligations"] = broken
    elif broken and dis:
        chk.coverage["broken_obligations"] = broken


def load_corpus(prop, first_index):
    """minimised past failures / regression cases: corpus/<prop>/*.txt, renumbered from first_index"""
    d = os.path.join(vlib.VERIF, "corpus", prop)
    out = []
    if os.path.isdir(d):
        for f in sorted(os.listdir(d)):
            lines = [l.rstrip("\n") for l in open(os.path.join(d, f)) if l.strip()]
            if lines:
                lines[0] = "case %d" % (first_index + len(out))
                out.append(lines)
    return out
