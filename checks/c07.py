"""C07 — after any seek the reported position matches the audio delivered."""
from . import common, vfcommon as V
import vlib

LEVEL = "proof"
SEEKS = ["rawseek", "pcmseek", "pcmseekpage", "timeseek", "timeseekpage"]


SETUPS = []          # generated set-ups (3, 5, 6, 7 modes preferred, two block sizes) for hand-muxed links; filled by run()


def gen_case(rng, i, tier):
    links = V.gen_links(rng)
    lens = [int(l.split(" ")[4]) for l in links]
    rates = [int(l.split(" ")[2]) for l in links]
    ops = ["case %d" % i] + V.with_mux(rng, links) + V.gen_splits(rng, links)
    if SETUPS and rng.random() < 0.3:
        # one more link, hand-muxed over a generated set-up (any number of modes, any mode order): positions are computed from the
        # packets' mode numbers without decoding them
        rate = rng.choice([8000, 44100])
        o, n, inf = V.raw_link_from(rng, rng.choice(SETUPS), 7000 + i % 900, rate, rng.randint(8, 120), trim=rng.choice([None, None, 3, 50]), flush_p=rng.choice([0.05, 0.2]))
        if rng.random() < 0.5:
            ops += o
            lens.append(n)
            rates.append(rate)
        else:
            ops[1:1] = o
            lens.insert(0, n)
            rates.insert(0, rate)
    if rng.random() < 0.35:
        # a link whose granule positions do not start at zero (cut out of a longer stream / an encoder that keeps counting across links): the last
        # link, or the one some page belongs to (the harness leaves links alone whose audio is a single page: their length would change)
        ops.append("pagedamage 23 %d 0 %d" % (rng.choice([-1, -1, 3, rng.randrange(0, 40)]), rng.choice([1, 64, 777, 5000, 10 ** 6, 2 ** 33])))
    total = sum(lens)
    dur_ms = int(sum(1000.0 * n / r for n, r in zip(lens, rates)))
    if rng.random() < 0.15:
        # junk between the links must not matter
        ops.insert(rng.randrange(2, len(ops) + 1), "garbage %d %d" % (rng.choice([1, 50, 700]), rng.randrange(1, 9999)))
    ops += ["table", "ref 0", "open 0 1 %d" % rng.choice([4096, 4096, 1, 7, 513, 100000])]
    bounds = [0]
    for n in lens:
        bounds.append(bounds[-1] + n)
    if rng.random() < 0.2:
        # the uninterrupted read itself
        ops += ["read 0 %d" % rng.choice([1, 7, 64, 4096]) for _ in range(rng.choice([5, 40, 200]))]
    for _ in range(rng.randint(3, 14)):
        kind = rng.choice(SEEKS + ["pcmseek", "pcmseek"])
        if kind in ("timeseek", "timeseekpage"):
            t = rng.choice([0, dur_ms, max(0, dur_ms - 1), rng.randrange(0, dur_ms + 2)])
            ops.append("%s 0 %d" % (kind, t))
        elif kind == "rawseek":
            ops.append("rawseek 0 %d" % rng.randrange(0, 40000))
        else:
            b = rng.choice(bounds)
            p = rng.choice([b, b + 1, max(0, b - 1), rng.randrange(0, total + 2), total, max(0, total - 1)])
            ops.append("%s 0 %d" % (kind, p))
        ops.append("tell 0")
        for _ in range(rng.choice([0, 1, 2, 3, 8])):
            ops.append("read 0 %d" % rng.choice([1, 3, 64, 1000, 4096]))
    ops.append("clear 0")
    return ops


def oracle(d):
    """every read after a successful seek is bit-identical to the linear decode at the position told,
       names the right link, and the position advances by what was returned"""
    lens = V.link_lengths(d["ops"])
    bounds = [0]
    for n in lens:
        bounds.append(bounds[-1] + n)
    total = bounds[-1]
    pos = 0          # position expected by the bookkeeping (None: unknown after a failed seek)
    for op, a in d["ans"]:
        if a is None or isinstance(a, list):
            continue
        name = op.split(" ")[0]
        f = V.kv(a)
        if name == "open":
            if f.get("rc") != "0":
                return "open: intact stream refused: " + a
            pos = 0
        elif name in SEEKS:
            if f["rc"] == "0":
                pos = int(f["tell"])
                if pos < 0 or pos > total:
                    return "tell-range: %s left position %d outside [0,%d]" % (op, pos, total)
            else:
                pos = None
        elif name == "tell":
            if pos is not None and int(a.split(" ")[1]) != pos:
                return "tell: tell says %s, bookkeeping %d after '%s'" % (a, pos, op)
        elif name == "read":
            rc = f["rc"]
            if pos is None:
                continue
            if rc.startswith("OV_"):
                return "hole: read on an intact stream returned %s (%s)" % (rc, a)
            n = int(rc)
            t0, t1 = int(f["t0"]), int(f["t1"])
            if n == 0:
                if t0 != total and pos != total:
                    return "eof: read returned 0 at position %d of %d" % (t0, total)
                continue
            if t0 != pos:
                return "drift: read started at %d, expected %d" % (t0, pos)
            if t1 - t0 != n:
                return "advance: returned %d samples, position moved by %d" % (n, t1 - t0)
            if f.get("ok") != "1":
                return "data: samples read at %d differ from the uninterrupted decode (%s)" % (t0, a)
            link = int(f["link"])
            if not (bounds[link] <= t0 and t1 <= bounds[link + 1]):
                return "link: samples [%d,%d) attributed to link %d = [%d,%d)" % (t0, t1, link, bounds[link], bounds[link + 1])
            pos = t1
    return None


def run(chk):
    theorems = vlib.theorem_names("C07")
    broken = chk.proof_side(theorems)
    n = 60 if chk.tier == "quick" else 1200
    cand = V.valid_setups(chk.rng, 40 if chk.tier == "quick" else 120)
    cand.sort(key=lambda su: -((len(su["flags"]) in (3, 5, 6, 7)) + (0 < sum(su["flags"]) < len(su["flags"])) + (su["b0"] != su["b1"])))
    SETUPS[:] = cand[:10 if chk.tier == "quick" else 40]
    cases = common.load_corpus("C07", 100000) + [gen_case(chk.rng, i, chk.tier) for i in range(n)]
    res = V.run_vf(cases)
    ofail = []
    hist = {}
    for d in res:
        if d["crash"]:
            continue
        o = oracle(d)
        if o:
            ofail.append((d, o))
        for op, a in d["ans"]:
            nm = op.split(" ")[0]
            if nm in SEEKS and isinstance(a, str):
                k = nm + ":" + V.kv(a).get("rc", "?")
                hist[k] = hist.get(k, 0) + 1
        chk.note_case("|".join(o for o in d["ops"] if o.startswith(("link", "garbage"))), True,
                      {"ops": d["ops"][1:9], "answers": [a for _, a in d["ans"] if isinstance(a, str)][:8]})
    chk.coverage["rule"] = ("random chains of 1-4 links (1-3 channels, 8-48 kHz, 0..20000 samples, three page layouts, optional junk between links), "
                            "random read-callback chunk sizes (1 byte .. whole file), histories of every seek kind aimed at link/page boundaries ±1, 0, total, "
                            "each followed by tell and 0-8 reads; data oracle = bit-exact comparison with the uninterrupted decode; every answer line also "
                            "compared with the Lean model of vorbisfile run on the page table")
    chk.coverage["seek_results"] = hist
    chk.assumptions += ["libogg (page framing, CRC, sync) is outside the model: the model reads the page table the harness extracts with libogg",
                        "sample values are compared by the harness against an uninterrupted ov_read_float decode; the model carries positions and counts only"]
    V.settle_vf(chk, res, broken, ofail)


def replay(chk, obj):
    res = V.run_vf([obj["replay"]["ops"]])
    for d in res:
        print("\n".join(l[:200] for l in (d["c"] or d["partial"] or []) if not l.startswith(("pg ", "hdrpk "))))
        print("--- model\n" + "\n".join(d["mlines"] or []))
        print(d["dis"], d["err"][-1500:])
