"""C10 — decoded audio does not depend on how the bytes are delivered."""
from . import common, vfcommon as V
import vlib

LEVEL = "proof"


def gen_case(rng, i, tier):
    links = V.gen_links(rng, rng.choice([1, 2, 3]))
    total = sum(int(l.split(" ")[4]) for l in links)
    ops = ["case %d" % i] + V.with_mux(rng, links) + V.gen_splits(rng, links) + ["table", "ref 0", "refpk 0"]
    chunks = [rng.choice([1, 2, 3, 7, 64, 255, 513, 2048, 4096, 100000]) for _ in range(3)]
    if rng.random() < 0.5:
        # a read callback built on fread/read may leave errno set after a SUCCESSFUL (short) read — EINTR, EAGAIN: "how the bytes are delivered"
        ops.append("errnoise %d" % rng.choice([4, 11, 5]))
    ops += ["open 0 1 %d" % chunks[0], "open 1 0 %d" % chunks[1], "open 2 0 %d" % rng.choice([1, 1, 2, chunks[2]])]
    for slot in (0, 1, 2):
        got = 0
        k = 0
        while got < total + 2000 and k < 4000:
            ln = rng.choice([1, 2, 5, 17, 64, 300, 1024, 4096, 1 << 20])
            if rng.random() < 0.08:
                ops.append("readi %d %d %d %d %d" % (slot, rng.choice([1, 2, 4, 64, 4096, 16384]), rng.randint(0, 1), rng.choice([1, 2]), rng.randint(0, 1)))
            else:
                ops.append("read %d %d" % (slot, ln))
            got += min(ln, 64)
            k += 1
        ops.append("read %d 64" % slot)
        ops.append("tell %d" % slot)
    ops += ["clear 0", "clear 1", "clear 2"]
    return ops


def oracle(d):
    lens = V.link_lengths(d["ops"])
    chans = V.link_channels(d["ops"])
    total = sum(lens)
    got = {0: 0, 1: 0, 2: 0}
    pos = {0: 0, 1: 0, 2: 0}
    eof = {}
    for op, a in d["ans"]:
        if a is None or isinstance(a, list):
            continue
        t = op.split(" ")
        f = V.kv(a)
        if t[0] == "refpk":
            if f.get("same") != "1":
                return "packet-api: decode through the packet-level API differs from vorbisfile: " + a
        elif t[0] == "open":
            if f.get("rc") != "0":
                return "open: intact stream refused (%s): %s" % (op, a)
        elif t[0] in ("read", "readi"):
            slot = int(t[1])
            rc = f["rc"]
            if rc == "OV_EINVAL" and t[0] == "readi":
                continue            # buffer smaller than one frame
            if rc.startswith("OV_"):
                return "hole: %s on an intact stream returned %s (slot %d)" % (t[0], rc, slot)
            n = int(rc)
            if n == 0:
                eof[slot] = True
                continue
            if eof.get(slot):
                return "after-eof: " + a
            t0, t1 = int(f["t0"]), int(f["t1"])
            if slot == 0 and t0 != pos[slot]:
                return "positions: slot %d %s, expected to start at %d" % (slot, a, pos[slot])
            if t[0] == "read":
                if (slot == 0 and t1 - t0 != n) or n > int(t[2]):
                    return "count: asked for %s, got %d, moved %d" % (t[2], n, t1 - t0)
                if f.get("ok") != "1":
                    return "data: slot %d: %s" % (slot, a)
            else:
                link = int(f["link"])
                if n % (int(t[4]) * chans[link]) != 0 or (slot == 0 and n != (t1 - t0) * int(t[4]) * chans[link]) or n > int(t[2]):
                    return "bytes: %s -> %s" % (op, a)
            pos[slot] = t1
            got[slot] += n if t[0] == "read" else n // (int(t[4]) * chans[int(f["link"])])
    for slot in (0, 1, 2):
        if eof.get(slot) and got[slot] != total:
            return "count: slot %d delivered %d of %d samples" % (slot, got[slot], total)
    return None


def run(chk):
    theorems = vlib.theorem_names("C10")
    broken = chk.proof_side(theorems)
    n = 30 if chk.tier == "quick" else 500
    cases = common.load_corpus("C10", 100000) + [gen_case(chk.rng, i, chk.tier) for i in range(n)]
    res = V.run_vf(cases)
    ofail = []
    for d in res:
        if d["crash"]:
            continue
        o = oracle(d)
        if o:
            ofail.append((d, o))
        chk.note_case("|".join(o for o in d["ops"] if o.startswith(("link", "open"))), True,
                      {"ops": d["ops"][1:10], "answers": [a for _, a in d["ans"] if isinstance(a, str)][:10]})
    chk.coverage["rule"] = ("every chain is decoded four ways: vorbisfile seekable, vorbisfile streaming (two handles), packet-level API per link; read callbacks return at most "
                            "1,2,3,7,...,100000 bytes per call; request lengths 1..2^20 samples and ov_read byte buffers 1..16384 in 8/16 bit either endianness; "
                            "in half of the cases every successful read leaves errno at EINTR/EAGAIN/EIO as a retrying fread-style callback may; bit-exact data oracle on every ov_read_float, position/byte arithmetic on every ov_read; counts and positions also compared with the Lean model "
                            "(which has no chunk parameter at all)")
    V.settle_vf(chk, res, broken, ofail)


replay = __import__("checks.c07", fromlist=["replay"]).replay
