"""C03 — vorbisfile is memory-safe and terminates on arbitrary physical streams."""
from . import common, vfcommon as V
import vlib

LEVEL = "proof"
CODES = {"OV_FALSE", "OV_EOF", "OV_HOLE", "OV_EREAD", "OV_EFAULT", "OV_EIMPL", "OV_EINVAL", "OV_ENOTVORBIS", "OV_EBADHEADER",
         "OV_EVERSION", "OV_ENOTAUDIO", "OV_EBADPACKET", "OV_EBADLINK", "OV_ENOSEEK"}
CALLS = ["read", "readi", "rawseek", "pcmseek", "pcmseekpage", "timeseek", "timeseekpage", "rawseeklap", "pcmseeklap", "pcmseekpagelap",
         "timeseeklap", "timeseekpagelap", "tell", "rawtell", "timetell", "total", "rawtotal", "timetotal", "serial", "bitrate", "instant",
         "streams", "seekable", "info", "halfrate", "crosslap"]


def rand_call(rng, slot, nslots):
    c = rng.choice(CALLS + ["read", "read", "pcmseek", "rawseek"])
    big = rng.choice([0, 1, -1, 17, 500, 3000, 20000, 10 ** 6, -10 ** 6, 2 ** 31, 2 ** 40, -(2 ** 40)])
    if c == "read":
        return "read %d %d" % (slot, rng.choice([1, 64, 4096, 1 << 20]))
    if c == "readi":
        return "readi %d %d %d %d %d" % (slot, rng.choice([0, 1, 2, 7, 4096, 65536]), rng.randint(0, 1), rng.choice([1, 2, 2, 0, 3, -1]), rng.randint(0, 1))
    if "seek" in c:
        return "%s %d %d" % (c, slot, big if rng.random() < 0.5 else rng.randrange(0, 30000))
    if c in ("total", "rawtotal", "timetotal", "serial", "bitrate", "info"):
        return "%s %d %d" % (c, slot, rng.choice([-1, 0, 1, 2, 5, 100, -7]))
    if c == "halfrate":
        return "halfrate %d %d" % (slot, rng.randint(0, 1))
    if c == "crosslap":
        return "crosslap %d %d" % (slot, rng.randrange(nslots))
    return "%s %d" % (c, slot)


def gen_gap_case(rng, i):
    """a long link with a run of junk and lost pages in its middle, then seeks aimed all over the range the lost pages covered
    (the bisection must give up on the gap, not spin in it)"""
    n = rng.choice([150000, 300000])
    ops = ["case %d" % i, "link %d 44100 %s %d %d %d 0 0" % (rng.choice([1, 2]), rng.choice([0.1, 0.4]), n, rng.randrange(6), rng.randrange(1, 90000))]
    if rng.random() < 0.4:
        ops.append(V.gen_links(rng, 1)[0])
    first = rng.choice([5, 6, 8, 10])
    for _ in range(rng.choice([0, 3, 8, 20])):
        ops.append("pagedamage 6 %d 0 0" % first)                    # pages lost
    ops.append("pagedamage 13 %d 0 %d" % (first, rng.choice([1000, 70000, 140000, 200000, 400000])))
    ops.append("open 0 1 %d" % rng.choice([4096, 100000]))
    for _ in range(rng.randint(6, 14)):
        k = rng.choice(["pcmseek", "pcmseekpage", "timeseek", "pcmseeklap", "rawseek"])
        if k == "timeseek":
            ops.append("timeseek 0 %d" % rng.randrange(0, int(n / 44.1)))
        elif k == "rawseek":
            ops.append("rawseek 0 %d" % rng.randrange(0, 450000))
        else:
            ops.append("%s 0 %d" % (k, rng.randrange(0, n)))
        ops.append("read 0 4096")
    ops.append("clear 0")
    return ops, False


def gen_lying_case(rng, i):
    """a link cut off after its first audio page(s), that page claiming a granule position far below (or above) what was decoded on it and no
    end-of-stream flag — optionally followed by another link; then reads to the end of what is there and every kind of cross-lap from it"""
    ops = ["case %d" % i, "link %d %d %s %d %d %d 0 %d" % (rng.choice([1, 2]), rng.choice([8000, 44100]), rng.choice([0.1, 0.4]), rng.choice([20000, 60000]),
                                                         rng.randrange(6), rng.randrange(1, 90000), rng.choice([0, 0, 200, 1000]))]
    first = rng.choice([2, 2, 2, 3])                                 # (page 2 is the first audio page of an encoder-made link)
    ops.append("pagedamage 17 %d 0 0" % first)                       # everything behind page `first` is lost
    ops.append("pagedamage 10 %d 0 %d" % (first, rng.choice([1, 1, 0, 5, 300, 2 ** 40, -5])))
    if rng.random() < 0.4:
        ops.append(V.gen_links(rng, 1, tiny=True)[0])
    ops.append("open 0 1 %d" % rng.choice([4096, 1, 100000]))
    ops.append("open 1 1 4096")
    for _ in range(rng.randint(3, 8)):
        ops += ["read 0 4096"] * rng.choice([0, 1, 3, 8])
        k = rng.choice(["pcmseeklap", "rawseeklap", "pcmseekpagelap", "timeseeklap", "crosslap", "crosslap", "pcmseek", "rawseek"])
        if k == "crosslap":
            ops.append("crosslap 0 1")
            ops.append("read 1 4096")
        elif k.startswith("raw"):
            ops.append("%s 0 %d" % (k, rng.randrange(0, 9000)))
        elif k.startswith("time"):
            ops.append("%s 0 %d" % (k, rng.randrange(0, 400)))
        else:
            ops.append("%s 0 %d" % (k, rng.randrange(0, 3000)))
    ops += ["clear 0", "clear 1"]
    return ops, False


def gen_bos_case(rng, i):
    """links opened by several beginning-of-stream pages (multiplexed streams, some of them not Vorbis), with such pages duplicated, given each other's
    serial number or swapped — the open-time bookkeeping of serial numbers on its refusal paths; opened seekable and streaming"""
    ops = ["case %d" % i]
    nl = rng.choice([1, 2, 3])
    nbos = 0
    for k in range(nl):
        ops.append(V.gen_links(rng, 1, tiny=True)[0])
        nbos += 1
        for _ in range(rng.choice([0, 1, 1, 2])):
            ops.append("mux " + V.gen_links(rng, 1, tiny=True)[0][5:])
            nbos += 1
    for _ in range(rng.choice([1, 1, 2, 3])):
        b = rng.randrange(nbos)
        k = rng.choice([121, 107, 107, 109, 108, 121])
        if k == 121:
            ops.append("pagedamage 121 %d 0 0" % b)
            if rng.random() < 0.7:
                ops.append("pagedamage 107 %d 0 0" % b)
        elif k == 109:
            ops.append("pagedamage 109 %d 0 %d" % (b, rng.choice([1000 + rng.randrange(5), 500000 + rng.randrange(5), 424242])))
        else:
            ops.append("pagedamage %d %d %d 0" % (k, b, rng.randrange(nbos)))
    for sl in (0, 1):
        ops.append("%s %d %d %d" % (rng.choice(["open", "open", "test"]), sl, 1 - sl if rng.random() < 0.8 else sl, rng.choice([4096, 1, 513, 100000])))
        if ops[-1].startswith("test"):
            ops.append("testopen %d" % sl)
    for _ in range(rng.randint(2, 10)):
        ops.append(rand_call(rng, rng.randrange(2), 2))
    ops += ["clear 0", "clear 1"]
    return ops, False


def gen_xlap_case(rng, i):
    """two handles on a chain whose links have different short-block sizes, decoding at different rates (half-rate on one of them), positioned in
    different links, then cross-lapped in both directions: the lapping lengths and window tables of the two sides are not the same"""
    a = "link %d 44100 -0.1 %d %d %d 0 0" % (rng.choice([1, 2]), rng.choice([9000, 20000]), rng.randrange(6), rng.randrange(1, 40000))
    b = "link %d %d %s %d %d %d 0 0" % (rng.choice([1, 2]), rng.choice([44100, 8000, 22050]), rng.choice([0.4, 0.7]), rng.choice([9000, 20000]), rng.randrange(6), rng.randrange(40001, 90000))
    links = [a, b] if rng.random() < 0.5 else [b, a]
    ops = ["case %d" % i] + links + ["open 0 1 4096", "open 1 1 4096"]
    hr = rng.choice([0, 1])
    ops.append("halfrate %d 1" % hr)
    if rng.random() < 0.2:
        ops.append("halfrate %d 1" % (1 - hr))
    n0 = int(links[0].split(" ")[4])
    for _ in range(rng.randint(3, 8)):
        p0, p1 = rng.randrange(0, n0), n0 + rng.randrange(0, 9000)
        if rng.random() < 0.5:
            p0, p1 = p1, p0
        ops += ["pcmseek 0 %d" % p0, "pcmseek 1 %d" % p1]
        ops += ["read 0 %d" % rng.choice([1, 64, 4096])] * rng.choice([0, 1, 2])
        ops += ["read 1 %d" % rng.choice([1, 64, 4096])] * rng.choice([0, 1, 2])
        x, y = rng.choice([(0, 1), (1, 0)])
        ops += ["crosslap %d %d" % (x, y), "read %d 4096" % y, "read %d 64" % y]
        if rng.random() < 0.3:
            ops.append("halfrate %d %d" % (rng.randrange(2), rng.randint(0, 1)))
    ops += ["clear 0", "clear 1"]
    return ops, False


def gen_junkwalk_case(rng, i):
    """a link of one packet per page, some pages cut inside their packet (the second half then carries only the packet's tail: a seek that ends there
    walks backwards page by page), with junk or a false capture pattern between the two halves (the sync layer has to grow and compact its buffer
    while a page found earlier is still referred to); seeks all over the link; for the memory checker"""
    ch, rate = rng.choice([(3, 44100), (3, 48000)])
    n = rng.choice([3000, 6000])
    ops = ["case %d" % i, "link %d %d 0.7 %d 5 %d 1 0" % (ch, rate, n, rng.randrange(1, 90000))]
    for j in sorted(rng.sample(range(3, 24), rng.choice([2, 4, 6])), reverse=True):
        ops.append("pagedamage 16 %d 0 %d" % (j, rng.randrange(0, 3)))
        if rng.random() < 0.8:
            ops.append("pagedamage %d %d 0 %d" % (rng.choice([22, 22, 13]), j, rng.choice([0, 30, 500, 3000])))
    if rng.random() < 0.6:
        # a long run of junk late in the file: the seek's byte/position interpolation then starts its probes further back or further on
        ops.append("pagedamage 13 %d 0 %d" % (rng.randrange(20, 45), rng.choice([20000, 70000, 150000])))
    ops.append("open 0 1 %d" % rng.choice([4096, 100000]))
    for _ in range(40):
        ops.append("%s 0 %d" % (rng.choice(["pcmseek", "pcmseek", "pcmseekpage", "pcmseeklap"]), rng.randrange(0, n + 1)))
        if rng.random() < 0.3:
            ops.append("read 0 64")
    ops.append("clear 0")
    return ops


def gen_case(rng, i, tier, setups):
    if i % 12 == 11:
        return gen_xlap_case(rng, i)
    if i % 12 == 9 or i % 12 == 2:
        return gen_bos_case(rng, i)
    if i % 12 == 5:
        return gen_gap_case(rng, i)
    if i % 12 == 7:
        return gen_lying_case(rng, i)
    ops = ["case %d" % i]
    style = rng.random()
    intact = False
    if style < 0.12:
        # no Ogg at all
        ops.append("garbage %d %d" % (rng.choice([0, 1, 26, 27, 28, 100, 5000, 70000]), rng.randrange(1, 99999)))
    else:
        nl = rng.choice([1, 2, 3, 5]) if style > 0.2 else rng.choice([8, 20])
        for k in range(nl):
            r = rng.random()
            if setups and r < 0.25:
                o, n, inf = V.raw_link_from(rng, rng.choice(setups), rng.choice([7000 + k, 7000, 1000 + k]), rng.choice([8000, 44100, 1]), rng.randint(0, 30), trim=rng.choice([None, 3, 50]))
                ops += o
            else:
                ops.append(V.gen_links(rng, 1, tiny=(nl > 5))[0])
                if r > 0.85:
                    ops.append("mux " + V.gen_links(rng, 1, tiny=True)[0][5:])
            if rng.random() < 0.15:
                ops.append("garbage %d %d" % (rng.choice([1, 27, 300, 66000]), rng.randrange(1, 99999)))
        ndam = rng.choice([0, 0, 1, 1, 2, 4, 8])
        intact = ndam == 0
        for _ in range(ndam):
            d = rng.random()
            if d < 0.5:
                kind = rng.choice([6, 7, 8, 9, 10, 11, 12])
                v = {9: rng.choice([7000, 1000, 1001, 424242]), 10: rng.choice([-1, 0, 1, 2 ** 40, -5, 12345]), 11: rng.choice([1, 2, 4, 6]),
                     12: rng.choice([0, 1, 7, 2 ** 31])}.get(kind, 0)
                ops.append("pagedamage %d %d %d %d" % (kind, rng.randrange(0, 60), rng.randrange(0, 60), v))
            else:
                ops.append("damage %d %d %d" % (rng.choice([1, 2, 3, 3, 4, 5]), rng.randrange(0, 12000), rng.choice([1, 3, 27, 300, 5000])))
    if intact:
        ops += ["table"]
    nslots = rng.choice([1, 1, 2])
    for sl in range(nslots):
        ops.append("%s %d %d %d" % (rng.choice(["open", "open", "open", "test"]), sl, rng.choice([1, 1, 1, 0]), rng.choice([4096, 1, 7, 513, 100000])))
        if ops[-1].startswith("test") and rng.random() < 0.8:
            ops.append("testopen %d" % sl)
    for _ in range(rng.randint(5, 40)):
        ops.append(rand_call(rng, rng.randrange(nslots), nslots))
    for sl in range(nslots):
        ops.append("clear %d" % sl)
        if rng.random() < 0.3:
            ops.append("read %d 64" % sl)          # on a cleared handle: must be refused, not crash
    return ops, intact


def oracle(d):
    for op, a in d["ans"]:
        if a is None or isinstance(a, list) or a.endswith("notopen"):
            continue
        t = op.split(" ")
        f = V.kv(a)
        rc = f.get("rc")
        if t[0] in ("open", "test", "testopen"):
            if rc not in ("0", "-9999") and rc not in CODES:
                return "code: %s returned %s" % (t[0], rc)
            if rc not in ("0", "-9999") and t[0] != "testopen":
                if f.get("zeroed") != "1":
                    return "open-cleared: a failed open left the handle uncleared: " + a
                if f.get("closed") != "0":
                    return "open-closed: a failed open closed the data source: " + a
            continue
        if rc is not None:
            if rc.startswith("OV_"):
                if rc not in CODES:
                    return "code: %s returned %s" % (op, rc)
            else:
                v = int(rc)
                if "seek" in t[0] and v != 0:
                    return "code: %s returned %d, neither 0 nor an error code" % (op, v)
                if t[0] == "read" and (v < 0 or v > int(t[2])):
                    return "count: %s returned %d" % (op, v)
                if t[0] == "readi" and (v < 0 or v > max(0, int(t[2]))):
                    return "count: %s returned %d bytes" % (op, v)
                if t[0] == "halfrate" and v != 0:
                    return "code: %s returned %d" % (op, v)
        if t[0] == "clear" and f.get("closed") != "1":
            return "close-count: " + a
    return None


def run(chk):
    theorems = vlib.theorem_names("C03")
    broken = chk.proof_side(theorems)
    n = 150 if chk.tier == "quick" else 4000
    setups = V.valid_setups(chk.rng, 10 if chk.tier == "quick" else 40)
    gens = [gen_case(chk.rng, i, chk.tier, setups) for i in range(n)]
    corpus = common.load_corpus("C03", 100000)
    allcases = corpus + [g[0] for g in gens]
    res_model = V.run_vf(allcases, model=True, timeout=2400, env={"VERIF_CASE_TIMEOUT": "90"})
    res_plain = V.run_vf(allcases, model=False, variant="plain", env={"MALLOC_PERTURB_": "165", "VERIF_CASE_TIMEOUT": "60"}, timeout=2400)
    # what the compiler's sanitizer cannot see: accesses made INSIDE the (uninstrumented, system) libogg through pointers vorbisfile kept into a buffer
    # that libogg has meanwhile freed or moved — a small targeted batch runs under valgrind's memory checker (addressability errors only)
    import shutil
    res_vg = []
    if shutil.which("valgrind"):
        jw = [gen_junkwalk_case(chk.rng, 700000 + j) for j in range(24 if chk.tier == "quick" else 400)]
        res_vg = V.run_vf(jw, model=False, variant="plain", env={"VERIF_CASE_TIMEOUT": "600"}, timeout=2400,
                          wrap=["valgrind", "--quiet", "--error-exitcode=97", "--exit-on-first-error=yes", "--undef-value-errors=no", "--leak-check=no"])
        chk.coverage["valgrind_cases"] = len(jw)
    else:
        chk.assumptions.append("valgrind not found: the memory-checker batch was skipped")
    ofail = []
    stats = {"open_ok": 0, "open_failed": 0, "intact_model_compared": 0, "calls": 0}
    for d in res_model + res_plain + res_vg:
        if d["crash"]:
            continue
        o = oracle(d)
        if o:
            ofail.append((d, o))
    for d in res_model:
        if d["crash"]:
            continue
        for op, a in d["ans"]:
            if isinstance(a, str) and op.startswith(("open", "test ")):
                stats["open_ok" if " rc=0" in a else "open_failed"] += 1
            if isinstance(a, str):
                stats["calls"] += 1
        if d.get("mlines") is not None:
            stats["intact_model_compared"] += 1
        chk.note_case("|".join(o[:40] for o in d["ops"] if o.startswith(("link", "rawbegin", "garbage", "damage", "pagedamage", "mux", "open", "test"))), True,
                      {"ops": [o[:90] for o in d["ops"][1:10]], "answers": [a[:110] for _, a in d["ans"] if isinstance(a, str)][:10]})
    chk.coverage["rule"] = ("physical streams: pure junk of many lengths; chains of 1-20 links made by the encoder, hand-muxed over generated set-ups (64..8192 blocks, repeated serial numbers, "
                            "end-trimmed, zero packets), multiplexed with a foreign stream, with junk between links; then 0-8 damages: page deleted / duplicated / swapped, serial number, "
                            "granule position (-1, 0, huge, negative), header flags (BOS/EOS/continued) or sequence number rewritten with a valid CRC, bytes truncated / zeroed / flipped / removed / repeated; "
                            "1-2 handles opened seekable or not (ov_open or ov_test+ov_test_open, callback chunk 1..100000) and 5-40 random public calls with in-range, huge and negative arguments, "
                            "calls after ov_clear; every 12th case is a long link with lost pages and 1-400 kB of junk in its middle and seeks aimed across the gap; a per-case watchdog (SIGALRM) turns a call that never returns into a failure with that case as the replay; ASan+UBSan build and a plain build with MALLOC_PERTURB_, plus a batch of re-paginated links with junk and false capture patterns between their pages under valgrind (what happens inside the uninstrumented libogg); oracle: documented return codes, counts within the request, failed open leaves the handle zeroed "
                            "and the source unclosed, one close per successful open; 20 min time-out per batch = termination; undamaged cases are also compared line by line with the Lean model")
    chk.coverage["distribution"] = stats
    chk.assumptions += ["termination of the real C is observed (time-out), not proved; the theorems prove it for the model's backward page search (the loop repaired as F6) over every page table",
                        "libogg is outside the model and exercised as linked"]
    V.settle_vf(chk, res_model + res_plain + res_vg, broken, ofail)


replay = __import__("checks.c07", fromlist=["replay"]).replay
