"""C08 — seeks reach every valid target and land where the API says."""
from . import common, vfcommon as V
import vlib

LEVEL = "proof"


def page_bounds(table_lines, serials, pcml):
    """global sample positions at which pages of the chain end (and links start)"""
    b = set()
    start = 0
    for li, s in enumerate(serials):
        b.add(start)
        for l in table_lines:
            if l.startswith("pg "):
                f = V.kv(l)
                if int(f["serial"]) == s and int(f["gran"]) >= 0 and f["bos"] == "0":
                    g = int(f["gran"]) - pcml[2 * li]
                    if 0 <= g <= pcml[2 * li + 1]:
                        b.add(start + g)
        start += pcml[2 * li + 1]
    return sorted(b)


SETUPS = []          # generated set-ups (3, 5, 6, 7 modes preferred, two block sizes) for hand-muxed links; filled by run()


def gen_case(rng, i, tier):
    links = V.gen_links(rng)
    if i % 6 == 4:
        # a link much longer than the 64 kB the bisection reads at a time (shorter ones are scanned linearly), targets in its first pages
        links = ["link 2 44100 %s %d %d %d 0 0" % (rng.choice([0.4, 0.7]), rng.choice([500000, 800000]), rng.choice([2, 5]), rng.randrange(1, 90000))]
        if rng.random() < 0.4:
            links.insert(rng.randrange(2), V.gen_links(rng, 1, tiny=True)[0])
    lens = [int(l.split(" ")[4]) for l in links]
    rates = [int(l.split(" ")[2]) for l in links]
    pre = V.with_mux(rng, links) + V.gen_splits(rng, links)
    if SETUPS and i % 6 != 4 and rng.random() < 0.3:
        # one more link, hand-muxed over a generated set-up (3, 5, 6, 7 modes — the encoder only ever writes one or two —, any mode order): the
        # discard loop of the sample seek sizes every packet it skips from its mode number
        rate = rng.choice([8000, 44100])
        o, nraw, inf = V.raw_link_from(rng, rng.choice(SETUPS), 7000 + i % 900, rate, rng.randint(8, 120), trim=rng.choice([None, None, 3, 50]), flush_p=rng.choice([0.05, 0.2]))
        if rng.random() < 0.5:
            pre = pre + o
            lens.append(nraw)
            rates.append(rate)
        else:
            pre = o + pre
            lens.insert(0, nraw)
            rates.insert(0, rate)
    total = sum(lens)
    ops = ["case %d" % i] + pre + ["table", "ref 0", "open 0 1 %d" % rng.choice([4096, 1, 513, 100000])]
    bounds = [0]
    for n in lens:
        bounds.append(bounds[-1] + n)
    tb = [0.0]
    for n, r in zip(lens, rates):
        tb.append(tb[-1] + 1000.0 * n / r)

    def target():
        if i % 6 == 4 and rng.random() < 0.6:
            k = max(range(len(lens)), key=lambda j: lens[j])
            return bounds[k] + rng.randrange(0, 60000)
        b = rng.choice(bounds)
        return rng.choice([b, b + 1, b - 1, rng.randrange(0, total + 2), total, total - 1, 0, 1,
                           rng.choice([256, 512, 1024, 2048, 4096]) * rng.randrange(1, 8) + rng.choice([-1, 0, 1])])
    for _ in range(rng.randint(6, 24)):
        r = rng.random()
        if r < 0.12:      # history: reads, raw seeks
            ops += ["read 0 %d" % rng.choice([1, 64, 4096]) for _ in range(rng.randint(1, 4))]
            continue
        if r < 0.2:
            ops.append("rawseek 0 %d" % rng.randrange(0, 14000))
            continue
        if r < 0.3:       # out of range
            ops.append("tell 0")
            ops.append("%s 0 %d" % (rng.choice(["pcmseek", "pcmseekpage"]), rng.choice([-1, -5, total + 1, total + 1000, -(2 ** 40), 2 ** 40])))
            ops.append("tell 0")
            ops.append("read 0 64")
            continue
        if r < 0.36:
            ops.append("tell 0")
            # below zero, beyond the end, and the first value out of range exactly: the duration itself, the double above it, not-a-number;
            # through the plain and the lapped entry points (which check the range before they collect their lapping samples)
            ops.append("%s 0 %s" % (rng.choice(["timeseek", "timeseekpage", "timeseeklap", "timeseekpagelap"]),
                                    rng.choice([-1, -1000, int(tb[-1]) + 2, int(tb[-1]) + 5000, "end", "end", "endp", "nan"])))
            ops.append("tell 0")
            ops.append("read 0 64")
            continue
        if r < 0.7:
            p = max(0, min(total, target()))
            ops.append("pcmseek 0 %d" % p)
        elif r < 0.85:
            p = max(0, min(total, target()))
            ops.append("pcmseekpage 0 %d" % p)
        else:
            t = rng.choice([0, int(tb[-1]) - 1, rng.randrange(0, int(tb[-1]) + 1), int(rng.choice(tb))])
            if rng.random() < 0.35:
                # inside the last sample of a link: 1/4 .. 9/4 samples before its end
                t = "le%dq%d" % (rng.randrange(len(lens)), rng.choice([1, 1, 2, 3, 5, 9]))
                ops.append("tell 0")           # (before the start of the file for an empty first link: refused, nothing moves)
                ops.append("%s 0 %s" % (rng.choice(["timeseek", "timeseekpage", "timeseekpage"]), t))
            else:
                ops.append("%s 0 %d" % (rng.choice(["timeseek", "timeseek", "timeseekpage"]), max(0, t)))
        ops.append("tell 0")
        ops += ["read 0 %d" % rng.choice([1, 64, 4096]) for _ in range(rng.choice([0, 1, 1, 3]))]
    ops.append("clear 0")
    return ops


def oracle(d):
    lens = V.link_lengths(d["ops"])
    rates = V.link_rates(d["ops"])
    total = sum(lens)
    bounds = [0]
    for n in lens:
        bounds.append(bounds[-1] + n)
    tb = [0.0]
    for n, r in zip(lens, rates):
        tb.append(tb[-1] + float(n) / r)
    table, pb = None, None
    last_tell = None
    prev = None
    for op, a in d["ans"]:
        name = op.split(" ")[0]
        if name == "table":
            table = a
            continue
        if a is None:
            continue
        f = V.kv(a)
        if name == "open":
            if f.get("rc") != "0":
                return "open: intact stream refused: " + a
            if [int(x) for x in f["pcml"].split(",")][1::2] != lens:
                return "open-lengths: link lengths %s, encoded %s" % (f["pcml"], lens)
            pb = page_bounds(table, [int(x) for x in f["serials"].split(",")], [int(x) for x in f["pcml"].split(",")])
            last_tell = 0
        elif name == "tell":
            last_tell = int(a.split(" ")[1])
        elif name == "pcmseek":
            p = int(op.split(" ")[2])
            if 0 <= p <= total:
                if f["rc"] != "0":
                    return "reach: %s failed with %s" % (op, f["rc"])
                if int(f["tell"]) != p:
                    return "exact: %s landed at %s" % (op, f["tell"])
            else:
                if f["rc"] == "0":
                    return "range: %s accepted" % op
                if int(f["tell"]) != last_tell:
                    return "undisturbed: rejected %s moved the position %d -> %s" % (op, last_tell, f["tell"])
        elif name == "pcmseekpage":
            p = int(op.split(" ")[2])
            if 0 <= p <= total:
                if f["rc"] != "0":
                    return "reach: %s failed with %s" % (op, f["rc"])
                t = int(f["tell"])
                if t > p:
                    return "page-after: %s landed at %d, after the target" % (op, t)
                before = [b for b in pb if b < p] or [0]
                if t < before[-1]:
                    return "page-early: %s landed at %d, before the page boundary %d preceding the target" % (op, t, before[-1])
            else:
                if f["rc"] == "0":
                    return "range: %s accepted" % op
                if int(f["tell"]) != last_tell:
                    return "undisturbed: rejected %s moved the position %d -> %s" % (op, last_tell, f["tell"])
        elif name in ("timeseek", "timeseekpage", "timeseeklap", "timeseekpagelap") and (op.split(" ")[2] in ("end", "endp", "nan") or name.endswith("lap")):
            # (the lapped entry points are only issued with out-of-range arguments here)
            if f["rc"] == "0":
                return "range: %s accepted" % op
            if int(f["tell"]) != last_tell:
                return "undisturbed: rejected %s moved the position %d -> %s" % (op, last_tell, f["tell"])
        elif name in ("timeseek", "timeseekpage"):
            arg = op.split(" ")[2]
            if arg.startswith("le"):
                k, qn = (int(x) for x in arg[2:].split("q"))
                t = 0.0
                for i2 in range(k + 1):
                    t += float(lens[i2]) / rates[i2]
                t -= qn / (4.0 * rates[k])
            else:
                t = int(arg) / 1000.0
            if 0 <= t < tb[-1]:
                if f["rc"] != "0":
                    return "reach: %s failed with %s" % (op, f["rc"])
                l = max(k for k in range(len(lens)) if tb[k] <= t)
                want = bounds[l] + (t - tb[l]) * rates[l]
                got = int(f["tell"])
                if name == "timeseek" and abs(got - want) > 1.0 + 1e-6:
                    return "time: %s landed at %d, %.3f samples from t*rate" % (op, got, got - want)
                if name == "timeseekpage":
                    before = [b for b in pb if b < int(want)] or [0]
                    if got > want + 1e-6 or got < before[-1]:
                        return "time-page: %s landed at %d, target %.2f, preceding boundary %d" % (op, got, want, before[-1])
            elif t < 0 or t > tb[-1]:
                if f["rc"] == "0":
                    return "range: %s accepted" % op
                if int(f["tell"]) != last_tell:
                    return "undisturbed: rejected %s moved the position" % op
        elif name == "read":
            rc = f["rc"]
            if rc.startswith("OV_"):
                if prev is not None and prev[0].split(" ")[0] == "rawseek" and V.kv(prev[1]).get("rc") != "0":
                    pass
                else:
                    return "hole: read on an intact stream returned " + rc
            elif int(rc) > 0 and f.get("ok") != "1":
                return "data: %s" % a
            elif int(rc) == 0 and int(f["t0"]) != total:
                return "eof: end of file reported at %s of %d" % (f["t0"], total)
            if prev is not None and prev[0].startswith("pcmseek ") and int(prev[0].split(" ")[2]) == total and rc != "0":
                return "eof-missing: read after a seek to the total length returned " + rc
        if name != "tell":
            prev = (op, a)
    return None


def run(chk):
    theorems = vlib.theorem_names("C08")
    broken = chk.proof_side(theorems)
    n = 60 if chk.tier == "quick" else 1500
    cand = V.valid_setups(chk.rng, 40 if chk.tier == "quick" else 120)
    cand.sort(key=lambda su: -((len(su["flags"]) in (3, 5, 6, 7)) + (0 < sum(su["flags"]) < len(su["flags"])) + (su["b0"] != su["b1"])))
    SETUPS[:] = cand[:10 if chk.tier == "quick" else 40]
    cases = common.load_corpus("C08", 100000) + [gen_case(chk.rng, i, chk.tier) for i in range(n)]
    res = V.run_vf(cases)
    ofail = []
    ntargets = 0
    for d in res:
        if d["crash"]:
            continue
        o = oracle(d)
        if o:
            ofail.append((d, o))
        ntargets += sum(1 for op in d["ops"] if "seek" in op)
        chk.note_case("|".join(o for o in d["ops"] if o.startswith("link")), True,
                      {"ops": d["ops"][1:9], "answers": [a for _, a in d["ans"] if isinstance(a, str)][:8]})
    chk.coverage["rule"] = ("chains as in C07; sample, page and time seeks aimed at 0, L, every link boundary ±1, block-size multiples ±1 and random positions, "
                            "interleaved with reads and raw seeks as prior history; out-of-range sample and time arguments with a tell before and after and a read after; "
                            "page-boundary oracle computed from the page table (granule positions of the link's pages); everything also compared with the Lean model")
    chk.coverage["seek_calls"] = ntargets
    chk.assumptions += ["page boundaries are taken from the harness' libogg page table", "time targets are compared in double arithmetic with a tolerance of one sample"]
    V.settle_vf(chk, res, broken, ofail)


replay = __import__("checks.c07", fromlist=["replay"]).replay
