"""C12 — I/O failures surface as error codes and leave the handle usable."""
from . import common, vfcommon as V
import vlib

LEVEL = "proof"
SEEKS = ["rawseekto", "rawseek", "pcmseek", "pcmseekpage", "timeseek", "timeseekpage", "pcmseeklap", "rawseeklap", "timeseeklap", "pcmseekpagelap", "timeseekpagelap"]
CODES = {"OV_FALSE", "OV_EOF", "OV_HOLE", "OV_EREAD", "OV_EFAULT", "OV_EIMPL", "OV_EINVAL", "OV_ENOTVORBIS", "OV_EBADHEADER",
         "OV_EVERSION", "OV_ENOTAUDIO", "OV_EBADPACKET", "OV_EBADLINK", "OV_ENOSEEK"}


def gen_open_case(rng, i, k, kind, persist, nl=None):
    links = V.gen_links(rng, nl or rng.choice([1, 2, 3]), tiny=True)
    sk = rng.choice([1, 1, 1, 0])
    # the fault-free twin first: its link table is what a successful open has to find
    ops = ["case %d" % i] + links + ["ref 0", "open 1 %d 4096" % sk, "open 0 %d %d %d %d %d" % (sk, rng.choice([4096, 513, 64]), k, kind, persist)]
    ops += ["nofault 0", "pcmseek 0 0", "read 0 4096", "read 0 4096", "clear 0"]
    return ops


def gen_case(rng, i, tier):
    links = V.gen_links(rng, rng.choice([1, 2, 2, 3]))
    lens = [int(l.split(" ")[4]) for l in links]
    total = sum(lens)
    ops = ["case %d" % i] + V.with_mux(rng, links, p=0.2) + V.gen_splits(rng, links) + ["ref 0", "open 0 1 %d" % rng.choice([4096, 513, 64, 100000]), "open 1 1 4096"]

    def someop(slot):
        r = rng.random()
        if r < 0.35:
            return "read %d %d" % (slot, rng.choice([1, 64, 4096]))
        if r < 0.5:
            return "rawseek %d %d" % (slot, rng.randrange(0, 12000))
        kind = rng.choice(SEEKS[1:])
        if kind.startswith("time"):
            return "%s %d %d" % (kind, slot, rng.randrange(0, 1200))
        return "%s %d %d" % (kind, slot, rng.randrange(0, total + 1))
    for _ in range(rng.randint(0, 4)):
        ops.append(someop(0))
    for _ in range(rng.randint(1, 4)):
        # a fault burst: armed k callbacks from now, then 1-3 calls made under it
        ops.append("fault 0 %d %d %d" % (rng.choice([0, 0, 1, 2, 3, 5, 8, 13, 30]), rng.choice([1, 1, 2, 2, 3, 4, 4]), rng.randint(0, 1)))
        for _ in range(rng.randint(1, 3)):
            o = someop(0)
            ops.append(o)
            if o.startswith(("pcmseekpage ", "timeseekpage ")):
                # where did a page seek that claims success under the fault land, and where does the same seek land without one
                ops += ["ffq 0", "tell 0", o.replace(" 0 ", " 1 ", 1), "tell 1"]
        ops.append("nofault 0")
        # the callbacks work again: a seek to any valid position, then reads, on the handle and on its untouched twin
        kind = rng.choice(["pcmseek", "pcmseek", "pcmseekpage", "rawseek", "timeseek", "rawseekto", "rawseekto"])
        arg = rng.randrange(0, 1000) if kind == "timeseek" else (rng.randrange(0, 6000) if kind == "rawseek" else rng.randrange(0, total + 1))
        for slot in ((1, 0) if kind == "rawseekto" else (0, 1)):
            if kind == "rawseekto":
                # back to the byte position the failed handle stands at (the twin goes there first, while that position is still readable)
                ops.append("rawseekto %d 0" % slot)
            else:
                ops.append("%s %d %d" % (kind, slot, arg))
            ops.append("tell %d" % slot)
            for ln in (4096, 64, 4096):
                ops.append("read %d %d" % (slot, ln))
    ops += ["clear 0", "clear 1"]
    return ops


def gen_backwalk_case(rng, i):
    """a link re-paginated so that many pages carry only the tail of a packet begun on the page before (legal Ogg): a seek whose bisection ends on such a
    page walks backwards page by page (_get_prev_page); faults of every kind, one-shot and persisting, are armed k callbacks ahead of such seeks"""
    ch, rate = rng.choice([(3, 44100), (3, 48000)])
    n = rng.choice([6000, 12000, 20000])
    links = ["link %d %d 0.7 %d 5 %d %d %d" % (ch, rate, n, rng.randrange(1, 90000), rng.choice([0, 1]), rng.choice([0, 1000]))]
    ops = ["case %d" % i] + links
    for j in range(rng.choice([6, 12, 25])):
        ops.append("pagedamage 16 %d 0 %d" % (rng.randrange(0, 40), rng.randrange(0, 8)))
    ops += ["ref 0", "open 0 1 %d" % rng.choice([4096, 513, 100000]), "open 1 1 4096"]
    for _ in range(rng.randint(10, 24)):
        t = rng.randrange(0, n + 1)
        kind = rng.choice(["pcmseek", "pcmseek", "pcmseekpage", "pcmseeklap", "timeseek"])
        arg = int(1000.0 * t / rate) if kind == "timeseek" else t
        ops.append("fault 0 %d %d %d" % (rng.randrange(0, 30), rng.choice([2, 2, 1, 3, 4]), rng.choice([1, 1, 0])))
        ops.append("%s 0 %d" % (kind, arg))
        ops.append("nofault 0")
        t2 = rng.randrange(0, n + 1)
        for slot in (0, 1):
            ops += ["pcmseek %d %d" % (slot, t2), "tell %d" % slot, "read %d 4096" % slot]
    ops += ["clear 0", "clear 1"]
    return ops


def strip_slot(op):
    t = op.split(" ")
    return " ".join([t[0]] + t[2:])


def compare_recovery(rec0, rec1):
    """answers of the handle that saw the failure vs its never-failed twin, after the callbacks work again"""
    for (op0, a0), (op1, a1) in zip(rec0, rec1):
        if op0 != op1:
            return None
        fa, fb = V.kv(a0), V.kv(a1)
        name = op0.split(" ")[0]
        if name in SEEKS and (fa.get("state") in ("2",) or fb.get("state") in ("2",)):
            # a seek that found no further page of the stream (position at the very end, foreign pages of a multiplexed stream behind it) leaves the
            # handle without stream state on one side and positioned on the other depending on what happened to be buffered: the link shown is derived
            # from that state; position and the reads that follow are what is compared
            fa.pop("link", None)
            fb.pop("link", None)
        fa.pop("state", None)
        fb.pop("state", None)
        if name in SEEKS and fb.get("rc") != "0":
            return None            # the argument is refused on the twin as well: nothing to compare from here on
        if fa != fb or a0.split(" ")[0] != a1.split(" ")[0] or ("=" not in a1 and a0 != a1):
            return "recover: after the failure '%s' answers '%s', on a handle that never failed '%s'" % (op0, a0, a1)
        if name == "read" and fb.get("rc", "").isdigit() and int(fb["rc"]) > 0 and fb.get("ok") != "1":
            return "data: " + a1
    return None


TABLE = ("links", "end", "offs", "doffs", "serials", "pcml")


def oracle(d):
    under_fault = False
    rec = {0: [], 1: []}
    ref_table = None
    total = None
    ans = [(op, a) for op, a in d["ans"] if not (a is None or isinstance(a, list))]
    for j, (op, a) in enumerate(ans):
        t = op.split(" ")
        f = V.kv(a)
        if t[0] == "open":
            if f["rc"] == "0" and f.get("pcml"):
                total = sum(int(x) for x in f["pcml"].split(",")[1::2])
            if len(t) < 7 and f["rc"] == "0":
                ref_table = (t[2], {x: f.get(x) for x in TABLE})
            # a read error (kind 1) or a short read (kind 3) that open survives must not change what open finds
            if len(t) >= 7 and f["rc"] == "0" and t[5] in ("1", "3") and int(f.get("fired", "0")) > 0 and ref_table and ref_table[0] == t[2]:
                got = {x: f.get(x) for x in TABLE}
                if got != ref_table[1]:
                    return "open-table: open succeeded although a %s fired during it, with a link table that differs from the fault-free one: %s" % (
                        "read error" if t[5] == "1" else "one-byte read", a[:200])
            if f["rc"] != "0":
                if f["rc"] not in CODES:
                    return "code: open returned %s" % f["rc"]
                if f.get("zeroed") != "1":
                    return "open-cleared: failed open left the handle uncleared: " + a
                if f["closed"] != "0":
                    return "open-closed: failed open closed the data source: " + a
            continue
        if t[0] in ("fault", "nofault", "clear"):
            r = compare_recovery(rec[0], rec[1])
            if r:
                return r
            rec = {0: [], 1: []}
            under_fault = (t[0] == "fault")
            if t[0] == "clear" and not a.endswith("notopen") and f.get("closed") != "1":
                return "close-count: %s" % a
            continue
        if a.endswith("notopen"):
            continue
        rc = f.get("rc")
        if rc is not None and rc.startswith("OV_") and rc not in CODES:
            return "code: %s returned %s" % (op, rc)
        if t[0] in SEEKS and rc is not None and not rc.startswith("OV_") and rc != "0":
            return "code: %s returned %s, neither 0 nor an error code" % (op, rc)
        if t[0] == "ffq":
            # ans[j-1] is the page seek, then: tell 0, the twin's seek, tell 1
            if j >= 1 and j + 3 < len(ans) and f.get("kind") == "1" and int(f.get("fired", "0")) > 0:
                p0, p1 = V.kv(ans[j - 1][1]), V.kv(ans[j + 2][1])
                if p0.get("rc") == "0" and p1.get("rc") == "0":
                    t0, t1 = ans[j + 1][1], ans[j + 3][1]
                    if t0 != t1 and t0 != "tell %s" % total:        # (standing at the very end is the "end-of-file" outcome)
                        return "seek-under-read-error: '%s' returned 0 although a read error fired during it and stands at '%s'; without the fault it lands at '%s'" % (
                            ans[j - 1][0], t0, t1)
            continue
        if under_fault:
            continue
        if t[1] in ("0", "1"):
            rec[int(t[1])].append((strip_slot(op) if t[0] != "rawseekto" else "rawseekto", a))
    return compare_recovery(rec[0], rec[1])


def run(chk):
    theorems = vlib.theorem_names("C12")
    broken = chk.proof_side(theorems)
    cases = common.load_corpus("C12", 100000)
    i = 0
    # every callback index during open x every fault kind
    span = range(0, 24) if chk.tier == "quick" else range(0, 90)
    for k in span:
        for kind in (1, 2, 3, 4, 5):
            for persist in ((0, 1) if (chk.tier == "thorough" or k % 3 == 0) else (1,)):
                cases.append(gen_open_case(chk.rng, i, k, kind, persist))
                i += 1
            # one-shot faults inside the open-time scan of chains: every index, two and three links (the scan recurses once per link, and
            # what a level leaves behind when its own page search fails after the deeper levels succeeded is only seen there)
            for nl in ((2, 3) if kind in (1, 2, 4) else (2,)):
                cases.append(gen_open_case(chk.rng, i, k, kind, 0, nl))
                i += 1
    n = 150 if chk.tier == "quick" else 3000
    cases += [gen_case(chk.rng, i + j, chk.tier) for j in range(n)]
    cases += [gen_backwalk_case(chk.rng, i + n + j) for j in range(24 if chk.tier == "quick" else 400)]
    fired = 0
    ofail = []
    res_all = []
    for variant, env in (("san", None), ("plain", {"MALLOC_PERTURB_": "165"})):
        res = V.run_vf(cases, model=False, variant=variant, env=env)
        res_all += res
        for d in res:
            if d["crash"]:
                continue
            o = oracle(d)
            if o:
                ofail.append((d, o))
            for op, a in d["ans"]:
                if isinstance(a, str) and "fired=" in a:
                    fired += int(V.kv(a)["fired"])
            if variant == "san":
                chk.note_case("|".join(o for o in d["ops"] if o.startswith(("link", "fault", "open"))), True,
                              {"ops": d["ops"][1:10], "answers": [a for _, a in d["ans"] if isinstance(a, str)][:10]})
    chk.coverage["rule"] = ("(a) for every callback invocation index 0..N during ov_open_callbacks (N=23 quick, 89 thorough) and every fault kind (read error with errno, zero read, "
                            "one-byte read, seek -1, tell -1), one-shot and persisting, one-shot faults at every index on chains of two and of three links: failed open must leave the handle zeroed and the source unclosed; "
                            "(a') links re-paginated so that many pages carry only the tail of a packet: seeks that walk backwards page by page, with faults of every kind armed 0..29 callbacks ahead; "
                            "(b) random histories in which a fault is armed k callbacks ahead, 1-3 calls run under it, the fault is lifted, then the same seek + tell + 3 reads are "
                            "issued on the handle and on a twin that never saw a failure: the answer lines (return codes, positions, bit-exact data flag) must coincide; "
                            "run under ASan/UBSan and again un-instrumented with MALLOC_PERTURB_")
    chk.coverage["faults_fired"] = fired
    chk.assumptions += ["fault behaviour is not modelled in Lean: the theorems cover the part of recovery that is logic (a seek's search reads only the link table, every "
                        "failure path dumps the decoder and leaves the source attached); the differential twin run decides the rest on the real code"]
    V.settle_vf(chk, res_all, broken, ofail)


replay = __import__("checks.c07", fromlist=["replay"]).replay
