"""C11 — a damaged or skipped packet disturbs only its own neighbourhood."""
import os, sys, struct
from fractions import Fraction
from . import common
import vlib

LEVEL = "proof"
CONFIGS = [(1, 8000, "0.1"), (2, 8000, "0.5"), (1, 11025, "0.3"), (2, 16000, "0.4"), (1, 22050, "0.5"), (2, 22050, "0.2"), (2, 32000, "0.6"),
           (1, 44100, "0.4"), (2, 44100, "0.1"), (2, 44100, "0.9"), (2, 48000, "0.5"), (3, 44100, "0.3"), (6, 48000, "0.4"), (2, 96000, "0.5")]


def f32_to_frac(bits):
    return Fraction(struct.unpack(">f", struct.pack(">I", bits))[0])


def rnd32(x):
    """exact round-to-nearest-even of a rational to IEEE single (normal range), returned as bits"""
    if x == 0:
        return 0
    neg = x < 0
    x = abs(x)
    e = x.numerator.bit_length() - x.denominator.bit_length()
    if Fraction(2) ** e > x:
        e -= 1
    if Fraction(2) ** (e + 1) <= x:
        e += 1
    k = 23 - e
    y = x * Fraction(2) ** k
    q, r = divmod(y.numerator, y.denominator)
    twice = 2 * r
    if twice > y.denominator or (twice == y.denominator and q % 2 == 1):
        q += 1
    val = Fraction(q) / Fraction(2) ** k
    return struct.unpack(">I", struct.pack(">f", float(val) * (-1 if neg else 1)))[0]


def gen_direct(rng, i):
    ch, rate, q = rng.choice(CONFIGS)
    hs = 1 if rng.random() < 0.25 else 0
    lines = ["case %d" % i, "setup %d %d %s %d" % (ch, rate, q, hs)]
    for _ in range(rng.randint(6, 20)):
        if rng.random() < 0.12:
            lines.append("restart")
        lines.append("blk %d" % rng.randint(0, 1))
    return lines


def gen_real(rng, i, tier):
    ch, rate, q = rng.choice(CONFIGS)
    n = rng.choice([20000, 50000]) if tier == "quick" else rng.choice([50000, 150000])
    lines = ["case %d" % i, "real %d %d %s %d %d %d" % (ch, rate, q, rng.choice([0, 1, 3, 5, 5]), rng.randint(1, 10 ** 6), n)]
    for _ in range(12 if tier == "quick" else 40):
        kind = rng.choice([1, 2, 3, 4, 4, 5, 6, 7, 7])
        j = rng.randint(0, 60)
        arg = rng.choice([0, 1, 2, 5, 17]) if kind == 3 else rng.randint(0, 4000)
        lines.append("fault %d %d %d %d" % (kind, j, arg, rng.choice([0, 0, 1, 3, 7, 20, 50])))
    # the lapping view at every packet of a stretch (block-size switches are where its buffer handling differs)
    j0 = rng.randint(0, 30)
    for j in range(j0, j0 + (25 if tier == "quick" else 80)):
        lines.append("fault 7 %d 0 %d" % (j, rng.choice([0, 0, 3])))
    return lines


def gen_sweep(rng, i, tier):
    """every single packet of a stream with many block-size switches lost (and, on a second pass, duplicated): a loss next to a switch leaves the
    following long block with a window flag that describes the missing packet"""
    ch, rate, q = rng.choice([(1, 44100, "0.4"), (2, 44100, "0.5"), (2, 48000, "0.1"), (1, 22050, "0.5"), (2, 32000, "0.7")])
    lines = ["case %d" % i, "real %d %d %s %d %d %d" % (ch, rate, q, 10, rng.randint(1, 10 ** 6), 40000 if tier == "quick" else 120000)]
    for j in range(0, 90 if tier == "quick" else 260):
        lines.append("fault 1 %d 0 %d" % (j, rng.choice([0, 0, 3])))
    for j in range(0, 90 if tier == "quick" else 260, 3):
        lines.append("fault 2 %d 0 0" % j)
    return lines


def kv(l):
    return dict(t.split("=", 1) for t in l.split(" ")[1:] if "=" in t)


def run(chk):
    theorems = vlib.theorem_names("C11")
    broken = chk.proof_side(theorems)
    nd, nr = (24, 16) if chk.tier == "quick" else (200, 200)
    dcases = [gen_direct(chk.rng, i) for i in range(nd)]
    rcases = [gen_real(chk.rng, nd + i, chk.tier) for i in range(nr)] + [gen_sweep(chk.rng, nd + nr + k, chk.tier) for k in range(2 if chk.tier == "quick" else 8)]
    crash, ofail, dis = [], [], []
    # ---- part 1: provenance model vs vorbis_synthesis_blockin on marker blocks
    dres = vlib.run_harness_only("c11", dcases, timeout=1800)
    mcases, idx = [], []
    for ci, r in enumerate(dres):
        if r["c"] is None or (r["rc_c"] != 0 and r["err_c"]):
            crash.append(r)
            continue
        st = kv(r["c"][1]) if len(r["c"]) > 1 else {}
        if st.get("rc") != "0":
            continue
        mcases.append([r["ops"][0], "sizes %s %s" % (st["n0"], st["n1"])] + r["ops"][2:])
        idx.append(ci)
    mres = vlib.run_model_only("c11", mcases, timeout=1800)
    cells_checked = 0
    for k, mr in enumerate(mres):
        r = dres[idx[k]]
        st = kv(r["c"][1])
        ch = int(r["ops"][1].split()[1])
        n0, n1 = int(st["n0"]), int(st["n1"])
        win = {n0: st["win0"], n1: st["win1"]}
        couts = [l for l in r["c"][2:] if l.startswith("out ")]
        mouts = [l for l in (mr["m"] or [])[1:] if l.startswith("out ")]
        if mr["m"] is None or len(couts) != len(mouts):
            dis.append(({"ops": r["ops"], "c": couts[:3], "m": mouts[:3]}, (0, "%d blocks" % len(couts), "%d model blocks" % len(mouts))))
            continue
        flags = [int(o.split()[1]) for o in r["ops"][2:] if o.startswith("blk ")]
        for bi, (cl, ml) in enumerate(zip(couts, mouts)):
            c, m = kv(cl), kv(ml)
            if c["n"] != m["n"]:
                dis.append(({"ops": r["ops"], "c": [cl[:120]], "m": [ml[:120]]}, (bi, "n=" + c["n"], "n=" + m["n"])))
                break
            if c["n"] == "0":
                continue
            vals = [int(c["v"][8 * t:8 * t + 8], 16) for t in range(int(c["n"]))]
            cells = m["cells"].split("|")
            bad = None
            for t, (v, cell) in enumerate(zip(vals, cells)):
                srcs = cell.split(",")
                if "stale" in srcs:
                    bad = "model says sample %d of block %d is stale" % (t, bi)
                    break
                mark = lambda s: f32_to_frac(rnd32(Fraction(int(s.split(":")[0]) * 16384 + int(s.split(":")[1]) + 1 + (ch - 1) * 4194304)))
                if len(srcs) == 1:
                    exp = rnd32(mark(srcs[0]))
                else:
                    # old*w[n-i-1] + new*w[i]; i = index of the new sample inside the overlap, window = the short one unless long/long
                    kn, jn = (int(x) for x in srcs[1].split(":"))
                    Wn, Wp = flags[bi], flags[bi - 1]
                    wn = n1 if (Wn and Wp) else n0
                    off = (n1 // 2 - n0 // 2) if (Wn and not Wp) else 0
                    i_ = jn - off
                    w = win[wn]
                    w_new = f32_to_frac(int(w[8 * i_:8 * i_ + 8], 16))
                    w_old = f32_to_frac(int(w[8 * (wn - i_ - 1):8 * (wn - i_ - 1) + 8], 16))
                    a = f32_to_frac(rnd32(mark(srcs[0]) * w_old))
                    b = f32_to_frac(rnd32(mark(srcs[1]) * w_new))
                    exp = rnd32(a + b)
                cells_checked += 1
                if exp != v:
                    bad = "block %d sample %d: C delivers %08x, the model's cell [%s] evaluates to %08x" % (bi, t, v, cell, exp)
                    break
            if bad:
                dis.append(({"ops": r["ops"], "c": [cl[:100]], "m": [ml[:100]]}, (bi, bad, "")))
                break
        chk.note_case(r["ops"][1] + str(flags), True, {"ops": r["ops"][1:6], "first_out": couts[1][:80] if len(couts) > 1 else None})
    # ---- part 2: fault injection on real decodes (the property itself, on the implementation)
    nfaults = 0
    hist = {}
    for variant, env in (("san", None), ("plain", {"MALLOC_PERTURB_": "165"})):
        rres = vlib.run_harness_only("c11", rcases, variant=variant, timeout=3000, env_extra=env)
        for r in rres:
            if r["c"] is None or (r["rc_c"] != 0 and r["err_c"]):
                crash.append(r)
                continue
            for l in r["c"][2:]:
                if not l.startswith("fault "):
                    continue
                f = kv(l)
                nfaults += 1
                j, last = int(f["j"]), int(f["lastbad"])
                hist[f["kind"]] = hist.get(f["kind"], 0) + 1
                changed = [] if f["changed"] == "-" else [int(x) for x in f["changed"].split(",")]
                vis, npk = int(f.get("vis", "0")), int(f["packets"])
                if vis > 0:
                    # granule positions only where a page would end: two packets are then decided by position knowledge, not by audio state
                    # (DESIGN 14.5): the first packet that carries a position at all applies the start-of-stream trim, and the last packet
                    # can only be trimmed to the stream's end if the position was known or re-acquired before it
                    exc = set()
                    first_vis = min(vis - 1, npk - 1)
                    if j <= first_vis:
                        exc.add(first_vis)
                    if not any(k % vis == vis - 1 for k in range(j + 1, npk - 1)):
                        exc.add(npk - 1)
                    changed = [c for c in changed if c not in exc or c <= j + 1]
                    last = max(changed) if changed else -1
                if any(c < j for c in changed):
                    ofail.append((r, "before: disturbing packet %d (kind %s, %s) changed the output of earlier packet(s) %s" % (j, f["kind"], variant, [c for c in changed if c < j][:4])))
                elif last > j + 1:
                    ofail.append((r, "recover: disturbing packet %d (kind %s, %s) still changes the output of packet %d (more than one packet later)" % (j, f["kind"], variant, last)))
            chk.note_case(r["ops"][1] + variant, True, {"ops": r["ops"][1:4], "answers": r["c"][1:4]})
    # ---- part 3: restart through vorbisfile: decode on, then seek back (also into the first data page of the same link, where the seek
    # takes its start-of-link path) and read: bit-identical to the uninterrupted decode at the position told
    from . import c07 as C7, vfcommon as V
    vcases = []
    for i in range(10 if chk.tier == "quick" else 120):
        rng = chk.rng
        links = V.gen_links(rng, rng.choice([1, 1, 2]))
        lens = [int(l.split(" ")[4]) for l in links]
        total = sum(lens)
        ops = ["case %d" % (7000 + i)] + links + ["table", "ref 0", "open 0 1 4096"]
        for _ in range(rng.randint(2, 5)):
            ops += ["read 0 4096"] * rng.choice([1, 3, 12])
            base = rng.choice([0] + [sum(lens[:k]) for k in range(len(lens))])
            tgt = max(0, min(total, base + rng.choice([0, 0, 1, 100, 777, 3000])))
            ops.append("%s 0 %d" % (rng.choice(["pcmseek", "pcmseek", "pcmseekpage"]), tgt))
            ops += ["read 0 %d" % rng.choice([64, 4096]) for _ in range(3)]
        ops.append("clear 0")
        vcases.append(ops)
    for d in V.run_vf(vcases):
        if d["crash"]:
            chk.violation("crash:c07", "implementation aborted (vorbisfile restart scenario)", {"stream": "c07", "ops": d["ops"]}, True)
            continue
        o = C7.oracle(d)
        if o:
            chk.violation("oracle:c07:restart", "decoding restarted by a vorbisfile seek differs from the uninterrupted decode: " + o, {"stream": "c07", "ops": d["ops"]}, True)
    chk.coverage["vorbisfile_restart_cases"] = len(vcases)
    # ---- part 4: a fresh decoder started in mid-stream on generated set-ups (floor 0 and 1, coupling, several submaps): from the second
    # packet on it must produce bit for bit what the decoder that saw the whole stream produces (no state built lazily from earlier packets)
    from . import c01 as C1, gen_setup as G
    cands = V.valid_setups(chk.rng, 120 if chk.tier == "quick" else 600, combos=[(6, 8), (7, 8), (6, 7), (6, 6), (8, 8)], sane=True, channels=[2, 2, 3])
    # prefer set-ups where lazily built per-block-size state could matter: floor 0, coupling, two block sizes in use
    def score(su):
        f = C1.features(su)
        return ("floor0" in f) + ("coupling" in f) + ("mixed-blocks" in f)
    cands.sort(key=lambda su: -score(su))
    sus = cands[:24 if chk.tier == "quick" else 160]
    fcases, meta4 = [], []
    for i, su in enumerate(sus * 3):
        npk = 14
        st = chk.rng.randrange(1, npk - 6)
        flags = su["flags"]
        shorts = [m for m, fl in enumerate(flags) if not fl] or list(range(len(flags)))
        longs = [m for m, fl in enumerate(flags) if fl] or shorts
        # the other block size first occurs a few packets after the restart point, often with "first channel without a floor"
        first_long = st + chk.rng.randrange(2, 5)
        modes = [chk.rng.choice(shorts) if k < first_long else chk.rng.choice(longs + shorts) for k in range(npk + 1)]
        modes[first_long] = chk.rng.choice(longs)
        v = chk.rng.random()
        if v < 0.35:
            modes = [chk.rng.choice(longs) if k < first_long else chk.rng.choice(longs + shorts) for k in range(npk + 1)]
            modes[first_long] = chk.rng.choice(shorts)
        elif v < 0.7:
            # one block size only from the restart point on, the other one seen only before it (state that decoding one block size leaves
            # behind for the other: the full decoder has it, the fresh one does not)
            a, b2 = (shorts, longs) if chk.rng.random() < 0.6 else (longs, shorts)
            modes = [chk.rng.choice(a + b2) if k < st else chk.rng.choice(b2) for k in range(npk + 1)]
            modes[chk.rng.randrange(0, st)] = chk.rng.choice(a)
        full = C1.gen_case(chk.rng, 8000 + 2 * i, su, npk, modes=modes, jfix=1)
        pk = [o for o in full if o.startswith("pkt ")]
        head = [o for o in full if not o.startswith("pkt ")]
        fcases.append(full)
        fcases.append(["case %d" % (8001 + 2 * i)] + head[1:] + pk[st:])
        meta4.append(st)

    def per_packet(lines):
        out, cur = [], None
        for l in lines[1:]:
            if l.startswith("pkt "):
                cur = [l]
                out.append(cur)
            elif l.startswith("pcm ") and cur is not None:
                cur.append(l)
        return out
    fres = vlib.run_harness_only("c01", fcases, timeout=1800)
    nfresh = 0
    for i, st in enumerate(meta4):
        a, b = fres[2 * i], fres[2 * i + 1]
        if a["c"] is None or b["c"] is None:
            crash += [x for x in (a, b) if x["c"] is None]
            continue
        pa, pb = per_packet(a["c"]), per_packet(b["c"])
        # the first packet of a fresh decoder returns nothing; the output after its second packet is the overlap of its first two blocks,
        # which is all the full decoder uses there too
        for k in range(1, len(pb)):
            if st + k < len(pa) and pa[st + k] != pb[k]:
                chk.violation("oracle:c01:fresh-decoder", "a decoder started at packet %d gives, %d packets later, output that differs from the decoder that saw the whole stream "
                              "(first differing line: %s)" % (st, k, next((x[:60] for x, y in zip(pb[k], pa[st + k]) if x != y), "count")),
                              {"stream": "c01", "ops": fcases[2 * i], "restart_at_packet": st, "suffix_ops": fcases[2 * i + 1][:8]}, True)
                break
        nfresh += 1
    chk.coverage["fresh_decoder_cases"] = nfresh
    chk.coverage["rule"] = ("(1) direct mode: vorbis_synthesis_blockin on marker blocks (every sample encodes its packet and index) over 14 configurations, half-rate on/off, random window "
                            "flags and restarts; every returned sample is recomputed from the Lean model's provenance cell and the library's own window table with exact single-precision "
                            "arithmetic and compared bit for bit. (2) real streams decoded with one packet dropped / duplicated / truncated / bit-flipped / decoding restarted (with and "
                            "without a fresh vorbis_block), granule positions on every packet or only on every 3rd/7th/20th/50th as after Ogg paging, ASan build and plain build under heap perturbation: outputs of packets before j and from j+2 on must be bit-identical. (3) decoding restarted through vorbisfile: read on, seek back (also into the first data page of the same link), read: bit-identical to the uninterrupted decode. (4) generated set-ups (floor 0/1, coupling, submaps) with random packets: a fresh decoder started in mid-stream against the decoder that saw everything, from its second packet on (3 packet sequences per set-up; the other block size first used a few packets after the restart, often with the first channel's floor unused). "
                            "distinct = distinct configurations x flag sequences / fault lists")
    chk.coverage["cells_compared_bit_exact"] = cells_checked
    chk.coverage["faults_injected"] = nfaults
    chk.coverage["fault_kinds"] = hist
    chk.coverage["disagreements"] = len(dis)
    chk.assumptions += ["that each packet's inverse-transform output depends on that packet and the set-up only is tested by (2), not proved (the theorems are about the overlap-add buffer)"]
    common.settle(chk, "c11", broken, dis, crash, ofail)


def replay(chk, obj):
    if obj["replay"].get("stream") == "c01":
        for r in vlib.run_harness_only("c01", [obj["replay"]["ops"]]):
            print("\n".join(l[:200] for l in (r["c"] or [])))
        return
    if obj["replay"].get("stream") == "c07":
        return __import__("checks.c07", fromlist=["replay"]).replay(chk, obj)
    res = vlib.run_harness_only("c11", [obj["replay"]["ops"]])
    for r in res:
        print("\n".join(l[:200] for l in (r["c"] or [])))
