"""C13 — clear functions release everything on success and on every error path."""
import struct
from . import common, vfcommon as V, gen_setup as G
from . import c15 as E
import vlib

LEVEL = "other"
DOUBLE_INIT = True


def enc_case(rng, i):
    """encoder life cycles over the whole template range, rejected set-ups, walk-aways"""
    ch = rng.choice([1, 2, 2, 3, 4, 5, 6, 6, 8, 0, 255, 256, 300])
    rate = rng.choice([8000, 11025, 16000, 22050, 32000, 44100, 48000, 96000, 192000, 7, 2000000])
    ops = ["case %d" % i, "live"]
    style = rng.random()
    q = rng.choice([-0.1, 0.1, 0.4, 0.7, 1.0, 5.0, float("nan")])
    qh = "%08x" % E.fbits(q)
    if style < 0.45:
        ops.append("%s %d %d %s" % (rng.choice(["vbr", "initvbr"]), ch, rate, qh))
    else:
        mx, nom, mn = E.rand_triple(rng, ch)
        ops.append("%s %d %d %d %d %d" % (rng.choice(["managed", "initmanaged"]), ch, rate, mx, nom, mn))
    ops.append("live")          # a failed one-step call must already have released everything
    for _ in range(rng.randint(0, 2)):
        ops.append("ctl %s %s" % (rng.choice(["0x10", "0x11", "0x12", "0x13", "0x14", "0x15", "0x20", "0x21", "0x30", "0x31", "0x40", "0x41", "99"]), rng.choice(["0", "1", "0.5", "22.5"])))
    one_step = ops[2].startswith("init")
    if not one_step and rng.random() < 0.85:
        ops.append("setupinit")
    if DOUBLE_INIT and rng.random() < 0.3:
        ops.append("setupinit")      # once more on a finished set-up
    r = rng.random()
    if r < 0.5:
        ops.append("encode %d" % rng.choice([0, 1, 5000, 30000]))
    elif r < 0.75:
        ops.append("encode %d abort" % rng.choice([20000, 60000]))
    if rng.random() < 0.35:
        # the next stream with the same set-up: vorbis_analysis_init once more on this vorbis_info
        for _ in range(rng.choice([1, 1, 3])):
            ops.append("encode %d%s" % (rng.choice([0, 700, 5000]), rng.choice(["", "", " abort"])))
    ops += ["clear", "live"]
    return ("c15", ops)


def dec_case(rng, i, tier):
    """header prefixes and corruptions, init refused half-way, packets, clear twice"""
    ch = rng.choice([1, 2, 3, 6])
    b0 = rng.choice([6, 7, 8])
    b1 = rng.choice([x for x in (6, 8, 10, 11) if x >= b0])
    t, meta = G.gen_setup(rng, ch, 1 << b0, 1 << b1)
    setup = t.pack()
    style = rng.random()
    if style < 0.4:
        pass
    elif style < 0.85:
        setup, _ = G.mutate(rng, t)
    else:
        setup = setup[:rng.randrange(7, max(8, len(setup)))]
    hdrs = [("1", G.ident(ch, 44100, b0, b1)), ("0", G.comment()), ("0", setup)]
    k = rng.random()
    if k < 0.15:
        hdrs = hdrs[:rng.randint(0, 2)]            # a prefix only
    elif k < 0.25:
        hdrs = hdrs + [hdrs[2]]                     # set-up twice
    elif k < 0.3:
        hdrs[0] = ("1", hdrs[0][1][:rng.randint(0, 29)])
    ops = ["case %d" % i, "live", "new"]
    for bos, h in hdrs:
        ops.append("hdr %s %s" % (bos, vlib.hexs(h)))
    if rng.random() < 0.85:
        ops.append("init")
        if rng.random() < 0.3:
            ops.append("init")
    for _ in range(rng.randint(0, 4)):
        n = rng.choice([1, 2, 8, 40])
        b = bytearray(rng.getrandbits(8) for _ in range(n))
        b[0] &= 0xfe
        ops.append("pkt %s -1 0 %d" % (vlib.hexs(bytes(b)), 3))
    if rng.random() < 0.2:
        ops.append("restart")
    ops += ["clear", "live", "clear", "live"]
    return ("c02", ops)


def file_case(rng, i, tier):
    """opens that fail (faults, damaged or truncated chains), seeks that fail, repeated clears"""
    if i % 4 == 2:
        # links opened by several beginning-of-stream pages, duplicated / sharing serial numbers / not Vorbis: the refusal paths of the open-time
        # serial-number bookkeeping (generator of C03)
        from . import c03 as C03
        ops, _ = C03.gen_bos_case(rng, i)
        return ("c07", [ops[0], "live"] + ops[1:] + ["live", "clear 0", "clear 1", "live"])
    links = V.with_mux(rng, V.gen_links(rng, rng.choice([1, 2, 3, 4]), tiny=True), p=0.2)
    ops = ["case %d" % i, "live"] + links
    style = rng.random()
    size_guess = 3500 * len(links)
    if style < 0.35:
        for _ in range(rng.randint(1, 3)):
            ops.append("damage %d %d %d" % (rng.choice([1, 2, 3, 3, 3, 4, 5]), rng.randrange(0, size_guess), rng.choice([1, 3, 7, 60, 700])))
    if style < 0.7:
        ops.append("open 0 %d %d %d %d %d" % (rng.choice([1, 1, 1, 0]), rng.choice([4096, 64, 513]), rng.randrange(0, 70), rng.choice([1, 2, 3, 4, 5]), rng.randint(0, 1)))
    else:
        ops.append("open 0 %d 4096" % rng.choice([1, 1, 0]))
    ops.append("live")            # a failed open must not hold anything
    if rng.random() < 0.2:
        ops[-2] = ops[-2].replace("open", "test", 1)
        ops.append("testopen 0")
    for _ in range(rng.randint(0, 5)):
        r = rng.random()
        if r < 0.3:
            ops.append("fault 0 %d %d %d" % (rng.choice([0, 1, 2, 5, 13]), rng.choice([1, 2, 4]), rng.randint(0, 1)))
        elif r < 0.6:
            ops.append("%s 0 %d" % (rng.choice(["pcmseek", "rawseek", "pcmseekpage", "pcmseeklap", "timeseek"]), rng.randrange(0, 4000)))
        elif r < 0.7:
            ops.append("halfrate 0 %d" % rng.randint(0, 1))
        else:
            ops.append("read 0 4096")
    ops += ["clear 0", "live", "clear 0", "live"]
    return ("c07", ops)


def seek_sweep(rng, tier):
    """every seek entry point with the k-th callback from its start failing (seek, read error, zero read, tell; one-shot and persisting): whatever the
    call had allocated for itself when the callback failed has to be gone after ov_clear — and the open's own closing positioning seek likewise"""
    out = []
    j = 900000
    ks = (0, 1, 2, 3) if tier == "quick" else range(0, 10)
    for name in ("rawseek", "rawseeklap", "pcmseek", "pcmseekpage", "timeseek", "pcmseeklap", "pcmseekpagelap", "timeseeklap", "timeseekpage", "timeseekpagelap"):
        for kind in (4, 1, 2, 5):
            for k in ks:
                if tier == "quick" and kind in (2, 5) and k % 2:
                    continue
                links = V.gen_links(rng, rng.choice([1, 2]), tiny=True)
                ops = ["case %d" % j, "live"] + links + ["open 0 1 %d" % rng.choice([4096, 513])]
                if rng.random() < 0.5:
                    ops.append("read 0 %d" % rng.choice([64, 4096]))
                arg = rng.randrange(0, 900) if name.startswith("time") else rng.randrange(0, 5000)
                ops += ["fault 0 %d %d %d" % (k, kind, rng.randint(0, 1)), "%s 0 %d" % (name, arg), "nofault 0"]
                if rng.random() < 0.5:
                    ops += ["pcmseek 0 %d" % rng.randrange(0, 3000), "read 0 4096"]
                ops += ["clear 0", "live", "clear 0", "live"]
                out.append(("c07", ops))
                j += 1
    for k in (range(0, 26) if tier == "quick" else range(0, 80)):
        for kind in (4, 1):
            links = V.gen_links(rng, 1 + (k % 2), tiny=True)
            out.append(("c07", ["case %d" % j, "live"] + links + ["open 0 1 4096 %d %d 0" % (k, kind), "live", "clear 0", "live", "clear 0", "live"]))
            j += 1
    return out


def oracle(stream, ops, out):
    lines = out[1:]
    closed_seen = None
    opened = None
    partopen = False
    for l in lines:
        f = V.kv(l)
        if l.startswith("live "):
            # positions in the case: after a failed one-step call / failed open, and after the clear calls
            if f.get("badfree") not in (None, "0"):
                return "double-free: a block was released twice or never obtained: " + l
        if stream == "c07":
            if l.startswith(("open ", "test ")):
                opened = f.get("rc") == "0"
                partopen = opened and l.startswith("test ")
                if not opened and f.get("closed") != "0":
                    return "close-on-failed-open: " + l
            if l.startswith("testopen "):
                # OV_EINVAL is ambiguous: "handle is not half open" (nothing happens) or the second stage itself failed with that
                # code (e.g. the tell callback failing): the latter can only happen on a half-open handle, which it leaves cleared
                rc = f.get("rc")
                if rc == "0":
                    partopen = False
                elif rc not in (None, "-9999") and (rc != "OV_EINVAL" or partopen):
                    opened = False
                    partopen = False
                    if f.get("closed") != "0":
                        return "close-on-failed-open: " + l
            if l.startswith("clear rc="):
                want = "1" if opened else "0"
                if opened and f.get("closed") != want:
                    return "close-count: close callback ran %s times at ov_clear of a handle whose open succeeded" % f.get("closed")
                opened = None
    # leak accounting: the last 'live' of the case, and any 'live' that directly follows a failure
    lives = [(k, l) for k, l in enumerate(lines) if l.startswith("live ")]
    if not lives:
        return None
    if "blocks" not in V.kv(lives[0][1]):
        return None                      # not the counting build
    base = int(V.kv(lives[0][1])["blocks"])          # what earlier cases of this process left behind is not this case's
    if stream == "c15":
        base -= 1        # the harness initialises its vorbis_info at the case line; the clear calls release that block too
    last = V.kv(lives[-1][1])
    if int(last["blocks"]) != base:
        return "leak: %d blocks still allocated after the clear calls" % (int(last["blocks"]) - base)
    for k, l in lives[1:-1]:
        prev = lines[k - 1] if k > 0 else ""
        fp = V.kv(prev)
        failed = ("cleared=1" in prev) or (prev.startswith(("open ", "test ")) and fp.get("rc") not in ("0",))
        if failed and int(V.kv(l)["blocks"]) != base:
            return "leak-on-failure: %d blocks held after '%s'" % (int(V.kv(l)["blocks"]) - base, prev[:80])
    return None


def run(chk):
    theorems = vlib.theorem_names("C13")
    broken = chk.proof_side(theorems)
    n = 120 if chk.tier == "quick" else 2500
    gens = []
    for i in range(n):
        k = i % 3
        gens.append(enc_case(chk.rng, i) if k == 0 else dec_case(chk.rng, i, chk.tier) if k == 1 else file_case(chk.rng, i, chk.tier))
    gens += seek_sweep(chk.rng, chk.tier)
    extra = common.load_corpus("C13", 100000)
    gens += [("c07", c) for c in extra]
    crash, ofail = [], []
    # decoders that really decode (complete audio packets over generated set-ups: floor 0 and 1, equal and unequal block sizes, both window flags
    # in use) and are then cleared: the look-up tables built lazily while decoding are part of what the clear calls own (sanitizer build: a block
    # released twice or used after release ends the case)
    from . import c02 as C02
    pk = C02.complete_packet_cases(chk, 40 if chk.tier == "quick" else 400, [(6, 6), (8, 8), (7, 7), (6, 8), (9, 9)], npk=8)
    for r in vlib.run_harness_only("c01", pk, variant="san", timeout=1800):
        if r["c"] is None or (r["rc_c"] != 0 and r["err_c"]):
            crash.append(("c01", r))
    hist = {"c15": 0, "c02": 0, "c07": 0}
    failures_seen = 0
    for variant in ("cnt", "san"):
        for stream in ("c15", "c02", "c07"):
            cases = [ops for s, ops in gens if s == stream]
            if not cases:
                continue
            lsan = {"ASAN_OPTIONS": vlib.SAN_ENV["ASAN_OPTIONS"].replace("detect_leaks=0", "detect_leaks=1") + ":leak_check_at_exit=0"} if (variant == "san" and stream == "c07") else None
            res = vlib.run_harness_only(stream, cases, variant=variant, timeout=2400, env_extra=lsan)
            for r in res:
                if r["c"] is None or (r["rc_c"] != 0 and r["err_c"]):
                    crash.append((stream, r))
                    continue
                if lsan:
                    # memory vorbisfile obtained through libogg (outside the counting allocator): unreachable blocks at a 'live' point
                    bad = [l for l in r["c"] if l.startswith("live") and "lsan=" in l and V.kv(l).get("lsan") not in ("0", None)]
                    if bad:
                        ofail.append((stream, r, "leak: blocks that nothing points to any more after the calls of this case (sanitizer leak scan; includes what vorbisfile holds through libogg): " + bad[0]))
                if variant == "cnt":
                    hist[stream] += 1
                    o = oracle(stream, r["ops"], r["c"])
                    if o:
                        ofail.append((stream, r, o))
                    failures_seen += sum(1 for l in r["c"] if "cleared=1" in l or (l.startswith(("open ", "hdr ", "init ")) and "rc=0" not in l))
                    chk.note_case(stream + "|" + "|".join(o[:50] for o in r["ops"][1:4]), True,
                                  {"stream": stream, "ops": [o[:90] for o in r["ops"][1:7]], "answers": [l[:110] for l in r["c"][1:7]]})
    for stream, r in crash[:4]:
        chk.violation("crash:" + stream, "implementation aborted (sanitizer: double free / use after free / overflow, signal or time-out)",
                      {"stream": stream, "ops": r["ops"], "exit": r["rc_c"], "stderr": r.get("err_c", "")[-2500:]}, True)
    for stream, r, o in ofail[:4]:
        chk.violation("oracle:" + stream + ":" + o.split(": ")[0], "property oracle failed on the implementation: " + o,
                      {"stream": stream, "ops": r["ops"], "observed": r["c"]}, True)
    if broken and not crash and not ofail:
        chk.violation("proof", "proof obligation no longer checks: " + "; ".join(broken)[:600], {"broken": broken, "lean_log": getattr(chk, "lean_log", "")[-3000:]}, False)
    chk.coverage["rule"] = ("three call-sequence families, each ending in the documented clear calls issued twice: (1) encoder: every template family (1-8 and 255/256/300 channels, "
                            "8-192 kHz and out-of-range rates, VBR/managed, NaN quality), ctl calls, setup_init once/twice/never, full encode, encode abandoned in mid-stream; "
                            "(2) packet decoder: generated set-ups valid/field-mutated/truncated, header prefixes, duplicated set-up, truncated identification header, init twice, packets, restart; "
                            "(3) vorbisfile: chains damaged/truncated at random offsets, faults at callback k during open (5 kinds), ov_test + ov_test_open, failing seeks, half-rate, then ov_clear twice; every seek entry point with its k-th callback (seek / read error / zero read / tell) failing, and opens whose k-th callback fails one-shot, each followed by the clear calls. "
                            "All library allocations go through a counting allocator (variant cnt): live blocks must be 0 after the clear calls and directly after a failed one-step set-up / failed open, "
                            "no block may be freed twice or unknown; the same cases run under ASan; the close callback count is read from the data source")
    chk.coverage["cases_per_stream"] = hist
    chk.coverage["error_paths_exercised"] = failures_seen
    chk.assumptions += ["libogg's own buffers (ogg_sync/ogg_stream inside OggVorbis_File) are outside the counting allocator; their release is covered by the ASan run only as far as use-after-free / double free go",
                        "allocation failure (malloc returning NULL) is not injected: the library does not check it anywhere"]


def replay(chk, obj):
    r = vlib.run_harness_only(obj["replay"]["stream"], [obj["replay"]["ops"]], variant="cnt")[0]
    print("\n".join(l[:200] for l in (r["c"] or r["c_partial"] or [])))
    print(r.get("err_c", "")[-1500:])
