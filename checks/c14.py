"""C14 — hard bitrate limits hold to within the configured reservoir."""
import os, sys
from . import common
import vlib

LEVEL = "proof"
THEOREMS = ["C14_step", "C14_inv", "C14_max", "C14_min", "C14_window", "C14_side_needed"]

SETUPS = [(2, 44100, 128000), (2, 48000, 64000), (1, 44100, 64000), (2, 32000, 96000), (1, 22050, 32000),
          (2, 44100, 256000), (1, 8000, 16000), (2, 16000, 48000), (1, 48000, 96000)]


def gen_blobs(rng, mode, scale):
    if mode == "huge":
        return [rng.randint(scale * 4, scale * 40) for _ in range(15)]
    if mode == "tiny":
        return [rng.randint(0, 3) for _ in range(15)]
    if mode == "ladder":
        base = rng.randint(0, scale * 2)
        out, v = [], base
        for _ in range(15):
            out.append(v)
            v += rng.randint(0, max(1, scale // 3))
        return out
    if mode == "zero":
        return [0] * 15
    return [rng.randint(0, scale * 3) for _ in range(15)]


def gen_direct(rng, i, tier):
    ch, rate, nom = rng.choice(SETUPS)
    k = nom // 1000
    style = rng.choice(["max", "min", "both", "cbr", "maxavg", "minavg", "all"])
    mx = mn = av = 0
    if style in ("max", "both", "maxavg", "all"):
        mx = rng.choice([k, k + 8, max(1, k // 2), k * 2])
    if style in ("min", "both", "minavg", "all"):
        mn = rng.choice([k, max(1, k - 8), max(1, k // 2), max(1, k // 4)])
    if style == "cbr":
        mx = mn = av = k
    if style in ("maxavg", "minavg", "all"):
        av = k
        if mx and mx < av:
            mx = av
        if mn and mn > av:
            mn = av
    if mx and mn and mn > mx:
        mn = mx
    rb = rng.choice([8, 16, 64, 1000, 4096, 4096, 65536, 200000] + ([1, 3, 7] if rng.random() < 0.15 else []))
    bias = rng.choice([0.0, 0.1, 0.5, 0.9, 1.0])
    lines = ["case %d" % i, "cfg %d %d %d %d %d %d %d %s" % (ch, rate, nom, mx, av, mn, rb, bias)]
    if rng.random() < 0.4:
        # other control requests (coupling / lowpass / impulse block bias, each restating what it reads back) between the accepted rate request
        # and setup_init: the limits and the reservoir as configured must survive them
        lines[1] += " K%d" % rng.choice([1, 1, 2, 4, 3, 7])
    if rng.random() < 0.3:
        # followed by a request that must be refused (tuning value out of range) although its limits are consistent and different
        k2 = rng.choice([32, 64, 96, 128, 256, 320, 500])
        lines[1] += " X%d:%d:%d:%d" % (rng.choice([0, k2, 2 * k2]), rng.choice([0, k2]), rng.choice([0, k2 // 2, k2]), rng.randrange(4))
    nb = rng.choice([20, 60, 150]) if tier == "quick" else rng.choice([50, 300, 1500])
    # per-block budget in bytes, to scale the blob sizes around the interesting region
    scale = max(4, nom * 64 // rate // 8)
    mode = rng.choice(["huge", "tiny", "ladder", "random", "alt", "mixed", "zero"])
    for j in range(nb):
        W = 1 if rng.random() < 0.7 else 0
        m = mode
        if mode == "alt":
            m = "huge" if j % 2 else "tiny"
        elif mode == "mixed":
            m = rng.choice(["huge", "tiny", "ladder", "random", "zero"])
        sc = scale * (8 if W else 1)
        lines.append("blk %d %s" % (W, " ".join(str(b) for b in gen_blobs(rng, m, sc))))
    return lines, {"kind": "direct", "style": style, "rb": rb, "mode": mode}


def gen_real(rng, i, tier):
    ch, rate, nom = rng.choice(SETUPS)
    k = nom // 1000
    style = rng.choice(["max", "min", "both", "cbr"])
    mx = k if style in ("max", "both", "cbr") else 0
    mn = k if style in ("cbr",) else (max(1, k // 2) if style in ("min", "both") else 0)
    if style == "max" and rng.random() < 0.5:
        mx = max(1, k // 3)
    av = k if style == "cbr" else 0
    rb = rng.choice([4096, 30000, 200000])
    lines = ["case %d" % i, "cfg %d %d %d %d %d %d %d %s%s" % (ch, rate, nom, mx, av, mn, rb, rng.choice([0.0, 0.1, 0.5, 1.0]), rng.choice(["", "", " K1", " K7"])),
             "encode %d %d %d" % (rate * (2 if tier == "quick" else 8), rng.choice([0, 1, 1, 3, 4, 2]), rng.randint(1, 10 ** 6))]
    if rng.random() < 0.3 and style != "cbr":
        # the set-up call alone, limits only (no nominal rate), every tuning value at its default
        lines[1] = "cfgd %d %d %d %d %d" % (ch, rate, mx * 1000 if mx else -1, rng.choice([-1, 0]), mn * 1000 if mn else -1)
    return lines, {"kind": "real", "style": style, "rb": rb}


def kv(line):
    return dict(t.split("=", 1) for t in line.split(" ")[1:] if "=" in t)


def kadane(xs):
    best, cur = 0, 0
    for x in xs:
        cur = max(0, cur + x)
        best = max(best, cur)
    return best


def run(chk):
    broken = chk.proof_side(THEOREMS)
    nd, nr = (120, 10) if chk.tier == "quick" else (1500, 80)
    cases, metas = [], []
    for i in range(nd + nr):
        lines, meta = gen_direct(chk.rng, i, chk.tier) if i < nd else gen_real(chk.rng, i, chk.tier)
        cases.append(lines)
        metas.append(meta)
    # witness of C14_side_needed replayed on the real rate manager (reservoir of 3 bits, CBR)
    cases.append(["case %d" % len(cases), "cfg 2 44100 128000 128 128 128 3 0.0"] + ["blk 0 " + " ".join(["1000"] * 15)] * 3)
    metas.append({"kind": "direct", "style": "cbr", "rb": 3, "mode": "witness"})
    res = vlib.run_harness_only("c14", cases, timeout=1800)
    crash, ofail, dis = [], [], []
    mcases, idx = [], []
    dist = {}
    for ci, r in enumerate(res):
        if r["c"] is None or (r["rc_c"] != 0 and r["err_c"]):
            crash.append(r)
            continue
        cfg = [l for l in r["c"] if l.startswith("cfg ")]
        blks = [kv(l) for l in r["c"] if l.startswith("blk W=")]
        if not cfg or "rc=0" not in cfg[0] or not blks:
            chk.note_case("cfg-rejected " + (cfg[0] if cfg else "?"), False)
            dist["rejected"] = dist.get("rejected", 0) + 1
            continue
        c = kv(cfg[0])
        c2 = [l for l in r["c"] if l.startswith("cfg2 ")]
        if c2 and kv(c2[0]).get("refused") != "OV_EINVAL":
            ofail.append((r, "setup: a rate-management request with a tuning value out of range answered %s" % kv(c2[0]).get("refused")))
            continue
        # what the configuration asked for (the cfg op: ch rate nominal max_kbps avg_kbps min_kbps reservoir_bits bias)
        cop = [o for o in r["ops"] if o.startswith(("cfg ", "cfgd "))][0].split(" ")
        is_d = cop[0] == "cfgd"
        if is_d:
            want_max, want_avg, want_min = max(0, int(cop[3])), max(0, int(cop[4])), max(0, int(cop[5]))
            want_rb = int(c["RB"])
            if (want_max > 0 or want_min > 0) and want_rb <= 0:
                ofail.append((r, "setup: hard limits max %d / min %d bit/s were accepted by vorbis_encode_setup_managed, but the reservoir they are enforced with is %d bits" % (want_max, want_min, want_rb)))
                continue
        else:
            want_max, want_avg, want_min, want_rb = int(cop[4]) * 1000, int(cop[5]) * 1000, int(cop[6]) * 1000, int(cop[7])
        if want_rb > 0 and (want_max > 0 or want_min > 0):
            half, srate = int(c["bs0"]) // 2, int(c["rate"])

            def rint(x):
                return int(round(x))          # Python rounds half to even, as rint does in the default mode
            exp_min, exp_max = rint(want_min * half / srate), rint(want_max * half / srate)
            if int(c["RB"]) != want_rb:
                ofail.append((r, "setup: a reservoir of %d bits was accepted, but the manager enforces the limits with a reservoir of %s bits" % (want_rb, c["RB"])))
                continue
            if c.get("managed") != "1" or int(c["minb"]) != exp_min or int(c["maxb"]) != exp_max:
                ofail.append((r, "setup: hard limits max %d / min %d bit/s with a %d bit reservoir were accepted, but the manager runs with managed=%s min_bitsper=%s max_bitsper=%s (expected 1, %d, %d)" % (
                    want_max, want_min, want_rb, c.get("managed"), c.get("minb"), c.get("maxb"), exp_min, exp_max)))
                continue
        if c.get("managed") != "1":
            dist["unmanaged"] = dist.get("unmanaged", 0) + 1
            continue
        minb, maxb, spl, RB, des, R0 = (int(c[k]) for k in ("minb", "maxb", "spl", "RB", "desired", "R0"))
        # the model derives its budgets from the configuration itself (Cfg.ofRates = vorbis_bitrate_init), not from the manager's state
        des0 = int(c["desired"]) if is_d else int(want_rb * float(cop[8]))
        mlines = [r["ops"][0], "cfgr %d %d %d %d %d %d %d %d" % (want_min, want_max, int(c["rate"]), int(c["bs0"]), int(c["bs1"]), want_rb, des0, des0)]
        exc, dfc, Rs = [], [], []
        from fractions import Fraction
        rate, bs0, bs1, maxrate, minrate = (int(c[k]) for k in ("rate", "bs0", "bs1", "maxrate", "minrate"))
        nexc, ndfc = [], []
        trunc = pad = 0
        for b in blks:
            W = int(b["W"])
            bits = int(b["bytes"]) * 8
            blobs = b["blobs"].split(",")
            mlines.append("blk %d %s %s" % (W, b["c0"], " ".join(blobs)))
            exc.append(bits - maxb * (spl if W else 1))
            dfc.append(minb * (spl if W else 1) - bits)
            Rs.append(int(b["R"]))
            dur = Fraction((bs1 if W else bs0) // 2, rate)
            nexc.append(bits - maxrate * dur)
            ndfc.append(minrate * dur - bits)
            ch = int(b["choice"])
            if int(b["bytes"]) < int(blobs[ch]):
                trunc += 1
            if int(b["bytes"]) > int(blobs[ch]):
                pad += 1
        key = "%s:%s" % (metas[ci]["kind"], metas[ci]["style"])
        dist[key] = dist.get(key, 0) + 1
        dist["truncated_packets"] = dist.get("truncated_packets", 0) + trunc
        dist["padded_packets"] = dist.get("padded_packets", 0) + pad
        # ---- the property, on the implementation's own packet sizes
        tiny = (minb > 0 and maxb > 0 and RB < 7)
        bad = None
        if maxb > 0 and kadane(exc) > RB:
            bad = "max%s: a contiguous run exceeds the maximum budget by %d bits > reservoir %d" % (":tiny-reservoir" if tiny else "", kadane(exc), RB)
        elif minb > 0 and kadane(dfc) > RB:
            bad = "min%s: a contiguous run falls short of the minimum budget by %d bits > reservoir %d" % (":tiny-reservoir" if tiny else "", kadane(dfc), RB)
        elif (minb > 0 or maxb > 0) and not all(0 <= x <= RB for x in Rs):
            bad = "reservoir%s: minmax_reservoir leaves [0,%d]: %s" % (":tiny-reservoir" if tiny else "", RB, [x for x in Rs if not 0 <= x <= RB][:3])
        elif maxb > 0 and kadane(nexc) > RB:
            bad = "max:nominal-drift: against the configured rate (not the quantised budget) a run of %d blocks exceeds max_rate*duration by %.1f bits > reservoir %d (max_bitsper=%d, exact %.3f)" % (
                len(blks), float(kadane(nexc)), RB, maxb, maxrate * (bs0 // 2) / rate)
        elif minb > 0 and kadane(ndfc) > RB:
            bad = "min:nominal-drift: against the configured rate a run falls short of min_rate*duration by %.1f bits > reservoir %d (min_bitsper=%d, exact %.3f)" % (
                float(kadane(ndfc)), RB, minb, minrate * (bs0 // 2) / rate)
        if bad:
            ofail.append((r, bad))
        chk.note_case(cfg[0] + str(metas[ci]) + str(exc[:8]), True,
                      {"cfg": cfg[0][:200], "first_blocks": [l[:150] for l in r["c"] if l.startswith("blk W=")][:2], "blocks": len(blks)})
        mcases.append(mlines)
        idx.append(ci)
    mres = vlib.run_model_only("c14", mcases, timeout=1800)
    for k, mr in enumerate(mres):
        r = res[idx[k]]
        cbl = [kv(l) for l in r["c"] if l.startswith("blk W=")]
        mouts = [l for l in (mr["m"] or [])[1:] if not l.startswith("cfgr ")]
        mcfg = [l for l in (mr["m"] or [])[1:] if l.startswith("cfgr ")]
        ccfg = kv([l for l in r["c"] if l.startswith("cfg ")][0])
        if mcfg and (kv(mcfg[0]).get("minb"), kv(mcfg[0]).get("maxb"), kv(mcfg[0]).get("spl")) != (ccfg.get("minb"), ccfg.get("maxb"), ccfg.get("spl")):
            dis.append(({"ops": r["ops"][:40], "c": r["c"][:3], "m": mcfg}, (0, "budgets minb=%s maxb=%s spl=%s" % (ccfg.get("minb"), ccfg.get("maxb"), ccfg.get("spl")), mcfg[0])))
            continue
        if mr["m"] is None or len(mouts) != len(cbl):
            dis.append(({"ops": r["ops"][:40], "c": r["c"][:40], "m": (mr["m"] or [])[:40]}, (0, "%d blocks" % len(cbl), "%d model answers" % len(mouts))))
            continue
        for j, (b, ml) in enumerate(zip(cbl, mouts)):
            exp = "choice=%s bytes=%s R=%s" % (b["choice"], b["bytes"], b["R"])
            if exp != ml:
                dis.append(({"ops": r["ops"][:2] + ["... block %d" % j], "c": [l for l in r["c"] if l.startswith("blk W=")][max(0, j - 2):j + 1], "m": mouts[max(0, j - 2):j + 1],
                             "model_input": mcases[k][:2] + mcases[k][2 + max(0, j - 2):3 + j]}, (j, exp, ml)))
                break
    chk.coverage["rule"] = ("direct mode: vorbis_bitrate_addblock driven with synthetic 15-blob size vectors (huge/tiny/ladder/random/alternating/zero) under "
                            "max-only, min-only, both, CBR and averaged configurations, reservoirs 1..200000 bits, bias 0..1; real mode: managed encodes of noise/sine/"
                            "impulses/silence. Every block's (choice, bytes, reservoir) is replayed through the Lean model. distinct = distinct (config, first excess values)")
    chk.coverage["distribution"] = dist
    chk.coverage["disagreements"] = len(dis)
    chk.assumptions += ["packet duration is accounted as the manager's own per-block budget bitsper*(W?short_per_long:1), i.e. max_rate quantised to whole bits per half short block (rint); "
                        "the relation to the configured rate is |budget - exact| <= 0.5 bit per half short block",
                        "the average floater is an oracle parameter: only its result c0=rint(avgfloat) enters the model"]
    common.settle(chk, "c14", broken, dis, crash, ofail)


def replay(chk, obj):
    res = vlib.run_harness_only("c14", [obj["replay"]["ops"]])
    for r in res:
        print("\n".join(l[:300] for l in (r["c"] or [])))
