"""C09 — opening a chained file accounts for every link and every sample."""
from . import common, vfcommon as V
import vlib

LEVEL = "proof"


def gen_case(rng, i, tier):
    k = rng.choice([1, 2, 2, 3, 3, 4, 5, 6] + ([12] if tier == "thorough" and i % 50 == 7 else []))
    links = V.gen_links(rng, k, tiny=(k > 4))
    ops = ["case %d" % i] + V.with_mux(rng, links) + V.gen_splits(rng, links) + ["table", "ref 0", "refpk 0", "open 0 1 %d" % rng.choice([4096, 1, 513, 100000]), "streams 0", "total 0 -1", "timetotal 0 -1", "rawtotal 0 -1"]
    for j in range(k):
        ops += ["info 0 %d" % j, "serial 0 %d" % j, "total 0 %d" % j, "timetotal 0 %d" % j]
    ops += ["info 0 %d" % k, "total 0 %d" % k]       # one past the end: refused
    total = sum(int(l.split(" ")[4]) for l in links)
    ln = rng.choice([4096, 4096, 64, 1000])
    if rng.random() < 0.3:
        # the same walk through ov_read (16 bit): whole frames of the link the call names, position moved by as many
        ops += ["readi 0 %d 0 2 1" % (2 * ln)] * (total // min(ln // 6 + 1, 128) + 8 * k + 6)
    else:
        ops += ["read 0 %d" % ln] * (total // min(ln, 128) + 8 * k + 6)
    ops += ["tell 0", "clear 0"]
    return ops


def oracle(d):
    ops = d["ops"]
    lens, rates, chans = V.link_lengths(ops), V.link_rates(ops), V.link_channels(ops)
    seeds = [int(o.split(" ")[6]) for o in ops if o.startswith("link ")]
    k = len(lens)
    bounds = [0]
    for n in lens:
        bounds.append(bounds[-1] + n)
    pos, got, lastlink = 0, 0, 0
    eof = False
    for op, a in d["ans"]:
        if a is None or isinstance(a, list):
            continue
        t = op.split(" ")
        f = V.kv(a)
        if t[0] == "refpk":
            if f.get("same") != "1":
                return "alone: link decoded on its own differs from its part of the chained decode: " + a
        elif t[0] == "open":
            if f.get("rc") != "0":
                return "open: " + a
            if int(f["links"]) != k:
                return "links: %s links reported, %d encoded" % (f["links"], k)
            offs = [int(x) for x in f["offs"].split(",")]
            if offs != sorted(offs) or offs[0] != 0:
                return "offsets: not increasing from 0: %s" % f["offs"]
        elif t[0] == "streams" and int(a.split(" ")[1]) != k:
            return "links: ov_streams says %s" % a
        elif t[0] == "total":
            i = int(t[2])
            want = bounds[-1] if i < 0 else (lens[i] if i < k else -131)
            if int(a.split(" ")[1]) != want:
                return "length: ov_pcm_total(%d) = %s, expected %d" % (i, a.split(" ")[1], want)
        elif t[0] == "timetotal":
            i = int(t[2])
            want = sum(float(n) / r for n, r in zip(lens, rates)) if i < 0 else float(lens[i]) / rates[i]
            if abs(float(a.split(" ")[1]) - want) > 1e-6:
                return "duration: ov_time_total(%d) = %s, expected %.9f" % (i, a.split(" ")[1], want)
        elif t[0] == "info":
            i = int(t[2])
            if i >= k:
                if a != "info null":
                    return "info: link %d of %d has info" % (i, k)
            elif int(f["ch"]) != chans[i] or int(f["rate"]) != rates[i]:
                return "info: link %d reports %s, encoded %d ch %d Hz" % (i, a, chans[i], rates[i])
        elif t[0] == "serial":
            i = int(t[2])
            if int(a.split(" ")[1]) != V.serial_of(seeds[i]):
                return "serial: link %d reports %s" % (i, a)
        elif t[0] == "readi":
            rc = f["rc"]
            if rc.startswith("OV_"):
                return "hole: linear ov_read of an intact chain returned " + rc
            nb = int(rc)
            if nb == 0:
                eof = True
                continue
            if eof:
                return "after-eof: bytes after end of file: " + a
            link = int(f["link"])
            if not 0 <= link < k or nb % (2 * chans[link]) != 0:
                return "frames: ov_read returned %d bytes for link %d (%s channels)" % (nb, link, chans[link] if 0 <= link < k else "?")
            n = nb // (2 * chans[link])
            if int(f["t0"]) != pos or int(f["t1"]) != pos + n:
                return "positions: %s: %d frames of link %d, expected to move from %d to %d" % (a, n, link, pos, pos + n)
            if link < lastlink or not (bounds[link] <= pos and pos + n <= bounds[link + 1]):
                return "order: samples [%d,%d) attributed to link %d" % (pos, pos + n, link)
            lastlink = link
            pos += n
            got += n
        elif t[0] == "read":
            rc = f["rc"]
            if rc.startswith("OV_"):
                return "hole: linear read of an intact chain returned " + rc
            n = int(rc)
            if n == 0:
                eof = True
                continue
            if eof:
                return "after-eof: samples after end of file: " + a
            if int(f["t0"]) != pos or int(f["t1"]) != pos + n:
                return "positions: %s, expected to start at %d" % (a, pos)
            link = int(f["link"])
            if link < lastlink or not (bounds[link] <= pos and pos + n <= bounds[link + 1]):
                return "order: samples [%d,%d) attributed to link %d" % (pos, pos + n, link)
            if f.get("ok") != "1":
                return "data: " + a
            lastlink = link
            pos += n
            got += n
    if not eof:
        return None          # not enough reads issued to reach the end (generator bound)
    if got != bounds[-1]:
        return "count: %d samples delivered, %d encoded" % (got, bounds[-1])
    return None


def run(chk):
    theorems = vlib.theorem_names("C09")
    broken = chk.proof_side(theorems)
    n = 40 if chk.tier == "quick" else 800
    cases = common.load_corpus("C09", 100000) + [gen_case(chk.rng, i, chk.tier) for i in range(n)]
    res = V.run_vf(cases)
    ofail = []
    hist = {}
    for d in res:
        if d["crash"]:
            continue
        o = oracle(d)
        if o:
            ofail.append((d, o))
        k = len(V.link_lengths(d["ops"]))
        hist[k] = hist.get(k, 0) + 1
        chk.note_case("|".join(o for o in d["ops"] if o.startswith("link")), True,
                      {"ops": d["ops"][1:8], "answers": [a for _, a in d["ans"] if isinstance(a, str)][:10]})
    chk.coverage["rule"] = ("chains of 1-6 (thorough: up to 12) links, 1-3 channels, five rates, lengths 0,1,37,...,20000 samples (links whose audio is one page, zero-sample links), "
                            "three page layouts; link table, per-link info/serial/length/duration, then a linear read to the end with the bit-exact data oracle; "
                            "each link is also decoded on its own through the packet-level API (refpk) and compared; all answers compared with the Lean model")
    chk.coverage["links_histogram"] = hist
    V.settle_vf(chk, res, broken, ofail)


replay = __import__("checks.c07", fromlist=["replay"]).replay
