"""C17 — integer PCM output is the rounded, clipped, interleaved float output."""
import os, sys, struct, math
from fractions import Fraction
from . import common
import vlib

LEVEL = "proof"
THEOREMS = ["C17_round", "C17_inrange", "C17_saturate_pos", "C17_clip_pos", "C17_sample_range",
            "C17_bytes", "C17_interleave", "C17_frames"]


def f32(x):
    return struct.unpack(">I", struct.pack(">f", x))[0]


def interesting_bits(rng):
    out = []
    for scale in (32768.0, 128.0):
        for k in (-40000, -32770, -32769, -32768, -32767, -129, -128, -127, -2, -1, 0, 1, 2, 126, 127, 128, 32766, 32767, 32768, 40000):
            for h in (0.0, 0.5, -0.5, 0.25):
                b = f32((k + h) / scale)
                out += [b, b + 1 if b & 0x7fffffff else b, b - 1 if b & 0x7fffffff else b]
    out += [f32(v) for v in (1e30, -1e30, 70000.0, -70000.0, 65536.0, -65536.0, 65535.99, 3.0e9, 2147483648.0 / 32768, 2147483520.0 / 32768,
                             -2147483648.0 / 32768, 1e-40, -1e-40, 1e-45, 0.0, -0.0, 16777216.0 / 128, 1.0, -1.0, 0.99999, 255.9, 1e10, -1e10)]
    out += [0x7f800000, 0xff800000, 0x7fc00000, 0xffc00001, 0x7f7fffff, 0xff7fffff, 0x00000001, 0x80000001, 0x007fffff]
    out += [rng.getrandbits(32) for _ in range(40)]
    return [b & 0xffffffff for b in out]


def ref_sample(bits, word):
    """independent statement of the property: scale, round to nearest (even), clip"""
    s, e, m = bits >> 31, (bits >> 23) & 0xff, bits & 0x7fffff
    hi, lo = (127, -128) if word == 1 else (32767, -32768)
    if e == 255:
        if m:
            return None          # NaN: the property does not say
        return hi if s == 0 else lo
    mant = m if e == 0 else m + (1 << 23)
    val = Fraction(mant) * Fraction(2) ** ((e if e else 1) - 150)
    if s:
        val = -val
    v = round(val * (128 if word == 1 else 32768))
    return max(lo, min(hi, v))


def ref_bytes(v, word, sgned, be):
    if word == 1:
        return bytes([(v + (0 if sgned else 128)) & 0xff])
    w = (v + (0 if sgned else 32768)) & 0xffff
    return bytes([w >> 8, w & 255]) if be else bytes([w & 255, w >> 8])


def gen_case(rng, i, tier, pool):
    ch = rng.choice([1, 2, 2, 3, 6] + ([8] if tier == "thorough" else []))
    if tier == "thorough" and i % 97 == 5:
        ch = 255
    rate = rng.choice([8000, 22050, 44100, 48000])
    q = rng.choice([0.1, 0.4, 0.8])
    n = rng.choice([1500, 6000]) if ch < 100 else 600
    sig = rng.choice([0, 1, 4])
    lines = ["case %d" % i, "stream %d %d %.1f %d %d %d" % (ch, rate, q, n, sig, rng.randint(1, 10 ** 6))]
    if ch < 100 and rng.random() < 0.3:
        # a chain whose second link has another channel count; reads without the priming call cross the boundary inside ov_read
        ch2 = rng.choice([c for c in (1, 2, 3, 6) if c != ch])
        lines[1] += " %d %d %.1f %d" % (ch2, rng.choice([8000, 22050, 44100]), rng.choice([0.1, 0.4]), rng.choice([1500, 3000]))
        for _ in range(rng.randint(8, 40)):
            word = rng.choice([1, 2, 2])
            lines.append("read %d %d %d %d - np" % (word, rng.randint(0, 1), rng.randint(0, 1), rng.choice([4096, 4096, 65536, 7, 1000, word * ch, word * ch2])))
        return lines
    if ch < 100 and rng.random() < 0.25:
        # a whole link read by unprimed calls (each call fetches its own packets: page ends and block-size switches fall inside the
        # calls), at full and at half rate: the position must advance by exactly the frames returned
        lines[1] = "stream %d %d %.1f %d %d %d" % (ch, rate, q, rng.choice([6000, 12000]), rng.choice([1, 2, 3, 5]), rng.randint(1, 10 ** 6))
        if rng.random() < 0.7:
            lines.append("halfrate 1")
        for _ in range(rng.randint(60, 160)):
            word = rng.choice([1, 2, 2])
            lines.append("read %d %d %d %d - np" % (word, rng.randint(0, 1), rng.randint(0, 1), rng.choice([4096, 37 * word * ch, 65536, 1000, 128 * word * ch])))
        return lines
    if rng.random() < 0.15:
        lines.append("halfrate 1")
    for _ in range(rng.randint(4, 10)):
        if rng.random() < 0.2:
            lines.append("skip %d" % rng.choice([1, 7, 100, 5000]))
        word = rng.choice([1, 2, 2, 2, 0, -1] if rng.random() < 0.25 else [1, 2, 2])
        sg, be = rng.randint(0, 1), rng.randint(0, 1)
        bps = max(1, abs(word)) * ch
        ln = rng.choice([0, bps - 1, bps, bps + 1, 2 * bps - 1, 3 * bps, 4096, 4096, 65536, 200000, -5, 1])
        l = "read %d %d %d %d" % (word, sg, be, ln)
        if rng.random() < 0.2:
            lines.append(l + " - wr")          # the public wrapper ov_read: return value, frames, position, nothing written beyond
            continue
        if rng.random() < 0.6:
            k = rng.randint(1, 24)
            vals = [rng.choice(pool) for _ in range(k)]
            l += " " + b"".join(struct.pack(">I", v) for v in vals).hex()
        lines.append(l)
    return lines


def run(chk):
    broken = chk.proof_side(THEOREMS)
    pool = interesting_bits(chk.rng)
    n = 48 if chk.tier == "quick" else 600
    cases = [gen_case(chk.rng, i, chk.tier, pool) for i in range(n)]
    res = vlib.run_harness_only("c17", cases)
    crash, ofail, dis = [], [], []
    mcases, idx = [], []
    fmt_hit = {}
    for ci, r in enumerate(res):
        if r["c"] is None or (r["rc_c"] != 0 and r["err_c"]):
            crash.append(r)
            continue
        mlines = [r["ops"][0]]
        for l in r["c"]:
            if not l.startswith("read "):
                continue
            kv = dict(t.split("=", 1) for t in l.split(" ")[1:])
            word, sg, be, ln, ch, avail, hs = (int(kv[k]) for k in ("word", "sgned", "be", "len", "ch", "avail", "hs"))
            mlines.append("conv %d %d %d %d %d %d %d %s" % (word, sg, be, ln, ch, avail, hs, kv["in"]))
            # ---- property oracle on the implementation's own answer
            rc, adv, out, inn = kv["rc"], int(kv["adv"]), kv["out"], kv["in"]
            key = "w%d s%d b%d %s" % (word, sg, be, "err" if not rc.lstrip("-").isdigit() or int(rc) <= 0 else "ok")
            fmt_hit[key] = fmt_hit.get(key, 0) + 1
            bad = None
            if kv["intact"] != "1":
                bad = "frames: bytes written beyond the returned length (or on an error return)"
            elif avail < 0:
                # no priming call: whatever link the call ended up in, it must hand out whole frames of THAT link and move by as many
                if rc.lstrip("-").isdigit() and int(rc) > 0 and word in (1, 2):
                    bps = word * ch
                    nbytes = int(rc)
                    raw = bytes.fromhex(inn) if inn != "-" else b""
                    got = bytes.fromhex(out) if out != "-" else b""
                    if nbytes > ln or nbytes % bps != 0 or adv != (nbytes // bps) << hs:
                        bad = "frames: %d bytes from a %d-channel link (word %d, buffer %d): not whole frames / position moved by %d" % (nbytes, ch, word, ln, adv)
                    elif len(raw) != 4 * (nbytes // word):
                        bad = "interleave: %d samples went through the filter for %d samples returned (%d channels)" % (len(raw) // 4, nbytes // word, ch)
                    else:
                        exp = bytearray()
                        for k in range(nbytes // word):
                            v = ref_sample(struct.unpack(">I", raw[4 * k:4 * k + 4])[0], word)
                            exp += got[len(exp):len(exp) + word] if v is None else ref_bytes(v, word, sg, be)
                        if bytes(exp) != got:
                            bad = "bytes: conversion differs on an unprimed read (word=%d signed=%d be=%d, %d channels)" % (word, sg, be, ch)
                avail = (adv >> hs) if adv > 0 else 0
                mlines[-1] = "conv %d %d %d %d %d %d %d %s" % (word, sg, be, ln, ch, avail, hs, kv["in"])
            elif avail > 0:
                bps = word * ch
                if word <= 0 or ln < bps:
                    if rc != "OV_EINVAL" or adv != 0:
                        bad = "frames: word=%d len=%d bps=%d must be refused with an error, got rc=%s adv=%d" % (word, ln, bps, rc, adv)
                elif word in (1, 2):
                    frames = min(avail, ln // bps)
                    if rc != str(frames * bps) or adv != frames << hs:
                        bad = "frames: expected %d frames (%d bytes, advance %d), got rc=%s adv=%d" % (frames, frames * bps, frames << hs, rc, adv)
                    elif kv.get("wr") == "1":
                        pass              # through ov_read: no filter, the input floats are not known; counts and position were checked
                    else:
                        raw = bytes.fromhex(inn) if inn != "-" else b""
                        got = bytes.fromhex(out) if out != "-" else b""
                        exp = bytearray()
                        nan = False
                        for k in range(frames * ch):
                            v = ref_sample(struct.unpack(">I", raw[4 * k:4 * k + 4])[0], word)
                            if v is None:
                                nan = True
                                exp += got[len(exp):len(exp) + word]
                            else:
                                exp += ref_bytes(v, word, sg, be)
                        if bytes(exp) != got:
                            k = next(j for j in range(len(got)) if j >= len(exp) or exp[j] != got[j])
                            s_i = k // word
                            bad = "bytes: sample %d (bits %s) word=%d signed=%d be=%d: got %s want %s" % (
                                s_i, raw[4 * s_i:4 * s_i + 4].hex(), word, sg, be, got[s_i * word:(s_i + 1) * word].hex(), bytes(exp[s_i * word:(s_i + 1) * word]).hex())
            if bad:
                ofail.append((r, bad))
            chk.note_case(("%d %d %d %d %d %d" % (word, sg, be, ln, ch, avail)) + inn[:64], avail > 0,
                          {"op": [o[:120] for o in r["ops"][1:2]], "read": l[:260]})
        mcases.append(mlines)
        idx.append(ci)
    mres = vlib.run_model_only("c17", mcases)
    for k, mr in enumerate(mres):
        r = res[idx[k]]
        creads = [l for l in r["c"] if l.startswith("read ")]
        mouts = (mr["m"] or [])[1:]
        if mr["m"] is None or len(mouts) != len(creads):
            dis.append(({"ops": r["ops"], "c": r["c"], "m": mr["m"]}, (0, "%d read answers" % len(creads), "%d model answers %s" % (len(mouts), mr.get("err_m", "")[-300:]))))
            continue
        for j, (cl, ml) in enumerate(zip(creads, mouts)):
            kv = dict(t.split("=", 1) for t in cl.split(" ")[1:])
            mv = dict(t.split("=", 1) for t in ml.split(" ")) if "=" in ml else {}
            if int(kv["avail"]) == 0 or (int(kv["avail"]) < 0 and int(kv["adv"]) <= 0):
                continue          # nothing decoded (end of stream, or an unprimed read that was refused / hit the end): conversion not exercised
            if kv.get("wr") == "1":
                if (kv["rc"], kv["adv"]) != (mv.get("rc"), mv.get("adv")):
                    dis.append(({"ops": r["ops"], "c": [cl], "m": [ml]}, (j, cl[:300], ml[:300])))
                    break
                continue
            if (kv["rc"], kv["adv"], kv["out"]) != (mv.get("rc"), mv.get("adv"), mv.get("out")):
                dis.append(({"ops": r["ops"], "c": [cl], "m": [ml]}, (j, cl[:300], ml[:300])))
                break
    chk.coverage["rule"] = ("real encoder streams (1..8, 255 channels) read through ov_read_filter with every (word,signed,endian), buffer lengths "
                            "around one frame, and injected IEEE bit patterns (half-integers ±1ulp at every clip point, huge, inf, NaN, denormals, random); "
                            "distinct = distinct (format,len,ch,avail,first input words) with avail>0")
    chk.coverage["formats_hit"] = fmt_hit
    chk.coverage["disagreements"] = len(dis)
    chk.assumptions += ["x86-64 SSE2 conversion (cvtsd2si, round-to-nearest-even) is what vorbis_ftoi compiles to; little-endian host",
                        "NaN input: the property does not define the output; only model/implementation agreement is checked there"]
    common.settle(chk, "c17", broken, dis, crash, ofail)


def replay(chk, obj):
    res = vlib.run_harness_only("c17", [obj["replay"]["ops"]])
    for r in res:
        print("\n".join(l[:400] for l in (r["c"] or [])))
