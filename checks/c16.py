"""C16 — comments survive the header round trip and queries are consistent."""
import os, sys, struct
from . import common
import vlib

LEVEL = "proof"
THEOREMS = ["C16_roundtrip", "C16_headerin", "C16_reject", "C16_count", "C16_query", "C16_query_iff_count",
            "C16_locale", "C16_case_insensitive"]
TAGS = [b"TITLE", b"title", b"Title", b"ARTIST", b"artist", b"T", b"TI", b"TITLE2", b"\xc3\x84RGER", b"\xc3\xa4rger",
        b"a.b", b"[]", b"{x}", b"`", b"@",
        # every letter, both ends of the alphabet next to their non-letter neighbours (@ A Z [ and ` a z {)
        b"ORGANIZATION", b"organization", b"Zz", b"az", b"AZ", b"abcdefghijklmnopqrstuvwxyz", b"ABCDEFGHIJKLMNOPQRSTUVWXYZ", b"@AZ[", b"`az{"]


def rbytes(rng, n, alphabet=None):
    if alphabet == "ascii":
        return bytes(rng.choice(b"abcdefghijklmnopqrstuvwxyzABCDEFGHIJKLMNOPQRSTUVWXYZ0123456789 =") for _ in range(n))
    return bytes(rng.getrandbits(8) for _ in range(n))


def gen_entry(rng, big):
    k = rng.random()
    if k < 0.45:
        tag = rng.choice(TAGS)
        if rng.random() < 0.3:
            tag = bytes(c ^ 0x20 if (65 <= c <= 90 or 97 <= c <= 122) and rng.random() < 0.5 else c for c in tag)
        val = rbytes(rng, rng.choice([0, 1, 3, 10, 40]), "ascii" if rng.random() < 0.7 else None)
        return tag + b"=" + val
    if k < 0.55:
        return b""
    if k < 0.65:
        return rng.choice(TAGS)[: rng.randint(0, 5)]      # shorter than the tag, no '='
    if k < 0.75:
        return b"TIT\x00LE=x" if rng.random() < 0.5 else b"TITLE\x00=y"
    n = rng.choice([1, 2, 7, 100, 1000]) if not big else rng.choice([5000, 70000, 300000])
    return rbytes(rng, n)


def pack_ref(vendor, cs):
    out = b"\x03vorbis" + struct.pack("<I", len(vendor)) + vendor + struct.pack("<I", len(cs))
    for c in cs:
        out += struct.pack("<I", len(c)) + c
    return out + b"\x01"


def gen_case(rng, i, tier):
    big = (tier == "thorough" and i % 25 == 0) or (tier == "quick" and i % 150 == 7)
    many = (i % 40 == 3)
    lines = ["case %d" % i]
    kind = rng.random()
    if kind < 0.5:
        n = rng.choice([0, 1, 2, 3, 5, 8, 20]) if not many else rng.choice([500, 3000])
        cs = [gen_entry(rng, big and j == 0) for j in range(n)]
        if rng.random() < 0.2:
            # lists made mostly of empty entries (an empty entry is a bare zero length word in the header)
            cs = [b"" if rng.random() < 0.85 else gen_entry(rng, False)[:rng.choice([1, 3, 40])] for _ in range(rng.choice([2, 3, 7, 30, n + 2]))]
        lines.append("roundtrip " + " ".join(vlib.hexs(c) for c in cs) if cs else "roundtrip")
        meta = {"kind": "roundtrip", "cs": cs}
    elif kind < 0.65:
        cs = []
        for _ in range(rng.randint(0, 6)):
            if rng.random() < 0.5:
                c = gen_entry(rng, False)
                lines.append("add " + vlib.hexs(c))
                cs.append(c.split(b"\0")[0])
            else:
                t = rng.choice(TAGS)
                v = rbytes(rng, rng.randint(0, 8), "ascii")
                lines.append("addtag %s %s" % (vlib.hexs(t), vlib.hexs(v)))
                cs.append(t + b"=" + v)
        lines.append("flush")
        meta = {"kind": "roundtrip", "cs": cs}
    else:
        # malformed / boundary stream built from a valid packet
        n = rng.choice([0, 1, 2, 4])
        cs = [gen_entry(rng, False) for _ in range(n)]
        vendor = rbytes(rng, rng.choice([0, 1, 5, 30]), "ascii")
        pkt = bytearray(pack_ref(vendor, cs))
        m = rng.random()
        # positions of the length fields
        pos = [7, 7 + 4 + len(vendor)]
        p = pos[1] + 4
        for c in cs:
            pos.append(p)
            p += 4 + len(c)
        if m < 0.35:
            f = rng.choice(pos)
            remaining = len(pkt) - (f + 4)
            base = rng.choice([remaining, remaining // 4, len(pkt) - 8, 2 ** 31, 2 ** 32 - 1, 0])
            v = max(0, min(2 ** 32 - 1, base + rng.choice([-1, 0, 1])))
            pkt[f:f + 4] = struct.pack("<I", v)
        elif m < 0.6:
            cut = rng.choice(pos + [p, p + 1, len(pkt) - 1, rng.randint(0, len(pkt))])
            pkt = pkt[:max(0, min(len(pkt), cut + rng.choice([0, 1, 2, 3, 4])))]
        elif m < 0.7:
            pkt[-1] = rng.choice([0, 2, 0xfe, 0xff, 3])
        elif m < 0.8:
            i0 = rng.randrange(0, 7)
            pkt[i0] = (pkt[i0] + 1) & 255 if i0 else rng.choice([1, 5, 3, 2, 0x83])
        elif m < 0.9:
            pkt += rbytes(rng, rng.randint(1, 9))
        else:
            pkt = bytearray(rbytes(rng, rng.randint(0, 40)))
            if rng.random() < 0.7:
                pkt[:7] = b"\x03vorbis"
        lines.append("unpack " + vlib.hexs(bytes(pkt)))
        meta = {"kind": "unpack", "pkt": bytes(pkt)}
    # queries
    for _ in range(rng.randint(1, 6)):
        t = rng.choice(TAGS)
        if rng.random() < 0.2:
            t = rbytes(rng, rng.randint(0, 4))
        elif rng.random() < 0.4:
            # the same tag in another case (and the non-letters 32 away from letters, which must not match)
            t = bytes(c ^ 0x20 if (64 <= c <= 91 or 96 <= c <= 123) and rng.random() < 0.5 else c for c in t)
        if rng.random() < 0.5:
            lines.append("count " + vlib.hexs(t))
            meta.setdefault("counts", []).append(t)
        else:
            lines.append("query %s %d" % (vlib.hexs(t), rng.randint(0, 4)))
    # count/query consistency probe: count then query 0..count
    t = rng.choice(TAGS[:6])
    lines.append("count " + vlib.hexs(t))
    for k in range(0, 4):
        lines.append("query %s %d" % (vlib.hexs(t), k))
    meta["probe"] = len(lines) - 5
    return lines, meta


def oracle_factory(metas, vendor):
    def oracle(r):
        """the property, evaluated on the implementation's own answers"""
        cid = int(r["ops"][0].split()[1])
        meta = metas[cid]
        out = r["c"]
        if meta["kind"] == "roundtrip":
            up = [l for l in out if l.startswith("unpacked ")]
            if not up:
                return "roundtrip: no unpack answer"
            toks = up[0].split(" ")
            if toks[1] != "rc=0":
                return "roundtrip: encoder's comment header rejected (%s)" % toks[1]
            got_vendor = toks[2].split("=", 1)[1]
            n = int(toks[3].split("=")[1])
            got = toks[4:]
            want = [vlib.hexs(c) for c in meta["cs"]]
            if n != len(want) or got != want:
                return "roundtrip: comment list changed (count %d vs %d)" % (n, len(want))
            if got_vendor != vlib.hexs(vendor):
                return "roundtrip: vendor string differs"
        # the queries themselves, against an independent evaluation of the statement on the list that was written: a tag matches an entry
        # that begins with it (letters A-Z/a-z compared without case, every other byte exactly) followed by '='
        if meta["kind"] == "roundtrip":
            qops = []
            for op in reversed(r["ops"]):
                if op.startswith(("count ", "query ")):
                    qops.append(op)
                else:
                    break
            qops.reverse()
            qout = out[len(out) - len(qops):] if len(out) > len(qops) else []

            def up(b):
                return bytes(c - 32 if 97 <= c <= 122 else c for c in b)
            for op, ans in zip(qops, qout):
                t = op.split(" ")
                tag = (bytes.fromhex(t[1]) if t[1] != "-" else b"").split(b"\0")[0]
                full = tag + b"="
                hits = [k for k, e in enumerate(meta["cs"]) if len(e) >= len(full) and up(e[:len(full)]) == up(full)]
                if t[0] == "count":
                    if ans != "count %d" % len(hits):
                        return "match-count: tag %r matches %d of the %d entries, the library says '%s'" % (tag, len(hits), len(meta["cs"]), ans)
                else:
                    k = int(t[2])
                    want = "q idx=%d off=%d" % (hits[k], len(full)) if 0 <= k < len(hits) else "q none"
                    if ans != want:
                        return "query: tag %r, match %d: expected '%s', the library says '%s'" % (tag, k, want, ans)
        # count == number of successful queries (probe at the end of each case)
        tail = out[-5:]
        if tail and tail[0].startswith("count ") and tail[0] != "count nolist":
            c = int(tail[0].split()[1])
            succ = sum(1 for l in tail[1:] if l.startswith("q idx="))
            if succ != min(c, 4):
                return "count: count=%d but %d of queries 0..3 succeeded" % (c, succ)
            idxs = [int(l.split()[1].split("=")[1]) for l in tail[1:] if l.startswith("q idx=")]
            if idxs != sorted(set(idxs)):
                return "query: matches not in insertion order"
        return None
    return oracle


def vendor_from_repo():
    import re
    src = open(os.path.join(vlib.REPO, "lib/info.c"), encoding="latin-1").read()
    m = re.search(r'#define\s+ENCODE_VENDOR_STRING\s+"([^"]*)"', src)
    return m.group(1).encode("latin-1") if m else b""


def run(chk):
    broken = chk.proof_side(THEOREMS)
    n = 400 if chk.tier == "quick" else 6000
    cases, metas = [], {}
    corpus = os.path.join(vlib.VERIF, "corpus", "C16")
    for i in range(n):
        lines, meta = gen_case(chk.rng, i, chk.tier)
        cases.append(lines)
        metas[i] = meta
    vendor = vendor_from_repo()
    res = vlib.run_pair("c16", cases)
    dis, crash, ofail = common.judge_pairs(chk, "c16", res, oracle_factory(metas, vendor))
    # the same lists through a whole Ogg stream and vorbisfile (harness only): comment headers of one page up to many (a comment packet of
    # more than ~130 kB spans three pages or more; the pages inside it carry no granule position), seekable and streaming, any read size
    vcases = []
    for j, (ne, ln) in enumerate([(0, 0), (1, 10), (30, 0), (1, 70000), (1, 140000), (1, 300000), (4000, 60), (3, 100000), (2500, 0), (1, 200000)]
                                 + ([] if chk.tier == "quick" else [(chk.rng.randrange(1, 6000), chk.rng.choice([0, 20, 300])) for _ in range(40)]
                                    + [(chk.rng.randrange(1, 4), chk.rng.randrange(60000, 600000)) for _ in range(20)])):
        vcases.append(["case %d" % (800000 + j), "vfround %d %d %d %d %d" % (chk.rng.randrange(1, 99999), ne, ln, j % 2 if j < 10 else chk.rng.randint(0, 1),
                                                                             chk.rng.choice([4096, 513, 100000]))])
    # ... and the tag-editor workflow: a list that came out of the decoder is appended to with the public add calls, written and read again
    for j in range(40 if chk.tier == "quick" else 600):
        n0 = j if j < 20 else chk.rng.choice([0, 1, 15, 16, 17, 31, 32, 33, 100, 255, 256, 1000])
        vcases.append(["case %d" % (810000 + j), "editrt %d %d %d" % (chk.rng.randrange(1, 99999), n0, chk.rng.choice([1, 2, 3, 16, 17, 40]))])
    vres = vlib.run_harness_only("c16", vcases, variant="san", timeout=1200)
    vpages = {}
    for r in vres:
        if r["c"] is None or (r["rc_c"] != 0 and r["err_c"]):
            crash.append(r)
            continue
        if r["ops"][1].startswith("editrt"):
            line = next((l for l in r["c"] if l.startswith("editrt ")), "editrt missing")
            f = dict(x.split("=", 1) for x in line.split(" ")[1:] if "=" in x)
            t = r["ops"][1].split(" ")
            if f.get("rc") != "0" or f.get("same") != "1" or f.get("n") != str(int(t[2]) + int(t[3])):
                r["m"] = None
                ofail.append((r, "edit: a decoded list extended with vorbis_comment_add/add_tag is not read back: " + line))
            chk.note_case(r["ops"][1], True, {"ops": r["ops"], "answer": line})
            continue
        line = next((l for l in r["c"] if l.startswith("vfround ")), "vfround missing")
        f = dict(x.split("=", 1) for x in line.split(" ")[1:] if "=" in x)
        want = r["ops"][1].split(" ")[2]
        if f.get("rc") != "0" or f.get("same") != "1" or f.get("n") != want or (r["ops"][1].split(" ")[4] == "1" and f.get("total") != "3000"):
            r["m"] = None
            ofail.append((r, "vorbisfile: a comment list written by the encoder is not read back through ov_open_callbacks/ov_comment: " + line))
        vpages[f.get("hdrpages", "?")] = vpages.get(f.get("hdrpages", "?"), 0) + 1
        chk.note_case(r["ops"][1], True, {"ops": r["ops"], "answer": line})
    chk.coverage["vorbisfile_roundtrips_by_header_pages"] = vpages
    kinds = {}
    for r in res:
        if r and r["c"]:
            cid = int(r["ops"][0].split()[1])
            k = metas[cid]["kind"] + ":" + ("ok" if any("rc=0" in l for l in r["c"] if l.startswith("unpacked")) else "rejected")
            kinds[k] = kinds.get(k, 0) + 1
            chk.note_case("\n".join(r["c"][:3])[:200], True,
                          {"ops": [o[:160] for o in r["ops"][:4]], "answer": [l[:160] for l in r["c"][1:4]]})
    chk.coverage["rule"] = ("seeded generator: comment lists (0..3000 entries, 0..300000 bytes, arbitrary bytes, NULs, empty, "
                            "tag-like with case variants), add/add_tag/flush, malformed packets (length fields at remaining±1, "
                            "2^31, 2^32-1; truncation at every field; framing bit; preamble), queries; lists of up to 4000 entries / 300 kB written by the encoder into an Ogg stream (comment header spanning 1..6 pages) and read back through ov_open_callbacks + ov_comment, seekable and streaming; decoded lists of 0..1000 entries extended with 1..40 vorbis_comment_add / add_tag calls, written and read again. distinct = distinct first "
                            "3 answer lines of the implementation")
    chk.coverage["distribution"] = kinds
    chk.coverage["disagreements"] = len(dis)
    chk.assumptions += ["model Vorbis/Comment.lean is byte level: comment header is byte aligned up to the framing bit",
                        "query tags are C strings (cut at the first NUL) as the API requires"]
    common.settle(chk, "c16", broken, dis, crash, ofail)


def replay(chk, obj):
    ops = obj["replay"].get("ops")
    res = vlib.run_pair("c16", [ops])
    for r in res:
        print("\n".join(r["c"] or []))
        print("--- model")
        print("\n".join(r["m"] or []))
