"""C05 — encoder output is a valid stream that the decoder consumes bit-for-bit."""
import os, sys
from . import common
import vlib

LEVEL = "proof"
CONFIGS = [(1, 8000), (2, 8000), (1, 11025), (2, 11025), (1, 16000), (2, 16000), (1, 22050), (2, 22050), (2, 24000), (1, 32000), (2, 32000),
           (1, 44100), (2, 44100), (2, 48000), (1, 48000), (3, 44100), (4, 48000), (6, 44100), (6, 48000), (8, 48000), (2, 64000), (2, 96000), (1, 192000),
           (5, 32000), (3, 22050), (2, 19000), (2, 26000), (2, 40000), (2, 50000), (1, 15000), (2, 9000)]


def gen_case(rng, i, tier):
    ch, rate = rng.choice(CONFIGS)
    if i % 41 == 9:
        ch = rng.choice([16, 100, 255, 256])
    sig = rng.choice([0, 1, 1, 2, 3, 4, 5, 6, 7, 8, 8, 9])
    n = rng.choice([0, 1, 300, 3000, 12000] + ([60000] if tier == "thorough" else []))
    if ch > 8:
        n = min(n, 3000)
    r = rng.random()
    if r < 0.6:
        q = "%.2f" % rng.choice([-0.1, 0.0, 0.1, 0.25, 0.4, 0.5, 0.7, 0.9, 1.0])
    else:
        per = rng.choice([16000, 32000, 48000, 64000, 96000]) * ch
        style = rng.choice(["nom", "max", "min", "cbr", "both", "tiny"])
        if style == "nom":
            q = "m-1:%d:-1" % per
        elif style == "max":
            q = "m%d:%d:-1:%d:%.1f" % (per, per, rng.choice([4096, 30000, 200000]), rng.choice([0.0, 0.5, 1.0]))
        elif style == "min":
            q = "m-1:%d:%d:%d:%.1f" % (per, per // 2, rng.choice([4096, 200000]), rng.choice([0.0, 1.0]))
        elif style == "cbr":
            q = "m%d:%d:%d" % (per, per, per)
        elif style == "both":
            q = "m%d:%d:%d:%d:0.5" % (per * 2, per, per // 2, rng.choice([8192, 100000]))
        else:
            q = "m%d:%d:-1:%d:0.0" % (per // 3, per, 512)
    # unmanaged streams: a third take their packets straight from vorbis_analysis(vb,&op) instead of through addblock/flushpacket
    direct = " d" if (not q.startswith("m") and rng.random() < 0.35) else ""
    return ["case %d" % i, "enc %d %d %s %d %d %d%s" % (ch, rate, q, sig, rng.randint(1, 10 ** 6), n, direct)]


def kv(l):
    return dict(t.split("=", 1) for t in l.split(" ")[1:] if "=" in t)


def run(chk):
    theorems = vlib.theorem_names("C05")
    broken = chk.proof_side(theorems)
    n = 100 if chk.tier == "quick" else 1500
    cases = [gen_case(chk.rng, i, chk.tier) for i in range(n)]
    # boundary block: the channel-count limits of the identification header (8 bit field)
    for chn in (1, 2, 254, 255, 256, 257):
        cases.append(["case %d" % len(cases), "enc %d 44100 0.30 1 7 600" % chn])
        cases.append(["case %d" % len(cases), "enc %d 8000 m-1:%d:-1 0 7 600" % (chn, 16000 * chn)])
    # tonal block: harmonic complexes on every narrow-band / low-quality set-up, long enough for many long blocks: residue vectors that
    # quantise onto the grid points of the sparse residue books (where an entry can be unused)
    for chn, rate in ((1, 8000), (2, 8000), (1, 11025), (1, 16000), (2, 16000), (1, 22050), (2, 22050)):
        for q in ("-0.10", "0.00"):
            for sg in (8, 9):
                cases.append(["case %d" % len(cases), "enc %d %d %s %d 11 16000" % (chn, rate, q, sg)])
    cases += common.load_corpus("C05", len(cases))
    res = vlib.run_harness_only("c05", cases, timeout=3000)
    crash, ofail, dis = [], [], []
    mcases, expect, idx = [], [], []
    dist = {"rejected_setup": 0, "unmanaged": 0, "managed": 0, "hardmax": 0, "packets": 0, "long": 0, "short": 0, "truncated_ok": 0}
    for ci, r in enumerate(res):
        if r["c"] is None or (r["rc_c"] != 0 and r["err_c"]):
            crash.append(r)
            continue
        out = r["c"]
        info = kv(out[1]) if len(out) > 1 and out[1].startswith("info ") else {}
        if info.get("rc") != "0":
            dist["rejected_setup"] += 1
            chk.note_case(out[1] if len(out) > 1 else "?", False)
            continue
        managed, hardmax = info["managed"] == "1", info["hardmax"] == "1"
        dist["hardmax" if hardmax else "managed" if managed else "unmanaged"] += 1
        ml, ex = [r["ops"][0], "new"], []
        pk = []
        bad = None
        for l in out[2:]:
            if l.startswith("op "):
                ml.append(l[3:])
            elif l.startswith("x "):
                pk[-1].update(kv(l))
            elif l.startswith("totals "):
                t = kv(l)
                if t["samples"] != t["submitted"] or t["eos"] != "1":
                    bad = bad or "count: %s samples decoded of %s submitted (eos=%s)" % (t["samples"], t["submitted"], t["eos"])
            else:
                ex.append(l)
                if l.startswith("hdr "):
                    k = kv(l)
                    if k["rc"] != "0":
                        bad = bad or "header: the decoder refused an encoder header with %s" % k["rc"]
                    elif "ch" in k:
                        for f in ("ch", "rate", "bs0", "bs1", "br"):
                            if k[f] != info[f]:
                                bad = bad or "header: identification header says %s=%s, the encoder's info says %s" % (f, k[f], info[f])
                elif l.startswith("init ") and "rc=0" not in l:
                    bad = bad or "header: vorbis_synthesis_init refused the encoder's set-up header"
                elif l.startswith("pkt "):
                    k = kv(l)
                    pk.append(k)
                    if k["rc"] != "0" or k.get("brc") != "0":
                        bad = bad or "packet: audio packet refused (%s / %s)" % (k["rc"], k.get("brc"))
        dist["packets"] += len(pk)
        for j, p in enumerate(pk):
            if "W" not in p:
                continue
            dist["long" if p["W"] == "1" else "short"] += 1
            if p["W"] == "1":
                if j > 0 and "W" in pk[j - 1] and p["lW"] != pk[j - 1]["W"]:
                    bad = bad or "flags: packet %d says previous window %s, the previous packet is %s" % (j, p["lW"], pk[j - 1]["W"])
                if j + 1 < len(pk) and "W" in pk[j + 1] and p["nW"] != pk[j + 1]["W"]:
                    bad = bad or "flags: packet %d says next window %s, the next packet is %s" % (j, p["nW"], pk[j + 1]["W"])
            bits, nbytes, dead = int(p["bits"]), int(p["bytes"]), int(p["dead"])
            if dead & 2:
                bad = bad or "finite: packet %d decodes to non-finite samples" % j
            if not managed:
                if dead & 1 or not (8 * (nbytes - 1) < bits <= 8 * nbytes):
                    bad = bad or "consumed: unmanaged packet %d has %d bytes, the decoder consumed %d bits (ran out: %d)" % (j, nbytes, bits, dead & 1)
            elif not hardmax:
                if dead & 1 or bits > 8 * nbytes:
                    bad = bad or "consumed: managed packet %d (no hard maximum) ran out of bits (%d bytes, %d bits)" % (j, nbytes, bits)
            elif dead & 1:
                dist["truncated_ok"] += 1
        if bad:
            ofail.append((r, bad))
        chk.note_case(r["ops"][1], len(pk) > 0, {"op": r["ops"][1], "info": out[1], "packets": len(pk)})
        mcases.append(ml)
        expect.append(ex)
        idx.append(ci)
    mres = vlib.run_model_only("c02", mcases, timeout=3000)
    for k, mr in enumerate(mres):
        r = res[idx[k]]
        mo = [l for l in (mr["m"] or [])[1:] if l.startswith(("hdr ", "init ", "pkt "))]
        d = vlib.first_diff(expect[k], mo)
        if mr["m"] is None or d:
            d = d or (0, "", "model produced no output " + mr.get("err_m", "")[-200:])
            dis.append(({"ops": r["ops"], "c": expect[k][max(0, d[0] - 2):d[0] + 2], "m": mo[max(0, d[0] - 2):d[0] + 2]}, (d[0], d[1][:200], d[2][:200])))
    # ---- the encoder's packets read by the specification decoder (Lean, Vorbis/Spec/Decode.lean): field widths, floor, residue, coupling and
    # the transform as the specification text gives them, nothing borrowed from the library; every template family with one and with two block sizes
    from . import c01 as C1
    spec_cfg = [(1, 8000, "0.40"), (2, 8000, "0.10"), (1, 11025, "0.30"), (2, 11025, "-0.10"), (1, 16000, "-0.10"), (1, 16000, "0.50"), (2, 22050, "0.30"), (1, 44100, "0.50")]
    if chk.tier == "thorough":
        spec_cfg += [(2, 44100, "0.10"), (2, 32000, "0.70"), (3, 8000, "0.40"), (1, 48000, "1.00")]
    scases = [["case %d" % (90000 + k), "enc %d %d %s %d %d %d" % (ch, rate, q, chk.rng.choice([1, 8, 9]), chk.rng.randint(1, 9999), 6 * 1024)] for k, (ch, rate, q) in enumerate(spec_cfg)]
    sres = vlib.run_harness_only("c05", scases, timeout=3000)
    c1cases = []
    for r in sres:
        if r["c"] is None:
            crash.append(r)
            continue
        hd = [l[3:] for l in r["c"] if l.startswith("op hdr ")]
        pk = [l.split(" ")[2] for l in r["c"] if l.startswith("op pkt ")]
        if len(hd) == 3 and pk:
            c1cases.append([r["ops"][0], "new"] + hd + ["init"] + ["pkt " + x for x in pk[:4 if chk.tier == "quick" else 8]] + ["#" + r["ops"][1]])
    nspec = 0
    for r in vlib.run_pair("c01", [c[:-1] for c in c1cases], timeout=3000):
        if r["c"] is None or (r["rc_c"] != 0 and r.get("err_c")):
            crash.append(r)
            continue
        pbl, st = C1.compare(r)
        nspec += st["packets"]
        if pbl:
            ofail.append((dict(r, c=r["c"][:6]), "spec: the encoder's own packets, read by the specification decoder, differ from what the library decodes: " + pbl))
    chk.coverage["packets_through_specification_decoder"] = nspec
    chk.coverage["rule"] = ("31 channel/rate configurations (+16/100/255/256 channels) x VBR qualities -0.1..1.0 and managed set-ups (nominal only, hard max, hard min, CBR, both, tiny reservoir) x "
                            "signals (sine, noise, silence, impulses, loud, one channel only, denormals, x10, harmonic tone complexes within and beyond full scale) x lengths; headers and every packet go through the C decoder and through the "
                            "Lean header/packet-header model (strict: Huffman trees must be valid); oracles: header fields = encoder info, flags agree with neighbours, bits consumed; the first packets of one configuration per template family (one and two block sizes) are also decoded by the Lean specification decoder and compared sample by sample. "
                            "distinct = distinct enc lines")
    chk.coverage["distribution"] = dist
    chk.coverage["disagreements"] = len(dis)
    chk.assumptions += ["the set-up header *packer* is not modelled: that the packed set-up parses back is checked per generated configuration (C decoder + Lean parser), not proved",
                        "which floor posts / residue entries the float analysis picks is outside the model; bit consumption is observed on the real decoder"]
    common.settle(chk, "c05", broken, dis, crash, ofail)


def replay(chk, obj):
    if "new" in obj["replay"]["ops"][:3]:
        # the specification-decoder part: library and Lean decoder side by side
        return __import__("checks.c01", fromlist=["replay"]).replay(chk, obj)
    res = vlib.run_harness_only("c05", [obj["replay"]["ops"]])
    for r in res:
        print("\n".join(l[:200] for l in (r["c"] or [])))
