/-
Semantics prelude for function bodies translated from the C source by `tools/c2lean.py`.

A translated function is a *shallow* embedding: its parameters and locals are the fields of a generated
structure `St` (all `Int`), every C statement becomes a `Stmt St = St → Ctl St`, and control flow is
spelled with the combinators below.  Loops carry fuel; running out is the distinguished outcome
`Ctl.fuel`, never a default value.  Array accesses through `float*` / table operands are not evaluated:
they are *recorded* (array name, index) in the trace field `tr`, so that "every index the C computes is
inside its object" is a statement about the generated code.

Reading of C arithmetic (trusted, see DESIGN §14.8): `int`/`long` are unbounded `Int`; `/` and `%`
truncate towards zero (`Int.tdiv`, `Int.tmod`); `>>` on a non-negative operand is `/ 2^k`; integer
conversions are the identity (each theorem that depends on it states the range it keeps values in).
No Mathlib.
-/
namespace Vorbis.CSem

/-- one recorded array access: which array (C identifier) and at which index -/
structure Acc where
  arr : String
  idx : Int
  deriving DecidableEq, Repr

/-- outcome of executing a statement -/
inductive Ctl (σ : Type) where
  | norm (s : σ)            -- fell through
  | brk (s : σ)             -- `break`
  | cont (s : σ)            -- `continue`
  | ret (v : Int) (s : σ)   -- `return v` (`return;` gives 0)
  | fuel (s : σ)            -- a loop ran out of fuel
  deriving Repr

abbrev Stmt (σ : Type) := σ → Ctl σ

def skip {σ} : Stmt σ := fun s => .norm s
def act {σ} (f : σ → σ) : Stmt σ := fun s => .norm (f s)
def seq {σ} (a b : Stmt σ) : Stmt σ := fun s =>
  match a s with
  | .norm s' => b s'
  | r => r
def ifS {σ} (c : σ → Bool) (a b : Stmt σ) : Stmt σ := fun s => if c s then a s else b s
def retS {σ} (e : σ → Int) : Stmt σ := fun s => .ret (e s) s
def brkS {σ} : Stmt σ := fun s => .brk s
def contS {σ} : Stmt σ := fun s => .cont s

/-- `while`/`for`: `pre` holds the side effects of the controlling expression (e.g. `++x` in
    `while(++x<n)`), `c` its value, `post` the `for` increment (runs after the body and after `continue`) -/
def loop {σ} (pre : σ → σ) (c : σ → Bool) (body : Stmt σ) (post : σ → σ) : Nat → Stmt σ
  | 0, s => .fuel s
  | f + 1, s =>
      let s1 := pre s
      if c s1 then
        match body s1 with
        | .norm s2 => loop pre c body post f (post s2)
        | .cont s2 => loop pre c body post f (post s2)
        | .brk s2 => .norm s2
        | r => r
      else .norm s1

/-- C `abs` -/
def cabs (x : Int) : Int := if x < 0 then -x else x
/-- C `>>` (operand non-negative in every translated use) -/
def shr (x k : Int) : Int := x / 2 ^ k.toNat
/-- C `<<` -/
def shl (x k : Int) : Int := x * 2 ^ k.toNat
/-- C `&` on two's-complement words of up to 64 bits; exact whenever one operand is a non-negative mask
    (the only translated use: `y&=0x7fff`) -/
def land (a b : Int) : Int := (((a % 2 ^ 64).toNat &&& (b % 2 ^ 64).toNat : Nat) : Int)
def lor (a b : Int) : Int := (((a % 2 ^ 64).toNat ||| (b % 2 ^ 64).toNat : Nat) : Int)
/-- C truth value of an integer -/
def truth (x : Int) : Bool := x != 0
def b2i (b : Bool) : Int := if b then 1 else 0

/-- the returned value, if the function returned -/
def Ctl.val? {σ} : Ctl σ → Option Int
  | .ret v _ => some v
  | _ => none

def Ctl.state {σ} : Ctl σ → σ
  | .norm s | .brk s | .cont s | .ret _ s | .fuel s => s

def Ctl.outOfFuel {σ} : Ctl σ → Bool
  | .fuel _ => true
  | _ => false

end Vorbis.CSem
