/-
Shared small definitions: byte strings, hex, little-endian 32-bit words.
No Mathlib; everything here is executable and is used both by the proofs and by `vdriver`.
-/
namespace Vorbis

abbrev Bytes := List UInt8

/-- little-endian 32 bit word, as `oggpack_write(opb,n,32)` emits it at a byte boundary -/
def le32 (n : Nat) : Bytes :=
  [UInt8.ofNat n, UInt8.ofNat (n / 256), UInt8.ofNat (n / 65536), UInt8.ofNat (n / 16777216)]

/-- `oggpack_read(opb,32)` at a byte boundary; `none` is libogg's `-1` (ran off the packet) -/
def readLe32 : Bytes → Option (Nat × Bytes)
  | a :: b :: c :: d :: rest =>
      some (a.toNat + 256 * b.toNat + 65536 * c.toNat + 16777216 * d.toNat, rest)
  | _ => none

/-- take exactly `n` bytes or fail -/
def takeN (n : Nat) (l : Bytes) : Option (Bytes × Bytes) :=
  if n ≤ l.length then some (l.take n, l.drop n) else none

def hexDigit (n : Nat) : Char :=
  if n < 10 then Char.ofNat (48 + n) else Char.ofNat (87 + n)

def toHex (b : Bytes) : String :=
  if b.isEmpty then "-" else
  String.ofList (b.foldr (fun x acc => hexDigit (x.toNat / 16) :: hexDigit (x.toNat % 16) :: acc) [])

def hexVal (c : Char) : Option Nat :=
  if '0' ≤ c ∧ c ≤ '9' then some (c.toNat - 48)
  else if 'a' ≤ c ∧ c ≤ 'f' then some (c.toNat - 87)
  else if 'A' ≤ c ∧ c ≤ 'F' then some (c.toNat - 55)
  else none

def fromHexChars : List Char → Option Bytes
  | [] => some []
  | [_] => none
  | a :: b :: rest => do
      let x ← hexVal a
      let y ← hexVal b
      let r ← fromHexChars rest
      pure (UInt8.ofNat (16 * x + y) :: r)

/-- "-" is the empty byte string -/
def fromHex (s : String) : Option Bytes :=
  if s == "-" then some [] else fromHexChars s.toList

end Vorbis
