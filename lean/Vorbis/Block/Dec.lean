import Vorbis.Block.Enc
/-
Count-level model of the synthesis side of lib/block.c: `vorbis_synthesis_restart`,
`vorbis_synthesis_blockin` (sequence / sample_count / granulepos bookkeeping and the end- and
begin-trimming), `vorbis_synthesis_pcmout`, `vorbis_synthesis_read`. `hs` is the half-rate flag.
-/
namespace Vorbis.Block

structure Dec where
  lW : Bool
  W : Bool
  cW : Int            -- centerW (0 or n1)
  cur : Int           -- pcm_current
  ret : Int           -- pcm_returned (-1: nothing decoded yet)
  gran : Int          -- granulepos (-1 unknown)
  seq : Int           -- sequence (-1 none)
  sc : Int            -- sample_count (-1 unknown)
  eof : Bool
  deriving Repr

def shr (x : Int) (k : Nat) : Int := x / (2 ^ k : Int)     -- arithmetic shift right
def shl (x : Int) (k : Nat) : Int := x * (2 ^ k : Int)

/-- `vorbis_synthesis_restart` -/
def Dec.restart (z : Sizes) (hs : Nat) : Dec :=
  { lW := false, W := false, cW := shr z.bs1 (hs + 1), cur := shr (shr z.bs1 (hs + 1)) hs,
    ret := -1, gran := -1, seq := -1, sc := -1, eof := false }

/-- a block entering `vorbis_synthesis_blockin`: window flag, granule position (-1 if the page did
    not give one), end-of-stream flag, sequence number, and whether it carries pcm (`vb->pcm`) -/
structure Blk where
  W : Bool
  gp : Int
  eos : Bool
  seq : Int
  pcm : Bool := true
  deriving Repr

/-- the pcm section of `vorbis_synthesis_blockin` as far as positions go: (centerW, pcm_returned, pcm_current) -/
def pcmStage (n1 adv : Int) (hs : Nat) (cW ret cur : Int) (pcm : Bool) : Int × Int × Int :=
  if pcm then
    let thisCenter := if cW ≠ 0 then n1 else 0
    let prevCenter := if cW ≠ 0 then 0 else n1
    let cW' := if cW ≠ 0 then 0 else n1
    if ret = -1 then (cW', thisCenter, thisCenter)
    else (cW', prevCenter, prevCenter + shr adv hs)
  else (cW, ret, cur)

/-- granule tracking and trimming: (granulepos, pcm_returned, pcm_current) -/
def granStage (hs : Nat) (gran0 sc1 adv gp : Int) (eos : Bool) (ret1 cur1 : Int) : Int × Int × Int :=
  if gran0 = -1 then
    if gp ≠ -1 then
      if sc1 > gp then
        let extra0 := sc1 - gp
        let extra := if extra0 < 0 then 0 else extra0
        if eos then
          let extra' := if extra > shl (cur1 - ret1) hs then shl (cur1 - ret1) hs else extra
          (gp, ret1, cur1 - shr extra' hs)
        else
          let r := ret1 + shr extra hs
          (gp, if r > cur1 then cur1 else r, cur1)
      else (gp, ret1, cur1)
    else (gran0, ret1, cur1)
  else
    let g := gran0 + adv
    if gp ≠ -1 ∧ g ≠ gp then
      if g > gp ∧ eos then
        let extra0 := g - gp
        let extra1 := if extra0 > shl (cur1 - ret1) hs then shl (cur1 - ret1) hs else extra0
        let extra := if extra1 < 0 then 0 else extra1
        (gp, ret1, cur1 - shr extra hs)
      else (gp, ret1, cur1)
    else (g, ret1, cur1)

/-- `vorbis_synthesis_blockin`; returns the new state and the return code (0 / -131) -/
def Dec.blockin (z : Sizes) (hs : Nat) (d : Dec) (b : Blk) : Dec × Int :=
  if d.cur > d.ret ∧ d.ret ≠ -1 then (d, -131)
  else
    let lost := d.seq = -1 ∨ d.seq + 1 ≠ b.seq
    let gran0 := if lost then -1 else d.gran
    let sc0 := if lost then -1 else d.sc
    let adv := z.bs d.W / 4 + z.bs b.W / 4
    let p := pcmStage (shr z.bs1 (hs + 1)) adv hs d.cW d.ret d.cur b.pcm
    let sc1 := if sc0 = -1 then 0 else sc0 + adv
    let g := granStage hs gran0 sc1 adv b.gp b.eos p.2.1 p.2.2
    ({ lW := d.W, W := b.W, cW := p.1, cur := g.2.2, ret := g.2.1, gran := g.1, seq := b.seq, sc := sc1,
       eof := d.eof || b.eos }, 0)

/-- `vorbis_synthesis_pcmout(v,NULL)` -/
def Dec.pcmout (d : Dec) : Int := if d.ret > -1 ∧ d.ret < d.cur then d.cur - d.ret else 0

/-- `vorbis_synthesis_read(v,n)` -/
def Dec.read (d : Dec) (n : Int) : Dec × Int :=
  if n ≠ 0 ∧ d.ret + n > d.cur then (d, -131) else ({ d with ret := d.ret + n }, 0)

/-- decode a packet sequence, draining everything after each block; the list of per-block counts -/
def Dec.drainAll (z : Sizes) (hs : Nat) : Dec → List Blk → List Int
  | _, [] => []
  | d, b :: rest =>
      let (d1, _) := d.blockin z hs b
      let n := d1.pcmout
      let (d2, _) := d1.read n
      n :: Dec.drainAll z hs d2 rest

def sum : List Int → Int
  | [] => 0
  | x :: xs => x + sum xs

/-- what the packet-level decoder sees of an encoder packet when every packet keeps its granule
    position (packet API), or when `vis` hides some of them (Ogg pages carry only the granule
    position of their last completed packet) -/
def Pkt.toBlk (p : Pkt) (visible : Bool) : Blk :=
  { W := p.W, gp := if visible then p.gp else -1, eos := p.eos, seq := p.seq }

end Vorbis.Block
