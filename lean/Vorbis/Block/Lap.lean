import Vorbis.Block.Dec
/-
Provenance model of the decoder's overlap-add double buffer (`vorbis_synthesis_blockin`, lib/block.c):
which packets does each cell of `v->pcm` depend on?  Sample values are abstracted away: a cell is the
list of sources that were combined into it.  `stale` stands for whatever the buffer held before
(`calloc`ed zeros after init, or old audio after `vorbis_synthesis_restart`, a seek, or a lost packet).
Sizes: `n0 = blocksizes[0]>>(hs+1)`, `n1 = blocksizes[1]>>(hs+1)`; the buffer has `2*n1` cells.
-/
namespace Vorbis.Block.Lap

inductive Src
  | stale
  | pkt (k : Nat) (j : Int)      -- sample `j` of the inverse-transform output of packet `k` (`vb->pcm[ch][j]`)
  deriving DecidableEq, Repr

abbrev Cell := List Src
abbrev Buf := Int → Cell

structure St where
  buf : Buf
  cW : Int          -- centerW: 0 or n1
  lW : Bool         -- size flag of the previous block
  first : Bool      -- pcm_returned == -1
  retLo : Int       -- pcm_returned
  retHi : Int       -- pcm_current

/-- `vorbis_synthesis_restart` (also the state after init): whatever the buffer holds is `stale` -/
def restart (n1 : Int) : St :=
  { buf := fun _ => [Src.stale], cW := n1, lW := false, first := true, retLo := -1, retHi := n1 }

/-- one `vorbis_synthesis_blockin` with a block that carries pcm; `k` is the packet's index,
    `W` its size flag -/
def blockin (n0 n1 : Int) (s : St) (k : Nat) (W : Bool) : St :=
  let lW := s.lW                      -- previous block's flag (v->W before the call)
  let n := if W then n1 else n0
  let thisCenter := if s.cW ≠ 0 then n1 else 0
  let prevCenter := if s.cW ≠ 0 then 0 else n1
  -- the overlap/add section: cells [lo, lo+len) get `old*w + new*w`; cells [lo+len, lo+len+cp) a plain copy
  -- (`off` = where in `vb->pcm` the section starts reading: `p=vb->pcm[j]+n1/2-n0/2` for small/large)
  let (lo, len, cp, off) : Int × Int × Int × Int :=
    if lW then (if W then (prevCenter, n1, 0, 0) else (prevCenter + n1 / 2 - n0 / 2, n0, 0, 0))
    else (if W then (prevCenter, n0, n1 / 2 + n0 / 2 - n0, n1 / 2 - n0 / 2) else (prevCenter, n0, 0, 0))
  let buf1 : Buf := fun i =>
    if lo ≤ i ∧ i < lo + len then s.buf i ++ [Src.pkt k (i - lo + off)]
    else if lo + len ≤ i ∧ i < lo + len + cp then [Src.pkt k (i - lo + off)]
    else s.buf i
  -- the copy section: the second half of the block goes to thisCenter
  let buf2 : Buf := fun i => if thisCenter ≤ i ∧ i < thisCenter + n then [Src.pkt k (n + (i - thisCenter))] else buf1 i
  let adv := (if lW then n1 else n0) / 2 + n / 2
  { buf := buf2, cW := if s.cW ≠ 0 then 0 else n1, lW := W, first := false,
    retLo := if s.first then thisCenter else prevCenter,
    retHi := if s.first then thisCenter else prevCenter + adv }

/-- the cells the application is handed after this block -/
def returned (s : St) (i : Int) : Prop := s.retLo ≤ i ∧ i < s.retHi

/-- a cell that depends on nothing but packets `k-1` and `k` -/
def LocalTo (k : Nat) (c : Cell) : Prop := ∀ s ∈ c, (∃ j, s = Src.pkt k j) ∨ (0 < k ∧ ∃ j, s = Src.pkt (k - 1) j)

/-- What the specification says sample `r` of the audio returned after packet `k` (previous flag `lW`,
    own flag `W`) is made of: the tail of block `k-1` overlapped with the head of block `k`.
    A function of the two flags, the packet number and `r` only. -/
def specCell (n0 n1 : Int) (lW W : Bool) (k : Nat) (r : Int) : Cell :=
  let np := if lW then n1 else n0           -- half size of the previous block
  let old := Src.pkt (k - 1) (np + r)
  if lW then
    if W then [old, Src.pkt k r]
    else if r < n1 / 2 - n0 / 2 then [old] else [old, Src.pkt k (r - (n1 / 2 - n0 / 2))]
  else
    if W then (if r < n0 then [old, Src.pkt k (r + n1 / 2 - n0 / 2)] else [Src.pkt k (r + n1 / 2 - n0 / 2)])
    else [old, Src.pkt k r]

end Vorbis.Block.Lap
