import Vorbis.Block.Dec
namespace Vorbis.Block

def adv (z : Sizes) (lW W : Bool) : Int := z.bs lW / 4 + z.bs W / 4

/-- The shape of an encoder packet sequence for `N` submitted samples, as seen by a decoder:
    `first` — no packet seen yet; `lW` — window flag of the previous packet; `c` — centre position of
    the previous block (= samples the stream has advanced); `seq` — expected sequence number.
    Each entry carries a visibility flag: whether its granule position survives Ogg paging. -/
def Coherent (z : Sizes) (N : Int) : Bool → Bool → Int → Int → List (Pkt × Bool) → Prop
  | _, _, _, _, [] => False
  | first, lW, c, seq, [(p, vis)] =>
      let c' := if first then 0 else c + adv z lW p.W
      p.eos = true ∧ vis = true ∧ p.seq = seq ∧ p.gp = N ∧ c ≤ N ∧ N ≤ c'
  | first, lW, c, seq, (p, _) :: q :: rest =>
      let c' := if first then 0 else c + adv z lW p.W
      p.eos = false ∧ p.seq = seq ∧ p.gp = c' ∧ Coherent z N false p.W c' (seq + 1) (q :: rest)

/-- `Coherent` is decidable, so the correspondence can evaluate this very predicate on every real
    encoder trace -/
def Coherent.dec (z : Sizes) (N : Int) : ∀ (first lW : Bool) (c seq : Int) (l : List (Pkt × Bool)),
    Decidable (Coherent z N first lW c seq l)
  | _, _, _, _, [] => isFalse (by simp [Coherent])
  | first, lW, c, seq, [(p, vis)] => by unfold Coherent; exact inferInstance
  | first, lW, c, seq, (p, v) :: q :: rest => by
      unfold Coherent
      have := Coherent.dec z N false p.W (if first then 0 else c + adv z lW p.W) (seq + 1) (q :: rest)
      exact inferInstance

instance (z : Sizes) (N : Int) (first lW : Bool) (c seq : Int) (l : List (Pkt × Bool)) :
    Decidable (Coherent z N first lW c seq l) := Coherent.dec z N first lW c seq l

def toBlks (l : List (Pkt × Bool)) : List Blk := l.map (fun pv => pv.1.toBlk pv.2)

end Vorbis.Block
