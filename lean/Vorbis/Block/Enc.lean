/-
Integer bookkeeping of the analysis side of lib/block.c:
`vorbis_analysis_buffer`, `vorbis_analysis_wrote`, `vorbis_analysis_blockout`.
Sample data, the LPC extrapolation and the envelope filters carry no control flow here;
the result of `_ve_envelope_search` (-1 / 0 / 1) is an oracle argument of `blockout`.
-/
namespace Vorbis.Block

structure Sizes where
  bs0 : Int
  bs1 : Int
  deriving Repr

def Sizes.bs (z : Sizes) (w : Bool) : Int := if w then z.bs1 else z.bs0

structure Enc where
  cur : Int          -- pcm_current
  storage : Int      -- pcm_storage
  cW : Int           -- centerW
  lW : Bool
  W : Bool
  gp : Int           -- granulepos
  eof : Int          -- eofflag: 0 not yet, >0 index of the end of real data, -1 finished
  pre : Bool         -- preextrapolate
  seq : Int          -- sequence
  deriving Repr

/-- a packet as the rate-management-free path hands it out (`vorbis_bitrate_flushpacket`) -/
structure Pkt where
  lW : Bool
  W : Bool
  nW : Bool
  gp : Int
  eos : Bool
  seq : Int
  deriving Repr, DecidableEq

def Enc.init (z : Sizes) : Enc :=
  { cur := z.bs1 / 2, storage := z.bs1, cW := z.bs1 / 2, lW := false, W := false, gp := 0,
    eof := 0, pre := false, seq := 3 }

/-- `vorbis_analysis_buffer(v,vals)` -/
def Enc.buffer (e : Enc) (vals : Int) : Enc :=
  if e.cur + vals ≥ e.storage then { e with storage := e.cur + vals * 2 } else e

/-- `vorbis_analysis_wrote(v,vals)`; returns the new state and the return code (0 / OV_EINVAL = -131) -/
def Enc.wrote (z : Sizes) (e : Enc) (vals : Int) : Enc × Int :=
  if vals ≤ 0 then
    let e1 := { e with pre := true }
    let e2 := e1.buffer (z.bs1 * 3)
    ({ e2 with eof := e2.cur, cur := e2.cur + z.bs1 * 3 }, 0)
  else if e.cur + vals > e.storage then (e, -131)
  else
    let e1 := { e with cur := e.cur + vals }
    (if !e1.pre ∧ e1.cur - e1.cW > z.bs1 then { e1 with pre := true } else e1, 0)

/-- `vorbis_analysis_blockout`; `bp` is what `_ve_envelope_search` answers.
    Returns the new state and the block handed out (if the call returned 1). -/
def Enc.blockout (z : Sizes) (e : Enc) (bp : Int) : Enc × Option Pkt :=
  if !e.pre then (e, none)
  else if e.eof = -1 then (e, none)
  else if bp = -1 ∧ e.eof = 0 then (e, none)
  else
    let nW : Bool := if bp = -1 then false else if z.bs0 = z.bs1 then false else decide (bp ≠ 0)
    let centerNext := e.cW + z.bs e.W / 4 + z.bs nW / 4
    let blockbound := centerNext + z.bs nW / 2
    if e.cur < blockbound then (e, none)
    else
      let pkt : Pkt := { lW := e.lW, W := e.W, nW := nW, gp := e.gp, eos := false, seq := e.seq }
      let e1 := { e with seq := e.seq + 1 }
      if e1.eof ≠ 0 ∧ e1.cW ≥ e1.eof then ({ e1 with eof := -1 }, some { pkt with eos := true })
      else
        let movementW := centerNext - z.bs1 / 2
        if movementW > 0 then
          let e2 := { e1 with cur := e1.cur - movementW, lW := e1.W, W := nW, cW := z.bs1 / 2 }
          if e2.eof ≠ 0 then
            let eof' := if e2.eof - movementW ≤ 0 then -1 else e2.eof - movementW
            let gp' := if e2.cW ≥ eof' then e2.gp + (movementW - (e2.cW - eof')) else e2.gp + movementW
            ({ e2 with eof := eof', gp := gp' }, some pkt)
          else ({ e2 with gp := e2.gp + movementW }, some pkt)
        else (e1, some pkt)

inductive EncOp
  | buffer (n : Int)
  | wrote (n : Int)
  | blockout (bp : Int)
  deriving Repr

def Enc.step (z : Sizes) (e : Enc) : EncOp → Enc × List Pkt
  | .buffer n => (e.buffer n, [])
  | .wrote n => ((e.wrote z n).1, [])
  | .blockout bp => match e.blockout z bp with
      | (e', some p) => (e', [p])
      | (e', none) => (e', [])

def Enc.run (z : Sizes) : Enc → List EncOp → Enc × List Pkt
  | e, [] => (e, [])
  | e, op :: rest =>
      let (e1, ps) := e.step z op
      let (e2, qs) := Enc.run z e1 rest
      (e2, ps ++ qs)

end Vorbis.Block
