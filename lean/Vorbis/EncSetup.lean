import Vorbis.Generated.Templates
import Vorbis.Generated.Consts
import Vorbis.F32
/-
Decision logic of the encoder set-up API (lib/vorbisenc.c): `get_setup_template`,
`vorbis_encode_setup_vbr`, `vorbis_encode_setup_managed`, `vorbis_encode_setup_init`, the one-step
wrappers, and the validation part of `vorbis_encode_ctl`. Template numbers are the generated table.
Requests are exact values: a double is a rational, or NaN / ±infinity.
-/
namespace Vorbis.EncSetup
open Vorbis.Generated

/-- a C double as far as comparisons go -/
inductive Dbl
  | nan
  | ninf
  | pinf
  | fin (num : Int) (den : Nat)     -- num/den, den > 0
  deriving Repr, DecidableEq

/-- `a < b` on doubles (false whenever a NaN is involved) -/
def Dbl.lt : Dbl → Dbl → Bool
  | .nan, _ => false
  | _, .nan => false
  | .ninf, .ninf => false
  | .ninf, _ => true
  | _, .ninf => false
  | .pinf, _ => false
  | _, .pinf => true
  | .fin a b, .fin c d => decide (a * d < c * b)

def Dbl.ge (a b : Dbl) : Bool :=      -- `a >= b`
  match a, b with
  | .nan, _ => false
  | _, .nan => false
  | _, _ => !(Dbl.lt a b)

def Dbl.ofRat (p : Int × Nat) : Dbl := .fin p.1 p.2

/-- the interval search inside `get_setup_template` for one template's map:
    `none` = template skipped, `some j` = `for(j...)` stopped at `j` (`j = mappings`: "all-points match") -/
def findInterval (map : List (Int × Nat)) (mappings : Nat) (req : Dbl) : Option Nat :=
  match map.head?, map[mappings]? with
  | some lo, some hi =>
      if req.lt (.ofRat lo) then none
      else if (Dbl.ofRat hi).lt req then none
      else
        let rec go (j : Nat) (fuel : Nat) : Nat :=
          match fuel with
          | 0 => j
          | fuel + 1 =>
              if j < mappings then
                match map[j]?, map[j + 1]? with
                | some a, some b => if req.ge (.ofRat a) && req.lt (.ofRat b) then j else go (j + 1) fuel
                | _, _ => j
              else j
        some (go 0 (mappings + 1))
  | _, _ => none

/-- `(int)hi->base_setting`, following the float arithmetic of `get_setup_template` exactly:
    `float low=map[j], high=map[j+1]; float del=(req-low)/(high-low); *base_setting=j+del;`
    (`req-low` and the division are done in double, `high-low` and `j+del` in float), followed by
    the clamp back into interval `j`; the all-points match stores `j-.001`. -/
def baseIndex (t : TemplateRow) (map : List (Int × Nat)) (j : Nat) (req : Dbl) : Nat :=
  if j = t.mappings then j - 1
  else match req, map[j]?, map[j + 1]? with
    | .fin n d, some lo, some hi =>
        let low := F32.r32 lo
        let high := F32.r32 hi
        let hl := F32.r32 (F32.sub high low)
        if hl.1 = 0 then j else
        let nm := F32.r64 (F32.sub (n, d) low)
        let del := F32.r32 (F32.r64 (F32.div nm hl))
        let base := F32.r32 (F32.add ((j : Int), 1) del)
        -- `if(*base_setting>=j+1)*base_setting=j+1-.001;` (the fix for finding F15)
        if F32.floorR base ≥ (j : Int) + 1 then j else (F32.floorR base).toNat
    | _, _, _ => j

/-- `get_setup_template`: the template and `(int)base_setting` -/
def getTemplate (ts : List TemplateRow) (ch srate : Int) (req : Dbl) (byRate : Bool) : Option (TemplateRow × Nat) :=
  match ts with
  | [] => none
  | t :: rest =>
      if (t.coupling = -1 ∨ t.coupling = ch) ∧ srate ≥ t.srmin ∧ srate ≤ t.srmax then
        match (if byRate then t.rate else t.quality) with
        | some map =>
            match findInterval map t.mappings req with
            | some j => some (t, baseIndex t map j req)
            | none => getTemplate rest ch srate req byRate
        | none => getTemplate rest ch srate req byRate
      else getTemplate rest ch srate req byRate

/-- the request divided by the channel count (`if(q_or_bitrate)req/=ch;`), exact -/
def divReq (nominal ch : Int) : Dbl :=
  if ch = 0 then (if nominal = 0 then .nan else if nominal > 0 then .pinf else .ninf)
  else if ch > 0 then .fin nominal ch.toNat else .fin (-nominal) (-ch).toNat

structure St where
  inited : Bool := true            -- `vi->codec_setup != NULL`
  channels : Int := 0
  rate : Int := 0
  setup : Option (Nat × Nat) := none     -- template index, (int)base_setting
  managed : Bool := false
  stone : Bool := false
  deriving Repr

def EINVAL := Generated.OV_EINVAL
def EIMPL := Generated.OV_EIMPL

/-- `vorbis_encode_setup_vbr`; `req` is the value the C stores in `hi->req` -/
def setupVbr (s : St) (ch rate : Int) (req : Dbl) : St × Int :=
  if rate ≤ 0 then (s, EINVAL)
  else match getTemplate templates ch rate req false with
    | none => (s, EIMPL)
    | some (t, is) => ({ s with channels := ch, rate := rate, setup := some (t.idx, is), managed := false }, 0)

/-- the nominal rate `vorbis_encode_setup_managed` derives when none is given -/
def deriveNominal (mx nom mn : Int) : Option Int :=
  if nom ≤ 0 then
    if mx > 0 then
      if mn > 0 then some ((mx + mn) / 2)           -- (max+min)*.5 truncated to long (both positive)
      else some (mx * 7 / 8)                         -- max*.875 truncated
    else if mn > 0 then some mn else none
  else some nom

/-- `vorbis_encode_setup_managed` -/
def setupManaged (s : St) (ch rate mx nom mn : Int) : St × Int :=
  if rate ≤ 0 then (s, EINVAL)
  else match deriveNominal mx nom mn with
    | none => (s, EINVAL)
    | some n =>
        match getTemplate templates ch rate (divReq n ch) true with
        | none => (s, EIMPL)
        | some (t, is) => ({ s with channels := ch, rate := rate, setup := some (t.idx, is), managed := true }, 0)

/-- `vorbis_encode_setup_init` -/
def setupInit (s : St) : St × Int :=
  if !s.inited then (s, EINVAL)
  else if s.channels < 1 ∨ s.channels > 255 then (s, EINVAL)
  else match s.setup with
    | none => (s, EINVAL)
    | some _ => if s.stone then (s, EINVAL) else ({ s with stone := true }, 0)

def cleared : St := { inited := false }

/-- `vorbis_encode_init_vbr` -/
def initVbr (s : St) (ch rate : Int) (req : Dbl) : St × Int :=
  let (s1, rc) := setupVbr s ch rate req
  if rc ≠ 0 then (cleared, rc)
  else
    let (s2, rc2) := setupInit s1
    if rc2 ≠ 0 then (cleared, rc2) else (s2, 0)

/-- `vorbis_encode_init` -/
def initManaged (s : St) (ch rate mx nom mn : Int) : St × Int :=
  let (s1, rc) := setupManaged s ch rate mx nom mn
  if rc ≠ 0 then (cleared, rc)
  else
    let (s2, rc2) := setupInit s1
    if rc2 ≠ 0 then (cleared, rc2) else (s2, 0)

/-- sanity rules of `OV_ECTL_RATEMANAGE2_SET` (kbps values, reservoir bits, bias and damping as doubles) -/
def ratemanage2Ok (mnK mxK avK : Int) (reservoir : Int) (bias damp : Dbl) : Bool :=
  !(mnK > 0 ∧ avK > 0 ∧ mnK > avK) && !(mxK > 0 ∧ avK > 0 ∧ mxK < avK) && !(mnK > 0 ∧ mxK > 0 ∧ mnK > mxK) &&
  !(match damp with | .fin n _ => decide (n ≤ 0) | .ninf => true | .nan => true | .pinf => false) &&
  !(reservoir < 0) && bias.ge (.fin 0 1) && (Dbl.fin 1 1).ge bias

end Vorbis.EncSetup
