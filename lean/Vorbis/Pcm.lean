import Vorbis.Basic
/-
Model of the integer PCM path of `ov_read_filter` (lib/vorbisfile.c) and `vorbis_ftoi` (lib/os.h):
scaling of an IEEE single (given by its bit pattern) by 2^15 or 2^7, round to nearest even,
saturation, clipping, offset for unsigned formats, byte order, interleaving, frame counting.
Everything is ordinary integer arithmetic on bit patterns; no floating point appears.
-/
namespace Vorbis.Pcm
open Vorbis

def INT_MAX : Int := 2147483647
def INT_MIN : Int := -2147483648

/-- round-to-nearest-even of `n / 2^k` (`cvtsd2si` under the default MXCSR rounding mode) -/
def rne (n : Int) (k : Nat) : Int :=
  let d : Int := 2 ^ k
  let q := n / d
  let r := n % d
  if 2 * r < d then q
  else if 2 * r > d then q + 1
  else if q % 2 = 0 then q else q + 1

/-- fields of an IEEE single given by its bit pattern -/
def fsign (bits : Nat) : Nat := bits / 2147483648 % 2
def fexp (bits : Nat) : Nat := bits / 8388608 % 256
def fman (bits : Nat) : Nat := bits % 8388608
/-- significand with the implicit bit; the value is `fmant · 2^(E-150)`, `E = max(fexp,1)` -/
def fmant (bits : Nat) : Int := if fexp bits = 0 then fman bits else fman bits + 8388608
/-- `x · 2^shift = fmant · 2^(fpow - 150)` -/
def fpow (bits shift : Nat) : Nat := (if fexp bits = 0 then 1 else fexp bits) + shift

/-- |x·2^shift| rounded to nearest even -/
def magnitude (bits shift : Nat) : Int :=
  if 150 ≤ fpow bits shift then fmant bits * 2 ^ (fpow bits shift - 150)
  else rne (fmant bits) (150 - fpow bits shift)

def signedMag (bits shift : Nat) : Int :=
  if fsign bits = 1 then -(magnitude bits shift) else magnitude bits shift

/-- what the conversion instruction plus the `fix:` saturation does with an out-of-range value -/
def saturate (v : Int) : Int := if v ≥ INT_MAX then INT_MAX else if v < INT_MIN then INT_MIN else v

/-- `vorbis_ftoi(x * 2^shift)` for the single-precision number with bit pattern `bits`
    (after the `fix:` that saturates positive overflow). `shift` is 15 (16 bit) or 7 (8 bit). -/
def ftoiScaled (bits : Nat) (shift : Nat) : Int :=
  if fexp bits = 255 then
    if fman bits ≠ 0 then INT_MIN                        -- NaN: "integer indefinite"
    else if fsign bits = 0 then INT_MAX else INT_MIN     -- ±inf
  else saturate (signedMag bits shift)

def clip (lo hi v : Int) : Int := if v > hi then hi else if v < lo then lo else v

/-- the value that ends up in the output word, before the unsigned offset -/
def sample (word : Nat) (bits : Nat) : Int :=
  if word = 1 then clip (-128) 127 (ftoiScaled bits 7) else clip (-32768) 32767 (ftoiScaled bits 15)

def byteOf (v : Int) : UInt8 := UInt8.ofNat (v % 256).toNat

/-- bytes of one sample for (word, signed, bigendian); `word = 1` or `2` -/
def packSample (word : Nat) (sgned be : Bool) (bits : Nat) : Bytes :=
  let v := sample word bits
  if word = 1 then [byteOf (v + (if sgned then 0 else 128))]
  else
    let w := v + (if sgned then 0 else 32768)
    if be then [byteOf (w / 256), byteOf w] else [byteOf w, byteOf (w / 256)]

/-- interleaved frames: `frames[j][i]` is channel `i` of frame `j` -/
def packFrames (word : Nat) (sgned be : Bool) (frames : List (List Nat)) : Bytes :=
  (frames.map (fun fr => (fr.map (packSample word sgned be)).flatten)).flatten

inductive ReadRc
  | einval
  | ok (frames : Nat)
  deriving DecidableEq, Repr

/-- frame counting of `ov_read_filter` once `avail > 0` samples are available:
    `length` is the caller's buffer length in bytes (an `int`, may be negative) -/
def readFrames (avail : Nat) (length : Int) (word : Int) (channels : Int) : ReadRc :=
  if word ≤ 0 then .einval
  else if channels < 1 ∨ channels > 255 then .einval
  else
    let bps := word * channels
    let fit := Int.tdiv length bps          -- C division truncates toward zero
    let n : Int := if (avail : Int) > fit then fit else avail
    if n ≤ 0 then .einval else .ok n.toNat

end Vorbis.Pcm
