import Vorbis.Bits
import Vorbis.Generated.Consts
/-
Model of the set-up header parser: `_vorbis_unpack_books` (lib/info.c), `vorbis_staticbook_unpack`
(lib/codebook.c), `floor0_unpack`, `floor1_unpack`, `res0_unpack`, `mapping0_unpack`, the mode list,
and of `_book_maptype1_quantvals` (lib/sharedbook.c).
Every check of the C code appears here as the same comparison on the same (possibly -1) value.
-/
namespace Vorbis.Setup
open Vorbis

structure Book where
  dim : Int
  entries : Int
  lengthlist : Array Nat          -- 0 = unused entry
  maptype : Int
  q_min : Int
  q_delta : Int
  q_quant : Int
  q_sequencep : Int
  quantlist : Array Int
  deriving Repr, Inhabited

structure Floor0 where
  order : Int
  rate : Int
  barkmap : Int
  ampbits : Int
  ampdB : Int
  books : Array Int
  deriving Repr

structure Floor1 where
  partitionclass : Array Int
  class_dim : Array Int        -- maxclass+1 entries
  class_subs : Array Int
  class_book : Array Int
  class_subbook : Array (Array Int)
  mult : Int
  postlist : Array Int         -- [0, 2^rangebits, explicit posts...]
  deriving Repr

inductive Floor
  | f0 (f : Floor0)
  | f1 (f : Floor1)
  deriving Repr

structure Residue where
  type : Int
  begin : Int
  end_ : Int
  grouping : Int
  partitions : Int
  partvals : Int
  groupbook : Int
  secondstages : Array Int
  booklist : Array Int
  deriving Repr

structure Mapping where
  submaps : Int
  chmuxlist : Array Int
  floorsubmap : Array Int
  residuesubmap : Array Int
  coupling_mag : Array Int
  coupling_ang : Array Int
  deriving Repr

structure Mode where
  blockflag : Int
  windowtype : Int
  transformtype : Int
  mapping : Int
  deriving Repr

structure Setup where
  books : Array Book
  floors : Array Floor
  residues : Array Residue
  maps : Array Mapping
  modes : Array Mode
  deriving Repr

/-- parser monad: the reader is threaded, `throw ()` is a `goto err_out` -/
abbrev P := ExceptT Unit (StateM Reader)

def rd (n : Nat) : P Int := fun r => let (v, r') := r.read n; (Except.ok v, r')
def bytesUsed : P Int := fun r => (Except.ok r.bytes, r)
def storage : P Int := fun r => (Except.ok (r.storage : Int), r)
def fail {α} : P α := throw ()
def guardP (c : Bool) : P Unit := if c then pure () else fail

/-- one step of the verification loop in `_book_maptype1_quantvals`: the two accumulators for a
    candidate `vals`; `LONG_MAX` guards as in the C -/
def LONG_MAX : Int := 9223372036854775807

def lookup1Acc (entries vals : Int) : Nat → (i : Nat) → (acc acc1 : Int) → Nat × Int × Int
  | 0, i, acc, acc1 => (i, acc, acc1)
  | fuel + 1, i, acc, acc1 =>
      if Int.tdiv entries vals < acc then (i, acc, acc1)          -- `break`
      else
        let acc' := acc * vals
        let acc1' := if Int.tdiv LONG_MAX (vals + 1) < acc1 then LONG_MAX else acc1 * (vals + 1)
        lookup1Acc entries vals fuel (i + 1) acc' acc1'

/-- `_book_maptype1_quantvals`, started from an arbitrary initial guess (the C's guess comes from
    `floor(pow(entries,1/dim))` in float; the search corrects it by integer means). `fuel` bounds
    the number of corrections; `none` = fuel exhausted. -/
def lookup1Search (entries : Int) (dim : Nat) : Nat → Int → Option Int
  | 0, _ => none
  | fuel + 1, vals =>
      let (i, acc, acc1) := lookup1Acc entries vals dim 0 1 1
      if i ≥ dim ∧ acc ≤ entries ∧ acc1 > entries then some vals
      else if i < dim ∨ acc > entries then lookup1Search entries dim fuel (vals - 1)
      else lookup1Search entries dim fuel (vals + 1)

/-- integer `dim`-th root used as the initial guess (any guess ≥ 1 gives the same answer) -/
def lookup1 (entries : Int) (dim : Nat) : Int :=
  if entries < 1 then 0
  else if dim = 1 then entries        -- (the search would confirm this guess at once)
  else
    -- start from 1 and let the search walk up: at most `entries` corrections
    match lookup1Search entries dim (entries.toNat + 2) 1 with
    | some v => v
    | none => 0

/-- `vorbis_staticbook_unpack` -/
def unpackBook : P Book := do
  let sync ← rd 24
  guardP (sync == 0x564342)
  let dim ← rd 16
  let entries ← rd 24
  guardP (entries != -1)
  guardP (ilog dim + ilog entries ≤ 24)
  let ordered ← rd 1
  let mut lengths : Array Nat := Array.mkEmpty entries.toNat
  if ordered == 0 then
    let unused ← rd 1
    let st ← storage
    let used ← bytesUsed
    guardP (!(((entries * (if unused != 0 then 1 else 5) + 7) / 8) > st - used))
    if unused != 0 then
      for _ in [0:entries.toNat] do
        let flag ← rd 1
        if flag != 0 then
          let num ← rd 5
          guardP (num != -1)
          lengths := lengths.push (num + 1).toNat
        else lengths := lengths.push 0
    else
      for _ in [0:entries.toNat] do
        let num ← rd 5
        guardP (num != -1)
        lengths := lengths.push (num + 1).toNat
  else if ordered == 1 then
    let l0 ← rd 5
    let mut length := l0 + 1
    guardP (length != 0)
    let mut i : Int := 0
    -- `for(i=0;i<s->entries;)`: i strictly increases unless num = 0, in which case length does
    let mut fuel := entries.toNat + 40
    while i < entries ∧ fuel > 0 do
      fuel := fuel - 1
      let num ← rd (ilog (entries - i))
      guardP (num != -1)
      guardP (!(length > 32 ∨ num > entries - i ∨ (num > 0 ∧ Int.shiftRight (num - 1) (length - 1).toNat > 1)))
      for _ in [0:num.toNat] do
        lengths := lengths.push length.toNat
      i := i + num
      length := length + 1
    guardP (!(i < entries))
  else fail
  let maptype ← rd 4
  if maptype == 0 then
    pure { dim := dim, entries := entries, lengthlist := lengths, maptype := 0, q_min := 0, q_delta := 0,
           q_quant := 0, q_sequencep := 0, quantlist := #[] }
  else if maptype == 1 ∨ maptype == 2 then
    guardP (!(dim < 1))
    let q_min ← rd 32
    let q_delta ← rd 32
    let qq ← rd 4
    let q_quant := qq + 1
    let q_seq ← rd 1
    guardP (q_seq != -1)
    let quantvals : Int := if maptype == 1 then (if dim == 0 then 0 else lookup1 entries dim.toNat) else entries * dim
    let st ← storage
    let used ← bytesUsed
    guardP (!(((quantvals * q_quant + 7) / 8) > st - used))
    let mut ql : Array Int := Array.mkEmpty quantvals.toNat
    for _ in [0:quantvals.toNat] do
      let v ← rd q_quant.toNat
      ql := ql.push v
    guardP (!(quantvals != 0 ∧ ql.back! == -1))
    pure { dim := dim, entries := entries, lengthlist := lengths, maptype := maptype, q_min := q_min,
           q_delta := q_delta, q_quant := q_quant, q_sequencep := q_seq, quantlist := ql }
  else fail

/-- `floor0_unpack` -/
def unpackFloor0 (books : Array Book) : P Floor0 := do
  let order ← rd 8
  let rate ← rd 16
  let barkmap ← rd 16
  let ampbits ← rd 6
  let ampdB ← rd 8
  let nb ← rd 4
  let numbooks := nb + 1
  guardP (!(order < 1)); guardP (!(rate < 1)); guardP (!(barkmap < 1)); guardP (!(numbooks < 1))
  let mut bl : Array Int := #[]
  for _ in [0:numbooks.toNat] do
    let b ← rd 8
    guardP (!(b < 0 ∨ b ≥ books.size))
    let bk := books[b.toNat]!
    guardP (!(bk.maptype == 0))
    guardP (!(bk.dim < 1))
    bl := bl.push b
  pure { order := order, rate := rate, barkmap := barkmap, ampbits := ampbits, ampdB := ampdB, books := bl }

/-- `floor1_unpack` -/
def unpackFloor1 (nbooks : Nat) : P Floor1 := do
  let partitions ← rd 5
  let mut pclass : Array Int := #[]
  let mut maxclass : Int := -1
  for _ in [0:partitions.toNat] do
    let c ← rd 4
    guardP (!(c < 0))
    if maxclass < c then maxclass := c
    pclass := pclass.push c
  let mut cdim : Array Int := #[]
  let mut csubs : Array Int := #[]
  let mut cbook : Array Int := #[]
  let mut csub : Array (Array Int) := #[]
  for _ in [0:(maxclass + 1).toNat] do
    let d ← rd 3
    let s ← rd 2
    guardP (!(s < 0))
    let mut cb : Int := 0
    if s != 0 then cb ← rd 8
    guardP (!(cb < 0 ∨ cb ≥ nbooks))
    let mut subs : Array Int := #[]
    for _ in [0:(2 ^ s.toNat)] do
      let sb ← rd 8
      let v := sb - 1
      guardP (!(v < -1 ∨ v ≥ nbooks))
      subs := subs.push v
    cdim := cdim.push (d + 1); csubs := csubs.push s; cbook := cbook.push cb; csub := csub.push subs
  let m ← rd 2
  let rangebits ← rd 4
  guardP (!(rangebits < 0))
  let mut posts : Array Int := #[0, 2 ^ rangebits.toNat]
  let mut count : Int := 0
  for j in [0:partitions.toNat] do
    let d := cdim[(pclass[j]!).toNat]!
    count := count + d
    guardP (!(count > Generated.VIF_POSIT))
    for _ in [0:d.toNat] do
      let t ← rd rangebits.toNat
      guardP (!(t < 0 ∨ t ≥ 2 ^ rangebits.toNat))
      posts := posts.push t
  -- no repeated values in the post list
  let sorted := posts.qsort (· < ·)
  let mut ok := true
  for j in [1:sorted.size] do
    if sorted[j - 1]! == sorted[j]! then ok := false
  guardP ok
  pure { partitionclass := pclass, class_dim := cdim, class_subs := csubs, class_book := cbook,
         class_subbook := csub, mult := m + 1, postlist := posts }

def icount (v : Nat) : Nat := (List.range 32).foldl (fun n i => n + (v / 2 ^ i) % 2) 0

/-- `res0_unpack` (shared by residue types 0, 1, 2) -/
def unpackResidue (type : Int) (books : Array Book) : P Residue := do
  let begin_ ← rd 24
  let end_ ← rd 24
  let g ← rd 24
  let p ← rd 6
  let partitions := p + 1
  let groupbook ← rd 8
  guardP (!(groupbook < 0))
  let mut stages : Array Int := #[]
  let mut acc : Nat := 0
  for _ in [0:partitions.toNat] do
    let mut cascade ← rd 3
    let cflag ← rd 1
    guardP (!(cflag < 0))
    if cflag != 0 then
      let c ← rd 5
      guardP (!(c < 0))
      cascade := cascade + c * 8      -- `cascade|=(c<<3)`: the low 3 bits of c<<3 are clear
    stages := stages.push cascade
    acc := acc + icount cascade.toNat
  let mut bl : Array Int := #[]
  for _ in [0:acc] do
    let b ← rd 8
    guardP (!(b < 0))
    bl := bl.push b
  guardP (!(groupbook ≥ books.size))
  for b in bl do
    guardP (!(b ≥ books.size))
    guardP (!((books[b.toNat]!).maptype == 0))
  let gb := books[groupbook.toNat]!
  guardP (!(gb.dim < 1))
  let mut partvals : Int := 1
  for _ in [0:gb.dim.toNat] do
    partvals := partvals * partitions
    guardP (!(partvals > gb.entries))
  pure { type := type, begin := begin_, end_ := end_, grouping := g + 1, partitions := partitions,
         partvals := partvals, groupbook := groupbook, secondstages := stages, booklist := bl }

/-- `mapping0_unpack` -/
def unpackMapping (channels : Int) (nfloors nresidues : Nat) : P Mapping := do
  guardP (!(channels ≤ 0))
  let b ← rd 1
  guardP (!(b < 0))
  let mut submaps : Int := 1
  if b != 0 then
    let s ← rd 4
    submaps := s + 1
    guardP (!(submaps ≤ 0))
  let b2 ← rd 1
  guardP (!(b2 < 0))
  let mut mag : Array Int := #[]
  let mut ang : Array Int := #[]
  if b2 != 0 then
    let cs ← rd 8
    let steps := cs + 1
    guardP (!(steps ≤ 0))
    for _ in [0:steps.toNat] do
      let m ← rd (ilog (channels - 1))
      let a ← rd (ilog (channels - 1))
      guardP (!(m < 0 ∨ a < 0 ∨ m == a ∨ m ≥ channels ∨ a ≥ channels))
      mag := mag.push m; ang := ang.push a
  let res ← rd 2
  guardP (res == 0)
  let mut chmux : Array Int := #[]
  if submaps > 1 then
    for _ in [0:channels.toNat] do
      let c ← rd 4
      guardP (!(c ≥ submaps ∨ c < 0))
      chmux := chmux.push c
  let mut fl : Array Int := #[]
  let mut rs : Array Int := #[]
  for _ in [0:submaps.toNat] do
    let _ ← rd 8
    let f ← rd 8
    guardP (!(f ≥ nfloors ∨ f < 0))
    let r ← rd 8
    guardP (!(r ≥ nresidues ∨ r < 0))
    fl := fl.push f; rs := rs.push r
  pure { submaps := submaps, chmuxlist := chmux, floorsubmap := fl, residuesubmap := rs,
         coupling_mag := mag, coupling_ang := ang }

/-- `_vorbis_unpack_books` -/
def unpackSetup (channels : Int) : P Setup := do
  let nb ← rd 8
  let nbooks := nb + 1
  guardP (!(nbooks ≤ 0))
  let mut books : Array Book := #[]
  for _ in [0:nbooks.toNat] do
    let b ← unpackBook
    books := books.push b
  let nt ← rd 6
  let times := nt + 1
  guardP (!(times ≤ 0))
  for _ in [0:times.toNat] do
    let t ← rd 16
    guardP (!(t < 0 ∨ t ≥ Generated.VI_TIMEB))
  let nf ← rd 6
  let nfloors := nf + 1
  guardP (!(nfloors ≤ 0))
  let mut floors : Array Floor := #[]
  for _ in [0:nfloors.toNat] do
    let ty ← rd 16
    guardP (!(ty < 0 ∨ ty ≥ Generated.VI_FLOORB))
    if ty == 0 then
      let f ← unpackFloor0 books
      floors := floors.push (.f0 f)
    else
      let f ← unpackFloor1 books.size
      floors := floors.push (.f1 f)
  let nr ← rd 6
  let nres := nr + 1
  guardP (!(nres ≤ 0))
  let mut residues : Array Residue := #[]
  for _ in [0:nres.toNat] do
    let ty ← rd 16
    guardP (!(ty < 0 ∨ ty ≥ Generated.VI_RESB))
    let r ← unpackResidue ty books
    residues := residues.push r
  let nm ← rd 6
  let nmaps := nm + 1
  guardP (!(nmaps ≤ 0))
  let mut maps : Array Mapping := #[]
  for _ in [0:nmaps.toNat] do
    let ty ← rd 16
    guardP (!(ty < 0 ∨ ty ≥ Generated.VI_MAPB))
    let m ← unpackMapping channels floors.size residues.size
    maps := maps.push m
  let nmo ← rd 6
  let nmodes := nmo + 1
  guardP (!(nmodes ≤ 0))
  let mut modes : Array Mode := #[]
  for _ in [0:nmodes.toNat] do
    let bf ← rd 1
    let wt ← rd 16
    let tt ← rd 16
    let mp ← rd 8
    guardP (!(wt ≥ Generated.VI_WINDOWB))
    guardP (!(tt ≥ Generated.VI_WINDOWB))
    guardP (!(mp ≥ maps.size))
    guardP (!(mp < 0))
    modes := modes.push { blockflag := bf, windowtype := wt, transformtype := tt, mapping := mp }
  let fr ← rd 1
  guardP (fr == 1)
  pure { books := books, floors := floors, residues := residues, maps := maps, modes := modes }

/-- run the set-up parser on the bytes that follow the 7 byte preamble of a type-5 packet -/
def parseSetup (channels : Int) (pkt : ByteArray) : Option Setup :=
  let r0 : Reader := { data := pkt, pos := 56, dead := pkt.size < 7 }
  match (unpackSetup channels).run r0 with
  | (Except.ok s, _) => some s
  | _ => none

end Vorbis.Setup
