import Vorbis.Bits
import Vorbis.Generated.Consts
/-
Model of the set-up header parser: `_vorbis_unpack_books` (lib/info.c), `vorbis_staticbook_unpack`
(lib/codebook.c), `floor0_unpack`, `floor1_unpack`, `res0_unpack`, `mapping0_unpack`, the mode list,
and of `_book_maptype1_quantvals` (lib/sharedbook.c).
Every check of the C code appears here as the same comparison on the same (possibly -1) value.
-/
namespace Vorbis.Setup
open Vorbis

structure Book where
  dim : Int
  entries : Int
  lengthlist : Array Nat          -- 0 = unused entry
  maptype : Int
  q_min : Int
  q_delta : Int
  q_quant : Int
  q_sequencep : Int
  quantlist : Array Int
  deriving Repr, Inhabited

structure Floor0 where
  order : Int
  rate : Int
  barkmap : Int
  ampbits : Int
  ampdB : Int
  books : Array Int
  deriving Repr

structure Floor1 where
  partitionclass : Array Int
  class_dim : Array Int        -- maxclass+1 entries
  class_subs : Array Int
  class_book : Array Int
  class_subbook : Array (Array Int)
  mult : Int
  postlist : Array Int         -- [0, 2^rangebits, explicit posts...]
  deriving Repr

inductive Floor
  | f0 (f : Floor0)
  | f1 (f : Floor1)
  deriving Repr

structure Residue where
  type : Int
  begin : Int
  end_ : Int
  grouping : Int
  partitions : Int
  partvals : Int
  groupbook : Int
  secondstages : Array Int
  booklist : Array Int
  deriving Repr

structure Mapping where
  submaps : Int
  chmuxlist : Array Int
  floorsubmap : Array Int
  residuesubmap : Array Int
  coupling : Array (Int × Int)      -- (magnitude channel, angle channel) per step
  deriving Repr

structure Mode where
  blockflag : Int
  windowtype : Int
  transformtype : Int
  mapping : Int
  deriving Repr

structure Setup where
  books : Array Book
  floors : Array Floor
  residues : Array Residue
  maps : Array Mapping
  modes : Array Mode
  deriving Repr


/-- parser monad: the reader is threaded, `throw ()` is a `goto err_out` -/
abbrev P := ExceptT Unit (StateM Reader)

/-- `oggpack_read`, together with the range of its answer -/
def rdB (n : Nat) : P {v : Int // v = -1 ∨ (0 ≤ v ∧ v < (2 ^ n : Nat))} :=
  fun r => (Except.ok ⟨(r.read n).1, r.read_range n⟩, (r.read n).2)
def rd (n : Nat) : P Int := do let ⟨v, _⟩ ← rdB n; pure v
def bytesUsed : P Int := fun r => (Except.ok r.bytes, r)
def storage : P Int := fun r => (Except.ok (r.storage : Int), r)
def fail {α} : P α := throw ()
/-- a check of the C code: continue with the fact in hand, or `goto err_out` -/
def need (c : Prop) [Decidable c] : P (PLift c) := if h : c then pure ⟨h⟩ else fail

/-- `n` times `p`, collecting the results; every element keeps what `p` guarantees -/
def repeatP {α} (Q : α → Prop) (p : P {x // Q x}) : (n : Nat) → P {a : Array α // a.size = n ∧ ∀ x ∈ a, Q x}
  | 0 => pure ⟨#[], rfl, by simp⟩
  | n + 1 => do
      let ⟨a, h1, h2⟩ ← repeatP Q p n
      let ⟨x, hx⟩ ← p
      pure ⟨a.push x, by simp [h1], by
        intro y hy
        simp at hy
        rcases hy with hy | rfl
        · exact h2 y hy
        · exact hx⟩

/-- one step of the verification loop in `_book_maptype1_quantvals`: the two accumulators for a
    candidate `vals`; `LONG_MAX` guards as in the C -/
def LONG_MAX : Int := 9223372036854775807

def lookup1Acc (entries vals : Int) : Nat → (i : Nat) → (acc acc1 : Int) → Nat × Int × Int
  | 0, i, acc, acc1 => (i, acc, acc1)
  | fuel + 1, i, acc, acc1 =>
      if Int.tdiv entries vals < acc then (i, acc, acc1)          -- `break`
      else
        let acc' := acc * vals
        let acc1' := if Int.tdiv LONG_MAX (vals + 1) < acc1 then LONG_MAX else acc1 * (vals + 1)
        lookup1Acc entries vals fuel (i + 1) acc' acc1'

/-- `_book_maptype1_quantvals`, started from an arbitrary initial guess (the C's guess comes from
    `floor(pow(entries,1/dim))` in float; the search corrects it by integer means). `fuel` bounds
    the number of corrections; `none` = fuel exhausted. -/
def lookup1Search (entries : Int) (dim : Nat) : Nat → Int → Option Int
  | 0, _ => none
  | fuel + 1, vals =>
      let (i, acc, acc1) := lookup1Acc entries vals dim 0 1 1
      if i ≥ dim ∧ acc ≤ entries ∧ acc1 > entries then some vals
      else if i < dim ∨ acc > entries then lookup1Search entries dim fuel (vals - 1)
      else lookup1Search entries dim fuel (vals + 1)

/-- integer `dim`-th root used as the initial guess (any guess ≥ 1 gives the same answer) -/
def lookup1 (entries : Int) (dim : Nat) : Int :=
  if entries < 1 then 0
  else if dim = 1 then entries        -- (the search would confirm this guess at once)
  else
    -- start from 1 and let the search walk up: at most `entries` corrections
    match lookup1Search entries dim (entries.toNat + 2) 1 with
    | some v => v
    | none => 0


/-- number of quantised values a value-mapped book carries -/
def quantvalsOf (maptype entries dim : Int) : Int :=
  if maptype = 1 then (if dim = 0 then 0 else lookup1 entries dim.toNat) else entries * dim

/-- what an accepted codebook satisfies -/
structure BookWF (b : Book) : Prop where
  ent0 : 0 ≤ b.entries
  ent1 : b.entries < 16777216
  dim0 : 0 ≤ b.dim
  dim1 : b.dim < 65536
  lenSize : b.lengthlist.size = b.entries.toNat
  lenMax : ∀ l ∈ b.lengthlist, l ≤ 32
  mapT : b.maptype = 0 ∨ b.maptype = 1 ∨ b.maptype = 2
  mapDim : b.maptype ≠ 0 → 1 ≤ b.dim
  qSize : b.maptype ≠ 0 → b.quantlist.size = (quantvalsOf b.maptype b.entries b.dim).toNat

/-- one codeword length of the unordered layout: `used` says whether entries carry a flag bit -/
def lengthP (flagged : Bool) : P {l : Nat // l ≤ 32} := do
  if flagged then
    let flag ← rd 1
    if flag != 0 then
      let ⟨num, hb⟩ ← rdB 5
      let ⟨hn⟩ ← need (num ≠ -1)
      pure ⟨(num + 1).toNat, by
        have : ((2 ^ 5 : Nat) : Int) = 32 := by decide
        omega⟩
    else pure ⟨0, by omega⟩
  else
    let ⟨num, hb⟩ ← rdB 5
    let ⟨hn⟩ ← need (num ≠ -1)
    pure ⟨(num + 1).toNat, by
      have : ((2 ^ 5 : Nat) : Int) = 32 := by decide
      omega⟩

/-- the length-ordered layout: `for(i=0;i<s->entries;)` -/
def orderedLoop (entries : Int) : (fuel : Nat) → (i length : Int) →
    (acc : {a : Array Nat // (a.size : Int) = i ∧ ∀ l ∈ a, l ≤ 32}) → (hi : 0 ≤ i) →
    P {a : Array Nat // (a.size : Int) = entries ∧ ∀ l ∈ a, l ≤ 32}
  | 0, _, _, _, _ => fail
  | fuel + 1, i, length, ⟨acc, hs, hl⟩, hi =>
      if hdone : ¬ (i < entries) then
        if heq : i = entries then pure ⟨acc, by omega, hl⟩ else fail
      else do
        let ⟨num, hb⟩ ← rdB (ilog (entries - i))
        let ⟨hn⟩ ← need (num ≠ -1)
        let ⟨hg⟩ ← need (¬ (length > 32 ∨ num > entries - i ∨ (num > 0 ∧ Int.shiftRight (num - 1) (length - 1).toNat > 1)))
        orderedLoop entries fuel (i + num) (length + 1)
          ⟨acc ++ Array.replicate num.toNat length.toNat, by
              simp only [Array.size_append, Array.size_replicate]
              omega, by
              intro l hl'
              simp only [Array.mem_append, Array.mem_replicate] at hl'
              rcases hl' with h | ⟨_, rfl⟩
              · exact hl l h
              · omega⟩
          (by omega)

/-- `vorbis_staticbook_unpack` -/
def unpackBook : P {b : Book // BookWF b} := do
  let sync ← rd 24
  let ⟨_⟩ ← need (sync = 0x564342)
  let ⟨dim, hdim⟩ ← rdB 16
  let ⟨entries, hent⟩ ← rdB 24
  let ⟨he⟩ ← need (entries ≠ -1)
  let ⟨hil⟩ ← need (ilog dim + ilog entries ≤ 24)
  -- `dim` may still be -1 here only if `entries` is (sticky end of packet), so it is a real value
  let ⟨hd⟩ ← need (dim ≠ -1)
  have hE : 0 ≤ entries ∧ entries < 16777216 := by
    have : ((2 ^ 24 : Nat) : Int) = 16777216 := by decide
    omega
  have hD : 0 ≤ dim ∧ dim < 65536 := by
    have : ((2 ^ 16 : Nat) : Int) = 65536 := by decide
    omega
  let ordered ← rd 1
  let lengths : {a : Array Nat // (a.size : Int) = entries ∧ ∀ l ∈ a, l ≤ 32} ←
    (if ordered = 0 then do
      let unused ← rd 1
      let st ← storage
      let used ← bytesUsed
      let ⟨_⟩ ← need (¬ (((entries * (if unused != 0 then 1 else 5) + 7) / 8) > st - used))
      let ⟨a, h1, h2⟩ ← repeatP (fun l => l ≤ 32) (lengthP (unused != 0)) entries.toNat
      pure ⟨a, by omega, h2⟩
    else if ordered = 1 then do
      let l0 ← rd 5
      let ⟨_⟩ ← need (l0 + 1 ≠ 0)
      orderedLoop entries (entries.toNat + 40) 0 (l0 + 1) ⟨#[], by simp, by simp⟩ (by omega)
    else fail)
  let maptype ← rd 4
  if hm0 : maptype = 0 then
    pure ⟨{ dim := dim, entries := entries, lengthlist := lengths.val, maptype := 0, q_min := 0, q_delta := 0,
            q_quant := 0, q_sequencep := 0, quantlist := #[] },
          ⟨hE.1, hE.2, hD.1, hD.2, by have := lengths.property.1; simp only []; omega, lengths.property.2,
           Or.inl rfl, fun h => absurd rfl h, fun h => absurd rfl h⟩⟩
  else if hm : maptype = 1 ∨ maptype = 2 then do
    let ⟨hdim1⟩ ← need (¬ (dim < 1))
    let q_min ← rd 32
    let q_delta ← rd 32
    let qq ← rd 4
    let q_seq ← rd 1
    let ⟨_⟩ ← need (q_seq ≠ -1)
    let st ← storage
    let used ← bytesUsed
    let ⟨_⟩ ← need (¬ (((quantvalsOf maptype entries dim * (qq + 1) + 7) / 8) > st - used))
    let ⟨ql, hq1, _⟩ ← repeatP (fun _ => True) (do let v ← rd (qq + 1).toNat; pure ⟨v, trivial⟩)
                          (quantvalsOf maptype entries dim).toNat
    let ⟨_⟩ ← need (¬ (quantvalsOf maptype entries dim ≠ 0 ∧ ql.back! = -1))
    pure ⟨{ dim := dim, entries := entries, lengthlist := lengths.val, maptype := maptype, q_min := q_min,
            q_delta := q_delta, q_quant := qq + 1, q_sequencep := q_seq, quantlist := ql },
          ⟨hE.1, hE.2, hD.1, hD.2, by have := lengths.property.1; simp only []; omega, lengths.property.2,
           by rcases hm with h | h <;> simp [h], fun _ => by simp only []; omega, fun _ => hq1⟩⟩
  else fail

/-- book number check used by the back-end unpackers: a valid index of a value-mapped book -/
def VqBook (books : Array Book) (b : Int) : Prop :=
  0 ≤ b ∧ b < books.size ∧ (books[b.toNat]!).maptype ≠ 0

structure Floor0WF (books : Array Book) (f : Floor0) : Prop where
  order1 : 1 ≤ f.order
  nb : f.books.size ≤ 16
  bk : ∀ b ∈ f.books, VqBook books b ∧ 1 ≤ (books[b.toNat]!).dim

/-- `floor0_unpack` -/
def unpackFloor0 (books : Array Book) : P {f : Floor0 // Floor0WF books f} := do
  let order ← rd 8
  let rate ← rd 16
  let barkmap ← rd 16
  let ampbits ← rd 6
  let ampdB ← rd 8
  let ⟨nb, hnb⟩ ← rdB 4
  let ⟨ho⟩ ← need (¬ (order < 1))
  let ⟨_⟩ ← need (¬ (rate < 1))
  let ⟨_⟩ ← need (¬ (barkmap < 1))
  let ⟨hn1⟩ ← need (¬ (nb + 1 < 1))
  let ⟨bl, hs, hb⟩ ← repeatP (fun b => VqBook books b ∧ 1 ≤ (books[b.toNat]!).dim) (do
      let b ← rd 8
      let ⟨h1⟩ ← need (¬ (b < 0 ∨ b ≥ books.size))
      let ⟨h2⟩ ← need (¬ ((books[b.toNat]!).maptype = 0))
      let ⟨h3⟩ ← need (¬ ((books[b.toNat]!).dim < 1))
      pure ⟨b, ⟨by omega, by omega, h2⟩, by omega⟩) (nb + 1).toNat
  pure ⟨{ order := order, rate := rate, barkmap := barkmap, ampbits := ampbits, ampdB := ampdB, books := bl },
        ⟨by simp only []; omega, by
          have : ((2 ^ 4 : Nat) : Int) = 16 := by decide
          simp only []; omega, hb⟩⟩

/-- one partition class of floor 1 -/
structure F1Class where
  dim : Int
  subs : Int
  book : Int
  subbook : Array Int
  deriving Repr

structure F1ClassWF (nbooks : Nat) (c : F1Class) : Prop where
  dim : 1 ≤ c.dim ∧ c.dim ≤ 8
  subs : 0 ≤ c.subs ∧ c.subs ≤ 3
  book : 0 ≤ c.book ∧ c.book < nbooks
  nsub : c.subbook.size = 2 ^ c.subs.toNat
  sub : ∀ s ∈ c.subbook, -1 ≤ s ∧ s < nbooks

def unpackF1Class (nbooks : Nat) : P {c : F1Class // F1ClassWF nbooks c} := do
  let ⟨d, hd⟩ ← rdB 3
  let ⟨s, hs⟩ ← rdB 2
  let ⟨hs0⟩ ← need (¬ (s < 0))
  let cb ← (if s != 0 then rd 8 else pure 0)
  let ⟨hcb⟩ ← need (¬ (cb < 0 ∨ cb ≥ nbooks))
  let ⟨subs, hz, hq⟩ ← repeatP (fun v : Int => -1 ≤ v ∧ v < nbooks) (do
      let sb ← rd 8
      let ⟨h⟩ ← need (¬ (sb - 1 < -1 ∨ sb - 1 ≥ nbooks))
      pure ⟨sb - 1, by omega, by omega⟩) (2 ^ s.toNat)
  -- `d` cannot be -1 here: the reader is sticky, `s` was read after it and is not -1
  let ⟨hd1⟩ ← need (d ≠ -1)
  pure ⟨{ dim := d + 1, subs := s, book := cb, subbook := subs },
        ⟨by have : ((2 ^ 3 : Nat) : Int) = 8 := by decide
            simp only []; omega,
         by have : ((2 ^ 2 : Nat) : Int) = 4 := by decide
            simp only []; omega,
         by simp only []; omega, hz, hq⟩⟩

structure Floor1WF (nbooks : Nat) (f : Floor1) : Prop where
  parts : f.partitionclass.size ≤ 31
  pclass : ∀ c ∈ f.partitionclass, 0 ≤ c ∧ c < f.class_dim.size ∧ c < 16
  ncls : f.class_dim.size ≤ 16
  posts : f.postlist.size ≤ Generated.VIF_POSIT + 2
  mult : 1 ≤ f.mult ∧ f.mult ≤ 4

/-- the post list: for each partition `class_dim` values -/
def postsLoop (rangebits : Nat) (cdim : Array Int) : (pcl : List Int) → (count : Int) →
    (acc : {a : Array Int // (a.size : Int) = count + 2}) → (h0 : 0 ≤ count) →
    P {a : Array Int // (a.size : Int) ≤ Generated.VIF_POSIT + 2}
  | [], count, ⟨acc, hs⟩, _ => do
      let ⟨h⟩ ← need (count ≤ Generated.VIF_POSIT)
      pure ⟨acc, by omega⟩
  | c :: rest, count, ⟨acc, hs⟩, h0 => do
      let d := cdim[c.toNat]!
      let ⟨hd⟩ ← need (0 ≤ d)
      let ⟨h⟩ ← need (¬ (count + d > Generated.VIF_POSIT))
      let ⟨vals, hv, _⟩ ← repeatP (fun _ => True) (do
          let t ← rd rangebits
          let ⟨_⟩ ← need (¬ (t < 0 ∨ t ≥ 2 ^ rangebits))
          pure ⟨t, trivial⟩) d.toNat
      postsLoop rangebits cdim rest (count + d) ⟨acc ++ vals, by simp only [Array.size_append]; omega⟩ (by omega)

def nodupSorted (a : Array Int) : Bool :=
  let s := a.qsort (· < ·)
  (List.range s.size).all (fun j => j = 0 || s[j - 1]! != s[j]!)

/-- `floor1_unpack` -/
def unpackFloor1 (nbooks : Nat) : P {f : Floor1 // Floor1WF nbooks f} := do
  let ⟨partitions, hp⟩ ← rdB 5
  let ⟨pclass, hps, hpc⟩ ← repeatP (fun c : Int => 0 ≤ c ∧ c < 16) (do
      let ⟨c, hc⟩ ← rdB 4
      let ⟨h⟩ ← need (¬ (c < 0))
      pure ⟨c, by omega, by
        have : ((2 ^ 4 : Nat) : Int) = 16 := by decide
        omega⟩) partitions.toNat
  let maxclass : Int := pclass.foldl (fun m c => if m < c then c else m) (-1)
  let ⟨classes, hcs, hcw⟩ ← repeatP (F1ClassWF nbooks) (unpackF1Class nbooks) (maxclass + 1).toNat
  let ⟨m, hm⟩ ← rdB 2
  let ⟨rangebits, hrb⟩ ← rdB 4
  let ⟨hr0⟩ ← need (¬ (rangebits < 0))
  let ⟨hm0⟩ ← need (m ≠ -1)
  -- every partition's class must have been read (always true: `maxclass` covers them)
  let ⟨hcover⟩ ← need (∀ c ∈ pclass, c < classes.size)
  let cdim := classes.map (·.dim)
  let ⟨posts, hposts⟩ ← postsLoop rangebits.toNat cdim pclass.toList 0
      ⟨#[0, 2 ^ rangebits.toNat], by simp⟩ (by omega)
  let ⟨_⟩ ← need (nodupSorted posts = true)
  let ⟨hpart⟩ ← need (partitions ≠ -1)
  let ⟨hncls⟩ ← need (classes.size ≤ 16)
  pure ⟨{ partitionclass := pclass, class_dim := cdim, class_subs := classes.map (·.subs),
          class_book := classes.map (·.book), class_subbook := classes.map (·.subbook),
          mult := m + 1, postlist := posts },
        ⟨by have : ((2 ^ 5 : Nat) : Int) = 32 := by decide
            simp only []; omega,
         fun c hc => ⟨(hpc c hc).1, by simp only [cdim, Array.size_map]; exact hcover c hc, (hpc c hc).2⟩,
         by simp only [cdim, Array.size_map]; exact hncls,
         by simp only []; omega,
         by have : ((2 ^ 2 : Nat) : Int) = 4 := by decide
            simp only []; omega⟩⟩

def icount (v : Nat) : Nat := (List.range 32).foldl (fun n i => n + (v / 2 ^ i) % 2) 0

structure ResidueWF (books : Array Book) (r : Residue) : Prop where
  parts : 1 ≤ r.partitions ∧ r.partitions ≤ 64
  nst : (r.secondstages.size : Int) = r.partitions
  st : ∀ s ∈ r.secondstages, 0 ≤ s ∧ s < 256
  gb : 0 ≤ r.groupbook ∧ r.groupbook < books.size ∧ 1 ≤ (books[r.groupbook.toNat]!).dim
  bl : ∀ b ∈ r.booklist, VqBook books b
  pv : 1 ≤ r.partvals ∧ r.partvals ≤ (books[r.groupbook.toNat]!).entries
  grp : 1 ≤ r.grouping

/-- `partvals = partitions^dim`, refused as soon as it exceeds the phrase book -/
def partvalsLoop (partitions entries : Int) : Nat → (pv : Int) → (h : 1 ≤ pv ∧ pv ≤ max entries 1) →
    P {v : Int // 1 ≤ v ∧ v ≤ max entries 1}
  | 0, pv, h => pure ⟨pv, h⟩
  | n + 1, pv, h => do
      let ⟨hg⟩ ← need (¬ (pv * partitions > entries))
      let ⟨hp⟩ ← need (1 ≤ pv * partitions)
      partvalsLoop partitions entries n (pv * partitions) ⟨hp, by omega⟩

/-- `res0_unpack` (shared by residue types 0, 1, 2) -/
def unpackResidue (type : Int) (books : Array Book) : P {r : Residue // ResidueWF books r} := do
  let begin_ ← rd 24
  let end_ ← rd 24
  let ⟨g, hg⟩ ← rdB 24
  let ⟨p, hp⟩ ← rdB 6
  let groupbook ← rd 8
  let ⟨hgb0⟩ ← need (¬ (groupbook < 0))
  -- sticky reader: the earlier reads succeeded as well
  let ⟨hp1⟩ ← need (p ≠ -1)
  let ⟨hg1⟩ ← need (g ≠ -1)
  let ⟨stages, hss, hsv⟩ ← repeatP (fun s : Int => 0 ≤ s ∧ s < 256) (do
      let ⟨c3, h3⟩ ← rdB 3
      let cflag ← rd 1
      let ⟨_⟩ ← need (¬ (cflag < 0))
      let ⟨h3'⟩ ← need (c3 ≠ -1)
      if cflag != 0 then
        let ⟨c, hc⟩ ← rdB 5
        let ⟨hc0⟩ ← need (¬ (c < 0))
        pure ⟨c3 + c * 8, by
          have : ((2 ^ 3 : Nat) : Int) = 8 := by decide
          have : ((2 ^ 5 : Nat) : Int) = 32 := by decide
          omega⟩
      else pure ⟨c3, by
          have : ((2 ^ 3 : Nat) : Int) = 8 := by decide
          omega⟩) (p + 1).toNat
  let acc : Nat := stages.foldl (fun n s => n + icount s.toNat) 0
  let ⟨bl, _, hbl⟩ ← repeatP (fun b : Int => 0 ≤ b) (do
      let b ← rd 8
      let ⟨h⟩ ← need (¬ (b < 0))
      pure ⟨b, by omega⟩) acc
  let ⟨hgb1⟩ ← need (¬ (groupbook ≥ books.size))
  let ⟨hblk⟩ ← need (∀ b ∈ bl, b < books.size ∧ (books[b.toNat]!).maptype ≠ 0)
  let ⟨hdim⟩ ← need (¬ ((books[groupbook.toNat]!).dim < 1))
  let ⟨pv, hpv⟩ ← partvalsLoop (p + 1) (books[groupbook.toNat]!).entries (books[groupbook.toNat]!).dim.toNat 1
      ⟨by omega, by omega⟩
  let ⟨hpve⟩ ← need (pv ≤ (books[groupbook.toNat]!).entries)
  pure ⟨{ type := type, begin := begin_, end_ := end_, grouping := g + 1, partitions := p + 1,
          partvals := pv, groupbook := groupbook, secondstages := stages, booklist := bl },
        ⟨by have : ((2 ^ 6 : Nat) : Int) = 64 := by decide
            simp only []; omega,
         by simp only []; omega, hsv,
         ⟨by simp only []; omega, by simp only []; omega, by simp only []; omega⟩,
         fun b hb => ⟨hbl b hb, (hblk b hb).1, (hblk b hb).2⟩,
         ⟨hpv.1, hpve⟩,
         by simp only []; omega⟩⟩

structure MappingWF (channels : Int) (nfloors nresidues : Nat) (m : Mapping) : Prop where
  sub : 1 ≤ m.submaps ∧ m.submaps ≤ 16
  fl : (m.floorsubmap.size : Int) = m.submaps ∧ ∀ f ∈ m.floorsubmap, 0 ≤ f ∧ f < nfloors
  rs : (m.residuesubmap.size : Int) = m.submaps ∧ ∀ r ∈ m.residuesubmap, 0 ≤ r ∧ r < nresidues
  mux : m.submaps > 1 → (m.chmuxlist.size : Int) = channels ∧ ∀ c ∈ m.chmuxlist, 0 ≤ c ∧ c < m.submaps
  cpl : m.coupling.size ≤ 256 ∧ ∀ pr ∈ m.coupling, 0 ≤ pr.1 ∧ pr.1 < channels ∧ 0 ≤ pr.2 ∧ pr.2 < channels ∧ pr.1 ≠ pr.2

/-- `mapping0_unpack` -/
def unpackMapping (channels : Int) (nfloors nresidues : Nat) :
    P {m : Mapping // MappingWF channels nfloors nresidues m} := do
  let ⟨hch⟩ ← need (¬ (channels ≤ 0))
  let b ← rd 1
  let ⟨_⟩ ← need (¬ (b < 0))
  let ⟨submaps, hsub⟩ ← (if b != 0 then do
      let ⟨s, hs⟩ ← rdB 4
      let ⟨h⟩ ← need (¬ (s + 1 ≤ 0))
      pure (⟨s + 1, by
        have : ((2 ^ 4 : Nat) : Int) = 16 := by decide
        omega⟩ : {v : Int // 1 ≤ v ∧ v ≤ 16})
    else pure ⟨1, by omega⟩)
  let b2 ← rd 1
  let ⟨_⟩ ← need (¬ (b2 < 0))
  let ⟨cpl, hcs, hcp⟩ ← (if b2 != 0 then do
      let ⟨cs, hcs⟩ ← rdB 8
      let ⟨h⟩ ← need (¬ (cs + 1 ≤ 0))
      let ⟨a, h1, h2⟩ ← repeatP (fun pr : Int × Int => 0 ≤ pr.1 ∧ pr.1 < channels ∧ 0 ≤ pr.2 ∧ pr.2 < channels ∧ pr.1 ≠ pr.2) (do
          let m ← rd (ilog (channels - 1))
          let a ← rd (ilog (channels - 1))
          let ⟨h⟩ ← need (¬ (m < 0 ∨ a < 0 ∨ m = a ∨ m ≥ channels ∨ a ≥ channels))
          pure ⟨(m, a), by omega, by omega, by omega, by omega, by omega⟩) (cs + 1).toNat
      pure (⟨a, by
        have : ((2 ^ 8 : Nat) : Int) = 256 := by decide
        omega, h2⟩ : {a : Array (Int × Int) // a.size ≤ 256 ∧ ∀ pr ∈ a, 0 ≤ pr.1 ∧ pr.1 < channels ∧ 0 ≤ pr.2 ∧ pr.2 < channels ∧ pr.1 ≠ pr.2})
    else pure ⟨#[], by simp, by simp⟩)
  let res ← rd 2
  let ⟨_⟩ ← need (res = 0)
  let ⟨chmux, hmux⟩ ← (if hs1 : submaps > 1 then do
      let ⟨a, h1, h2⟩ ← repeatP (fun c : Int => 0 ≤ c ∧ c < submaps) (do
          let c ← rd 4
          let ⟨h⟩ ← need (¬ (c ≥ submaps ∨ c < 0))
          pure ⟨c, by omega, by omega⟩) channels.toNat
      pure (⟨a, fun _ => ⟨by omega, h2⟩⟩ : {a : Array Int // submaps > 1 → (a.size : Int) = channels ∧ ∀ c ∈ a, 0 ≤ c ∧ c < submaps})
    else pure ⟨#[], fun h => absurd h hs1⟩)
  let ⟨frs, hfs, hfr⟩ ← repeatP (fun pr : Int × Int => (0 ≤ pr.1 ∧ pr.1 < nfloors) ∧ (0 ≤ pr.2 ∧ pr.2 < nresidues)) (do
      let _ ← rd 8
      let f ← rd 8
      let ⟨h1⟩ ← need (¬ (f ≥ nfloors ∨ f < 0))
      let r ← rd 8
      let ⟨h2⟩ ← need (¬ (r ≥ nresidues ∨ r < 0))
      pure ⟨(f, r), ⟨by omega, by omega⟩, ⟨by omega, by omega⟩⟩) submaps.toNat
  pure ⟨{ submaps := submaps, chmuxlist := chmux, floorsubmap := frs.map (·.1), residuesubmap := frs.map (·.2),
          coupling := cpl },
        ⟨hsub,
         ⟨by simp only [Array.size_map]; omega, by
            intro f hf
            simp only [Array.mem_map] at hf
            obtain ⟨pr, hpr, rfl⟩ := hf
            exact (hfr pr hpr).1⟩,
         ⟨by simp only [Array.size_map]; omega, by
            intro r hr
            simp only [Array.mem_map] at hr
            obtain ⟨pr, hpr, rfl⟩ := hr
            exact (hfr pr hpr).2⟩,
         hmux, ⟨hcs, hcp⟩⟩⟩

structure ModeWF (nmaps : Nat) (m : Mode) : Prop where
  map : 0 ≤ m.mapping ∧ m.mapping < nmaps
  bf : m.blockflag = 0 ∨ m.blockflag = 1

def unpackMode (nmaps : Nat) : P {m : Mode // ModeWF nmaps m} := do
  let ⟨bf, hbf⟩ ← rdB 1
  let wt ← rd 16
  let tt ← rd 16
  let mp ← rd 8
  let ⟨_⟩ ← need (¬ (wt ≥ Generated.VI_WINDOWB))
  let ⟨_⟩ ← need (¬ (tt ≥ Generated.VI_WINDOWB))
  let ⟨h1⟩ ← need (¬ (mp ≥ nmaps))
  let ⟨h2⟩ ← need (¬ (mp < 0))
  -- sticky reader: `mp` was read last and is not -1, so `bf` is a real bit
  let ⟨h3⟩ ← need (bf ≠ -1)
  pure ⟨{ blockflag := bf, windowtype := wt, transformtype := tt, mapping := mp },
        ⟨by simp only []; omega, by
          have : ((2 ^ 1 : Nat) : Int) = 2 := by decide
          simp only []; omega⟩⟩

def FloorWF (books : Array Book) : Floor → Prop
  | .f0 f => Floor0WF books f
  | .f1 f => Floor1WF books.size f

/-- everything the decoder later relies on when it indexes its tables -/
structure SetupWF (channels : Int) (s : Setup) : Prop where
  nbooks : 1 ≤ s.books.size ∧ s.books.size ≤ 256
  books : ∀ b ∈ s.books, BookWF b
  nfloors : 1 ≤ s.floors.size ∧ s.floors.size ≤ 64
  floors : ∀ f ∈ s.floors, FloorWF s.books f
  nres : 1 ≤ s.residues.size ∧ s.residues.size ≤ 64
  residues : ∀ r ∈ s.residues, ResidueWF s.books r
  nmaps : 1 ≤ s.maps.size ∧ s.maps.size ≤ 64
  maps : ∀ m ∈ s.maps, MappingWF channels s.floors.size s.residues.size m
  nmodes : 1 ≤ s.modes.size ∧ s.modes.size ≤ 64
  modes : ∀ m ∈ s.modes, ModeWF s.maps.size m

/-- `_vorbis_unpack_books` -/
def unpackSetup (channels : Int) : P {s : Setup // SetupWF channels s} := do
  let ⟨nb, hnb⟩ ← rdB 8
  let ⟨h0⟩ ← need (¬ (nb + 1 ≤ 0))
  let ⟨books, hbs, hbw⟩ ← repeatP BookWF unpackBook (nb + 1).toNat
  let nt ← rd 6
  let ⟨_⟩ ← need (¬ (nt + 1 ≤ 0))
  let _ ← repeatP (fun _ : Int => True) (do
      let t ← rd 16
      let ⟨_⟩ ← need (¬ (t < 0 ∨ t ≥ Generated.VI_TIMEB))
      pure ⟨t, trivial⟩) (nt + 1).toNat
  let ⟨nf, hnf⟩ ← rdB 6
  let ⟨h1⟩ ← need (¬ (nf + 1 ≤ 0))
  let ⟨floors, hfs, hfw⟩ ← repeatP (FloorWF books) (do
      let ty ← rd 16
      let ⟨_⟩ ← need (¬ (ty < 0 ∨ ty ≥ Generated.VI_FLOORB))
      if ty = 0 then
        let ⟨f, hf⟩ ← unpackFloor0 books
        pure ⟨Floor.f0 f, hf⟩
      else
        let ⟨f, hf⟩ ← unpackFloor1 books.size
        pure ⟨Floor.f1 f, hf⟩) (nf + 1).toNat
  let ⟨nr, hnr⟩ ← rdB 6
  let ⟨h2⟩ ← need (¬ (nr + 1 ≤ 0))
  let ⟨residues, hrs, hrw⟩ ← repeatP (ResidueWF books) (do
      let ty ← rd 16
      let ⟨_⟩ ← need (¬ (ty < 0 ∨ ty ≥ Generated.VI_RESB))
      unpackResidue ty books) (nr + 1).toNat
  let ⟨nm, hnm⟩ ← rdB 6
  let ⟨h3⟩ ← need (¬ (nm + 1 ≤ 0))
  let ⟨maps, hms, hmw⟩ ← repeatP (MappingWF channels floors.size residues.size) (do
      let ty ← rd 16
      let ⟨_⟩ ← need (¬ (ty < 0 ∨ ty ≥ Generated.VI_MAPB))
      unpackMapping channels floors.size residues.size) (nm + 1).toNat
  let ⟨nmo, hnmo⟩ ← rdB 6
  let ⟨h4⟩ ← need (¬ (nmo + 1 ≤ 0))
  let ⟨modes, hmos, hmow⟩ ← repeatP (ModeWF maps.size) (unpackMode maps.size) (nmo + 1).toNat
  let fr ← rd 1
  let ⟨_⟩ ← need (fr = 1)
  have e8 : ((2 ^ 8 : Nat) : Int) = 256 := by decide
  have e6 : ((2 ^ 6 : Nat) : Int) = 64 := by decide
  pure ⟨{ books := books, floors := floors, residues := residues, maps := maps, modes := modes },
        ⟨by simp only []; omega, hbw, by simp only []; omega, hfw, by simp only []; omega, hrw,
         by simp only []; omega, hmw, by simp only []; omega, hmow⟩⟩

/-- run the set-up parser on the bytes that follow the 7 byte preamble of a type-5 packet -/
def parseSetup (channels : Int) (pkt : ByteArray) : Option Setup :=
  let r0 : Reader := { data := pkt, pos := 56, dead := pkt.size < 7 }
  match (unpackSetup channels).run r0 with
  | (Except.ok s, _) => some s.val
  | _ => none

end Vorbis.Setup
