import Vorbis.Header
import Vorbis.Block.Dec
/-
Model of lib/vorbisfile.c over a *page table*: the physical stream is given as the list of its Ogg
pages (offset, length, serial, page number, granule position, flags, and the packets completed on the
page).  libogg's sync/stream layers are external: `_get_next_page` is "the first page that starts at
or after the read cursor", `ogg_stream_pagein/packetout` are a queue with the sequence-gap rule.
Audio decoding is the count/position model of `Vorbis/Block/Dec.lean`.
Every function below is a transliteration of the C function of the same name; loops carry fuel.
The model is exact for streams whose packets do not span pages (all streams the bundled encoder and
libogg's pager produce); the correspondence stream `c07` compares every observable.
-/
namespace Vorbis.File
open Vorbis Vorbis.Block

def OV_FALSE := Generated.OV_FALSE
def OV_EOF := Generated.OV_EOF
def OV_HOLE := Generated.OV_HOLE
def OV_EREAD := Generated.OV_EREAD
def OV_EFAULT := Generated.OV_EFAULT
def OV_EINVAL := Generated.OV_EINVAL
def OV_ENOTVORBIS := Generated.OV_ENOTVORBIS
def OV_EBADHEADER := Generated.OV_EBADHEADER
def OV_EBADPACKET := Generated.OV_EBADPACKET
def OV_EBADLINK := Generated.OV_EBADLINK
def OV_ENOSEEK := Generated.OV_ENOSEEK
def CHUNKSIZE : Int := Generated.CHUNKSIZE
def NOTOPEN := Generated.NOTOPEN
def PARTOPEN := Generated.PARTOPEN
def OPENED := Generated.OPENED
def STREAMSET := Generated.STREAMSET
def INITSET := Generated.INITSET

/-- a packet as `ogg_stream_packetout` hands it over (only what vorbisfile looks at) -/
structure QPkt where
  bytes : Nat
  b0 : Nat            -- first byte (packet type bit, mode number, window flags)
  b1 : Nat
  gran : Int
  eos : Bool
  hole : Bool := false
  deriving Repr, Inhabited

structure Page where
  off : Int
  len : Int
  hlen : Int
  serial : Int
  pageno : Int
  gran : Int
  bos : Bool
  eos : Bool
  cont : Bool
  pk : List QPkt      -- the packets completed on this page when its predecessor is in the stream
  tail : Bool := false  -- the page ends inside a packet
  deriving Repr, Inhabited

/-- per link what `vorbis_info` holds for vorbisfile's purposes -/
structure LinkInfo where
  channels : Int
  rate : Int
  bs0 : Int
  bs1 : Int
  modes : Array Int        -- blockflag of every mode
  deriving Repr, Inhabited

structure Phys where
  size : Int
  pages : Array Page
  infos : List (Int × LinkInfo)       -- offset of a logical stream's BOS page ↦ info parsed from its three header packets
  badhdr : List Int := []             -- BOS offsets of Vorbis streams (good identification header) whose other headers are refused
  stalls : List Int := []             -- ascending: offsets where libogg's page hunt comes to rest at end of file (an 'O' with fewer than 27
                                      -- bytes after it; a capture pattern whose header or body would run past the end)
  deriving Inhabited

/-- `ogg_stream_state` as a queue -/
structure OStream where
  serial : Int := -1
  pageno : Int := -1          -- expected next page number, -1 after a reset
  q : List QPkt := []
  packetno : Int := 0
  dead : Bool := false        -- `ogg_stream_clear`ed: every later call fails `ogg_stream_check`
  pending : Bool := false     -- the last page submitted ended inside a packet
  deriving Repr, Inhabited

def OStream.resetSerial (o : OStream) (s : Int) : OStream := if o.dead then o else { serial := s }
def OStream.reset (o : OStream) : OStream := if o.dead then o else { serial := o.serial }
def OStream.cleared : OStream := { dead := true }

/-- `ogg_stream_pagein` -/
def OStream.pagein (o : OStream) (p : Page) : OStream :=
  if o.dead then o
  else if p.serial ≠ o.serial then o
  else
    let gap := o.pageno ≠ -1 ∧ p.pageno ≠ o.pageno
    let pend0 := if gap then false else o.pending
    let q1 := if gap then o.q ++ [{ bytes := 0, b0 := 0, b1 := 0, gran := -1, eos := false, hole := true }] else o.q
    -- a continued page without its beginning in the stream loses the continued packet
    let orphan := p.cont ∧ !pend0
    let pks := if orphan then p.pk.drop 1 else p.pk
    let pend1 := if orphan ∧ p.pk.isEmpty then false else p.tail
    { o with q := q1 ++ pks, pageno := p.pageno + 1, pending := pend1 }

/-- `ogg_stream_packetout`: result 1 / 0 / -1, the packet, the new state; the packet number is assigned here -/
def OStream.packetout (o : OStream) : Int × QPkt × Int × OStream :=
  if o.dead then (0, default, 0, o) else
  match o.q with
  | [] => (0, default, 0, o)
  | p :: rest =>
      if p.hole then (-1, p, o.packetno, { o with q := rest, packetno := o.packetno + 1 })
      else (1, p, o.packetno, { o with q := rest, packetno := o.packetno + 1 })

/-- `ogg_stream_packetpeek` -/
def OStream.packetpeek (o : OStream) : Int × QPkt :=
  if o.dead then (0, default) else
  match o.q with
  | [] => (0, default)
  | p :: _ => if p.hole then (-1, p) else (1, p)

/-- the mode's block flag an audio packet selects, or the error code of `vorbis_packet_blocksize` /
    `vorbis_synthesis` (first bit must be 0; the mode number is read with `ilog(modes-1)` bits) -/
def packetFlag (li : LinkInfo) (p : QPkt) : Except Int Bool :=
  if li.modes.size = 0 then .error OV_EFAULT
  else if p.bytes = 0 then .error Generated.OV_ENOTAUDIO      -- the read of the type bit yields -1 ≠ 0
  else if p.b0 % 2 ≠ 0 then .error Generated.OV_ENOTAUDIO
  else
    let modebits := ilog ((li.modes.size : Int) - 1)
    if p.bytes * 8 < 1 + modebits then .error OV_EBADPACKET
    else
      let mode := ((p.b0 + 256 * p.b1) / 2) % 2 ^ modebits
      match li.modes[mode]? with
      | none => .error OV_EBADPACKET
      | some bf => .ok (bf ≠ 0)

/-- `vorbis_packet_blocksize(vi, op)` -/
def packetBlocksize (li : LinkInfo) (p : QPkt) : Int :=
  match packetFlag li p with
  | .ok w => if w then li.bs1 else li.bs0
  | .error e => e

/-- the window flag `vorbis_synthesis` / `vorbis_synthesis_trackonly` extract (`none`: packet refused);
    a long block also carries two window bits and is refused when they are missing -/
def packetW (li : LinkInfo) (p : QPkt) : Option Bool :=
  match packetFlag li p with
  | .ok true => if p.bytes * 8 < 1 + ilog ((li.modes.size : Int) - 1) + 2 then none else some true
  | .ok false => some false
  | .error _ => none

/-- the read cursor: `off` is `vf->offset`, the sync buffer holds the bytes `[off, fill)` -/
structure Cur where
  off : Int := 0
  fill : Int := 0
  deriving Repr, Inhabited, DecidableEq

def READSIZE : Int := Generated.READSIZE
/-- sentinel result of a loop whose fuel ran out (the theorems of Props/C03 show it is never produced) -/
def FUEL : Int := -99999

def seekCur (off : Int) : Cur := { off := off, fill := off }

/-- where a page hunt from `off` that finds no page comes to rest: `ogg_sync_pageseek` answers "need more data" when fewer than 27 bytes
    are left, or at a capture pattern whose page would run past the end of the file; with nothing of the kind it skips to the end -/
def stallAt (ph : Phys) (off : Int) : Int :=
  if ph.size - off < 27 then off else (ph.stalls.find? (fun q => q ≥ off)).getD ph.size

/-- `_get_next_page(vf,og,boundary)` over an explicit cursor: boundary <0 unbounded, 0 only what is
    buffered, n>0 pages starting within the next n bytes.  Returns (page offset or negative code, page, cursor). -/
def nextPage (ph : Phys) (c : Cur) (boundary : Int) : Int × Page × Cur :=
  let lim := c.off + boundary
  let st := stallAt ph c.off
  match ph.pages.find? (fun p => p.off ≥ c.off ∧ p.off < st) with
  | some p =>
      if boundary > 0 ∧ p.off ≥ lim then (OV_FALSE, default, { c with off := lim, fill := if c.fill < lim then lim else c.fill })
      else if boundary = 0 ∧ p.off + p.len > c.fill then (OV_FALSE, default, c)
      else
        let need := p.off + p.len
        let fill1 := if need ≤ c.fill then c.fill else c.fill + ((need - c.fill + READSIZE - 1) / READSIZE) * READSIZE
        (p.off, p, { off := need, fill := if fill1 > ph.size then ph.size else fill1 })
  | none =>
      if boundary = 0 then (OV_FALSE, default, c)
      else if boundary > 0 ∧ lim ≤ st then (OV_FALSE, default, { c with off := lim, fill := if c.fill < lim then lim else c.fill })
      else (OV_EOF, default, { off := st, fill := ph.size })

/-- inner `while(vf->offset<end)` loop shared by the two backward searches -/
def prevScan (ph : Phys) (end_ : Int) (serials : List Int) (want : Int) :
    Nat → Cur → (offset prefoffset retSerial retGran prefGran : Int) → Int × Int × Int × Int × Int × Cur
  | 0, c, _, _, rs, rg, pg => (FUEL, -1, rs, rg, pg, c)
  | fuel + 1, c, o, pf, rs, rg, pg =>
      if ¬ (c.off < end_) then (o, pf, rs, rg, pg, c)
      else
        let (ret, page, c1) := nextPage ph c (end_ - c.off)
        if ret < 0 then (o, pf, rs, rg, pg, c1)
        else
          let pf1 := if page.serial = want then ret else pf
          let pg1 := if page.serial = want then page.gran else pg
          let pf2 := if serials.contains page.serial then pf1 else -1
          prevScan ph end_ serials want fuel c1 ret pf2 page.serial page.gran pg1

/-- `_get_prev_page_serial`: returns (offset or error, serialno, granpos, cursor).  `begin_` is the fixed
    upper end of the search, `b` the moving lower end. -/
def prevPageSerial (ph : Phys) (begin_ : Int) (serials : List Int) (want : Int) (gran0 : Int) :
    Nat → (b : Int) → (prefGran : Int) → Int × Int × Int × Cur
  | 0, b, _ => (FUEL, want, gran0, seekCur b)
  | fuel + 1, b, pg =>
      let b1 := if b - CHUNKSIZE < 0 then 0 else b - CHUNKSIZE
      let (o, pf, rs, rg, pg1, c) := prevScan ph begin_ serials want (ph.pages.size + 1) (seekCur b1) (-1) (-1) (-1) (-1) pg
      if o = FUEL then (FUEL, want, gran0, c)
      else if o = -1 then
        if b1 = 0 then (OV_EBADLINK, want, gran0, c)
        else prevPageSerial ph begin_ serials want gran0 fuel b1 pg1
      else if pf ≥ 0 then (pf, want, pg1, c)
      else (o, rs, rg, c)

/-- fuel that `prevPageSerial`/`prevPage` provably never exhaust -/
def backFuel (begin_ : Int) : Nat := (begin_ / CHUNKSIZE).toNat + 2

def prevPageScan (ph : Phys) (begin_ : Int) : Nat → Cur → Int × Page → (Int × Page) × Cur
  | 0, c, _ => ((FUEL, default), c)
  | f + 1, c, last =>
      if ¬ (c.off < begin_) then (last, c)
      else
        let (ret, page, c1) := nextPage ph c (begin_ - c.off)
        if ret < 0 then (last, c1) else prevPageScan ph begin_ f c1 (ret, page)

/-- `_get_prev_page`: returns the offset, the page and the cursor -/
def prevPage (ph : Phys) (begin_ : Int) : Nat → (b : Int) → Int × Page × Cur
  | 0, b => (FUEL, default, seekCur b)
  | fuel + 1, b =>
      let b1 := if b - CHUNKSIZE < 0 then 0 else b - CHUNKSIZE
      let ((o, pg), c) := prevPageScan ph begin_ (ph.pages.size + 1) (seekCur b1) (-1, default)
      if o = FUEL then (FUEL, default, c)
      else if o = -1 then
        if b1 = 0 then (OV_EBADLINK, default, c) else prevPage ph begin_ fuel b1
      else (o, pg, { c with off := pg.off + pg.len })     -- (re-read when the sync layer no longer holds it: same page)

structure VF where
  seekable : Bool := false
  offset : Int := 0
  fill : Int := 0
  end_ : Int := 0
  ready : Nat := 0
  links : Nat := 0
  offsets : Array Int := #[]
  dataoffsets : Array Int := #[]
  serialnos : Array Int := #[]
  pcmlengths : Array Int := #[]
  infos : Array LinkInfo := #[]
  pcm_offset : Int := 0
  current_link : Int := 0
  current_serialno : Int := 0
  os : OStream := {}
  vd : Option Dec := none          -- `vd`/`vb` initialised
  lapped : Bool := false           -- private_state.lapout_done of `vd`
  hdrkey : Int := -1               -- BOS page offset of the stream whose headers were fetched last (key into `Phys.infos`)
  hs : Nat := 0
  source : Bool := false           -- `vf->datasource` set
  closes : Nat := 0                -- calls of the close callback so far
  deriving Inhabited

abbrev M := StateM VF

def VF.cur (vf : VF) : Cur := { off := vf.offset, fill := vf.fill }
def setCur (c : Cur) : M Unit := modify fun vf => { vf with offset := c.off, fill := c.fill }

def infoOf (ph : Phys) (key : Int) : LinkInfo :=
  match ph.infos.find? (·.1 = key) with
  | some (_, li) => li
  | none => { channels := 0, rate := 0, bs0 := 0, bs1 := 0, modes := #[] }

def getNextPage (ph : Phys) (boundary : Int) : M (Int × Page) := do
  let vf ← get
  let (r, p, c) := nextPage ph vf.cur boundary
  setCur c
  return (r, p)

/-- `_seek_helper` -/
def seekHelper (off : Int) : M Int := do
  setCur (seekCur off)
  return 0

def getPrevPageSerial (ph : Phys) (begin_ : Int) (serials : List Int) (want gran0 : Int) : M (Int × Int × Int) := do
  let (o, s, g, c) := prevPageSerial ph begin_ serials want gran0 (backFuel begin_) begin_ gran0
  setCur c
  return (o, s, g)

def getPrevPage (ph : Phys) (begin_ : Int) : M (Int × Page) := do
  let (o, p, c) := prevPage ph begin_ (backFuel begin_) begin_
  setCur c
  return (o, p)

/-- `_fetch_headers(vf,vi,vc,serialno_list,...,og_ptr)`: the page in hand (streaming) or the next page;
    returns (code, serial numbers of the BOS pages seen).  A serial is a Vorbis stream with good headers
    iff `ph.infos` knows it; `ph.badhdr` lists Vorbis streams whose comment or set-up header is refused. -/
def fetchHeaders (ph : Phys) (given : Option Page) : M (Int × List Int) := do
  let first ← (match given with
    | some p => pure ((0 : Int), p)
    | none => getNextPage ph CHUNKSIZE)
  if first.1 < 0 then return (OV_ENOTVORBIS, [])
  modify fun vf => { vf with ready := OPENED }
  let bail (rc : Int) (l : List Int) : M (Int × List Int) := do
    modify fun vf => { vf with ready := OPENED }
    return (rc, l)
  -- the BOS pages
  let rec bosLoop (fuel : Nat) (og : Page) (list : List Int) : M (Int × Page × List Int) :=
    match fuel with
    | 0 => return (FUEL, og, list)
    | f + 1 => do
        if !og.bos then return (0, og, list)
        if list.contains og.serial then return (OV_EBADHEADER, og, [])
        let list1 := list ++ [og.serial]
        let vf ← get
        if vf.ready < STREAMSET then
          let os1 := ({ serial := og.serial } : OStream).pagein og
          let (r, _, _, os2) := os1.packetout
          set { vf with os := os2 }
          if r > 0 ∧ ((infoOf ph og.off).modes.size > 0 ∨ ph.badhdr.contains og.off) then
            modify fun vf => { vf with ready := STREAMSET, hdrkey := og.off }
        let (r2, og2) ← getNextPage ph CHUNKSIZE
        if r2 < 0 then return (OV_ENOTVORBIS, og2, list1)
        let vf ← get
        if vf.ready = STREAMSET ∧ vf.os.serial = og2.serial then
          modify fun vf => { vf with os := vf.os.pagein og2 }
          return (0, og2, list1)
        bosLoop f og2 list1
  let (rc, _, list) ← bosLoop (ph.pages.size + 1) first.2 []
  if rc ≠ 0 then return (← bail rc list)
  let vf ← get
  if vf.ready ≠ STREAMSET then return (← bail OV_ENOTVORBIS list)
  if ph.badhdr.contains vf.hdrkey then return (← bail OV_EBADHEADER list)
  -- the comment and set-up headers
  let rec rest (fuel : Nat) (i : Nat) (allbos : Bool) : M Int :=
    match fuel with
    | 0 => return FUEL
    | f + 1 => do
        if i ≥ 2 then return 0
        let vf ← get
        let (r, _, _, os1) := vf.os.packetout
        if r = -1 then return OV_EBADHEADER
        if r > 0 then
          set { vf with os := os1 }
          rest f (i + 1) allbos
        else
          let (r2, og) ← getNextPage ph CHUNKSIZE
          if r2 < 0 then return OV_EBADHEADER
          let vf ← get
          if vf.os.serial = og.serial then
            set { vf with os := vf.os.pagein og }
            rest f i allbos
          else if og.bos then
            if allbos then return OV_EBADHEADER else rest f i true
          else rest f i allbos
  let rc2 ← rest (2 * ph.pages.size + 8) 0 false
  if rc2 ≠ 0 then return (← bail rc2 list)
  return (0, list)

/-- `_initial_pcmoffset`: the initial granule offset and the offset of the link's first audio page
    (`dflt` when the link has none) -/
def initialPcmoffset (ph : Phys) (li : LinkInfo) (serial : Int) (dflt : Int) : M (Int × Int) := do
  let rec go (fuel : Nat) (acc : Int) (lastblock : Int) (dataoff : Option Int) : M (Int × Option Int) :=
    match fuel with
    | 0 => return (acc, dataoff)
    | f + 1 => do
        let (r, pg) ← getNextPage ph (-1)
        if r < 0 then return (acc, dataoff)
        if pg.bos then return (acc, dataoff)
        if pg.serial ≠ serial then go f acc lastblock dataoff
        else
          let dataoff1 := match dataoff with | some d => some d | none => some r
          -- the page goes through vf->os, so a sequence gap yields a hole (skipped) first
          let vf ← get
          let os1 := vf.os.pagein pg
          let (acc1, lb1) := os1.q.foldl (fun (st : Int × Int) p =>
              if p.hole then st else
              let tb := packetBlocksize li p
              if tb ≥ 0 then ((if st.2 ≠ -1 then st.1 + (st.2 + tb) / 4 else st.1), tb) else st) (acc, lastblock)
          set { vf with os := { os1 with q := [], packetno := os1.packetno + os1.q.length } }
          if pg.gran ≠ -1 then return (pg.gran - acc1, dataoff1)
          else go f acc1 lb1 dataoff1
  let (a, d) ← go (ph.pages.size + 1) 0 (-1) none
  return ((if a < 0 then 0 else a), d.getD dflt)

/-- position of a serial number in `vf->serialnos` -/
def linkOf (vf : VF) (serial : Int) : Option Nat :=
  (List.range vf.links).find? (fun l => vf.serialnos[l]! = serial)

def sumLen (pl : Array Int) (n : Nat) : Int := (List.range n).foldl (fun a l => a + pl[l * 2 + 1]!) 0

def pcmTotal (vf : VF) (i : Int) : Int :=
  if vf.ready < OPENED then OV_EINVAL
  else if !vf.seekable ∨ i ≥ vf.links then OV_EINVAL
  else if i < 0 then sumLen vf.pcmlengths vf.links
  else vf.pcmlengths[i.toNat * 2 + 1]!

def rawTotal (vf : VF) (i : Int) : Int :=
  if vf.ready < OPENED then OV_EINVAL
  else if !vf.seekable ∨ i ≥ vf.links then OV_EINVAL
  else if i < 0 then (List.range vf.links).foldl (fun a l => a + (vf.offsets[l + 1]! - vf.offsets[l]!)) 0
  else vf.offsets[i.toNat + 1]! - vf.offsets[i.toNat]!

/-- `_decode_clear` -/
def decodeClear : M Unit := modify fun vf => { vf with vd := none, lapped := false, ready := OPENED }

def curInfo (vf : VF) : LinkInfo := if vf.seekable then vf.infos[vf.current_link.toNat]! else vf.infos[0]!
def freshDec (vf : VF) : Dec := Dec.restart { bs0 := (curInfo vf).bs0, bs1 := (curInfo vf).bs1 } vf.hs
def sizesOf (vf : VF) : Sizes := { bs0 := (curInfo vf).bs0, bs1 := (curInfo vf).bs1 }

/-- `_make_decode_ready` -/
def makeDecodeReady : M Int := do
  let vf ← get
  if vf.ready > STREAMSET then return 0
  if vf.ready < STREAMSET then return OV_EFAULT
  set { vf with vd := some (freshDec vf), lapped := false, ready := INITSET }
  return 0

def restartDec : M Unit := modify fun vf => { vf with vd := vf.vd.map (fun _ => freshDec vf), lapped := false }

/-- `vorbis_synthesis_lapout`: position effects and the returned count -/
def lapout (z : Sizes) (hs : Nat) (d : Dec) : Dec × Int :=
  let n := shr (z.bs d.W) (hs + 1)
  let n0 := shr z.bs0 (hs + 1)
  let n1 := shr z.bs1 (hs + 1)
  if d.ret < 0 then (d, 0)
  else
    let d1 := if d.cW = n1 then { d with cur := d.cur - n1, ret := d.ret - n1, cW := 0 } else d
    let sh : Int := if d1.ret ≥ n1 then 0 else if d1.lW ≠ d1.W then (n1 - n0) / 2 else if d1.lW = false then n1 - n0 else 0
    let d2 := { d1 with cur := d1.cur + sh, ret := d1.ret + sh }
    (d2, n1 + n - d2.ret)

/-- global position of a granule position found in the current link -/
def granToPos (vf : VF) (link : Nat) (gran : Int) : Int :=
  let g0 := gran - vf.pcmlengths[link * 2]!
  (if g0 < 0 then 0 else g0) + sumLen vf.pcmlengths link

/-- the packet part of `_fetch_and_process_packet`: hand the queued packets to the decoder until one yields audio
    (`some` = the call's result, `none` = the queue is empty, go and fetch a page) -/
def fpPackets : Nat → M (Option Int)
  | 0 => return some FUEL
  | f' + 1 => do
      let vf ← get
      let (res, p, pno, os1) := vf.os.packetout
      if res = -1 then
        set { vf with os := os1 }
        return some OV_HOLE
      if res > 0 then
        set { vf with os := os1 }
        match packetW (curInfo vf) p, vf.vd with
        | some w, some d =>
            if d.pcmout ≠ 0 then return some OV_EFAULT
            let (d1, _) := d.blockin (sizesOf vf) vf.hs { W := w, gp := p.gran, eos := p.eos, seq := pno }
            modify fun vf => { vf with vd := some d1, lapped := false }
            if p.gran ≠ -1 ∧ !p.eos then
              let link : Nat := if vf.seekable then vf.current_link.toNat else 0
              let g0 := if vf.seekable then p.gran - vf.pcmlengths[link * 2]! else p.gran
              let g1 := if g0 < 0 then 0 else g0
              let g2 := g1 - shl d1.pcmout vf.hs + sumLen vf.pcmlengths link
              modify fun vf => { vf with pcm_offset := g2 }
            return some 1
        | _, _ => fpPackets f'
      else return none

/-- the page part: the next page that concerns the decoder (code, page, stop) -/
def fpPage (ph : Phys) (readp spanp : Bool) : Nat → M (Int × Page × Bool)
  | 0 => return (FUEL, default, false)
  | f' + 1 => do
      if !readp then return (0, default, true)
      let (ret, og) ← getNextPage ph (-1)
      if ret < 0 then return (OV_EOF, default, true)
      let vf ← get
      if vf.ready = INITSET ∧ vf.current_serialno ≠ og.serial then
        if og.bos then
          if !spanp then return (OV_EOF, og, true)
          decodeClear
          if !vf.seekable then modify fun vf => { vf with infos := #[default] }
          return (0, og, false)
        else fpPage ph readp spanp f'
      else return (0, og, false)

/-- what happens to a fetched page: a handle without stream state finds the page's link (seekable) or reads the new link's headers
    (streaming); then the page goes into the stream and the loop goes round (`again`) -/
def fpAfterPage (ph : Phys) (again : M Int) (og : Page) : M Int := do
  let vf ← get
  if vf.ready ≠ INITSET ∧ vf.ready < STREAMSET then
    if vf.seekable then
      match linkOf vf og.serial with
      | none => again
      | some link =>
          modify fun vf => { vf with current_serialno := og.serial, current_link := link,
                                     os := (vf.os.resetSerial og.serial).pagein og, ready := STREAMSET }
          again
    else
      let (r, _) ← fetchHeaders ph (some og)
      if r ≠ 0 then return r
      modify fun vf => { vf with ready := STREAMSET, infos := #[infoOf ph vf.hdrkey],
                                 hs := if vf.hs = 1 ∧ (infoOf ph vf.hdrkey).bs0 > 64 then 1 else 0,
                                 current_serialno := vf.os.serial, current_link := vf.current_link + 1 }
      -- (the page in hand went into the stream inside _fetch_headers: `continue`, not a second pagein)
      again
  else
    modify fun vf => { vf with os := vf.os.pagein og }
    again

def fpPageStep (ph : Phys) (readp spanp : Bool) (again : M Int) : M Int := do
  let vf ← get
  if vf.ready < OPENED then return OV_EFAULT      -- (not reachable through the API)
  let (rc, og, stop) ← fpPage ph readp spanp (ph.pages.size + 1)
  if stop ∨ rc ≠ 0 then return rc
  fpAfterPage ph again og

/-- `_fetch_and_process_packet(vf,NULL,readp,spanp)` -/
def fetchAndProcess (ph : Phys) (readp spanp : Bool) : Nat → M Int
  | 0 => return FUEL
  | fuel + 1 => do
      let vf ← get
      let r0 ← (if vf.ready = STREAMSET then makeDecodeReady else pure 0)
      if r0 < 0 then return r0
      -- process a packet if we can
      let vf ← get
      let pr ← (if vf.ready = INITSET then fpPackets (vf.os.q.length + 1) else pure none)
      match pr with
      | some r => return r
      | none => fpPageStep ph readp spanp (fetchAndProcess ph readp spanp fuel)

/-- pages plus packets: a bound on every loop that consumes one of either per round -/
def Phys.work (ph : Phys) : Nat := 2 * ph.pages.size + ph.pages.foldl (fun a p => a + p.pk.length) 0 + 16
def fpFuel (ph : Phys) : Nat := ph.work

/-- samples a read can hand out right now -/
def readAvail (vf : VF) : Int :=
  if vf.ready = INITSET then (match vf.vd with | some d => d.pcmout | none => 0) else 0

/-- the consuming step of `ov_read_float`: at most `length` of the available samples, the decoder's
    read cursor and the position move together -/
def readTake (vf : VF) (length : Int) : Int × VF :=
  let avail := readAvail vf
  let n := if avail > length then length else avail
  (n, { vf with vd := vf.vd.map (fun d => (d.read n).1), pcm_offset := vf.pcm_offset + shl n vf.hs })

/-- `ov_read_float` / `ov_read` as far as counts and positions go: (return value, link) -/
def readFloat (ph : Phys) (length : Int) : M (Int × Int) := do
  let vf ← get
  if vf.ready < OPENED then return (OV_EINVAL, -1)
  let rec loop (f : Nat) : M (Int × Int) :=
    match f with
    | 0 => return (FUEL, -1)
    | f' + 1 => do
        let vf ← get
        let avail := readAvail vf
        if avail ≠ 0 then
          let (n, vf') := readTake vf length
          set vf'
          return (n, vf.current_link)
        else
          let r ← fetchAndProcess ph true true (fpFuel ph)
          if r = OV_EOF then return (0, -1)
          if r ≤ 0 then return (r, -1)
          loop f'
  loop ph.work

/-- `ov_raw_seek` -/
def rawSeek (ph : Phys) (pos : Int) : M Int := do
  let vf ← get
  if vf.ready < OPENED then return OV_EINVAL
  if !vf.seekable then return OV_ENOSEEK
  if pos < 0 ∨ pos > vf.end_ then return OV_EINVAL
  if vf.ready ≥ STREAMSET then
    if pos < vf.offsets[vf.current_link.toNat]! ∨ pos ≥ vf.offsets[vf.current_link.toNat + 1]! then decodeClear
  modify fun vf => { vf with pcm_offset := -1, os := vf.os.resetSerial vf.current_serialno }
  restartDec
  let _ ← seekHelper pos
  let vf0 ← get
  let work0 : OStream := { serial := vf0.current_serialno }
  let rec loop (fuel : Nat) (work : OStream) (lastblock accblock : Int) (lastflag firstflag firstseen : Bool) : M Unit :=
    match fuel with
    | 0 => modify fun vf => { vf with pcm_offset := FUEL }
    | f + 1 => do
        let vf ← get
        let (res, op, _, work1) := if vf.ready ≥ STREAMSET then work.packetout else (0, default, 0, work)
        if vf.ready ≥ STREAMSET ∧ res > 0 then
          let li := vf.infos[vf.current_link.toNat]!
          let tb := packetBlocksize li op
          let dropOne : M Unit := modify fun vf => { vf with os := vf.os.packetout.2.2.2 }
          let (thisblock, acc1) ← (if tb < 0 then do dropOne; pure ((0 : Int), accblock)
            else if lastflag ∧ !firstflag then do dropOne; pure (tb, accblock)
            else pure (tb, if lastblock ≠ 0 then accblock + (lastblock + tb) / 4 else accblock))
          if op.gran ≠ -1 then
            -- position within the link (clamped at its first sample), then the links before it
            let link := vf.current_link.toNat
            let g0 := op.gran - vf.pcmlengths[link * 2]!
            let g1 := (if g0 < 0 then 0 else g0) - acc1
            modify fun vf => { vf with pcm_offset := (if g1 < 0 then 0 else g1) + sumLen vf.pcmlengths link }
            return ()
          else loop f work1 thisblock acc1 lastflag firstflag firstseen
        else
          if lastblock ≠ 0 then
            modify fun vf => { vf with pcm_offset := -1 }
            return ()
          let (pagepos, og) ← getNextPage ph (-1)
          if pagepos < 0 then
            modify fun vf => { vf with pcm_offset := pcmTotal vf (-1) }
            return ()
          let vf ← get
          -- has our decoding just traversed a bitstream boundary?
          let crossed : Bool := decide (vf.ready ≥ STREAMSET ∧ vf.current_serialno ≠ og.serial ∧ og.bos = true)
          (if crossed then decodeClear else pure ())
          let work2 := if crossed then work1.reset else work1
          let vf ← get
          if vf.ready < STREAMSET then
            match linkOf vf og.serial with
            | none => loop f work2 lastblock accblock lastflag firstflag firstseen
            | some link =>
                modify fun vf => { vf with current_link := link, current_serialno := og.serial,
                                           os := (vf.os.resetSerial og.serial).pagein og, ready := STREAMSET }
                let ff := decide (pagepos ≤ vf.dataoffsets[link]!)
                loop f ((work2.resetSerial og.serial).pagein og) lastblock accblock og.eos ff true
          else
            let (ff, fs) := if !firstseen ∧ og.serial = vf.current_serialno
              then (decide (pagepos ≤ vf.dataoffsets[vf.current_link.toNat]!), true) else (firstflag, firstseen)
            modify fun vf => { vf with os := vf.os.pagein og }
            loop f (work2.pagein og) lastblock accblock og.eos ff fs
  loop (2 * ph.work) work0 0 0 false false false
  return 0

def wrap64 (x : Int) : Int := (x + 2 ^ 63) % 2 ^ 64 - 2 ^ 63

/-- which link a global sample position falls in (the loop at the head of `ov_pcm_seek_page`):
    returns the link and the samples in the links before it -/
def linkFor (pl : Array Int) (links : Nat) (pos : Int) : Int × Int :=
  let rec go (k : Nat) (total : Int) : Int × Int :=
    match k with
    | 0 => (-1, total)
    | k' + 1 =>
        let t := total - pl[k' * 2 + 1]!
        if pos ≥ t then ((k' : Int), t) else go k' t
  go links (sumLen pl links)

structure Bis where
  begin_ : Int
  end_ : Int
  begintime : Int
  endtime : Int
  best : Int := -1
  gotPage : Bool := false
  og : Page := default
  bisect : Int := 0
  cur : Cur := {}
  err : Int := 0          -- non-zero: `goto seek_error` with this result
  res : Int := 0          -- the C variable `result` (what a `goto seek_error` returns)
  deriving Inhabited

/-- the two nested `while(begin<end)` loops of `ov_pcm_seek_page`; `inner` says which one we are in -/
def bisectPcm (ph : Phys) (serial target : Int) : Nat → Bool → Bis → Bis
  | 0, _, b => { b with err := FUEL }
  | fuel + 1, inner, b =>
      if ¬ (b.begin_ < b.end_) then b
      else if !inner then
        let bisect :=
          if b.end_ - b.begin_ < CHUNKSIZE then b.begin_
          else
            let q : Int := if b.endtime = b.begintime then -(2 ^ 63)      -- (int64)NaN on x86-64
                           else Int.tdiv ((target - b.begintime) * (b.end_ - b.begin_)) (b.endtime - b.begintime)
            let x := wrap64 (b.begin_ + q - CHUNKSIZE)
            if x < b.begin_ + CHUNKSIZE then b.begin_ else x
        bisectPcm ph serial target fuel true { b with bisect := bisect, cur := seekCur bisect, res := 0 }
      else
        let (result, og, c1) := nextPage ph b.cur (b.end_ - b.cur.off)
        if result < 0 then
          if b.bisect ≤ b.begin_ + 1 then bisectPcm ph serial target fuel true { b with cur := c1, end_ := b.begin_, res := result }
          else if b.bisect = 0 then { b with cur := c1, err := result, res := result }
          else
            let bs := b.bisect - CHUNKSIZE
            let bs1 := if bs ≤ b.begin_ then b.begin_ + 1 else bs
            bisectPcm ph serial target fuel true { b with bisect := bs1, cur := seekCur bs1, res := 0 }
        else
          let b1 := { b with gotPage := true, og := og, cur := c1, res := result }
          if og.serial ≠ serial then bisectPcm ph serial target fuel true b1
          else if og.gran = -1 then bisectPcm ph serial target fuel true b1
          else if og.gran < target then
            let b2 := { b1 with best := result, begin_ := c1.off, begintime := og.gran }
            if target - og.gran > 44100 then bisectPcm ph serial target fuel false b2
            else bisectPcm ph serial target fuel true { b2 with bisect := c1.off }
          else
            if b1.bisect ≤ b1.begin_ + 1 then bisectPcm ph serial target fuel true { b1 with end_ := b1.begin_ }
            else if b1.end_ = c1.off then
              let bs := b1.bisect - CHUNKSIZE
              let bs1 := if bs ≤ b1.begin_ then b1.begin_ + 1 else bs
              bisectPcm ph serial target fuel true { b1 with end_ := result, bisect := bs1, cur := seekCur bs1, res := 0 }
            else bisectPcm ph serial target fuel false { b1 with end_ := b1.bisect, endtime := og.gran }

/-- the link table: built by `ov_open`, changed by no later call -/
structure Tab where
  links : Nat
  offsets : Array Int
  dataoffsets : Array Int
  serialnos : Array Int
  pcmlengths : Array Int
  deriving Inhabited

def VF.tab (vf : VF) : Tab :=
  { links := vf.links, offsets := vf.offsets, dataoffsets := vf.dataoffsets, serialnos := vf.serialnos, pcmlengths := vf.pcmlengths }

/-- everything of `ov_pcm_seek_page` that does not touch the decode state: a function of the link
    table and the target only -/
def searchPcm (ph : Phys) (t : Tab) (link : Nat) (target : Int) : Bis :=
  let end_ := t.offsets[link + 1]!
  let begin_ := t.dataoffsets[link]!
  let begintime := t.pcmlengths[link * 2]!
  let endtime := t.pcmlengths[link * 2 + 1]! + begintime
  let b0 : Bis := { begin_ := begin_, end_ := end_, begintime := begintime, endtime := endtime }
  let b1 : Bis :=
    if begin_ = end_ then
      let (r, og, c) := nextPage ph (seekCur begin_) 1
      if r < 0 then { b0 with err := r, cur := c, res := r } else { b0 with gotPage := true, og := og, cur := c, res := r }
    else b0
  if b1.err ≠ 0 then b1 else bisectPcm ph t.serialnos[link]! target (4 * ph.pages.size + 4 * (end_ / CHUNKSIZE).toNat + 64) false b1

/-- what `ov_pcm_seek_page` is going to do, decided from the link table and the target alone -/
inductive SeekPlan
  | fail (rc : Int) (cur : Cur)                                    -- `goto seek_error` before a link was selected
  | failSel (link : Nat) (cur : Cur) (os : OStream) (rc : Int)     -- `goto seek_error` after the link's stream state was set up
  | land (link : Nat) (cur : Cur) (os : OStream) (po : Int)        -- success: queue and position
  | viaRaw (link : Nat) (cur : Cur) (os : OStream) (rawpos : Int)  -- hand over to `ov_raw_seek(rawpos)`
  deriving Inhabited

/-- the packets queued from the landing page: drop those without a granule position; the first one that has one fixes the position -/
def peekPlan (pl0 total : Int) : Nat → OStream → Option (OStream × Int) ⊕ Unit
  | 0, _ => .inl none
  | f + 1, os =>
      let (res, op) := os.packetpeek
      if res = 0 then .inr ()                                      -- nothing (left) on this page
      else if res < 0 then .inl none                               -- a hole
      else if op.gran ≠ -1 then
        let g := op.gran - pl0
        .inl (some (os, (if g < 0 then 0 else g) + total))
      else peekPlan pl0 total f os.packetout.2.2.2

/-- walk back from `result` to a page of the link that begins a packet; the raw offset to seek to, an error, or nothing found -/
def backPlan (ph : Phys) (dataoff serial : Int) : Nat → Int → Cur → (Int × Cur) ⊕ (Option Int × Cur)
  | 0, _, c => .inr (some FUEL, c)
  | f + 1, result, c =>
      if ¬ (result > dataoff) then .inr (none, c)
      else
        let (r2, og2, c2) := prevPage ph result (backFuel result) result
        if r2 < 0 then .inr (some r2, c2)
        else if og2.serial = serial ∧ (og2.gran > -1 ∨ !og2.cont) then .inl (r2, c2)
        else backPlan ph dataoff serial f r2 c2

def sumAll (t : Tab) : Int := sumLen t.pcmlengths t.links

def planSeekPage (ph : Phys) (t : Tab) (pos : Int) : SeekPlan :=
  let (linkI, total) := linkFor t.pcmlengths t.links pos
  let link := linkI.toNat
  let target := pos - total + t.pcmlengths[link * 2]!
  let serial := t.serialnos[link]!
  let b := searchPcm ph t link target
  let verdict (cur : Cur) (os : OStream) (po : Int) : SeekPlan :=
    if po > pos ∨ pos > sumAll t then .failSel link cur os OV_EFAULT else .land link cur os po
  if b.err ≠ 0 then .fail b.err b.cur
  else if b.best = -1 then
    if b.gotPage ∧ b.begin_ = t.dataoffsets[link]! ∧ b.og.serial = serial then
      -- the page in hand need not be the first data page (one that completes no packet has no granule position and is passed over
      -- by the search): the first data page is fetched again (repair F36)
      let (r, og, c) := nextPage ph (seekCur t.dataoffsets[link]!) (-1)
      if r < 0 then .fail r c
      else verdict c (({ serial := serial } : OStream).pagein og) total
    else .fail b.res b.cur            -- `result` may hold a page offset or 0 here: not an error code
  else
    let (r, og, c) := nextPage ph (seekCur b.best) (-1)
    if r < 0 then .fail r c
    else
      let os0 := ({ serial := serial } : OStream).pagein og
      match peekPlan t.pcmlengths[link * 2]! total (ph.work) os0 with
      | .inl (some (os1, po)) => verdict c os1 po
      | .inl none => .failSel link c os0 OV_EBADPACKET
      | .inr () =>
          -- the packet finishing this page began on an earlier page: walk back and use raw seek
          let osE := { os0 with q := [] }
          match backPlan ph t.dataoffsets[link]! serial (ph.pages.size + 1) b.best c with
          | .inl (r2, c2) => .viaRaw link c2 osE r2
          | .inr (some rc, c2) => .failSel link c2 osE rc
          | .inr (none, c2) => .failSel link c2 osE OV_EBADPACKET

/-- load the decode machine for `link` the way both success paths of `ov_pcm_seek_page` do: a different link, or no stream
    state left after an earlier failed seek, dumps the decoder (`_decode_clear`); otherwise it is restarted in place -/
def selectLinkF (link : Nat) (vf : VF) : VF :=
  let v1 : VF :=
    if (link : Int) ≠ vf.current_link ∨ vf.ready < STREAMSET then
      { vf with vd := none, lapped := false, current_link := link, current_serialno := vf.serialnos[link]!, ready := STREAMSET }
    else { vf with vd := vf.vd.map (fun _ => freshDec vf), lapped := false }
  { v1 with os := v1.os.resetSerial v1.current_serialno }

def selectLink (link : Nat) : M Unit := modify (selectLinkF link)

def seekError (rc : Int) : M Int := do
  modify fun vf => { vf with pcm_offset := -1 }
  decodeClear
  return rc

/-- carry a seek plan out on the handle -/
def execPlan (rawSeekF : Int → M Int) : SeekPlan → M Int
  | .fail rc cur => do
      setCur cur
      seekError rc
  | .failSel link cur os rc => do
      setCur cur
      selectLink link
      modify fun vf => { vf with os := os }
      seekError rc
  | .land link cur os po => do
      setCur cur
      selectLink link
      modify fun vf => { vf with os := os, pcm_offset := po }
      return 0
  | .viaRaw link cur os rawpos => do
      setCur cur
      selectLink link
      modify fun vf => { vf with os := os, pcm_offset := -1 }
      rawSeekF rawpos

/-- `ov_pcm_seek_page`: validate, plan (table and target only), carry the plan out on the handle -/
def pcmSeekPage (ph : Phys) (rawSeekF : Int → M Int) (pos : Int) : M Int := do
  let vf ← get
  if vf.ready < OPENED then return OV_EINVAL
  if !vf.seekable then return OV_ENOSEEK
  if pos < 0 ∨ pos > pcmTotal vf (-1) then return OV_EINVAL
  execPlan rawSeekF (planSeekPage ph vf.tab pos)

/-- the second half of `ov_pcm_seek`, entered with the decoder ready at a page boundary at or before `pos`:
    drop whole packets undecoded, then decode and drop samples, up to `pos` -/
def pcmSeekTail (ph : Phys) (pos : Int) : M Int := do
  -- discard leading packets we don't need for the lapping of the position we want
  let rec discard (fuel : Nat) (lastblock : Int) : M Int :=
    match fuel with
    | 0 => return FUEL
    | f + 1 => do
        let vf ← get
        let (r, op) := vf.os.packetpeek
        if r > 0 then
          let li := vf.infos[vf.current_link.toNat]!
          let tb := packetBlocksize li op
          if tb < 0 then
            set { vf with os := vf.os.packetout.2.2.2 }
            discard f lastblock
          else
            let po := if lastblock ≠ 0 then vf.pcm_offset + (lastblock + tb) / 4 else vf.pcm_offset
            set { vf with pcm_offset := po }
            if po + (tb + li.bs1) / 4 ≥ pos then return 0
            let (_, _, pno, os1) := vf.os.packetout
            -- vorbis_synthesis_trackonly + blockin (the block carries no pcm)
            let vd1 := match packetW li op, vf.vd with
              | some w, some d => some (d.blockin (sizesOf vf) vf.hs { W := w, gp := op.gran, eos := op.eos, seq := pno, pcm := false }).1
              | _, d => d
            let po1 := if op.gran > -1 then granToPos vf vf.current_link.toNat op.gran else po
            set { vf with os := os1, vd := vd1, pcm_offset := po1 }
            discard f tb
        else
          if r < 0 ∧ r ≠ OV_HOLE then return 0      -- (packetpeek yields only 1, 0, -1: never taken)
          let (pr, og) ← getNextPage ph (-1)
          if pr < 0 then return 0
          (if og.bos then decodeClear else pure ())
          let vf ← get
          if vf.ready < STREAMSET then
            match linkOf vf og.serial with
            | none => discard f lastblock
            | some link =>
                set { vf with current_link := link, ready := STREAMSET, current_serialno := og.serial,
                              os := vf.os.resetSerial og.serial }
                let r3 ← makeDecodeReady
                if r3 ≠ 0 then return r3
                modify fun vf => { vf with os := vf.os.pagein og }
                discard f 0
          else
            set { vf with os := vf.os.pagein og }
            discard f lastblock
  let r3 ← discard (2 * ph.work) 0
  if r3 ≠ 0 then return r3
  -- discard samples until we reach the desired position
  let rec skip (fuel : Nat) : M Unit :=
    match fuel with
    | 0 => modify fun vf => { vf with pcm_offset := FUEL }
    | f + 1 => do
        let vf ← get
        let target := shr (pos - vf.pcm_offset) vf.hs
        if target ≤ 0 then return ()
        match vf.vd with
        | none => return ()
        | some d =>
            let avail := d.pcmout
            let n := if avail > target then target else avail
            set { vf with vd := some (d.read n).1, pcm_offset := vf.pcm_offset + shl n vf.hs }
            if n < target then
              let r ← fetchAndProcess ph true true (fpFuel ph)
              if r ≤ 0 then modify fun vf => { vf with pcm_offset := pcmTotal vf (-1) }
            skip f
  skip (2 * ph.work)
  return 0

/-- `ov_pcm_seek` -/
def pcmSeek (ph : Phys) (rawSeekF : Int → M Int) (pos : Int) : M Int := do
  let ret ← pcmSeekPage ph rawSeekF pos
  if ret < 0 then return ret
  let r2 ← makeDecodeReady
  if r2 ≠ 0 then return r2
  pcmSeekTail ph pos

/-- the link a time offset falls in (`ov_time_seek`, `ov_time_seek_page`): doubles as in the C -/
def timeTarget (vf : VF) (seconds : Float) : Option Int :=
  let rec go (k : Nat) (link : Nat) (pcmTotal : Int) (timeTotal : Float) : Option Int :=
    match k with
    | 0 => none
    | k' + 1 =>
        let li := vf.infos[link]!
        let addsec := Float.ofInt vf.pcmlengths[link * 2 + 1]! / Float.ofInt li.rate
        if seconds < timeTotal + addsec then
          some (Float.ofInt pcmTotal + (seconds - timeTotal) * Float.ofInt li.rate).toInt64.toInt
        else go k' (link + 1) (pcmTotal + vf.pcmlengths[link * 2 + 1]!) (timeTotal + addsec)
  go vf.links 0 0 0.0

def timeSeek (seekF : Int → M Int) (seconds : Float) : M Int := do
  let vf ← get
  if vf.ready < OPENED then return OV_EINVAL
  if !vf.seekable then return OV_ENOSEEK
  if seconds < 0 then return OV_EINVAL
  match timeTarget vf seconds with
  | none => return OV_EINVAL
  | some t => seekF t

/-- the flag-setting loop of `ov_halfrate` (with its roll-back): the new flag and whether the call is refused -/
def halfrateFlags (vf : VF) (flag : Bool) : Nat × Bool :=
  let refused := flag ∧ ((List.range vf.links).any fun i => vf.infos[i]!.bs0 ≤ 64)
  (if flag ∧ !refused then 1 else 0, refused)

/-- the second half of `ov_halfrate`: with the flags set, dump the decoder and recover the position -/
def halfrateRebuild (ph : Phys) (hs' : Nat) : M Unit := do
  modify fun vf => { vf with hs := hs' }
  let vf ← get
  if vf.ready > STREAMSET then
    set { vf with vd := none, lapped := false, ready := STREAMSET }
    if vf.pcm_offset ≥ 0 then
      let pos := if vf.seekable ∧ vf.pcm_offset > pcmTotal vf (-1) then pcmTotal vf (-1) else vf.pcm_offset
      modify fun vf => { vf with pcm_offset := -1 }
      let _ ← pcmSeek ph (rawSeek ph) pos

/-- `ov_halfrate` -/
def halfrate (ph : Phys) (flag : Bool) : M Int := do
  let vf ← get
  if vf.infos.size = 0 then return OV_EINVAL
  halfrateRebuild ph (halfrateFlags vf flag).1
  return (if (halfrateFlags vf flag).2 then OV_EINVAL else 0)

/-- `_ov_initset` -/
def initset (ph : Phys) : Nat → M Int
  | 0 => return FUEL
  | f + 1 => do
      let vf ← get
      if vf.ready = INITSET then return 0
      let r ← fetchAndProcess ph true false (fpFuel ph)
      if r < 0 ∧ r ≠ OV_HOLE then return r
      initset ph f

/-- `_ov_initprime` -/
def initprime (ph : Phys) : Nat → M Int
  | 0 => return FUEL
  | f + 1 => do
      let vf ← get
      let primed : Bool := match vf.vd with | some d => decide (d.pcmout ≠ 0) | none => false
      if vf.ready = INITSET ∧ primed then return 0
      let r ← fetchAndProcess ph true true (fpFuel ph)
      if r < 0 ∧ r ≠ OV_HOLE then return r
      initprime ph f

/-- `_ov_getlap`: how many samples end up in the lapping buffer from ordinary decode (the rest is
    taken from the overlap half via lapout, or zero-filled) -/
def getlap (ph : Phys) (lapsize : Int) : Nat → Int → M Int
  | 0, c => return c
  | f + 1, c => do
      if ¬ (c < lapsize) then return c
      let vf ← get
      match vf.vd with
      | none => return c
      | some d =>
          let avail := d.pcmout
          if avail ≠ 0 then
            let n := if avail > lapsize - c then lapsize - c else avail
            set { vf with vd := some (d.read n).1 }
            getlap ph lapsize f (c + n)
          else
            let r ← fetchAndProcess ph true false (fpFuel ph)
            if r = OV_EOF then return c else getlap ph lapsize f c

/-- `vorbis_synthesis_lapout(&vf->vd,..)` on the handle: a no-op when the buffer is already arranged -/
def lapoutVF (vf : VF) : VF :=
  if vf.lapped then vf
  else { vf with vd := vf.vd.map (fun d => (lapout (sizesOf vf) vf.hs d).1),
                 lapped := (match vf.vd with | some d => decide (d.ret ≥ 0) | none => false) }

def doLapout : M Unit := modify lapoutVF

def getlapFull (ph : Phys) (lapsize : Int) : M Unit := do
  let c ← getlap ph lapsize (ph.work + lapsize.toNat + 4) 0
  if c < lapsize then doLapout

/-- the first half of a lapped seek: make the decoder ready and collect the lapping samples at the old position -/
def lapPrefix (ph : Phys) : M Int := do
  let r ← initset ph (ph.work)
  if r ≠ 0 then return r
  let vf ← get
  getlapFull ph (shr (curInfo vf).bs0 (1 + vf.hs))
  return 0

/-- `_ov_64_seek_lap` / `_ov_d_seek_lap` -/
def seekLap (ph : Phys) (localseek : M Int) : M Int := do
  let vf ← get
  if vf.ready < OPENED then return OV_EINVAL
  let r ← lapPrefix ph
  if r ≠ 0 then return r
  let r2 ← localseek
  if r2 ≠ 0 then return r2
  let r3 ← initprime ph (ph.work)
  if r3 ≠ 0 then return r3
  doLapout
  return 0

/-- the public lapped seeks: what the plain seek would refuse is refused before anything is consumed -/
def lapGuard (inRange : VF → Bool) (body : M Int) : M Int := do
  let vf ← get
  if vf.ready < OPENED then return OV_EINVAL
  if !vf.seekable then return OV_ENOSEEK
  if !inRange vf then return OV_EINVAL
  body

/-- `ov_open1` (`ov_test_callbacks`): the code and the serial numbers of the first link's BOS pages -/
def open1 (ph : Phys) (seekable : Bool) : M (Int × List Int) := do
  let closes := (← get).closes
  set ({ seekable := seekable, links := 1, source := true, closes := closes } : VF)
  let (rc, bos) ← fetchHeaders ph none
  if rc < 0 then
    set ({ closes := closes } : VF)          -- datasource=NULL; ov_clear
    return (rc, [])
  modify fun vf => { vf with infos := #[infoOf ph vf.hdrkey], serialnos := #[vf.os.serial], current_serialno := vf.os.serial,
                             offsets := #[0], dataoffsets := #[vf.offset], ready := PARTOPEN }
  return (0, bos)

/-- `_bisect_forward_serialno`; `serialno` is `vf->os.serialno` at entry -/
def bisectForward (ph : Phys) : Nat → (begin_ searched end_ endgran endserial : Int) → (curlist : List Int) →
    (m : Nat) → (serialno : Int) → M Int
  | 0, _, _, _, _, _, _, _, _ => return FUEL
  | fuel + 1, begin_, searched, end_, endgran, endserial, curlist, m, serialno => do
      if curlist.contains endserial then
        -- a single link is left: find its last page of our serial
        let rec back (f : Nat) (es eg sr : Int) : M (Int × Int) :=
          match f with
          | 0 => return (0, eg)
          | f' + 1 => do
              if es = serialno then return (0, eg)
              let (o, s, g) ← getPrevPageSerial ph sr curlist serialno eg
              if o < 0 then return (o, g)          -- `if(searched<0)return(searched);` (repair F37)
              back f' s g o
        let (berr, eg) ← back (ph.pages.size + 1) endserial endgran end_
        if berr < 0 then return berr
        modify fun vf =>
          let n := m + 1
          { vf with links := n,
                    offsets := ((Array.replicate (n + 1) (0 : Int)).set! (m + 1) end_).set! m begin_,
                    serialnos := Array.replicate n 0, dataoffsets := Array.replicate n 0,
                    pcmlengths := (Array.replicate (n * 2) (0 : Int)).set! (m * 2 + 1) (if eg < 0 then 0 else eg),
                    infos := (vf.infos ++ Array.replicate n default).extract 0 n }
        return 0
      else
        -- several links: find where the stream that begins our bisection ends
        let rec bis (f : Nat) (srch esrch next : Int) : M Int :=
          match f with
          | 0 => return next
          | f' + 1 => do
              if ¬ (srch < esrch) then return next
              let bisect := if esrch - srch < CHUNKSIZE then srch else (srch + esrch) / 2
              let _ ← seekHelper bisect
              let (last, og) ← getNextPage ph (-1)
              if last < 0 ∨ !(curlist.contains og.serial) then
                bis f' srch bisect (if last ≥ 0 then last else next)
              else do
                let vf ← get
                bis f' vf.offset esrch next
        let next ← bis (ph.pages.size + 80) searched end_ end_
        let rec back2 (f : Nat) (ts sg sr : Int) (first : Bool) : M (Int × Int) :=
          match f with
          | 0 => return (0, sg)
          | f' + 1 => do
              if !first ∧ ts = serialno then return (0, sg)
              let (o, s, g) ← getPrevPageSerial ph sr curlist serialno sg
              if o < 0 then return (o, g)          -- `if(searched<0)return(searched);` (repair F37)
              back2 f' s g o false
        let (berr2, searchgran) ← back2 (ph.pages.size + 2) (serialno + 1) (-1) next true
        if berr2 < 0 then return berr2
        let _ ← seekHelper next
        let (rc2, nlist) ← fetchHeaders ph none
        if rc2 ≠ 0 then return rc2
        let vf1 ← get
        let nser := vf1.os.serial
        let li := infoOf ph vf1.hdrkey
        let (pcmoffset, dataoffset) ← initialPcmoffset ph li nser vf1.offset
        let vf2 ← get
        let rc3 ← bisectForward ph fuel next vf2.offset end_ endgran endserial nlist (m + 1) nser
        if rc3 ≠ 0 then return rc3
        modify fun vf =>
          let pl := ((vf.pcmlengths.set! (m * 2 + 1) searchgran).set! (m * 2 + 2) pcmoffset)
          let v3 := pl[m * 2 + 3]! - pcmoffset
          { vf with offsets := vf.offsets.set! (m + 1) next, serialnos := vf.serialnos.set! (m + 1) nser,
                    dataoffsets := vf.dataoffsets.set! (m + 1) dataoffset, infos := vf.infos.set! (m + 1) li,
                    pcmlengths := pl.set! (m * 2 + 3) (if v3 < 0 then 0 else v3) }
        return 0

/-- `ov_open2` (`ov_test_open`), with `_open_seekable2` -/
def open2 (ph : Phys) (bosSerials : List Int) : M Int := do
  let vf ← get
  if vf.ready ≠ PARTOPEN then return OV_EINVAL
  set { vf with ready := OPENED }
  if !vf.seekable then
    modify fun vf => { vf with ready := STREAMSET }
    return 0
  let fail (rc : Int) : M Int := do
    let closes := (← get).closes
    set ({ closes := closes } : VF)           -- datasource=NULL; ov_clear: the source is left open
    return rc
  let serial := vf.os.serial
  let li := vf.infos[0]!
  let (pcmoffset, dataoffset) ← initialPcmoffset ph li serial vf.dataoffsets[0]!
  setCur (seekCur ph.size)
  modify fun vf => { vf with end_ := ph.size }
  let (e, endserial, endgran) ← getPrevPageSerial ph ph.size bosSerials serial (-1)
  if e < 0 then return (← fail e)
  let rc2 ← bisectForward ph (ph.pages.size + 2) 0 dataoffset e endgran endserial bosSerials 0 serial
  if rc2 < 0 then return (← fail OV_EREAD)
  modify fun vf =>
    let pl := vf.pcmlengths.set! 0 pcmoffset
    let v1 := pl[1]! - pcmoffset
    { vf with offsets := vf.offsets.set! 0 0, serialnos := vf.serialnos.set! 0 serial,
              dataoffsets := vf.dataoffsets.set! 0 dataoffset, infos := vf.infos.set! 0 li,
              pcmlengths := pl.set! 1 (if v1 < 0 then 0 else v1) }
  let rc3 ← rawSeek ph dataoffset
  if rc3 ≠ 0 then return (← fail rc3)
  return 0

/-- `ov_clear`: the close callback runs iff a data source is attached -/
def clear : M Int := do
  let vf ← get
  set ({ closes := if vf.source then vf.closes + 1 else vf.closes } : VF)
  return 0

/-- executable form of the state consistency the history-independence theorems assume (`Props/C07.DecWF`); the driver evaluates it
    on every seekable handle after every call, so the hypothesis is checked on every state the correspondence runs reach -/
def decWFb (s : VF) : Bool :=
  (decide (s.ready < STREAMSET) || (decide (0 ≤ s.current_link) && decide (s.current_serialno = s.serialnos[s.current_link.toNat]!))) &&
  (decide (s.ready ≤ STREAMSET) || s.vd.isSome) && decide (s.ready ≤ INITSET)

def pcmTell (vf : VF) : Int := if vf.ready < OPENED then OV_EINVAL else vf.pcm_offset
def rawTell (vf : VF) : Int := if vf.ready < OPENED then OV_EINVAL else vf.offset

end Vorbis.File
