import Vorbis.Block.Lap
namespace Vorbis.Block.Lap

structure Sz (n0 n1 : Int) : Prop where
  pos : 0 < n0
  le : n0 ≤ n1
  ev0 : n0 % 2 = 0
  ev1 : n1 % 2 = 0

/-- after `blockin` of packet `k` (flag `s.lW`): the second half of that block sits, untouched, where
    the next block will overlap it -/
structure Inv (n0 n1 : Int) (s : St) (k : Nat) : Prop where
  cw : s.cW = 0 ∨ s.cW = n1
  nf : s.first = false
  copy : ∀ i, (n1 - s.cW) ≤ i → i < (n1 - s.cW) + (if s.lW then n1 else n0) →
    s.buf i = [Src.pkt k ((if s.lW then n1 else n0) + (i - (n1 - s.cW)))]

theorem blockin_first (n0 n1 : Int) (z : Sz n0 n1) (k : Nat) (W : Bool) :
    let s' := blockin n0 n1 (restart n1) k W
    (∀ i, ¬ returned s' i) ∧ Inv n0 n1 s' k ∧ s'.lW = W := by
  have := z.pos; have := z.le
  have hn1 : n1 ≠ 0 := by omega
  refine ⟨?_, ⟨?_, ?_, ?_⟩, rfl⟩
  · intro i
    simp only [blockin, restart, returned, hn1, ne_eq, not_false_eq_true, if_true]
    omega
  · simp [blockin, restart, hn1]
  · simp [blockin, restart]
  · intro i h1 h2
    simp only [blockin, restart, hn1, ne_eq, not_false_eq_true, if_true, Int.sub_zero] at h1 h2 ⊢
    rw [if_pos ⟨by omega, by omega⟩]

theorem blockin_next (n0 n1 : Int) (z : Sz n0 n1) (s : St) (k : Nat) (W : Bool) (h : Inv n0 n1 s k) :
    let s' := blockin n0 n1 s (k + 1) W
    (∀ i, returned s' i → s'.buf i = specCell n0 n1 s.lW W (k + 1) (i - s'.retLo)) ∧
    Inv n0 n1 s' (k + 1) ∧ s'.lW = W ∧
    s'.retHi - s'.retLo = (if s.lW then n1 else n0) / 2 + (if W then n1 else n0) / 2 := by
  obtain ⟨hcw, hnf, hcopy⟩ := h
  have hp := z.pos; have hl := z.le; have e0 := z.ev0; have e1 := z.ev1
  have hn1 : n1 ≠ 0 := by omega
  refine ⟨?_, ⟨?_, rfl, ?_⟩, rfl, ?_⟩
  · intro i hi
    simp only [returned, blockin, specCell, hnf, Bool.false_eq_true, if_false] at hi ⊢
    rcases hcw with hc | hc <;> cases hlw : s.lW <;> cases W <;>
      simp only [hc, hlw, hn1, ne_eq, not_true_eq_false, not_false_eq_true, if_true, if_false, Bool.false_eq_true,
        Nat.add_sub_cancel] at hi ⊢
    all_goals (
      have hcp := hcopy i
      simp only [hc, hlw, if_true, if_false, Bool.false_eq_true, Int.sub_zero, Int.sub_self] at hcp
      repeat' split
      all_goals (first
        | omega
        | exact hcp (by omega) (by omega)
        | (rw [hcp (by omega) (by omega)]
           simp only [List.cons_append, List.nil_append, List.cons.injEq, Src.pkt.injEq, and_true, true_and]
           first | omega | (constructor <;> omega) | (refine ⟨⟨trivial, ?_⟩, ?_⟩ <;> omega) | (refine ⟨?_, ?_⟩ <;> (first | omega | (constructor <;> omega))))
        | (simp only [List.cons.injEq, Src.pkt.injEq, and_true, true_and]; omega)
        | (congr 1; congr 1; omega)
        | (simp; omega)
        | (simp; done)
        | (trace_state; fail "stuck")))
  · simp only [blockin]
    rcases hcw with hc | hc <;> simp [hc, hn1]
  · intro i h1 h2
    simp only [blockin] at h1 h2 ⊢
    rcases hcw with hc | hc <;> cases W <;>
      simp only [hc, hn1, ne_eq, not_true_eq_false, not_false_eq_true, if_true, if_false, Bool.false_eq_true,
        Int.sub_zero, Int.sub_self] at h1 h2 ⊢
    all_goals (rw [if_pos ⟨by omega, by omega⟩])
    all_goals (first | rfl | (simp only [List.cons.injEq, Src.pkt.injEq, and_true, true_and]; omega) | (simp; done) | (simp; omega))
  · simp only [blockin, hnf, Bool.false_eq_true, if_false]
    omega

end Vorbis.Block.Lap
