import Vorbis.Proofs.FileInv
/-
The open-time scan of a seekable file (`_open_seekable2`, `_bisect_forward_serialno`): whatever the bytes are, a scan that reports
success leaves link tables with one entry per link in every table, and non-negative link lengths.
-/
namespace Vorbis.Proofs.Open
open Vorbis Vorbis.File

/-- pre/postcondition on a state computation: the postcondition sees the value returned and the state left -/
def Hoare {α : Type} (P : VF → Prop) (m : M α) (Q : α → VF → Prop) : Prop := ∀ s, P s → Q (m.run s).1 (m.run s).2

theorem hoare_bind {α β : Type} {P : VF → Prop} {R : α → VF → Prop} {Q : β → VF → Prop} (m : M α) (k : α → M β)
    (hm : Hoare P m R) (hk : ∀ a, Hoare (R a) (k a) Q) : Hoare P (m >>= k) Q := by
  intro s hs
  have e : (m >>= k).run s = (k (m.run s).1).run (m.run s).2 := rfl
  rw [e]
  exact hk _ _ (hm s hs)

theorem hoare_any {α : Type} {P : VF → Prop} (m : M α) : Hoare P m (fun _ _ => True) := fun _ _ => trivial

theorem hoare_pure {α : Type} {P : VF → Prop} {Q : α → VF → Prop} (a : α) (h : ∀ s, P s → Q a s) : Hoare P (pure a : M α) Q :=
  fun s hs => h s hs

theorem hoare_ite {α : Type} {P : VF → Prop} {Q : α → VF → Prop} (c : Prop) [Decidable c] (a b : M α)
    (ha : c → Hoare P a Q) (hb : ¬ c → Hoare P b Q) : Hoare P (if c then a else b) Q := by
  by_cases h : c
  · simp only [h, if_true]; exact ha h
  · simp only [h, if_false]; exact hb h

theorem hoare_weaken {α : Type} {P P' : VF → Prop} {Q Q' : α → VF → Prop} (m : M α) (h : Hoare P' m Q')
    (hp : ∀ s, P s → P' s) (hq : ∀ a s, Q' a s → Q a s) : Hoare P m Q := fun s hs => hq _ _ (h s (hp s hs))

theorem get_set_ne (a : Array Int) (i j : Nat) (v : Int) (h : i ≠ j) : (a.set! i v)[j]! = a[j]! := by grind
theorem get_set_eq (a : Array Int) (i : Nat) (v : Int) (h : i < a.size) : (a.set! i v)[i]! = v := by grind

/-- every table has one entry per link -/
structure Shape (n : Nat) (vf : VF) : Prop where
  links : vf.links = n
  offs : vf.offsets.size = n + 1
  doffs : vf.dataoffsets.size = n
  sers : vf.serialnos.size = n
  pls : vf.pcmlengths.size = 2 * n
  infos : vf.infos.size = n

/-- what `_bisect_forward_serialno` at depth `m` leaves: 0 or an error code; on 0, tables for some `n > m` links, the lengths of the links
    behind `m` clamped, the last offset the end of the search range -/
def BFPost (m : Nat) (e : Int) (rc : Int) (vf : VF) : Prop :=
  rc ≤ 0 ∧ (rc = 0 → ∃ n, m < n ∧ Shape n vf ∧ (∀ i, m < i → i < n → 0 ≤ vf.pcmlengths[2 * i + 1]!) ∧ vf.offsets[n]! = e)

/-- the header fetch answers 0 or an error code -/
def NonPos (rc : Int) : Prop := rc ≤ 0

theorem bosLoop_rc (ph : Phys) : ∀ (fuel : Nat) (og : Page) (l : List Int),
    Hoare (fun _ => True) (fetchHeaders.bosLoop ph fuel og l) (fun r _ => r.1 ≤ 0) := by
  intro fuel
  induction fuel with
  | zero => intro og l; unfold fetchHeaders.bosLoop; exact hoare_pure _ (fun _ _ => by show FUEL ≤ 0; decide)
  | succ f ih =>
      intro og l
      unfold fetchHeaders.bosLoop
      refine hoare_ite _ _ _ (fun _ => hoare_pure _ (fun _ _ => by show (0 : Int) ≤ 0; decide)) (fun _ => ?_)
      refine hoare_ite _ _ _ (fun _ => hoare_pure _ (fun _ _ => by show OV_EBADHEADER ≤ 0; decide)) (fun _ => ?_)
      extract_lets list1 jp os1
      refine hoare_bind _ _ (hoare_any _) (fun vf => ?_)
      have hjp : ∀ u, Hoare (fun _ => True) (jp u) (fun r _ => r.1 ≤ 0) := by
        intro u
        simp only [jp]
        refine hoare_bind _ _ (hoare_any _) (fun x => ?_)
        obtain ⟨r2, og2⟩ := x
        refine hoare_ite _ _ _ (fun _ => hoare_pure _ (fun _ _ => by show OV_ENOTVORBIS ≤ 0; decide)) (fun _ => ?_)
        refine hoare_bind _ _ (hoare_any _) (fun vf' => ?_)
        refine hoare_ite _ _ _ (fun _ => ?_) (fun _ => ?_)
        · refine hoare_bind _ _ (hoare_any _) (fun _ => ?_)
          exact hoare_pure _ (fun _ _ => by show (0 : Int) ≤ 0; decide)
        · exact hoare_weaken _ (ih og2 list1) (fun _ _ => trivial) (fun _ _ h => h)
      clear_value jp
      refine hoare_ite _ _ _ (fun _ => ?_) (fun _ => hjp ())
      split
      refine hoare_bind _ _ (hoare_any _) (fun _ => ?_)
      refine hoare_ite _ _ _ (fun _ => ?_) (fun _ => hjp ())
      refine hoare_bind _ _ (hoare_any _) (fun u => hjp u)

theorem rest_rc (ph : Phys) : ∀ (fuel : Nat) (i : Nat) (ab : Bool),
    Hoare (fun _ => True) (fetchHeaders.rest ph fuel i ab) (fun r _ => r ≤ 0) := by
  intro fuel
  induction fuel with
  | zero => intro i ab; unfold fetchHeaders.rest; exact hoare_pure _ (fun _ _ => by show FUEL ≤ 0; decide)
  | succ f ih =>
      intro i ab
      unfold fetchHeaders.rest
      have W : ∀ i ab, Hoare (fun _ => True) (fetchHeaders.rest ph f i ab) (fun r _ => r ≤ 0) := ih
      have bad : Hoare (fun _ => True) (pure OV_EBADHEADER : M Int) (fun r _ => r ≤ 0) :=
        hoare_pure _ (fun _ _ => by show OV_EBADHEADER ≤ 0; decide)
      refine hoare_ite _ _ _ (fun _ => hoare_pure _ (fun _ _ => by show (0 : Int) ≤ 0; decide)) (fun _ => ?_)
      refine hoare_bind _ _ (hoare_any _) (fun vf => ?_)
      split
      refine hoare_ite _ _ _ (fun _ => bad) (fun _ => ?_)
      refine hoare_ite _ _ _ (fun _ => ?_) (fun _ => ?_)
      · exact hoare_bind _ _ (hoare_any _) (fun _ => W _ _)
      · refine hoare_bind _ _ (hoare_any _) (fun x => ?_)
        obtain ⟨r2, og⟩ := x
        refine hoare_ite _ _ _ (fun _ => bad) (fun _ => ?_)
        refine hoare_bind _ _ (hoare_any _) (fun vf' => ?_)
        refine hoare_ite _ _ _ (fun _ => ?_) (fun _ => ?_)
        · exact hoare_bind _ _ (hoare_any _) (fun _ => W _ _)
        · refine hoare_ite _ _ _ (fun _ => ?_) (fun _ => W _ _)
          exact hoare_ite _ _ _ (fun _ => bad) (fun _ => W _ _)

theorem fetchHeaders_rc (ph : Phys) (g : Option Page) :
    Hoare (fun _ => True) (fetchHeaders ph g) (fun r _ => r.1 ≤ 0) := by
  unfold fetchHeaders
  refine hoare_bind _ _ (hoare_any _) (fun first => ?_)
  refine hoare_ite _ _ _ (fun _ => hoare_pure _ (fun _ _ => by show OV_ENOTVORBIS ≤ 0; decide)) (fun _ => ?_)
  refine hoare_bind _ _ (hoare_any _) (fun _ => ?_)
  extract_lets bail
  have hbail : ∀ (P : VF → Prop) (rc : Int) (l : List Int), rc ≤ 0 → Hoare P (bail rc l) (fun r _ => r.1 ≤ 0) := by
    intro P rc l h
    simp only [bail]
    exact hoare_bind _ _ (hoare_any _) (fun _ => hoare_pure _ (fun _ _ => h))
  clear_value bail
  refine hoare_bind _ _ (hoare_weaken _ (bosLoop_rc ph _ _ _) (fun _ _ => trivial) (fun _ _ h => h)) (fun x => ?_)
  obtain ⟨rc, og, list⟩ := x
  refine hoare_ite _ _ _ (fun _ => ?_) (fun _ => ?_)
  · intro s hs
    exact hbail (fun _ => True) rc list hs s trivial
  · refine hoare_bind _ _ (hoare_any _) (fun vf => ?_)
    refine hoare_ite _ _ _ (fun _ => hbail _ _ _ (by decide)) (fun _ => ?_)
    refine hoare_ite _ _ _ (fun _ => hbail _ _ _ (by decide)) (fun _ => ?_)
    refine hoare_bind _ _ (hoare_weaken _ (rest_rc ph _ _ _) (fun _ _ => trivial) (fun _ _ h => h)) (fun rc2 => ?_)
    refine hoare_ite _ _ _ (fun _ => ?_) (fun _ => hoare_pure _ (fun _ _ => by show (0 : Int) ≤ 0; decide))
    intro s hs
    exact hbail (fun _ => True) rc2 list hs s trivial

theorem bisectForward_post (ph : Phys) : ∀ (fuel : Nat) (b s e eg es : Int) (cl : List Int) (m : Nat) (ser : Int),
    Hoare (fun _ => True) (bisectForward ph fuel b s e eg es cl m ser) (BFPost m e) := by
  intro fuel
  induction fuel with
  | zero =>
      intro b s e eg es cl m ser
      unfold bisectForward
      exact hoare_pure _ (fun _ _ => ⟨by show FUEL ≤ 0; decide, fun h => absurd h (by decide)⟩)
  | succ f ih =>
      intro b s e eg es cl m ser
      unfold bisectForward
      refine hoare_ite _ _ _ (fun _ => ?_) (fun _ => ?_)
      · refine hoare_bind _ _ (hoare_any _) (fun eg' => ?_)
        obtain ⟨berr, eg'⟩ := eg'
        refine hoare_ite _ _ _ (fun hneg => hoare_pure _ (fun _ _ => ⟨Int.le_of_lt hneg, fun h => absurd h (by omega)⟩)) (fun _ => ?_)
        intro s0 _
        refine ⟨by show (0 : Int) ≤ 0; decide, fun _ => ?_⟩
        refine ⟨m + 1, by omega, ⟨rfl, ?_, ?_, ?_, ?_, ?_⟩, fun i h1 h2 => by omega, ?_⟩
        · show (((Array.replicate (m + 1 + 1) (0 : Int)).set! (m + 1) e).set! m b).size = m + 1 + 1
          simp
        · show (Array.replicate (m + 1) (0 : Int)).size = m + 1
          simp
        · show (Array.replicate (m + 1) (0 : Int)).size = m + 1
          simp
        · show ((Array.replicate ((m + 1) * 2) (0 : Int)).set! (m * 2 + 1) (if eg' < 0 then 0 else eg')).size = 2 * (m + 1)
          simp; omega
        · show ((s0.infos ++ Array.replicate (m + 1) default).extract 0 (m + 1)).size = m + 1
          simp; omega
        · show (((Array.replicate (m + 1 + 1) (0 : Int)).set! (m + 1) e).set! m b)[m + 1]! = e
          rw [get_set_ne _ _ _ _ (by omega), get_set_eq _ _ _ (by simp)]
      · refine hoare_bind _ _ (hoare_any _) (fun next => ?_)
        refine hoare_bind _ _ (hoare_any _) (fun searchgran => ?_)
        obtain ⟨berr2, searchgran⟩ := searchgran
        refine hoare_ite _ _ _ (fun hneg => hoare_pure _ (fun _ _ => ⟨Int.le_of_lt hneg, fun h => absurd h (by omega)⟩)) (fun _ => ?_)
        refine hoare_bind _ _ (hoare_any _) (fun _ => ?_)
        refine hoare_bind _ _ (hoare_weaken _ (fetchHeaders_rc ph none) (fun _ _ => trivial) (fun _ _ h => h)) (fun x => ?_)
        obtain ⟨rc2, nlist⟩ := x
        refine hoare_ite _ _ _ (fun h2 => hoare_pure _ (fun _ hp => ⟨hp, fun h => absurd h h2⟩)) (fun _ => ?_)
        refine hoare_bind _ _ (hoare_any _) (fun vf1 => ?_)
        refine hoare_bind _ _ (hoare_any _) (fun y => ?_)
        obtain ⟨pcmoffset, dataoffset⟩ := y
        refine hoare_bind _ _ (hoare_any _) (fun vf2 => ?_)
        refine hoare_bind _ _ (hoare_weaken _ (ih _ _ _ _ _ _ _ _) (fun _ _ => trivial) (fun _ _ h => h)) (fun rc3 => ?_)
        refine hoare_ite _ _ _ (fun h3 => hoare_pure _ (fun _ hp => ⟨hp.1, fun h => absurd h h3⟩)) (fun h3 => ?_)
        have h30 : rc3 = 0 := by
          by_cases e0 : rc3 = 0
          · exact e0
          · exact absurd e0 h3
        intro s0 hs
        refine ⟨by show (0 : Int) ≤ 0; decide, fun _ => ?_⟩
        obtain ⟨n, hn, sh, hnn, hoe⟩ := hs.2 h30
        refine ⟨n, by omega, ⟨sh.links, ?_, ?_, ?_, ?_, ?_⟩, ?_, ?_⟩
        · show (s0.offsets.set! (m + 1) next).size = n + 1
          simp [sh.offs]
        · show (s0.dataoffsets.set! (m + 1) dataoffset).size = n
          simp [sh.doffs]
        · show (s0.serialnos.set! (m + 1) vf1.os.serial).size = n
          simp [sh.sers]
        · show ((((s0.pcmlengths.set! (m * 2 + 1) searchgran).set! (m * 2 + 2) pcmoffset).set! (m * 2 + 3) _)).size = 2 * n
          simp [sh.pls]
        · show (s0.infos.set! (m + 1) (infoOf ph vf1.hdrkey)).size = n
          simp [sh.infos]
        · intro i h1 h2
          show 0 ≤ (((s0.pcmlengths.set! (m * 2 + 1) searchgran).set! (m * 2 + 2) pcmoffset).set! (m * 2 + 3) _)[2 * i + 1]!
          by_cases hi : i = m + 1
          · subst hi
            have e : 2 * (m + 1) + 1 = m * 2 + 3 := by omega
            rw [e, get_set_eq _ _ _ (by simp [sh.pls]; omega)]
            split <;> omega
          · rw [get_set_ne _ _ _ _ (by omega), get_set_ne _ _ _ _ (by omega), get_set_ne _ _ _ _ (by omega)]
            exact hnn i (by omega) h2
        · show (s0.offsets.set! (m + 1) next)[n]! = e
          rw [get_set_ne _ _ _ _ (by omega)]
          exact hoe

open Vorbis.Props.C07 Vorbis.Proofs.FileInv in
/-- "still the same file as `s0`" alone (no assumption on the decode state) is kept by every primitive step of the read / seek machinery -/
theorem fileOps (s0 : VF) (hk : s0.seekable = true) : InvOps (SameFile s0) where
  seekable := fun s h => by rw [← h.seekable]; exact hk
  cursor := fun _ h _ _ => sameFile_trans h ⟨rfl, rfl, rfl, rfl, rfl, rfl, rfl, rfl⟩
  os := fun _ h _ => sameFile_trans h ⟨rfl, rfl, rfl, rfl, rfl, rfl, rfl, rfl⟩
  pcmoff := fun _ h _ => sameFile_trans h ⟨rfl, rfl, rfl, rfl, rfl, rfl, rfl, rfl⟩
  vdSome := fun _ h _ _ => sameFile_trans h ⟨rfl, rfl, rfl, rfl, rfl, rfl, rfl, rfl⟩
  read := fun _ h _ _ => sameFile_trans h ⟨rfl, rfl, rfl, rfl, rfl, rfl, rfl, rfl⟩
  vdKeep := fun _ h _ _ _ _ => sameFile_trans h ⟨rfl, rfl, rfl, rfl, rfl, rfl, rfl, rfl⟩
  decodeClear := fun _ h => sameFile_trans h ⟨rfl, rfl, rfl, rfl, rfl, rfl, rfl, rfl⟩
  makeReady := fun s h => sameFile_trans h (same_makeDecodeReady s)
  restart := fun _ h => sameFile_trans h ⟨rfl, rfl, rfl, rfl, rfl, rfl, rfl, rfl⟩
  lapout := fun s h => sameFile_trans h (by unfold lapoutVF; split <;> exact ⟨rfl, rfl, rfl, rfl, rfl, rfl, rfl, rfl⟩)
  select := fun s h link => sameFile_trans h (by unfold selectLinkF; split <;> exact ⟨rfl, rfl, rfl, rfl, rfl, rfl, rfl, rfl⟩)
  link := fun _ h _ _ _ _ => sameFile_trans h ⟨rfl, rfl, rfl, rfl, rfl, rfl, rfl, rfl⟩
  take := fun _ h _ => sameFile_trans h ⟨rfl, rfl, rfl, rfl, rfl, rfl, rfl, rfl⟩
  exec := fun f p s h hnr => sameFile_trans h (same_execPlan f p s hnr)

/-- `o` is the offset of a page of the file with that serial number and granule position -/
def Real (ph : Phys) (o s g : Int) : Prop := ∃ p, p ∈ ph.pages ∧ p.off = o ∧ p.serial = s ∧ p.gran = g

theorem nextPage_sound (ph : Phys) (c : Cur) (b : Int) (r : Int) (p : Page) (c' : Cur)
    (e : nextPage ph c b = (r, p, c')) (h : r ≥ 0) : p ∈ ph.pages ∧ r = p.off ∧ p.off ≥ c.off := by
  unfold nextPage at e
  simp only [] at e
  cases hf : ph.pages.find? (fun p => decide (p.off ≥ c.off ∧ p.off < stallAt ph c.off)) with
  | none =>
      rw [hf] at e
      simp only [] at e
      split at e
      · injection e with e1 _; rw [← e1] at h; exact absurd h (by decide)
      · split at e
        · injection e with e1 _; rw [← e1] at h; exact absurd h (by decide)
        · injection e with e1 _; rw [← e1] at h; exact absurd h (by decide)
  | some q =>
      rw [hf] at e
      simp only [] at e
      have hm := Array.mem_of_find?_eq_some hf
      have hp := Array.find?_some hf
      simp only [decide_eq_true_eq] at hp
      split at e
      · injection e with e1 _; rw [← e1] at h; exact absurd h (by decide)
      · split at e
        · injection e with e1 _; rw [← e1] at h; exact absurd h (by decide)
        · injection e with e1 e2
          injection e2 with e2 _
          subst e1 e2
          exact ⟨hm, rfl, hp.1⟩

/-- the forward scan inside the backward searches only ever reports pages of the file -/
theorem prevScan_sound (ph : Phys) (end_ : Int) (serials : List Int) (want : Int) :
    ∀ (fuel : Nat) (c : Cur) (o pf rs rg pg : Int), (o = -1 ∨ Real ph o rs rg) → (pf = -1 ∨ Real ph pf want pg) →
      let r := prevScan ph end_ serials want fuel c o pf rs rg pg
      (r.1 = FUEL ∨ r.1 = -1 ∨ Real ph r.1 r.2.2.1 r.2.2.2.1) ∧ (r.2.1 = -1 ∨ Real ph r.2.1 want r.2.2.2.2.1) := by
  intro fuel
  induction fuel with
  | zero => intro c o pf rs rg pg _ _; unfold prevScan; exact ⟨Or.inl rfl, Or.inl rfl⟩
  | succ f ih =>
      intro c o pf rs rg pg ha hb
      unfold prevScan
      by_cases h1 : c.off < end_
      · simp only [h1, not_true_eq_false, if_false]
        cases hn : nextPage ph c (end_ - c.off) with
        | mk ret rest =>
            obtain ⟨page, c1⟩ := rest
            simp only []
            by_cases h2 : ret < 0
            · simp only [h2, if_true]
              exact ⟨Or.inr ha, hb⟩
            · simp only [h2, if_false]
              obtain ⟨hm, hr, _⟩ := nextPage_sound ph c _ ret page c1 hn (by omega)
              apply ih
              · exact Or.inr ⟨page, hm, hr.symm, rfl, rfl⟩
              · by_cases hc : serials.contains page.serial = true
                · simp only [hc, if_true]
                  by_cases hw : page.serial = want
                  · simp only [hw, if_true]
                    exact Or.inr ⟨page, hm, hr.symm, hw, rfl⟩
                  · simp only [hw, if_false]
                    exact hb
                · simp only [hc]
                  exact Or.inl rfl
      · simp only [h1, not_false_eq_true, if_true]
        exact ⟨Or.inr ha, hb⟩

/-- `_get_prev_page_serial`: a non-negative answer is the offset, serial number and granule position of one page of the file -/
theorem prevPageSerial_sound (ph : Phys) (begin_ : Int) (serials : List Int) (want gran0 : Int) :
    ∀ (fuel : Nat) (b pg : Int),
      let r := prevPageSerial ph begin_ serials want gran0 fuel b pg
      r.1 ≥ 0 → Real ph r.1 r.2.1 r.2.2.1 := by
  intro fuel
  induction fuel with
  | zero => intro b pg; unfold prevPageSerial; intro _ h; exact absurd (show FUEL ≥ 0 from h) (by decide)
  | succ f ih =>
      intro b pg
      unfold prevPageSerial
      simp only []
      generalize hb1 : (if b - CHUNKSIZE < 0 then (0 : Int) else b - CHUNKSIZE) = b1
      have hs := prevScan_sound ph begin_ serials want (ph.pages.size + 1) (seekCur b1) (-1) (-1) (-1) (-1) pg (Or.inl rfl) (Or.inl rfl)
      cases hps : prevScan ph begin_ serials want (ph.pages.size + 1) (seekCur b1) (-1) (-1) (-1) (-1) pg with
      | mk o rest =>
          obtain ⟨pf, rs, rg, pg1, c⟩ := rest
          rw [hps] at hs
          simp only [] at hs ⊢
          by_cases e1 : o = FUEL
          · simp only [e1, if_true]; intro h; exact absurd (show FUEL ≥ 0 from h) (by decide)
          · simp only [e1, if_false]
            by_cases e2 : o = -1
            · simp only [e2, if_true]
              by_cases e3 : b1 = 0
              · simp only [e3, if_true]; intro h; exact absurd (show OV_EBADLINK ≥ 0 from h) (by decide)
              · simp only [e3, if_false]; exact ih b1 pg1
            · simp only [e2, if_false]
              by_cases e4 : pf ≥ 0
              · simp only [e4, if_true]
                intro _
                rcases hs.2 with h | h
                · omega
                · exact h
              · simp only [e4, if_false]
                intro _
                rcases hs.1 with h | h | h
                · exact absurd h e1
                · exact absurd h e2
                · exact h

theorem getPrevPageSerial_sound (ph : Phys) (begin_ : Int) (serials : List Int) (want gran0 : Int) :
    Hoare (fun _ => True) (getPrevPageSerial ph begin_ serials want gran0) (fun r _ => r.1 ≥ 0 → Real ph r.1 r.2.1 r.2.2) := by
  intro s _
  have h := prevPageSerial_sound ph begin_ serials want gran0 (backFuel begin_) begin_ gran0
  unfold getPrevPageSerial
  cases hp : prevPageSerial ph begin_ serials want gran0 (backFuel begin_) begin_ gran0 with
  | mk o rest =>
      obtain ⟨sr, g, c⟩ := rest
      rw [hp] at h
      exact h

/-- what a successful seekable `ov_open2` leaves -/
def OpenPost (ph : Phys) (vf : VF) : Prop :=
  ∃ n, 0 < n ∧ Shape n vf ∧ (∀ i, i < n → 0 ≤ vf.pcmlengths[2 * i + 1]!) ∧ vf.offsets[0]! = 0 ∧ 0 ≤ vf.offsets[n]! ∧
    ∃ p, p ∈ ph.pages ∧ p.off = vf.offsets[n]!

theorem hoare_get_bind {β : Type} {P : VF → Prop} {Q : β → VF → Prop} (k : VF → M β)
    (h : ∀ s, P s → Hoare (fun t => t = s) (k s) Q) : Hoare P (get >>= k) Q := fun s hs => h s hs s rfl

theorem hoare_modify_bind {β : Type} {P : VF → Prop} {Q : β → VF → Prop} (f : VF → VF) (k : Unit → M β)
    (h : Hoare (fun t => ∃ s, P s ∧ t = f s) (k ()) Q) : Hoare P (modify f >>= k) Q := fun s hs => h (f s) ⟨s, hs, rfl⟩

theorem hoare_of_forall {β : Type} {P : VF → Prop} {Q : β → VF → Prop} (m : M β)
    (h : ∀ t, P t → Hoare (fun x => x = t) m Q) : Hoare P m Q := fun t ht => h t ht t rfl

theorem rawSeek_noseek (ph : Phys) (pos : Int) : Hoare (fun s => s.seekable = false) (rawSeek ph pos) (fun rc _ => rc ≠ 0) := by
  unfold rawSeek
  refine hoare_get_bind _ (fun s hs => ?_)
  refine hoare_ite _ _ _ (fun _ => hoare_pure _ (fun _ _ => by show OV_EINVAL ≠ 0; decide)) (fun _ => ?_)
  refine hoare_ite _ _ _ (fun _ => hoare_pure _ (fun _ _ => by show OV_ENOSEEK ≠ 0; decide)) (fun h => ?_)
  exact absurd (by simp [hs]) h

open Vorbis.Props.C07 in
theorem openPost_of_same (ph : Phys) (a b : VF) (h : SameFile a b) (p : OpenPost ph a) : OpenPost ph b := by
  obtain ⟨n, hn, sh, hl, h0, he, hp⟩ := p
  have e1 : a.links = b.links := congrArg Tab.links h.tab
  have e2 : a.offsets = b.offsets := congrArg Tab.offsets h.tab
  have e3 : a.dataoffsets = b.dataoffsets := congrArg Tab.dataoffsets h.tab
  have e4 : a.serialnos = b.serialnos := congrArg Tab.serialnos h.tab
  have e5 : a.pcmlengths = b.pcmlengths := congrArg Tab.pcmlengths h.tab
  refine ⟨n, hn, ⟨?_, ?_, ?_, ?_, ?_, ?_⟩, ?_, ?_, ?_, ?_⟩
  · rw [← e1]; exact sh.links
  · rw [← e2]; exact sh.offs
  · rw [← e3]; exact sh.doffs
  · rw [← e4]; exact sh.sers
  · rw [← e5]; exact sh.pls
  · rw [← h.infos]; exact sh.infos
  · rw [← e5]; exact hl
  · rw [← e2]; exact h0
  · rw [← e2]; exact he
  · rw [← e2]; exact hp

open Vorbis.Props.C07 Vorbis.Proofs.FileInv in
theorem open2_post (ph : Phys) (bos : List Int) :
    Hoare (fun s => s.seekable = true) (open2 ph bos) (fun rc vf => rc = 0 → OpenPost ph vf) := by
  unfold open2
  refine hoare_get_bind _ (fun s hs => ?_)
  refine hoare_ite _ _ _ (fun _ => hoare_pure _ (fun _ _ h => absurd h (by decide))) (fun _ => ?_)
  refine hoare_bind _ _ (hoare_any _) (fun _ => ?_)
  refine hoare_ite _ _ _ (fun h => absurd h (by simp [hs])) (fun _ => ?_)
  extract_lets fail serial li
  have hfail : ∀ (P : VF → Prop) (rc : Int), rc ≠ 0 → Hoare P (fail rc) (fun r vf => r = 0 → OpenPost ph vf) := by
    intro P rc h
    simp only [fail]
    refine hoare_bind _ _ (hoare_any _) (fun _ => ?_)
    refine hoare_bind _ _ (hoare_any _) (fun _ => ?_)
    exact hoare_pure _ (fun _ _ h0 => absurd h0 h)
  clear_value fail
  refine hoare_bind _ _ (hoare_any _) (fun x => ?_)
  obtain ⟨pcmoffset, dataoffset⟩ := x
  refine hoare_bind _ _ (hoare_any _) (fun _ => ?_)
  refine hoare_bind _ _ (hoare_any _) (fun _ => ?_)
  refine hoare_bind _ _ (hoare_weaken _ (getPrevPageSerial_sound ph _ _ _ _) (fun _ _ => trivial) (fun _ _ h => h)) (fun y => ?_)
  obtain ⟨e, endserial, endgran⟩ := y
  refine hoare_of_forall _ (fun t0 hreal => ?_)
  refine hoare_ite _ _ _ (fun he => hfail _ e (by omega)) (fun he => ?_)
  refine hoare_bind _ _ (hoare_weaken _ (bisectForward_post ph _ _ _ _ _ _ _ _ _) (fun _ _ => trivial) (fun _ _ h => h)) (fun rc2 => ?_)
  refine hoare_ite _ _ _ (fun _ => hfail _ _ (by decide)) (fun h2 => ?_)
  refine hoare_modify_bind _ _ ?_
  refine hoare_of_forall _ (fun t ht => ?_)
  obtain ⟨s1, hp, ht⟩ := ht
  have hrc : rc2 = 0 := by have := hp.1; omega
  obtain ⟨n, hn, sh, hnn, hoe⟩ := hp.2 hrc
  have hpost : OpenPost ph t := by
    rw [ht]
    refine ⟨n, by omega, ⟨sh.links, ?_, ?_, ?_, ?_, ?_⟩, ?_, ?_, ?_, ?_⟩
    · show (s1.offsets.set! 0 0).size = n + 1
      simp [sh.offs]
    · show (s1.dataoffsets.set! 0 dataoffset).size = n
      simp [sh.doffs]
    · show (s1.serialnos.set! 0 serial).size = n
      simp [sh.sers]
    · show ((s1.pcmlengths.set! 0 pcmoffset).set! 1 _).size = 2 * n
      simp [sh.pls]
    · show (s1.infos.set! 0 li).size = n
      simp [sh.infos]
    · intro i hi
      show 0 ≤ ((s1.pcmlengths.set! 0 pcmoffset).set! 1 _)[2 * i + 1]!
      by_cases h0 : i = 0
      · subst h0
        rw [get_set_eq _ _ _ (by simp [sh.pls]; omega)]
        split <;> omega
      · rw [get_set_ne _ _ _ _ (by omega), get_set_ne _ _ _ _ (by omega)]
        exact hnn i (by omega) hi
    · show (s1.offsets.set! 0 0)[0]! = 0
      rw [get_set_eq _ _ _ (by simp [sh.offs])]
    · show 0 ≤ (s1.offsets.set! 0 0)[n]!
      rw [get_set_ne _ _ _ _ (by omega), hoe]
      omega
    · show ∃ p, p ∈ ph.pages ∧ p.off = (s1.offsets.set! 0 0)[n]!
      rw [get_set_ne _ _ _ _ (by omega), hoe]
      obtain ⟨pg, hm, ho, _, _⟩ := hreal (by show e ≥ 0; omega)
      exact ⟨pg, hm, ho⟩
  by_cases hk : t.seekable = true
  · have same := pres_rawSeek (fileOps t hk) ph dataoffset t (sameFile_refl t)
    refine hoare_bind (R := fun _ t' => OpenPost ph t') _ _ ?_ (fun rc3 => ?_)
    · intro x hx
      subst hx
      exact openPost_of_same ph _ _ same hpost
    · exact hoare_ite _ _ _ (fun h3 => hfail _ rc3 h3) (fun _ => hoare_pure _ (fun _ hq _ => hq))
  · refine hoare_bind (R := fun rc3 _ => rc3 ≠ 0) _ _ ?_ (fun rc3 => ?_)
    · refine hoare_weaken _ (rawSeek_noseek ph dataoffset) (fun x hx => ?_) (fun _ _ h => h)
      subst hx
      cases hb : x.seekable with
      | true => exact absurd hb hk
      | false => rfl
    · exact hoare_ite _ _ _ (fun h3 => hfail _ rc3 h3) (fun h3 => hoare_pure _ (fun _ hq => absurd hq h3))

end Vorbis.Proofs.Open
