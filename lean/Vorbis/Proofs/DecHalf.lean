import Vorbis.Proofs.Dec
namespace Vorbis.Block

theorem shr_one (x : Int) : shr x 1 = x / 2 := by simp [shr]
theorem shl_one (x : Int) : shl x 1 = x * 2 := by simp [shl]

/-- block sizes whose quarter is even (every legal size from 64 up; half-rate decoding is refused below) -/
structure SzHalf (z : Sizes) : Prop where
  p0 : 0 ≤ z.bs0
  p1 : 0 ≤ z.bs1
  e0 : z.bs0 % 8 = 0
  e1 : z.bs1 % 8 = 0

theorem adv_even (z : Sizes) (s : SzHalf z) (a b : Bool) : adv z a b % 2 = 0 ∧ 0 ≤ adv z a b := by
  obtain ⟨p0, p1, e0, e1⟩ := s
  unfold adv Sizes.bs
  cases a <;> cases b <;> simp <;> omega

/-- half rate: no trimming for an in-sequence packet that is not the last one -/
theorem granStage_mid_h (gran0 c a gp ret1 cur1 : Int) (hg : gran0 = -1 ∨ gran0 = c) (hc : 0 ≤ c) (ha : 0 ≤ a)
    (hgp : gp = -1 ∨ gp = c + a) :
    let r := granStage 1 gran0 (c + a) a gp false ret1 cur1
    (r.1 = -1 ∨ r.1 = c + a) ∧ r.2.1 = ret1 ∧ r.2.2 = cur1 := by
  unfold granStage
  rcases hg with h | h <;> rcases hgp with h' | h' <;> subst h <;> subst h'
  all_goals (simp; try omega)
  all_goals (repeat' split)
  all_goals (first | omega | simp_all)

/-- half rate: the last packet is trimmed back to the stream's granule position, in output samples -/
theorem granStage_last_h (gran0 c a N ret1 cur1 : Int) (hg : gran0 = -1 ∨ gran0 = c) (hc : 0 ≤ c)
    (hN0 : c ≤ N) (hN1 : N ≤ c + a) (hbuf : cur1 - ret1 = a / 2) (hae : a % 2 = 0) :
    let r := granStage 1 gran0 (c + a) a N true ret1 cur1
    r.2.1 = ret1 ∧ r.2.2 = cur1 - (c + a - N) / 2 := by
  have hN : N ≠ -1 := by omega
  unfold granStage
  simp only [shr_one, shl_one]
  rcases hg with h | h <;> subst h
  all_goals (repeat' split)
  all_goals (simp only [])
  all_goals (first | omega | (constructor <;> omega) | (exfalso; simp_all; done) | (exfalso; simp_all; omega) | (simp_all; done) | (simp_all; omega))

theorem pcmStage_next_h (n1 a cW ret cur : Int) (hn : 0 ≤ n1) (hr : ret ≠ -1) :
    let p := pcmStage n1 a 1 cW ret cur true
    0 ≤ p.2.1 ∧ p.2.2 - p.2.1 = a / 2 := by
  unfold pcmStage
  simp only [if_true, hr, if_false, shr_one]
  split <;> (first | omega | (constructor <;> omega) | (simp only []; omega))

theorem pcmStage_first_h (n1 a cW cur : Int) (hn : 0 ≤ n1) :
    let p := pcmStage n1 a 1 cW (-1) cur true
    0 ≤ p.2.1 ∧ p.2.2 - p.2.1 = 0 := by
  unfold pcmStage
  simp only [if_true]
  split <;> (first | omega | (constructor <;> omega) | (simp only []; omega))

theorem n1_nonneg_h (z : Sizes) (h1 : 0 ≤ z.bs1) : 0 ≤ shr z.bs1 (1 + 1) := by
  simp only [shr]; exact Int.ediv_nonneg h1 (by decide)

/-- closed form of `blockin` at half rate for an in-sequence packet on a drained decoder -/
theorem blockin_inseq_h (z : Sizes) (d : Dec) (lW : Bool) (c seq : Int) (st : DecSt z d lW c seq)
    (b : Blk) (hseq : b.seq = seq) :
    d.blockin z 1 b =
      (let a := adv z lW b.W
       let p := pcmStage (shr z.bs1 (1 + 1)) a 1 d.cW d.ret d.cur b.pcm
       let g := granStage 1 d.gran (c + a) a b.gp b.eos p.2.1 p.2.2
       ({ lW := d.W, W := b.W, cW := p.1, cur := g.2.2, ret := g.2.1, gran := g.1, seq := b.seq,
          sc := c + a, eof := d.eof || b.eos }, 0)) := by
  obtain ⟨hd, hr0, hs, hsn, hw, hsc, hc0, hg⟩ := st
  have hguard : ¬ (d.cur > d.ret ∧ d.ret ≠ -1) := by omega
  have hlost : ¬ (d.seq = -1 ∨ d.seq + 1 ≠ b.seq) := by omega
  have hc1 : ¬ (d.sc = -1) := by omega
  have hc2 : ¬ (c = -1) := by omega
  unfold Dec.blockin adv
  rw [if_neg hguard]
  simp only [hlost, if_false, hc1, hw, hsc, hc2]

theorem step_mid_h (z : Sizes) (s : SzHalf z) (d : Dec) (lW : Bool) (c seq : Int)
    (st : DecSt z d lW c seq) (b : Blk) (hpcm : b.pcm = true) (hseq : b.seq = seq)
    (heos : b.eos = false) (hgp : b.gp = -1 ∨ b.gp = c + adv z lW b.W) :
    (d.blockin z 1 b).1.pcmout = adv z lW b.W / 2 ∧
    DecSt z ((d.blockin z 1 b).1.read (d.blockin z 1 b).1.pcmout).1 b.W (c + adv z lW b.W) (seq + 1) := by
  rw [blockin_inseq_h z d lW c seq st b hseq]
  obtain ⟨hd, hr0, hs, hsn, hw, hsc, hc0, hg⟩ := st
  have ⟨hae, ha⟩ := adv_even z s lW b.W
  have hret : d.ret ≠ -1 := by omega
  have hp := pcmStage_next_h (shr z.bs1 (1 + 1)) (adv z lW b.W) d.cW d.ret d.cur (n1_nonneg_h z s.p1) hret
  simp only [hpcm, heos] at *
  generalize pcmStage (shr z.bs1 (1 + 1)) (adv z lW b.W) 1 d.cW d.ret d.cur true = p at *
  have hgm := granStage_mid_h d.gran c (adv z lW b.W) b.gp p.2.1 p.2.2 hg hc0 ha hgp
  generalize granStage 1 d.gran (c + adv z lW b.W) (adv z lW b.W) b.gp false p.2.1 p.2.2 = g at *
  generalize adv z lW b.W = a at *
  obtain ⟨hg1, hg2, hg3⟩ := hgm
  obtain ⟨hp1, hp2⟩ := hp
  have hpo : (if g.2.1 > -1 ∧ g.2.1 < g.2.2 then g.2.2 - g.2.1 else 0) = a / 2 := by split <;> omega
  simp only [Dec.pcmout, Dec.read]
  rw [hpo]
  have hne : ¬ (a / 2 ≠ 0 ∧ g.2.1 + a / 2 > g.2.2) := by omega
  simp only [hne, if_false]
  refine ⟨trivial, ?_⟩
  constructor <;> first | omega | exact hg1 | rfl | (simp only [] <;> omega)

theorem step_last_h (z : Sizes) (s : SzHalf z) (d : Dec) (lW : Bool) (c seq N : Int)
    (st : DecSt z d lW c seq) (b : Blk) (hpcm : b.pcm = true) (hseq : b.seq = seq)
    (heos : b.eos = true) (hgp : b.gp = N) (hN0 : c ≤ N) (hN1 : N ≤ c + adv z lW b.W) :
    (d.blockin z 1 b).1.pcmout = adv z lW b.W / 2 - (c + adv z lW b.W - N) / 2 := by
  rw [blockin_inseq_h z d lW c seq st b hseq]
  obtain ⟨hd, hr0, hs, hsn, hw, hsc, hc0, hg⟩ := st
  have ⟨hae, ha⟩ := adv_even z s lW b.W
  have hret : d.ret ≠ -1 := by omega
  have hp := pcmStage_next_h (shr z.bs1 (1 + 1)) (adv z lW b.W) d.cW d.ret d.cur (n1_nonneg_h z s.p1) hret
  simp only [hpcm, heos, hgp] at *
  generalize pcmStage (shr z.bs1 (1 + 1)) (adv z lW b.W) 1 d.cW d.ret d.cur true = p at *
  have hgl := granStage_last_h d.gran c (adv z lW b.W) N p.2.1 p.2.2 hg hc0 hN0 hN1 hp.2 hae
  generalize granStage 1 d.gran (c + adv z lW b.W) (adv z lW b.W) N true p.2.1 p.2.2 = g at *
  generalize adv z lW b.W = a at *
  obtain ⟨hg2, hg3⟩ := hgl
  obtain ⟨hp1, hp2⟩ := hp
  simp only [Dec.pcmout]
  split <;> omega

/-- first packet after `restart` at half rate: nothing comes out; position 0 -/
theorem step_first_h (z : Sizes) (h1 : 0 ≤ z.bs1) (b : Blk) (hpcm : b.pcm = true)
    (hgp : b.gp = -1 ∨ b.gp = 0) (hseq : 0 ≤ b.seq) :
    ((Dec.restart z 1).blockin z 1 b).1.pcmout = 0 ∧
    DecSt z (((Dec.restart z 1).blockin z 1 b).1.read 0).1 b.W 0 (b.seq + 1) := by
  have hn := n1_nonneg_h z h1
  have hp := pcmStage_first_h (shr z.bs1 (1 + 1)) (z.bs false / 4 + z.bs b.W / 4) (shr z.bs1 (1 + 1))
    (shr (shr z.bs1 (1 + 1)) 1) hn
  unfold Dec.blockin Dec.restart
  simp only [hpcm]
  have hguard : ¬ (shr (shr z.bs1 (1 + 1)) 1 > (-1 : Int) ∧ (-1 : Int) ≠ -1) := by simp
  rw [if_neg hguard]
  simp only [true_or, if_true]
  generalize pcmStage (shr z.bs1 (1 + 1)) (z.bs false / 4 + z.bs b.W / 4) 1 (shr z.bs1 (1 + 1)) (-1)
    (shr (shr z.bs1 (1 + 1)) 1) true = p at *
  obtain ⟨hp1, hp2⟩ := hp
  have hgs : granStage 1 (-1) 0 (z.bs false / 4 + z.bs b.W / 4) b.gp b.eos p.2.1 p.2.2
      = (b.gp, p.2.1, p.2.2) := by
    unfold granStage
    rcases hgp with h | h <;> simp [h]
  rw [hgs]
  simp only [Dec.pcmout, Dec.read]
  have : ¬ (p.2.1 > -1 ∧ p.2.1 < p.2.2) := by omega
  simp only [this, if_false]
  refine ⟨trivial, ?_⟩
  simp only [ne_eq, not_true_eq_false, false_and, if_false]
  constructor <;> first | omega | rfl | (simp only [] <;> omega)

end Vorbis.Block
