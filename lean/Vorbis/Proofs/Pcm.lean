import Vorbis.Pcm
namespace Vorbis.Pcm

theorem rne_error (n : Int) (k : Nat) :
    -(2^k : Int) ≤ 2 * (rne n k * 2^k - n) ∧ 2 * (rne n k * 2^k - n) ≤ 2^k := by
  simp only [rne]
  have hd : (0:Int) < 2^k := Int.pow_pos (by decide)
  generalize (2:Int)^k = d at *
  have h1 := Int.emod_add_mul_ediv n d
  have h2 := Int.emod_nonneg n (Int.ne_of_gt hd)
  have h3 := Int.emod_lt_of_pos n hd
  generalize n / d = q at *
  generalize n % d = r at *
  have h4 : (q+1)*d = q*d + d := by rw [Int.add_mul, Int.one_mul]
  have h5 : d * q = q * d := Int.mul_comm _ _
  split
  · omega
  · split
    · rw [h4]; omega
    · split
      · omega
      · rw [h4]; omega

theorem rne_mono (a b : Int) (k : Nat) (h : a ≤ b) : rne a k ≤ rne b k := by
  by_cases hab : a = b
  · subst hab; exact Int.le_refl _
  · have ha := rne_error a k
    have hb := rne_error b k
    have hd : (0:Int) < 2^k := Int.pow_pos (by decide)
    generalize (2:Int)^k = d at *
    generalize rne a k = A at *
    generalize rne b k = B at *
    apply Int.not_lt.mp
    intro hlt
    have h1 : (B + 1) * d ≤ A * d := Int.mul_le_mul_of_nonneg_right (by omega) (Int.le_of_lt hd)
    rw [Int.add_mul, Int.one_mul] at h1
    omega

/-- exact when the low bits are zero (no rounding happens) -/
theorem rne_exact (q : Int) (k : Nat) : rne (q * 2^k) k = q := by
  simp only [rne]
  have hd : (0:Int) < 2^k := Int.pow_pos (by decide)
  generalize (2:Int)^k = d at *
  have h1 : q * d % d = 0 := Int.mul_emod_left q d
  have h2 : q * d / d = q := Int.mul_ediv_cancel q (Int.ne_of_gt hd)
  rw [h1, h2]
  simp [hd]

theorem rne_nonneg (n : Int) (k : Nat) (h : 0 ≤ n) : 0 ≤ rne n k := by
  have h0 : rne 0 k = 0 := by simpa using rne_exact 0 k
  have := rne_mono 0 n k h
  omega

theorem clip_range (lo hi v : Int) (h : lo ≤ hi) : lo ≤ clip lo hi v ∧ clip lo hi v ≤ hi := by
  unfold clip; repeat' split
  all_goals omega

theorem clip_id (lo hi v : Int) (h1 : lo ≤ v) (h2 : v ≤ hi) : clip lo hi v = v := by
  unfold clip; repeat' split
  all_goals omega

theorem clip_mono (lo hi a b : Int) (h : a ≤ b) (hlh : lo ≤ hi) : clip lo hi a ≤ clip lo hi b := by
  unfold clip; repeat' split
  all_goals omega

end Vorbis.Pcm
