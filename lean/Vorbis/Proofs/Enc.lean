import Vorbis.Proofs.Dec
/-
Encoder side of C04: every run of the analysis bookkeeping that submits N samples (in any pieces),
signals end of input once and is then drained, hands out a packet sequence of the shape `Coherent`.
-/
namespace Vorbis.Block

structure SzOk (z : Sizes) : Prop where
  lo : 4 ≤ z.bs0
  le : z.bs0 ≤ z.bs1

theorem adv_pos (z : Sizes) (s : SzOk z) (a b : Bool) : 0 < adv z a b ∧ adv z a b ≤ z.bs1 / 2 := by
  have := s.lo; have := s.le
  unfold adv Sizes.bs
  cases a <;> cases b <;> simp <;> omega

/-- decoder-view cursor: (first, lW, c, seq) -/
structure View where
  first : Bool
  lW : Bool
  c : Int
  seq : Int

def View.init : View := { first := true, lW := false, c := 0, seq := 3 }

def View.next (z : Sizes) (v : View) (W : Bool) : Int := if v.first then 0 else v.c + adv z v.lW W

def View.step (z : Sizes) (v : View) (p : Pkt) : View :=
  { first := false, lW := p.W, c := v.next z p.W, seq := v.seq + 1 }

def View.run (z : Sizes) : View → List Pkt → View
  | v, [] => v
  | v, p :: rest => View.run z (v.step z p) rest

/-- all packets so far are well-formed non-final packets -/
def MidOk (z : Sizes) : View → List Pkt → Prop
  | _, [] => True
  | v, p :: rest => p.eos = false ∧ p.seq = v.seq ∧ p.gp = v.next z p.W ∧ MidOk z (v.step z p) rest

theorem run_snoc (z : Sizes) (v : View) (l : List Pkt) (p : Pkt) :
    View.run z v (l ++ [p]) = (View.run z v l).step z p := by
  induction l generalizing v with
  | nil => rfl
  | cons q rest ih => simp [View.run, ih]

theorem midok_snoc (z : Sizes) (v : View) (l : List Pkt) (p : Pkt) (h : MidOk z v l)
    (he : p.eos = false) (hs : p.seq = (View.run z v l).seq) (hg : p.gp = (View.run z v l).next z p.W) :
    MidOk z v (l ++ [p]) := by
  induction l generalizing v with
  | nil => exact ⟨he, hs, hg, trivial⟩
  | cons q rest ih =>
    obtain ⟨h1, h2, h3, h4⟩ := h
    exact ⟨h1, h2, h3, ih _ h4 hs hg⟩

end Vorbis.Block

namespace Vorbis.Block

/-- invariant of the analysis bookkeeping between API calls, with ghost state:
    `pk` = packets handed out so far, `Nw` = samples accepted so far -/
structure EInv (z : Sizes) (e : Enc) (pk : List Pkt) (Nw : Int) : Prop where
  mid : MidOk z View.init pk
  seq : e.seq = (View.run z View.init pk).seq
  cW : e.cW = z.bs1 / 2
  nw0 : 0 ≤ Nw
  cle : (View.run z View.init pk).first = false → (View.run z View.init pk).c ≤ Nw
  live : e.eof ≠ -1
  a : e.eof = 0 →
      e.gp = (View.run z View.init pk).next z e.W ∧
      e.cur = z.bs1 / 2 + Nw - (View.run z View.init pk).next z e.W ∧
      (View.run z View.init pk).next z e.W ≤ Nw
  b : e.eof ≠ 0 →
      0 < e.eof ∧
      e.eof = z.bs1 / 2 + Nw - (View.run z View.init pk).next z e.W ∧
      e.cur = e.eof + 3 * z.bs1 ∧
      e.gp = (if e.cW < e.eof then (View.run z View.init pk).next z e.W else Nw)

/-- what the final (end-of-stream) packet satisfies relative to the packets before it -/
structure FinalOk (z : Sizes) (pk : List Pkt) (Nw : Int) (p : Pkt) : Prop where
  eos : p.eos = true
  seq : p.seq = (View.run z View.init pk).seq
  gp : p.gp = Nw
  lo : (View.run z View.init pk).first = false → (View.run z View.init pk).c ≤ Nw
  hi : Nw ≤ (View.run z View.init pk).next z p.W
  firstZero : (View.run z View.init pk).first = true → Nw = 0

theorem init_inv (z : Sizes) : EInv z (Enc.init z) [] 0 := by
  constructor <;> simp [Enc.init, View.run, View.init, View.next, MidOk]

theorem buffer_inv (z : Sizes) (e : Enc) (pk : List Pkt) (Nw n : Int) (h : EInv z e pk Nw) :
    EInv z (e.buffer n) pk Nw := by
  unfold Enc.buffer
  split
  · exact ⟨h.mid, h.seq, h.cW, h.nw0, h.cle, h.live, h.a, h.b⟩
  · exact h

/-- a data write before end of input -/
theorem wrote_inv (z : Sizes) (e : Enc) (pk : List Pkt) (Nw n : Int) (h : EInv z e pk Nw)
    (hn : 0 < n) (he : e.eof = 0) :
    ((e.wrote z n).2 = 0 ∧ EInv z (e.wrote z n).1 pk (Nw + n) ∧ (e.wrote z n).1.eof = 0) ∨
    ((e.wrote z n).2 ≠ 0 ∧ (e.wrote z n).1 = e) := by
  unfold Enc.wrote
  rw [if_neg (by omega)]
  split
  · right; exact ⟨by simp, rfl⟩
  · left
    obtain ⟨ha1, ha2, ha3⟩ := h.a he
    have key : ∀ pr : Bool,
        EInv z { cur := e.cur + n, storage := e.storage, cW := e.cW, lW := e.lW, W := e.W, gp := e.gp,
                 eof := e.eof, pre := pr, seq := e.seq } pk (Nw + n) := by
      intro pr
      refine ⟨h.mid, h.seq, h.cW, by have := h.nw0; omega, fun hf => by have := h.cle hf; omega,
        h.live, fun _ => ?_, fun hc => absurd he hc⟩
      simp only []
      exact ⟨ha1, by omega, by omega⟩
    simp only []
    refine ⟨trivial, ?_, ?_⟩
    · split
      · exact key true
      · exact key e.pre
    · split <;> exact he

/-- the end-of-input call -/
theorem wrote_eof_inv (z : Sizes) (s : SzOk z) (e : Enc) (pk : List Pkt) (Nw n : Int) (h : EInv z e pk Nw)
    (hn : n ≤ 0) (he : e.eof = 0) :
    EInv z (e.wrote z n).1 pk Nw ∧ (e.wrote z n).1.eof ≠ 0 ∧ (e.wrote z n).1.pre = true := by
  obtain ⟨ha1, ha2, ha3⟩ := h.a he
  have hcW := h.cW
  have := s.lo; have := s.le
  unfold Enc.wrote Enc.buffer
  rw [if_pos hn]
  simp only []
  have key : ∀ st : Int,
      EInv z { cur := e.cur + z.bs1 * 3, storage := st, cW := e.cW, lW := e.lW, W := e.W, gp := e.gp,
               eof := e.cur, pre := true, seq := e.seq } pk Nw := by
    intro st
    refine ⟨h.mid, h.seq, h.cW, h.nw0, h.cle, by simp only []; omega, fun hc => by simp only [] at hc; omega, fun _ => ?_⟩
    simp only []
    refine ⟨by omega, by omega, by omega, ?_⟩
    split <;> omega
  split
  · exact ⟨key _, by simp only []; omega, rfl⟩
  · exact ⟨key _, by simp only []; omega, rfl⟩

end Vorbis.Block

namespace Vorbis.Block

theorem blockout_inv (z : Sizes) (s : SzOk z) (e : Enc) (pk : List Pkt) (Nw : Int)
    (h : EInv z e pk Nw) (bp : Int) :
    match e.blockout z bp with
    | (e', none) => e' = e
    | (e', some p) =>
        (p.eos = false ∧ EInv z e' (pk ++ [p]) Nw ∧ (e'.eof = 0 ↔ e.eof = 0) ∧ e'.pre = e.pre) ∨
        (FinalOk z pk Nw p ∧ e'.eof = -1 ∧ e.eof ≠ 0) := by
  have hlo := s.lo; have hle := s.le
  unfold Enc.blockout
  by_cases hpre : (!e.pre) = true
  · simp only [hpre, if_true]
  rw [if_neg hpre]
  by_cases hdone : e.eof = -1
  · simp only [hdone, if_true]
  rw [if_neg hdone]
  by_cases hwait : bp = -1 ∧ e.eof = 0
  · simp only [hwait, and_self, if_true]
  rw [if_neg hwait]
  simp only []
  generalize (if bp = -1 then false else if z.bs0 = z.bs1 then false else decide (bp ≠ 0)) = nW
  by_cases hroom : e.cur < e.cW + z.bs e.W / 4 + z.bs nW / 4 + z.bs nW / 2
  · simp only [hroom, if_true]
  rw [if_neg hroom]
  -- a block is handed out
  have hcW := h.cW
  have hm := adv_pos z s e.W nW
  have hmdef : e.cW + z.bs e.W / 4 + z.bs nW / 4 - z.bs1 / 2 = adv z e.W nW := by unfold adv; omega
  have hbn : 0 ≤ z.bs nW / 2 := by unfold Sizes.bs; cases nW <;> simp <;> omega
  by_cases heos : e.eof ≠ 0 ∧ e.cW ≥ e.eof
  · -- the end-of-stream block
    simp only [heos, ne_eq, not_false_eq_true, and_self, if_true]
    right
    obtain ⟨hb0, hb1, hb2, hb3⟩ := h.b heos.1
    have hgp : e.gp = Nw := by rw [hb3, if_neg (by omega)]
    refine ⟨⟨by first | rfl | trivial, h.seq, hgp, h.cle, by simp only []; omega, fun hf => ?_⟩, by first | trivial | exact ⟨rfl, heos.1⟩ | exact ⟨trivial, heos.1⟩ | exact heos.1 | simp [heos.1]⟩
    have : (View.run z View.init pk).next z e.W = 0 := by simp [View.next, hf]
    have := h.nw0
    omega
  · simp only [heos, if_false]
    rw [hmdef]
    rw [if_pos hm.1]
    -- facts about the packet
    have hgpk : e.gp = (View.run z View.init pk).next z e.W := by
      by_cases h0 : e.eof = 0
      · exact (h.a h0).1
      · obtain ⟨_, hb1, _, hb3⟩ := h.b h0
        rw [hb3, if_pos]
        have : ¬ (e.cW ≥ e.eof) := fun hc => heos ⟨h0, hc⟩
        omega
    have hcn_le : (View.run z View.init pk).next z e.W ≤ Nw := by
      by_cases h0 : e.eof = 0
      · exact (h.a h0).2.2
      · obtain ⟨_, hb1, _, _⟩ := h.b h0
        have : ¬ (e.cW ≥ e.eof) := fun hc => heos ⟨h0, hc⟩
        omega
    have hmid : MidOk z View.init (pk ++ [{ lW := e.lW, W := e.W, nW := nW, gp := e.gp, eos := false, seq := e.seq }]) :=
      midok_snoc z View.init pk _ h.mid rfl h.seq hgpk
    have hrun : View.run z View.init (pk ++ [{ lW := e.lW, W := e.W, nW := nW, gp := e.gp, eos := false, seq := e.seq }])
        = { first := false, lW := e.W, c := (View.run z View.init pk).next z e.W, seq := (View.run z View.init pk).seq + 1 } := by
      rw [run_snoc]; rfl
    have hnext' : (View.next z { first := false, lW := e.W, c := (View.run z View.init pk).next z e.W, seq := (View.run z View.init pk).seq + 1 } nW)
        = (View.run z View.init pk).next z e.W + adv z e.W nW := by simp [View.next]
    by_cases h0 : e.eof = 0
    · -- before end of input
      obtain ⟨ha1, ha2, ha3⟩ := h.a h0
      simp only [h0, ne_eq, not_true_eq_false, if_false]
      left
      refine ⟨trivial, ?_, by first | trivial | simp, trivial⟩
      refine ⟨hmid, ?_, ?_, h.nw0, ?_, ?_, ?_, ?_⟩
      · rw [hrun]; simp only []; rw [h.seq]
      · simp only []
      · intro _; rw [hrun]; simp only []; exact hcn_le
      · simp only []; omega
      · intro _; rw [hrun, hnext']; simp only []
        refine ⟨by omega, by omega, by omega⟩
      · intro hc; simp only [] at hc; omega
    · -- after end of input, centre still before the end of the data
      obtain ⟨hb0, hb1, hb2, hb3⟩ := h.b h0
      have hnc : ¬ (e.cW ≥ e.eof) := fun hc => heos ⟨h0, hc⟩
      have hpos : ¬ (e.eof - adv z e.W nW ≤ 0) := by omega
      simp only [ne_eq, h0, not_false_eq_true, if_true, hpos, if_false]
      left
      refine ⟨trivial, ?_, ⟨fun hx => by omega, fun hx => hx.elim⟩, trivial⟩
      refine ⟨hmid, ?_, ?_, h.nw0, ?_, ?_, ?_, ?_⟩
      · rw [hrun]; simp only []; rw [h.seq]
      · simp only []
      · intro _; rw [hrun]; simp only []; exact hcn_le
      · simp only []; omega
      · intro hc; simp only [] at hc; omega
      · intro _; rw [hrun, hnext']; simp only []
        refine ⟨by omega, by omega, by omega, ?_⟩
        split <;> split <;> omega

end Vorbis.Block

namespace Vorbis.Block

/-- samples accepted by the encoder over an op list (the `N` of the property) -/
def accepted (z : Sizes) : Enc → List EncOp → Int
  | _, [] => 0
  | e, .wrote n :: rest =>
      (if n > 0 ∧ (e.wrote z n).2 = 0 then n else 0) + accepted z (e.wrote z n).1 rest
  | e, op :: rest => accepted z (e.step z op).1 rest

/-- ops an application may issue before it signals end of input -/
def DataOp : EncOp → Prop
  | .wrote n => 0 < n
  | _ => True

/-- ops after end of input has been signalled: only draining (and harmless buffer requests) -/
def DrainOp : EncOp → Prop
  | .wrote _ => False
  | _ => True

theorem run_data (z : Sizes) (s : SzOk z) (ops : List EncOp) (e : Enc) (pk : List Pkt) (Nw : Int)
    (h : EInv z e pk Nw) (he : e.eof = 0) (hops : ∀ op ∈ ops, DataOp op) :
    EInv z (Enc.run z e ops).1 (pk ++ (Enc.run z e ops).2) (Nw + accepted z e ops) ∧
    (Enc.run z e ops).1.eof = 0 := by
  induction ops generalizing e pk Nw with
  | nil => simpa [Enc.run, accepted] using ⟨h, he⟩
  | cons op rest ih =>
    have hrest : ∀ o ∈ rest, DataOp o := fun o ho => hops o (by simp [ho])
    cases op with
    | buffer n =>
      have := ih (e.buffer n) pk Nw (buffer_inv z e pk Nw n h) (by unfold Enc.buffer; split <;> exact he) hrest
      simpa [Enc.run, Enc.step, accepted] using this
    | wrote n =>
      have hn : 0 < n := hops (.wrote n) (by simp)
      rcases wrote_inv z e pk Nw n h hn he with ⟨hrc, hinv, he'⟩ | ⟨hrc, hsame⟩
      · have := ih (e.wrote z n).1 pk (Nw + n) hinv he' hrest
        simp only [Enc.run, Enc.step, accepted, List.nil_append, hn, hrc, and_self, if_true]
        rw [← Int.add_assoc]
        exact this
      · have := ih (e.wrote z n).1 pk Nw (by rw [hsame]; exact h) (by rw [hsame]; exact he) hrest
        simp only [Enc.run, Enc.step, accepted, List.nil_append, hrc, and_false, if_false, Int.zero_add]
        exact this
    | blockout bp =>
      have hb := blockout_inv z s e pk Nw h bp
      simp only [Enc.run, Enc.step, accepted]
      revert hb
      rcases hbo : e.blockout z bp with ⟨e', _ | p⟩
      · intro hb
        simp only at hb
        subst hb
        simpa using ih e' pk Nw h he hrest
      · intro hb
        simp only at hb
        rcases hb with ⟨_, hinv, hiff, _⟩ | ⟨_, _, hne⟩
        · have := ih e' (pk ++ [p]) Nw hinv (hiff.2 he) hrest
          simpa [List.append_assoc] using this
        · exact absurd he hne

end Vorbis.Block

namespace Vorbis.Block

/-- once finished, draining does nothing more -/
theorem run_finished (z : Sizes) (ops : List EncOp) (e : Enc) (hf : e.eof = -1)
    (hops : ∀ op ∈ ops, DrainOp op) : (Enc.run z e ops).2 = [] ∧ (Enc.run z e ops).1.eof = -1 := by
  induction ops generalizing e with
  | nil => exact ⟨rfl, hf⟩
  | cons op rest ih =>
    have hrest : ∀ o ∈ rest, DrainOp o := fun o ho => hops o (by simp [ho])
    cases op with
    | buffer n =>
      have := ih (e.buffer n) (by unfold Enc.buffer; split <;> exact hf) hrest
      simpa [Enc.run, Enc.step] using this
    | wrote n => exact absurd (hops (.wrote n) (by simp)) (by simp [DrainOp])
    | blockout bp =>
      have hb : e.blockout z bp = (e, none) := by
        unfold Enc.blockout
        by_cases hp : (!e.pre) = true
        · rw [if_pos hp]
        · rw [if_neg hp, if_pos hf]
      have := ih e hf hrest
      simpa [Enc.run, Enc.step, hb] using this

/-- the drain phase: either still running with only well-formed mid packets handed out, or finished
    with exactly one final packet at the end -/
theorem run_drain (z : Sizes) (s : SzOk z) (ops : List EncOp) (e : Enc) (pk : List Pkt) (Nw : Int)
    (h : EInv z e pk Nw) (he : e.eof ≠ 0) (hops : ∀ op ∈ ops, DrainOp op) :
    (EInv z (Enc.run z e ops).1 (pk ++ (Enc.run z e ops).2) Nw ∧ (Enc.run z e ops).1.eof ≠ 0) ∨
    ((Enc.run z e ops).1.eof = -1 ∧
      ∃ mids last, (Enc.run z e ops).2 = mids ++ [last] ∧ MidOk z View.init (pk ++ mids) ∧
        FinalOk z (pk ++ mids) Nw last) := by
  induction ops generalizing e pk with
  | nil => left; simpa [Enc.run] using ⟨h, he⟩
  | cons op rest ih =>
    have hrest : ∀ o ∈ rest, DrainOp o := fun o ho => hops o (by simp [ho])
    cases op with
    | buffer n =>
      have := ih (e.buffer n) pk (buffer_inv z e pk Nw n h) (by unfold Enc.buffer; split <;> exact he) hrest
      simpa [Enc.run, Enc.step] using this
    | wrote n => exact absurd (hops (.wrote n) (by simp)) (by simp [DrainOp])
    | blockout bp =>
      have hb := blockout_inv z s e pk Nw h bp
      simp only [Enc.run, Enc.step]
      revert hb
      rcases hbo : e.blockout z bp with ⟨e', _ | p⟩
      · intro hb
        simp only at hb
        subst hb
        simpa using ih e' pk h he hrest
      · intro hb
        simp only at hb
        rcases hb with ⟨_, hinv, hiff, _⟩ | ⟨hfin, hdone, _⟩
        · have he' : e'.eof ≠ 0 := fun h0 => he (hiff.1 h0)
          rcases ih e' (pk ++ [p]) hinv he' hrest with ⟨hi, hn⟩ | ⟨hd, mids, last, hout, hm, hf⟩
          · left
            have hi' : EInv z (Enc.run z e' rest).1 (pk ++ p :: (Enc.run z e' rest).2) Nw := by
              simpa [List.append_assoc] using hi
            simpa using ⟨hi', hn⟩
          · right
            refine ⟨by simpa using hd, p :: mids, last, by simp [hout], ?_, ?_⟩
            · simpa [List.append_assoc] using hm
            · simpa [List.append_assoc] using hf
        · right
          have := run_finished z rest e' hdone hrest
          refine ⟨by simpa using this.2, [], p, by simp [this.1], by simpa using h.mid, by simpa using hfin⟩

/-- assembling `Coherent` from well-formed mid packets and a final packet, for every visibility pattern -/
theorem coherent_of_mid_final (z : Sizes) (N : Int) (vis : Pkt → Bool) (l : List Pkt) (v : View) (p : Pkt)
    (hm : MidOk z v l)
    (heos : p.eos = true) (hseq : p.seq = (View.run z v l).seq) (hgp : p.gp = N)
    (hlo : (View.run z v l).first = false → (View.run z v l).c ≤ N)
    (hhi : N ≤ (View.run z v l).next z p.W)
    (hz : (View.run z v l).first = true → N = 0 ∧ (View.run z v l).c = 0) :
    Coherent z N v.first v.lW v.c v.seq (l.map (fun q => (q, vis q)) ++ [(p, true)]) := by
  induction l generalizing v with
  | nil =>
    simp only [List.map_nil, List.nil_append, Coherent, View.run] at *
    refine ⟨heos, by first | rfl | trivial, hseq, hgp, ?_, ?_⟩
    · cases hf : v.first
      · exact hlo hf
      · have := hz hf; omega
    · simpa [View.next] using hhi
  | cons a rest ih =>
    obtain ⟨h1, h2, h3, h4⟩ := hm
    have ih' := ih (v.step z a) h4 hseq hlo hhi hz
    cases hrest : (rest.map (fun q => (q, vis q)) ++ [(p, true)]) with
    | nil => simp at hrest
    | cons q tl =>
      simp only [List.map_cons, List.cons_append, hrest, Coherent]
      rw [hrest] at ih'
      exact ⟨h1, h2, by simpa [View.next] using h3, by simpa [View.step, View.next] using ih'⟩

end Vorbis.Block

namespace Vorbis.Block

theorem run_append (z : Sizes) (e : Enc) (a b : List EncOp) :
    Enc.run z e (a ++ b) =
      ((Enc.run z (Enc.run z e a).1 b).1, (Enc.run z e a).2 ++ (Enc.run z (Enc.run z e a).1 b).2) := by
  induction a generalizing e with
  | nil => simp [Enc.run]
  | cons op rest ih => simp [Enc.run, ih, List.append_assoc]

/-- after end of input every `blockout` call hands out a block: draining always makes progress -/
theorem blockout_progress (z : Sizes) (s : SzOk z) (e : Enc) (pk : List Pkt) (Nw : Int)
    (h : EInv z e pk Nw) (he : e.eof ≠ 0) (hpre : e.pre = true) (bp : Int) :
    (e.blockout z bp).2 ≠ none := by
  obtain ⟨hb0, hb1, hb2, hb3⟩ := h.b he
  have hcW := h.cW
  have hlo := s.lo; have hle := s.le
  unfold Enc.blockout
  rw [if_neg (by simp [hpre]), if_neg h.live, if_neg (fun hc => he hc.2)]
  simp only []
  generalize (if bp = -1 then false else if z.bs0 = z.bs1 then false else decide (bp ≠ 0)) = nW
  have hroom : ¬ (e.cur < e.cW + z.bs e.W / 4 + z.bs nW / 4 + z.bs nW / 2) := by
    unfold Sizes.bs
    cases nW <;> cases e.W <;> simp <;> omega
  rw [if_neg hroom]
  repeat' split
  all_goals simp

end Vorbis.Block

namespace Vorbis.Block

/-- the window triple of a block handed out, and the encoder's window state afterwards -/
theorem blockout_windows (z : Sizes) (s : SzOk z) (e : Enc) (bp : Int) (hcW : e.cW = z.bs1 / 2)
    (e' : Enc) (p : Pkt) (h : e.blockout z bp = (e', some p)) :
    p.lW = e.lW ∧ p.W = e.W ∧ (p.eos = false → e'.lW = p.W ∧ e'.W = p.nW ∧ e'.cW = z.bs1 / 2) := by
  unfold Enc.blockout at h
  by_cases hpre : (!e.pre) = true
  · simp [hpre] at h
  rw [if_neg hpre] at h
  by_cases hdone : e.eof = -1
  · simp [hdone] at h
  rw [if_neg hdone] at h
  by_cases hwait : bp = -1 ∧ e.eof = 0
  · simp [hwait] at h
  rw [if_neg hwait] at h
  simp only [] at h
  generalize (if bp = -1 then false else if z.bs0 = z.bs1 then false else decide (bp ≠ 0)) = nW at h
  by_cases hroom : e.cur < e.cW + z.bs e.W / 4 + z.bs nW / 4 + z.bs nW / 2
  · simp [hroom] at h
  rw [if_neg hroom] at h
  have hm := adv_pos z s e.W nW
  have hmdef : e.cW + z.bs e.W / 4 + z.bs nW / 4 - z.bs1 / 2 = adv z e.W nW := by unfold adv; omega
  by_cases heos : e.eof ≠ 0 ∧ e.cW ≥ e.eof
  · simp only [heos, ne_eq, not_false_eq_true, and_self, if_true, Prod.mk.injEq, Option.some.injEq] at h
    obtain ⟨_, rfl⟩ := h
    exact ⟨rfl, rfl, fun hc => by simp at hc⟩
  · simp only [heos, if_false] at h
    rw [hmdef, if_pos hm.1] at h
    by_cases h0 : e.eof = 0
    · simp only [h0, ne_eq, not_true_eq_false, if_false, Prod.mk.injEq, Option.some.injEq] at h
      obtain ⟨rfl, rfl⟩ := h
      exact ⟨rfl, rfl, fun _ => ⟨rfl, rfl, rfl⟩⟩
    · simp only [ne_eq, h0, not_false_eq_true, if_true, Prod.mk.injEq, Option.some.injEq] at h
      obtain ⟨rfl, rfl⟩ := h
      exact ⟨rfl, rfl, fun _ => ⟨rfl, rfl, rfl⟩⟩

end Vorbis.Block
