import Vorbis.Props.C07
/-
The decode-state consistency `DecWF` (hypothesis of the history-independence and recovery theorems) is an invariant: every call of the
read / sample-seek fragment of the API keeps it on a seekable handle.  Proved function by function over the model (packet loop, page
loop, link selection, `_fetch_and_process_packet`, `ov_read_float`, the discard and skip loops of `ov_pcm_seek`, `ov_pcm_seek_page`
for every plan but the raw-seek fallback).
-/
namespace Vorbis.Proofs.FileInv
open Vorbis Vorbis.File Vorbis.Block Vorbis.Props.C07
set_option linter.unusedSimpArgs false

/-! the state consistency `DecWF` (hypothesis of the history-independence theorems) is preserved by the calls below; for the calls not
    covered here (packet fetching, raw seek, open) it is evaluated by the driver on every state the correspondence runs reach -/

theorem wf_decodeClear (s : VF) : DecWF (decodeClear.run s).2 := by
  have e : (decodeClear.run s).2 = { s with vd := none, lapped := false, ready := OPENED } := rfl
  rw [e]
  refine ⟨?_, ?_, ?_⟩
  · intro h; exact absurd (show OPENED ≥ STREAMSET from h) (by decide)
  · intro h; exact absurd (show OPENED > STREAMSET from h) (by decide)
  · show OPENED ≤ INITSET; decide

theorem wf_seekError (rc : Int) (s : VF) : DecWF ((seekError rc).run s).2 := (seekError_same rc s).2

theorem wf_selectLinkF (link : Nat) (s : VF) (w : DecWF s) : DecWF (selectLinkF link s) := by
  obtain ⟨wl, wv, wr⟩ := w
  unfold selectLinkF
  split
  · refine ⟨?_, ?_, ?_⟩
    · intro _; simp
    · intro h; exact absurd h (by simp)
    · simp only []; decide
  · rename_i hc
    have hr : s.ready ≥ STREAMSET := by
      by_cases e : s.ready < STREAMSET
      · exact absurd (Or.inr e) hc
      · omega
    refine ⟨?_, ?_, ?_⟩
    · intro _; exact wl hr
    · intro h
      have := wv h
      cases hv : s.vd with
      | none => rw [hv] at this; exact absurd this (by decide)
      | some d => simp [hv]
    · exact wr

theorem wf_makeDecodeReady (s : VF) (w : DecWF s) : DecWF (makeDecodeReady.run s).2 := by
  obtain ⟨wl, wv, wr⟩ := w
  unfold makeDecodeReady
  simp only [StateT.run, bind, StateT.bind, get, getThe, MonadStateOf.get, StateT.get, pure, StateT.pure, set, StateT.set]
  by_cases h1 : s.ready > STREAMSET
  · simp only [h1, if_true]; exact ⟨wl, wv, wr⟩
  · simp only [h1, if_false]
    by_cases h2 : s.ready < STREAMSET
    · simp only [h2, if_true]; exact ⟨wl, wv, wr⟩
    · simp only [h2, if_false]
      have hr : s.ready ≥ STREAMSET := by omega
      refine ⟨?_, ?_, ?_⟩
      · intro _; exact wl hr
      · intro _; rfl
      · show INITSET ≤ INITSET; decide

theorem wf_readTake (s : VF) (n : Int) (w : DecWF s) : DecWF (readTake s n).2 := by
  obtain ⟨wl, wv, wr⟩ := w
  unfold readTake
  refine ⟨wl, ?_, wr⟩
  intro h
  have := wv h
  cases hv : s.vd with
  | none => rw [hv] at this; exact absurd this (by decide)
  | some d => simp [hv]

theorem wf_execPlan (f : Int → M Int) (p : SeekPlan) (s : VF) (w : DecWF s) (hnr : ∀ l c o r, p ≠ .viaRaw l c o r) :
    DecWF ((execPlan f p).run s).2 := by
  cases p with
  | fail rc c => exact (failing_plan_same f _ s (Or.inl ⟨rc, c, rfl⟩)).2
  | failSel l c o rc => exact (failing_plan_same f _ s (Or.inr ⟨l, c, o, rc, rfl⟩)).2
  | viaRaw l c o r => exact absurd rfl (hnr l c o r)
  | land l c o po =>
      have e : (execPlan f (.land l c o po)).run s =
          (0, { (selectLinkF l { s with offset := c.off, fill := c.fill }) with os := o, pcm_offset := po }) := by
        simp [execPlan, setCur, selectLink, StateT.run, bind, StateT.bind, modify, modifyGet, MonadStateOf.modifyGet, StateT.modifyGet, pure, StateT.pure]
      rw [e]
      have w1 : DecWF { s with offset := c.off, fill := c.fill } := w
      have w2 := wf_selectLinkF l _ w1
      exact w2

/-- the invariant: a seekable handle in a consistent decode state -/
def SInv (s : VF) : Prop := s.seekable = true ∧ DecWF s

/-- `m` keeps the invariant -/
def Pres {α : Type} (m : M α) : Prop := ∀ s, SInv s → SInv (m.run s).2

theorem pres_pure {α : Type} (a : α) : Pres (pure a : M α) := fun _ h => h

theorem pres_bind {α β : Type} (m : M α) (k : α → M β) (hm : Pres m) (hk : ∀ a, Pres (k a)) : Pres (m >>= k) := by
  intro s hs
  show SInv ((StateT.bind m k) s).2
  unfold StateT.bind
  simp only [bind]
  have := hm s hs
  cases hms : m s with
  | mk a s' =>
      have e : (m.run s).2 = s' := by show (m s).2 = s'; rw [hms]
      rw [e] at this
      exact hk a s' this

/-- reading the state: the continuation may use that the state it is given is the current one and satisfies the invariant -/
theorem pres_get_bind {β : Type} (k : VF → M β) (h : ∀ s, SInv s → SInv ((k s).run s).2) : Pres (get >>= k) := by
  intro s hs
  exact h s hs

theorem pres_set (s' : VF) (h : SInv s') : Pres (set s' : M Unit) := fun _ _ => h
theorem pres_modify (f : VF → VF) (h : ∀ s, SInv s → SInv (f s)) : Pres (modify f : M Unit) := fun s hs => h s hs

theorem pres_ite {α : Type} (c : Prop) [Decidable c] (a b : M α) (ha : Pres a) (hb : Pres b) : Pres (if c then a else b) := by
  split <;> assumption

theorem run_get_bind' {β : Type} (k : VF → M β) (s : VF) : ((get >>= k).run s) = (k s).run s := rfl

theorem pres_decodeClear : Pres decodeClear := by
  intro s hs
  exact ⟨hs.1, wf_decodeClear s⟩

theorem sinv_cursor (s : VF) (h : SInv s) (o f : Int) : SInv { s with offset := o, fill := f } := h

theorem pres_makeDecodeReady : Pres makeDecodeReady := fun s hs => ⟨by
  have : (makeDecodeReady.run s).2.seekable = s.seekable := by
    unfold makeDecodeReady
    simp only [StateT.run, bind, StateT.bind, get, getThe, MonadStateOf.get, StateT.get, pure, StateT.pure, set, StateT.set]
    split
    · rfl
    · split <;> rfl
  rw [this]; exact hs.1, wf_makeDecodeReady s hs.2⟩

theorem pres_setCur (c : Cur) : Pres (setCur c) := pres_modify _ (fun s hs => sinv_cursor s hs c.off c.fill)

theorem pres_getNextPage (ph : Phys) (b : Int) : Pres (getNextPage ph b) := by
  unfold getNextPage
  apply pres_get_bind
  intro s hs
  simp only []
  exact pres_bind _ _ (pres_setCur _) (fun _ => pres_pure _) s hs

theorem sinv_os (s : VF) (h : SInv s) (o : OStream) : SInv { s with os := o } := h
theorem sinv_pcmoff (s : VF) (h : SInv s) (p : Int) : SInv { s with pcm_offset := p } := h

theorem sinv_vd_some (s : VF) (h : SInv s) (d : Dec) (l : Bool) : SInv { s with vd := some d, lapped := l } :=
  ⟨h.1, h.2.1, fun _ => rfl, h.2.2.2⟩

theorem pres_packets : ∀ (f : Nat), Pres (fpPackets f) := by
  intro f
  induction f with
  | zero => unfold fpPackets; exact pres_pure _
  | succ f ih =>
      unfold fpPackets
      apply pres_get_bind
      intro s hs
      simp only []
      refine (?_ : Pres _) s hs
      apply pres_ite
      · exact pres_bind _ _ (pres_set _ (sinv_os s hs _)) (fun _ => pres_pure _)
      · apply pres_ite
        · apply pres_bind _ _ (pres_set _ (sinv_os s hs _))
          intro _
          split
          · apply pres_ite
            · exact pres_pure _
            · apply pres_bind _ _ (pres_modify _ (fun v hv => sinv_vd_some v hv _ _))
              intro _
              apply pres_ite
              · exact pres_bind _ _ (pres_modify _ (fun v hv => sinv_pcmoff v hv _)) (fun _ => pres_pure _)
              · exact pres_pure _
          · exact ih
        · exact pres_pure _

theorem sinv_infos (s : VF) (h : SInv s) (i : Array LinkInfo) : SInv { s with infos := i } := h

theorem pres_page (ph : Phys) (readp spanp : Bool) : ∀ (f : Nat), Pres (fpPage ph readp spanp f) := by
  intro f
  induction f with
  | zero => unfold fpPage; exact pres_pure _
  | succ f ih =>
      unfold fpPage
      apply pres_ite
      · exact pres_pure _
      · apply pres_bind _ _ (pres_getNextPage ph (-1))
        intro r
        obtain ⟨ret, og⟩ := r
        simp only []
        apply pres_ite
        · exact pres_pure _
        · apply pres_get_bind
          intro s hs
          refine (?_ : Pres _) s hs
          apply pres_ite
          · apply pres_ite
            · apply pres_ite
              · exact pres_pure _
              · apply pres_bind _ _ pres_decodeClear
                intro _
                apply pres_ite
                · exact pres_bind _ _ (pres_modify _ (fun v hv => sinv_infos v hv _)) (fun _ => pres_pure _)
                · exact pres_pure _
            · exact ih
          · exact pres_pure _

theorem linkOf_spec (vf : VF) (serial : Int) (link : Nat) (h : linkOf vf serial = some link) : vf.serialnos[link]! = serial := by
  unfold linkOf at h
  have := List.find?_some h
  simpa using this

theorem run_modify_bind {β : Type} (f : VF → VF) (k : Unit → M β) (s : VF) : ((modify f >>= k).run s) = (k ()).run (f s) := rfl

theorem pres_fpAfterPage (ph : Phys) (again : M Int) (ha : Pres again) (og : Page) : Pres (fpAfterPage ph again og) := by
  unfold fpAfterPage
  apply pres_get_bind
  intro s hs
  simp only []
  by_cases hc : s.ready ≠ INITSET ∧ s.ready < STREAMSET
  · rw [if_pos hc, if_pos hs.1]
    cases hl : linkOf s og.serial with
    | none => exact ha s hs
    | some link =>
        simp only []
        rw [run_modify_bind]
        apply ha
        have hser := linkOf_spec s og.serial link hl
        refine ⟨hs.1, ?_, ?_, ?_⟩
        · intro _
          refine ⟨by simp, ?_⟩
          simp [hser]
        · intro h; exact absurd (show STREAMSET > STREAMSET from h) (by decide)
        · show STREAMSET ≤ INITSET; decide
  · rw [if_neg hc]
    exact pres_bind _ _ (pres_modify _ (fun v hv => sinv_os v hv _)) (fun _ => ha) s hs

theorem pres_fpPageStep (ph : Phys) (readp spanp : Bool) (again : M Int) (ha : Pres again) : Pres (fpPageStep ph readp spanp again) := by
  unfold fpPageStep
  apply pres_get_bind
  intro s hs
  simp only []
  refine (?_ : Pres _) s hs
  apply pres_ite
  · exact pres_pure _
  · apply pres_bind _ _ (pres_page ph readp spanp _)
    intro r
    obtain ⟨rc, og, stop⟩ := r
    simp only []
    apply pres_ite
    · exact pres_pure _
    · exact pres_fpAfterPage ph again ha og

theorem pres_fetchAndProcess (ph : Phys) (readp spanp : Bool) : ∀ (fuel : Nat), Pres (fetchAndProcess ph readp spanp fuel) := by
  intro fuel
  induction fuel with
  | zero => unfold fetchAndProcess; exact pres_pure _
  | succ fuel ih =>
      unfold fetchAndProcess
      apply pres_get_bind
      intro s hs
      refine (?_ : Pres _) s hs
      apply pres_bind
      · apply pres_ite
        · exact pres_makeDecodeReady
        · exact pres_pure _
      · intro r0
        apply pres_ite
        · exact pres_pure _
        · apply pres_get_bind
          intro s2 hs2
          refine (?_ : Pres _) s2 hs2
          apply pres_bind
          · apply pres_ite
            · exact pres_packets _
            · exact pres_pure _
          · intro pr
            cases pr with
            | some r => exact pres_pure _
            | none => exact pres_fpPageStep ph readp spanp _ ih

theorem readTake_seekable (s : VF) (n : Int) : (readTake s n).2.seekable = s.seekable := rfl

theorem pres_readLoop (ph : Phys) (length : Int) : ∀ f, Pres (readFloat.loop ph length f) := by
  intro f
  induction f with
  | zero => unfold readFloat.loop; exact pres_pure _
  | succ f ih =>
      unfold readFloat.loop
      apply pres_get_bind
      intro s hs
      simp only []
      refine (?_ : Pres _) s hs
      apply pres_ite
      · have h2 : SInv (readTake s length).2 := ⟨hs.1, wf_readTake s length hs.2⟩
        exact pres_bind _ _ (pres_set _ h2) (fun _ => pres_pure _)
      · apply pres_bind _ _ (pres_fetchAndProcess ph true true _)
        intro r
        apply pres_ite
        · exact pres_pure _
        · apply pres_ite
          · exact pres_pure _
          · exact ih

/-- `ov_read_float` keeps the invariant -/
theorem pres_readFloat (ph : Phys) (length : Int) : Pres (readFloat ph length) := by
  unfold readFloat
  apply pres_get_bind
  intro s hs
  refine (?_ : Pres _) s hs
  apply pres_ite
  · exact pres_pure _
  · exact pres_readLoop ph length _

theorem sinv_vd_keep (s : VF) (h : SInv s) (v : Option Dec) (hv : s.vd.isSome = true → v.isSome = true) (o : OStream) (p : Int) :
    SInv { s with os := o, vd := v, pcm_offset := p } :=
  ⟨h.1, h.2.1, fun hr => hv (h.2.2.1 hr), h.2.2.2⟩

theorem pres_discard (ph : Phys) (pos : Int) : ∀ (f : Nat) (lb : Int), Pres (pcmSeekTail.discard ph pos f lb) := by
  intro f
  induction f with
  | zero => intro lb; unfold pcmSeekTail.discard; exact pres_pure _
  | succ f ih =>
      intro lb
      unfold pcmSeekTail.discard
      apply pres_get_bind
      intro s hs
      simp only []
      by_cases hr : s.os.packetpeek.1 > 0
      · rw [if_pos hr]
        by_cases htb : packetBlocksize s.infos[s.current_link.toNat]! s.os.packetpeek.2 < 0
        · rw [if_pos htb]
          exact pres_bind _ _ (pres_set _ (sinv_os s hs _)) (fun _ => ih lb) s hs
        · rw [if_neg htb]
          refine (?_ : Pres _) s hs
          apply pres_bind _ _ (pres_set _ (sinv_pcmoff s hs _))
          intro _
          apply pres_ite
          · exact pres_pure _
          · apply pres_bind _ _ _ (fun _ => ih _)
            apply pres_set
            apply sinv_vd_keep s hs
            intro hsome
            cases hv : s.vd with
            | none => rw [hv] at hsome; exact absurd hsome (by decide)
            | some d => cases packetW s.infos[s.current_link.toNat]! s.os.packetpeek.2 <;> rfl
      · rw [if_neg hr]
        refine (?_ : Pres _) s hs
        apply pres_ite
        · exact pres_pure _
        · apply pres_bind _ _ (pres_getNextPage ph (-1))
          intro r
          obtain ⟨pr, og⟩ := r
          simp only []
          apply pres_ite
          · exact pres_pure _
          · apply pres_bind
            · apply pres_ite
              · exact pres_decodeClear
              · exact pres_pure _
            · intro _
              apply pres_get_bind
              intro s2 hs2
              by_cases h2 : s2.ready < STREAMSET
              · rw [if_pos h2]
                cases hl : linkOf s2 og.serial with
                | none => exact ih lb s2 hs2
                | some link =>
                    simp only []
                    have hser := linkOf_spec s2 og.serial link hl
                    have h3 : SInv { s2 with current_link := link, ready := STREAMSET, current_serialno := og.serial, os := s2.os.resetSerial og.serial } := by
                      refine ⟨hs2.1, ?_, ?_, ?_⟩
                      · intro _
                        refine ⟨by simp, ?_⟩
                        simp [hser]
                      · intro h; exact absurd (show STREAMSET > STREAMSET from h) (by decide)
                      · show STREAMSET ≤ INITSET; decide
                    refine (?_ : Pres _) s2 hs2
                    apply pres_bind _ _ (pres_set _ h3)
                    intro _
                    apply pres_bind _ _ pres_makeDecodeReady
                    intro r3
                    apply pres_ite
                    · exact pres_pure _
                    · exact pres_bind _ _ (pres_modify _ (fun v hv => sinv_os v hv _)) (fun _ => ih 0)
              · rw [if_neg h2]
                exact pres_bind _ _ (pres_set _ (sinv_os s2 hs2 _)) (fun _ => ih lb) s2 hs2

theorem sinv_read (s : VF) (h : SInv s) (d : Dec) (p : Int) : SInv { s with vd := some d, pcm_offset := p } :=
  ⟨h.1, h.2.1, fun _ => rfl, h.2.2.2⟩

theorem pres_skip (ph : Phys) (pos : Int) : ∀ (f : Nat), Pres (pcmSeekTail.skip ph pos f) := by
  intro f
  induction f with
  | zero => unfold pcmSeekTail.skip; exact pres_modify _ (fun v hv => sinv_pcmoff v hv _)
  | succ f ih =>
      unfold pcmSeekTail.skip
      apply pres_get_bind
      intro s hs
      simp only []
      refine (?_ : Pres _) s hs
      apply pres_ite
      · exact pres_pure _
      · split
        · exact pres_pure _
        · rename_i d hd
          apply pres_bind _ _ (pres_set _ (sinv_read s hs _ _))
          intro _
          apply pres_ite
          · apply pres_bind _ _ (pres_fetchAndProcess ph true true _)
            intro r
            apply pres_ite
            · exact pres_bind _ _ (pres_modify _ (fun v hv => sinv_pcmoff v hv _)) (fun _ => ih)
            · exact ih
          · exact ih

theorem pres_pcmSeekTail (ph : Phys) (pos : Int) : Pres (pcmSeekTail ph pos) := by
  unfold pcmSeekTail
  apply pres_bind _ _ (pres_discard ph pos _ 0)
  intro r3
  apply pres_ite
  · exact pres_pure _
  · exact pres_bind _ _ (pres_skip ph pos _) (fun _ => pres_pure _)

theorem execPlan_seekable (f : Int → M Int) (p : SeekPlan) (s : VF) (hnr : ∀ l c o r, p ≠ .viaRaw l c o r) :
    ((execPlan f p).run s).2.seekable = s.seekable := by
  cases p with
  | viaRaw l c o r => exact absurd rfl (hnr l c o r)
  | fail rc c => rfl
  | failSel l c o rc =>
      simp [execPlan, setCur, selectLink, seekError, decodeClear, StateT.run, bind, StateT.bind, modify, modifyGet, MonadStateOf.modifyGet, StateT.modifyGet, pure, StateT.pure]
      unfold selectLinkF; split <;> rfl
  | land l c o po =>
      simp [execPlan, setCur, selectLink, StateT.run, bind, StateT.bind, modify, modifyGet, MonadStateOf.modifyGet, StateT.modifyGet, pure, StateT.pure]
      unfold selectLinkF; split <;> rfl

/-- `ov_pcm_seek_page` keeps the invariant (every plan but the raw-seek fallback) -/
theorem sinv_pcmSeekPage (ph : Phys) (f : Int → M Int) (pos : Int) (s : VF) (hs : SInv s)
    (hnr : ∀ l c o r, planSeekPage ph s.tab pos ≠ .viaRaw l c o r) : SInv ((pcmSeekPage ph f pos).run s).2 := by
  unfold pcmSeekPage
  rw [run_get_bind']
  split
  · exact hs
  · split
    · exact hs
    · split
      · exact hs
      · exact ⟨by rw [execPlan_seekable f _ s hnr]; exact hs.1, wf_execPlan f _ s hs.2 hnr⟩

/-- `ov_pcm_seek` keeps the invariant (every plan but the raw-seek fallback) -/
theorem sinv_pcmSeek (ph : Phys) (f : Int → M Int) (pos : Int) (s : VF) (hs : SInv s)
    (hnr : ∀ l c o r, planSeekPage ph s.tab pos ≠ .viaRaw l c o r) : SInv ((pcmSeek ph f pos).run s).2 := by
  rw [pcmSeek_run]
  have h1 := sinv_pcmSeekPage ph f pos s hs hnr
  split
  · exact h1
  · have h2 := pres_makeDecodeReady _ h1
    split
    · exact h2
    · exact pres_pcmSeekTail ph pos _ h2

/-- states reachable by reads and sample-accurate seeks (whose page search does not fall back to a raw seek) -/
inductive Reach (ph : Phys) (f : Int → M Int) (s : VF) : VF → Prop
  | refl : Reach ph f s s
  | read (t : VF) (n : Int) : Reach ph f s t → Reach ph f s ((readFloat ph n).run t).2
  | seek (t : VF) (pos : Int) : Reach ph f s t → (∀ l c o r, planSeekPage ph t.tab pos ≠ .viaRaw l c o r) →
      Reach ph f s ((pcmSeek ph f pos).run t).2

theorem reach_sinv (ph : Phys) (f : Int → M Int) (s t : VF) (h : Reach ph f s t) (hs : SInv s) : SInv t := by
  induction h with
  | refl => exact hs
  | read t n _ ih => exact pres_readFloat ph n t ih
  | seek t pos _ hnr ih => exact sinv_pcmSeek ph f pos t ih hnr

/-- a seekable handle without stream state (just opened, or after any failed seek) is consistent -/
theorem sinv_of_opened (s : VF) (hk : s.seekable = true) (hr : s.ready ≤ OPENED) : SInv s := by
  refine ⟨hk, ?_, ?_, ?_⟩
  · intro h; have : OPENED < STREAMSET := by decide
    omega
  · intro h; have : OPENED < STREAMSET := by decide
    omega
  · have : OPENED ≤ INITSET := by decide
    omega

end Vorbis.Proofs.FileInv
