import Vorbis.Props.C07
/-
The decode-state consistency `DecWF` (hypothesis of the history-independence and recovery theorems) is an invariant: every call of the
read / sample-seek fragment of the API keeps it on a seekable handle.  Proved function by function over the model (packet loop, page
loop, link selection, `_fetch_and_process_packet`, `ov_read_float`, the discard and skip loops of `ov_pcm_seek`, `ov_pcm_seek_page`
for every plan but the raw-seek fallback).
-/
namespace Vorbis.Proofs.FileInv
open Vorbis Vorbis.File Vorbis.Block Vorbis.Props.C07
set_option linter.unusedSimpArgs false

/-! the state consistency `DecWF` (hypothesis of the history-independence theorems) is preserved by the calls below; for the calls not
    covered here (packet fetching, raw seek, open) it is evaluated by the driver on every state the correspondence runs reach -/

theorem wf_decodeClear (s : VF) : DecWF (decodeClear.run s).2 := by
  have e : (decodeClear.run s).2 = { s with vd := none, lapped := false, ready := OPENED } := rfl
  rw [e]
  refine ⟨?_, ?_, ?_⟩
  · intro h; exact absurd (show OPENED ≥ STREAMSET from h) (by decide)
  · intro h; exact absurd (show OPENED > STREAMSET from h) (by decide)
  · show OPENED ≤ INITSET; decide

theorem wf_seekError (rc : Int) (s : VF) : DecWF ((seekError rc).run s).2 := (seekError_same rc s).2

theorem wf_selectLinkF (link : Nat) (s : VF) (w : DecWF s) : DecWF (selectLinkF link s) := by
  obtain ⟨wl, wv, wr⟩ := w
  unfold selectLinkF
  split
  · refine ⟨?_, ?_, ?_⟩
    · intro _; simp
    · intro h; exact absurd h (by simp)
    · simp only []; decide
  · rename_i hc
    have hr : s.ready ≥ STREAMSET := by
      by_cases e : s.ready < STREAMSET
      · exact absurd (Or.inr e) hc
      · omega
    refine ⟨?_, ?_, ?_⟩
    · intro _; exact wl hr
    · intro h
      have := wv h
      cases hv : s.vd with
      | none => rw [hv] at this; exact absurd this (by decide)
      | some d => simp [hv]
    · exact wr

theorem wf_makeDecodeReady (s : VF) (w : DecWF s) : DecWF (makeDecodeReady.run s).2 := by
  obtain ⟨wl, wv, wr⟩ := w
  unfold makeDecodeReady
  simp only [StateT.run, bind, StateT.bind, get, getThe, MonadStateOf.get, StateT.get, pure, StateT.pure, set, StateT.set]
  by_cases h1 : s.ready > STREAMSET
  · simp only [h1, if_true]; exact ⟨wl, wv, wr⟩
  · simp only [h1, if_false]
    by_cases h2 : s.ready < STREAMSET
    · simp only [h2, if_true]; exact ⟨wl, wv, wr⟩
    · simp only [h2, if_false]
      have hr : s.ready ≥ STREAMSET := by omega
      refine ⟨?_, ?_, ?_⟩
      · intro _; exact wl hr
      · intro _; rfl
      · show INITSET ≤ INITSET; decide

theorem wf_readTake (s : VF) (n : Int) (w : DecWF s) : DecWF (readTake s n).2 := by
  obtain ⟨wl, wv, wr⟩ := w
  unfold readTake
  refine ⟨wl, ?_, wr⟩
  intro h
  have := wv h
  cases hv : s.vd with
  | none => rw [hv] at this; exact absurd this (by decide)
  | some d => simp [hv]

theorem wf_execPlan (f : Int → M Int) (p : SeekPlan) (s : VF) (w : DecWF s) (hnr : ∀ l c o r, p ≠ .viaRaw l c o r) :
    DecWF ((execPlan f p).run s).2 := by
  cases p with
  | fail rc c => exact (failing_plan_same f _ s (Or.inl ⟨rc, c, rfl⟩)).2
  | failSel l c o rc => exact (failing_plan_same f _ s (Or.inr ⟨l, c, o, rc, rfl⟩)).2
  | viaRaw l c o r => exact absurd rfl (hnr l c o r)
  | land l c o po =>
      have e : (execPlan f (.land l c o po)).run s =
          (0, { (selectLinkF l { s with offset := c.off, fill := c.fill }) with os := o, pcm_offset := po }) := by
        simp [execPlan, setCur, selectLink, StateT.run, bind, StateT.bind, modify, modifyGet, MonadStateOf.modifyGet, StateT.modifyGet, pure, StateT.pure]
      rw [e]
      have w1 : DecWF { s with offset := c.off, fill := c.fill } := w
      have w2 := wf_selectLinkF l _ w1
      exact w2

/-- the invariant: a seekable handle in a consistent decode state -/
def SInv (s : VF) : Prop := s.seekable = true ∧ DecWF s ∧ OPENED ≤ s.ready

/-- what a predicate on handles must satisfy for the preservation proofs below to go through: it speaks about nothing the read / seek
    machinery writes except through these primitive steps -/
structure InvOps (I : VF → Prop) : Prop where
  seekable : ∀ s, I s → s.seekable = true
  cursor : ∀ s, I s → ∀ o f, I { s with offset := o, fill := f }
  os : ∀ s, I s → ∀ o, I { s with os := o }
  pcmoff : ∀ s, I s → ∀ p, I { s with pcm_offset := p }
  vdSome : ∀ s, I s → ∀ d l, I { s with vd := some d, lapped := l }
  read : ∀ s, I s → ∀ d p, I { s with vd := some d, pcm_offset := p }
  vdKeep : ∀ s, I s → ∀ v, (s.vd.isSome = true → v.isSome = true) → ∀ o p, I { s with os := o, vd := v, pcm_offset := p }
  decodeClear : ∀ s, I s → I (decodeClear.run s).2
  makeReady : ∀ s, I s → I (makeDecodeReady.run s).2
  restart : ∀ s, I s → I (restartDec.run s).2
  select : ∀ s, I s → ∀ link, I (selectLinkF link s)
  lapout : ∀ s, I s → I (lapoutVF s)
  link : ∀ s, I s → ∀ serial link, linkOf s serial = some link → ∀ o,
    I { s with current_serialno := serial, current_link := (link : Int), os := o, ready := STREAMSET }
  take : ∀ s, I s → ∀ n, I (readTake s n).2
  exec : ∀ (f : Int → M Int) p s, I s → (∀ l c o r, p ≠ .viaRaw l c o r) → I ((execPlan f p).run s).2

/-- `m` keeps the predicate -/
def Pres (I : VF → Prop) {α : Type} (m : M α) : Prop := ∀ s, I s → I (m.run s).2

section generic
variable {I : VF → Prop}

theorem pres_pure {α : Type} (a : α) : Pres I (pure a : M α) := fun _ h => h

theorem pres_bind {α β : Type} (m : M α) (k : α → M β) (hm : Pres I m) (hk : ∀ a, Pres I (k a)) : Pres I (m >>= k) := by
  intro s hs
  show I ((StateT.bind m k) s).2
  unfold StateT.bind
  simp only [bind]
  have := hm s hs
  cases hms : m s with
  | mk a s' =>
      have e : (m.run s).2 = s' := by show (m s).2 = s'; rw [hms]
      rw [e] at this
      exact hk a s' this

/-- reading the state: the continuation may use that the state it is given is the current one and satisfies the predicate -/
theorem pres_get_bind {β : Type} (k : VF → M β) (h : ∀ s, I s → I ((k s).run s).2) : Pres I (get >>= k) := by
  intro s hs
  exact h s hs

theorem pres_set (s' : VF) (h : I s') : Pres I (set s' : M Unit) := fun _ _ => h
theorem pres_modify (f : VF → VF) (h : ∀ s, I s → I (f s)) : Pres I (modify f : M Unit) := fun s hs => h s hs

theorem pres_ite {α : Type} (c : Prop) [Decidable c] (a b : M α) (ha : Pres I a) (hb : Pres I b) : Pres I (if c then a else b) := by
  split <;> assumption

theorem run_get_bind' {β : Type} (k : VF → M β) (s : VF) : ((get >>= k).run s) = (k s).run s := rfl
theorem run_modify_bind {β : Type} (f : VF → VF) (k : Unit → M β) (s : VF) : ((modify f >>= k).run s) = (k ()).run (f s) := rfl

variable (ops : InvOps I)
include ops

theorem pres_decodeClear : Pres I decodeClear := fun s hs => ops.decodeClear s hs
theorem pres_makeDecodeReady : Pres I makeDecodeReady := fun s hs => ops.makeReady s hs
theorem pres_setCur (c : Cur) : Pres I (setCur c) := pres_modify _ (fun s hs => ops.cursor s hs c.off c.fill)

theorem pres_getNextPage (ph : Phys) (b : Int) : Pres I (getNextPage ph b) := by
  unfold getNextPage
  apply pres_get_bind
  intro s hs
  simp only []
  exact pres_bind _ _ (pres_setCur ops _) (fun _ => pres_pure _) s hs

theorem pres_packets : ∀ (f : Nat), Pres I (fpPackets f) := by
  intro f
  induction f with
  | zero => unfold fpPackets; exact pres_pure _
  | succ f ih =>
      unfold fpPackets
      apply pres_get_bind
      intro s hs
      simp only []
      refine (?_ : Pres I _) s hs
      apply pres_ite
      · exact pres_bind _ _ (pres_set _ (ops.os s hs _)) (fun _ => pres_pure _)
      · apply pres_ite
        · apply pres_bind _ _ (pres_set _ (ops.os s hs _))
          intro _
          split
          · apply pres_ite
            · exact pres_pure _
            · apply pres_bind _ _ (pres_modify _ (fun v hv => ops.vdSome v hv _ _))
              intro _
              apply pres_ite
              · exact pres_bind _ _ (pres_modify _ (fun v hv => ops.pcmoff v hv _)) (fun _ => pres_pure _)
              · exact pres_pure _
          · exact ih
        · exact pres_pure _

theorem pres_page (ph : Phys) (readp spanp : Bool) : ∀ (f : Nat), Pres I (fpPage ph readp spanp f) := by
  intro f
  induction f with
  | zero => unfold fpPage; exact pres_pure _
  | succ f ih =>
      unfold fpPage
      apply pres_ite
      · exact pres_pure _
      · apply pres_bind _ _ (pres_getNextPage ops ph (-1))
        intro r
        obtain ⟨ret, og⟩ := r
        simp only []
        apply pres_ite
        · exact pres_pure _
        · apply pres_get_bind
          intro s hs
          refine (?_ : Pres I _) s hs
          apply pres_ite
          · apply pres_ite
            · apply pres_ite
              · exact pres_pure _
              · apply pres_bind _ _ (pres_decodeClear ops)
                intro _
                have hsk : ¬ ((!s.seekable) = true) := by rw [ops.seekable s hs]; decide
                rw [if_neg hsk]
                exact pres_pure _
            · exact ih
          · exact pres_pure _

theorem pres_fpAfterPage (ph : Phys) (again : M Int) (ha : Pres I again) (og : Page) : Pres I (fpAfterPage ph again og) := by
  unfold fpAfterPage
  apply pres_get_bind
  intro s hs
  simp only []
  by_cases hc : s.ready ≠ INITSET ∧ s.ready < STREAMSET
  · rw [if_pos hc, if_pos (ops.seekable s hs)]
    cases hl : linkOf s og.serial with
    | none => exact ha s hs
    | some link =>
        simp only []
        rw [run_modify_bind]
        apply ha
        exact ops.link s hs og.serial link hl _
  · rw [if_neg hc]
    exact pres_bind _ _ (pres_modify _ (fun v hv => ops.os v hv _)) (fun _ => ha) s hs

theorem pres_fpPageStep (ph : Phys) (readp spanp : Bool) (again : M Int) (ha : Pres I again) : Pres I (fpPageStep ph readp spanp again) := by
  unfold fpPageStep
  apply pres_get_bind
  intro s hs
  simp only []
  refine (?_ : Pres I _) s hs
  apply pres_ite
  · exact pres_pure _
  · apply pres_bind _ _ (pres_page ops ph readp spanp _)
    intro r
    obtain ⟨rc, og, stop⟩ := r
    simp only []
    apply pres_ite
    · exact pres_pure _
    · exact pres_fpAfterPage ops ph again ha og

theorem pres_fetchAndProcess (ph : Phys) (readp spanp : Bool) : ∀ (fuel : Nat), Pres I (fetchAndProcess ph readp spanp fuel) := by
  intro fuel
  induction fuel with
  | zero => unfold fetchAndProcess; exact pres_pure _
  | succ fuel ih =>
      unfold fetchAndProcess
      apply pres_get_bind
      intro s hs
      refine (?_ : Pres I _) s hs
      apply pres_bind
      · apply pres_ite
        · exact pres_makeDecodeReady ops
        · exact pres_pure _
      · intro r0
        apply pres_ite
        · exact pres_pure _
        · apply pres_get_bind
          intro s2 hs2
          refine (?_ : Pres I _) s2 hs2
          apply pres_bind
          · apply pres_ite
            · exact pres_packets ops _
            · exact pres_pure _
          · intro pr
            cases pr with
            | some r => exact pres_pure _
            | none => exact pres_fpPageStep ops ph readp spanp _ ih

theorem pres_readLoop (ph : Phys) (length : Int) : ∀ f, Pres I (readFloat.loop ph length f) := by
  intro f
  induction f with
  | zero => unfold readFloat.loop; exact pres_pure _
  | succ f ih =>
      unfold readFloat.loop
      apply pres_get_bind
      intro s hs
      simp only []
      refine (?_ : Pres I _) s hs
      apply pres_ite
      · exact pres_bind _ _ (pres_set _ (ops.take s hs length)) (fun _ => pres_pure _)
      · apply pres_bind _ _ (pres_fetchAndProcess ops ph true true _)
        intro r
        apply pres_ite
        · exact pres_pure _
        · apply pres_ite
          · exact pres_pure _
          · exact ih

/-- `ov_read_float` keeps the invariant -/
theorem pres_readFloat (ph : Phys) (length : Int) : Pres I (readFloat ph length) := by
  unfold readFloat
  apply pres_get_bind
  intro s hs
  refine (?_ : Pres I _) s hs
  apply pres_ite
  · exact pres_pure _
  · exact pres_readLoop ops ph length _

theorem pres_discard (ph : Phys) (pos : Int) : ∀ (f : Nat) (lb : Int), Pres I (pcmSeekTail.discard ph pos f lb) := by
  intro f
  induction f with
  | zero => intro lb; unfold pcmSeekTail.discard; exact pres_pure _
  | succ f ih =>
      intro lb
      unfold pcmSeekTail.discard
      apply pres_get_bind
      intro s hs
      simp only []
      by_cases hr : s.os.packetpeek.1 > 0
      · rw [if_pos hr]
        by_cases htb : packetBlocksize s.infos[s.current_link.toNat]! s.os.packetpeek.2 < 0
        · rw [if_pos htb]
          exact pres_bind _ _ (pres_set _ (ops.os s hs _)) (fun _ => ih lb) s hs
        · rw [if_neg htb]
          refine (?_ : Pres I _) s hs
          apply pres_bind _ _ (pres_set _ (ops.pcmoff s hs _))
          intro _
          apply pres_ite
          · exact pres_pure _
          · apply pres_bind _ _ _ (fun _ => ih _)
            apply pres_set
            apply ops.vdKeep s hs
            intro hsome
            cases hv : s.vd with
            | none => rw [hv] at hsome; exact absurd hsome (by decide)
            | some d => cases packetW s.infos[s.current_link.toNat]! s.os.packetpeek.2 <;> rfl
      · rw [if_neg hr]
        refine (?_ : Pres I _) s hs
        apply pres_ite
        · exact pres_pure _
        · apply pres_bind _ _ (pres_getNextPage ops ph (-1))
          intro r
          obtain ⟨pr, og⟩ := r
          simp only []
          apply pres_ite
          · exact pres_pure _
          · apply pres_bind
            · apply pres_ite
              · exact (pres_decodeClear ops)
              · exact pres_pure _
            · intro _
              apply pres_get_bind
              intro s2 hs2
              by_cases h2 : s2.ready < STREAMSET
              · rw [if_pos h2]
                cases hl : linkOf s2 og.serial with
                | none => exact ih lb s2 hs2
                | some link =>
                    simp only []
                    have h3 := ops.link s2 hs2 og.serial link hl (s2.os.resetSerial og.serial)
                    refine (?_ : Pres I _) s2 hs2
                    apply pres_bind _ _ (pres_set _ h3)
                    intro _
                    apply pres_bind _ _ (pres_makeDecodeReady ops)
                    intro r3
                    apply pres_ite
                    · exact pres_pure _
                    · exact pres_bind _ _ (pres_modify _ (fun v hv => ops.os v hv _)) (fun _ => ih 0)
              · rw [if_neg h2]
                exact pres_bind _ _ (pres_set _ (ops.os s2 hs2 _)) (fun _ => ih lb) s2 hs2

theorem pres_skip (ph : Phys) (pos : Int) : ∀ (f : Nat), Pres I (pcmSeekTail.skip ph pos f) := by
  intro f
  induction f with
  | zero => unfold pcmSeekTail.skip; exact pres_modify _ (fun v hv => ops.pcmoff v hv _)
  | succ f ih =>
      unfold pcmSeekTail.skip
      apply pres_get_bind
      intro s hs
      simp only []
      refine (?_ : Pres I _) s hs
      apply pres_ite
      · exact pres_pure _
      · split
        · exact pres_pure _
        · rename_i d hd
          apply pres_bind _ _ (pres_set _ (ops.read s hs _ _))
          intro _
          apply pres_ite
          · apply pres_bind _ _ (pres_fetchAndProcess ops ph true true _)
            intro r
            apply pres_ite
            · exact pres_bind _ _ (pres_modify _ (fun v hv => ops.pcmoff v hv _)) (fun _ => ih)
            · exact ih
          · exact ih

theorem pres_pcmSeekTail (ph : Phys) (pos : Int) : Pres I (pcmSeekTail ph pos) := by
  unfold pcmSeekTail
  apply pres_bind _ _ (pres_discard ops ph pos _ 0)
  intro r3
  apply pres_ite
  · exact pres_pure _
  · exact pres_bind _ _ (pres_skip ops ph pos _) (fun _ => pres_pure _)

/-- `ov_pcm_seek_page` keeps the predicate (every plan but the raw-seek fallback) -/
theorem inv_pcmSeekPage (ph : Phys) (f : Int → M Int) (pos : Int) (s : VF) (hs : I s)
    (hnr : ∀ l c o r, planSeekPage ph s.tab pos ≠ .viaRaw l c o r) : I ((pcmSeekPage ph f pos).run s).2 := by
  unfold pcmSeekPage
  rw [run_get_bind']
  split
  · exact hs
  · split
    · exact hs
    · split
      · exact hs
      · exact ops.exec f _ s hs hnr

/-- `ov_pcm_seek` keeps the predicate (every plan but the raw-seek fallback) -/
theorem inv_pcmSeek (ph : Phys) (f : Int → M Int) (pos : Int) (s : VF) (hs : I s)
    (hnr : ∀ l c o r, planSeekPage ph s.tab pos ≠ .viaRaw l c o r) : I ((pcmSeek ph f pos).run s).2 := by
  rw [pcmSeek_run]
  have h1 := inv_pcmSeekPage ops ph f pos s hs hnr
  split
  · exact h1
  · have h2 := ops.makeReady _ h1
    split
    · exact h2
    · exact pres_pcmSeekTail ops ph pos _ h2

theorem pres_rawLoop (ph : Phys) : ∀ (fuel : Nat) (work : OStream) (lb acc : Int) (lf ff fs : Bool),
    Pres I (rawSeek.loop ph fuel work lb acc lf ff fs) := by
  intro fuel
  induction fuel with
  | zero => intro work lb acc lf ff fs; unfold rawSeek.loop; exact pres_modify _ (fun v hv => ops.pcmoff v hv _)
  | succ fuel ih =>
      intro work lb acc lf ff fs
      unfold rawSeek.loop
      apply pres_get_bind
      intro s hs
      simp only []
      refine (?_ : Pres I _) s hs
      apply pres_ite
      · apply pres_bind
        · apply pres_ite
          · exact pres_bind _ _ (pres_modify _ (fun v hv => ops.os v hv _)) (fun _ => pres_pure _)
          · apply pres_ite
            · exact pres_bind _ _ (pres_modify _ (fun v hv => ops.os v hv _)) (fun _ => pres_pure _)
            · exact pres_pure _
        · intro x
          apply pres_ite
          · exact pres_bind _ _ (pres_modify _ (fun v hv => ops.pcmoff v hv _)) (fun _ => pres_pure _)
          · exact ih _ _ _ _ _ _
      · apply pres_ite
        · exact pres_bind _ _ (pres_modify _ (fun v hv => ops.pcmoff v hv _)) (fun _ => pres_pure _)
        · apply pres_bind _ _ (pres_getNextPage ops ph (-1))
          intro x
          apply pres_ite
          · exact pres_bind _ _ (pres_modify _ (fun v hv => ops.pcmoff v hv _)) (fun _ => pres_pure _)
          · apply pres_get_bind
            intro s1 hs1
            refine (?_ : Pres I _) s1 hs1
            apply pres_bind
            · apply pres_ite
              · exact pres_decodeClear ops
              · exact pres_pure _
            · intro _
              apply pres_get_bind
              intro s2 hs2
              by_cases h2 : s2.ready < STREAMSET
              · rw [if_pos h2]
                cases hl : linkOf s2 x.2.serial with
                | none => exact ih _ _ _ _ _ _ s2 hs2
                | some link =>
                    simp only []
                    rw [run_modify_bind]
                    apply ih
                    exact ops.link s2 hs2 x.2.serial link hl _
              · rw [if_neg h2]
                exact pres_bind _ _ (pres_modify _ (fun v hv => ops.os v hv _)) (fun _ => ih _ _ _ _ _ _) s2 hs2

theorem pres_rawSeek (ph : Phys) (pos : Int) : Pres I (rawSeek ph pos) := by
  unfold rawSeek
  apply pres_get_bind
  intro s hs
  refine (?_ : Pres I _) s hs
  have hjp : Pres I (do
      modify fun vf => { vf with pcm_offset := -1, os := vf.os.resetSerial vf.current_serialno }
      restartDec
      let _ ← seekHelper pos
      let vf0 ← get
      let work0 : OStream := { serial := vf0.current_serialno }
      rawSeek.loop ph (2 * ph.work) work0 0 0 false false false
      return 0 : M Int) := by
    apply pres_bind _ _ (pres_modify _ (fun v hv => (ops.os _ (ops.pcmoff v hv (-1)) (v.os.resetSerial v.current_serialno) : I { v with pcm_offset := -1, os := v.os.resetSerial v.current_serialno })))
    intro _
    apply pres_bind _ _ (fun v hv => ops.restart v hv)
    intro _
    apply pres_bind _ _ (pres_bind _ _ (pres_setCur ops _) (fun _ => pres_pure _))
    intro _
    apply pres_get_bind
    intro v hv
    exact pres_bind _ _ (pres_rawLoop ops ph _ _ _ _ _ _ _) (fun _ => pres_pure _) v hv
  apply pres_ite
  · exact pres_pure _
  · apply pres_ite
    · exact pres_pure _
    · apply pres_ite
      · exact pres_pure _
      · simp only []
        apply pres_ite
        · apply pres_ite
          · exact pres_bind _ _ (pres_decodeClear ops) (fun _ => hjp)
          · exact hjp
        · exact hjp

/-- with the real raw seek as fall-back every plan keeps the predicate -/
theorem inv_execPlan_raw (ph : Phys) (p : SeekPlan) (s : VF) (hs : I s) : I ((execPlan (rawSeek ph) p).run s).2 := by
  cases p with
  | fail rc c => exact ops.exec _ _ s hs (by intro l c o r h; cases h)
  | failSel l c o rc => exact ops.exec _ _ s hs (by intro l c o r h; cases h)
  | land l c o po => exact ops.exec _ _ s hs (by intro l c o r h; cases h)
  | viaRaw l c o r =>
      unfold execPlan
      refine (?_ : Pres I _) s hs
      apply pres_bind _ _ (pres_setCur ops _)
      intro _
      apply pres_bind _ _ (pres_modify _ (fun v hv => ops.select v hv l))
      intro _
      apply pres_bind _ _ (pres_modify _ (fun v hv => (ops.pcmoff _ (ops.os v hv o) (-1) : I { v with os := o, pcm_offset := -1 })))
      intro _
      exact pres_rawSeek ops ph r

/-- `ov_pcm_seek_page` and `ov_pcm_seek` as the library runs them (raw seek as fall-back) keep the predicate, whatever the plan -/
theorem inv_pcmSeekPage_raw (ph : Phys) (pos : Int) (s : VF) (hs : I s) : I ((pcmSeekPage ph (rawSeek ph) pos).run s).2 := by
  unfold pcmSeekPage
  rw [run_get_bind']
  split
  · exact hs
  · split
    · exact hs
    · split
      · exact hs
      · exact inv_execPlan_raw ops ph _ s hs

theorem inv_pcmSeek_raw (ph : Phys) (pos : Int) (s : VF) (hs : I s) : I ((pcmSeek ph (rawSeek ph) pos).run s).2 := by
  rw [pcmSeek_run]
  have h1 := inv_pcmSeekPage_raw ops ph pos s hs
  split
  · exact h1
  · have h2 := ops.makeReady _ h1
    split
    · exact h2
    · exact pres_pcmSeekTail ops ph pos _ h2

theorem pres_initset (ph : Phys) : ∀ f, Pres I (initset ph f) := by
  intro f
  induction f with
  | zero => unfold initset; exact pres_pure _
  | succ f ih =>
      unfold initset
      apply pres_get_bind
      intro s hs
      refine (?_ : Pres I _) s hs
      apply pres_ite
      · exact pres_pure _
      · apply pres_bind _ _ (pres_fetchAndProcess ops ph true false _)
        intro r
        apply pres_ite
        · exact pres_pure _
        · exact ih

theorem pres_initprime (ph : Phys) : ∀ f, Pres I (initprime ph f) := by
  intro f
  induction f with
  | zero => unfold initprime; exact pres_pure _
  | succ f ih =>
      unfold initprime
      apply pres_get_bind
      intro s hs
      simp only []
      refine (?_ : Pres I _) s hs
      apply pres_ite
      · exact pres_pure _
      · apply pres_bind _ _ (pres_fetchAndProcess ops ph true true _)
        intro r
        apply pres_ite
        · exact pres_pure _
        · exact ih

theorem pres_getlap (ph : Phys) (lapsize : Int) : ∀ f c, Pres I (getlap ph lapsize f c) := by
  intro f
  induction f with
  | zero => intro c; unfold getlap; exact pres_pure _
  | succ f ih =>
      intro c
      unfold getlap
      apply pres_ite
      · exact pres_pure _
      · apply pres_get_bind
        intro s hs
        simp only []
        split
        · exact pres_pure _ s hs
        · rename_i d hd
          refine (?_ : Pres I _) s hs
          apply pres_ite
          · apply pres_bind _ _ _ (fun _ => ih _)
            apply pres_set
            exact (ops.vdSome s hs _ s.lapped : I { s with vd := some _ })
          · apply pres_bind _ _ (pres_fetchAndProcess ops ph true false _)
            intro r
            apply pres_ite
            · exact pres_pure _
            · exact ih _

theorem pres_doLapout : Pres I doLapout := pres_modify _ (fun v hv => ops.lapout v hv)

theorem pres_getlapFull (ph : Phys) (lapsize : Int) : Pres I (getlapFull ph lapsize) := by
  unfold getlapFull
  apply pres_bind _ _ (pres_getlap ops ph lapsize _ _)
  intro c
  apply pres_ite
  · exact pres_doLapout ops
  · exact pres_pure _

theorem pres_lapPrefix (ph : Phys) : Pres I (lapPrefix ph) := by
  unfold lapPrefix
  apply pres_bind _ _ (pres_initset ops ph _)
  intro r
  apply pres_ite
  · exact pres_pure _
  · apply pres_get_bind
    intro s hs
    exact pres_bind _ _ (pres_getlapFull ops ph _) (fun _ => pres_pure _) s hs

/-- a time seek keeps whatever the sample seek it resolves to keeps (the target arithmetic is in doubles and opaque here: any target will do) -/
theorem pres_timeSeek (seekF : Int → M Int) (hl : ∀ pos, Pres I (seekF pos)) (secs : Float) : Pres I (timeSeek seekF secs) := by
  unfold timeSeek
  apply pres_get_bind
  intro s hs
  refine (?_ : Pres I _) s hs
  apply pres_ite
  · exact pres_pure _
  · apply pres_ite
    · exact pres_pure _
    · apply pres_ite
      · exact pres_pure _
      · split
        · exact pres_pure _
        · exact hl _

/-- a lapped seek keeps whatever its inner seek keeps: collecting the lapping samples, priming and `lapout` are made of the same steps -/
theorem pres_seekLap (ph : Phys) (localseek : M Int) (hl : Pres I localseek) : Pres I (seekLap ph localseek) := by
  unfold seekLap
  apply pres_get_bind
  intro s hs
  refine (?_ : Pres I _) s hs
  apply pres_ite
  · exact pres_pure _
  · apply pres_bind _ _ (pres_lapPrefix ops ph)
    intro r
    apply pres_ite
    · exact pres_pure _
    · apply pres_bind _ _ hl
      intro r2
      apply pres_ite
      · exact pres_pure _
      · apply pres_bind _ _ (pres_initprime ops ph _)
        intro r3
        apply pres_ite
        · exact pres_pure _
        · exact pres_bind _ _ (pres_doLapout ops) (fun _ => pres_pure _)

end generic

theorem linkOf_spec (vf : VF) (serial : Int) (link : Nat) (h : linkOf vf serial = some link) : vf.serialnos[link]! = serial := by
  unfold linkOf at h
  have := List.find?_some h
  simpa using this

theorem execPlan_seekable (f : Int → M Int) (p : SeekPlan) (s : VF) (hnr : ∀ l c o r, p ≠ .viaRaw l c o r) :
    ((execPlan f p).run s).2.seekable = s.seekable := by
  cases p with
  | viaRaw l c o r => exact absurd rfl (hnr l c o r)
  | fail rc c => rfl
  | failSel l c o rc =>
      simp [execPlan, setCur, selectLink, seekError, decodeClear, StateT.run, bind, StateT.bind, modify, modifyGet, MonadStateOf.modifyGet, StateT.modifyGet, pure, StateT.pure]
      unfold selectLinkF; split <;> rfl
  | land l c o po =>
      simp [execPlan, setCur, selectLink, StateT.run, bind, StateT.bind, modify, modifyGet, MonadStateOf.modifyGet, StateT.modifyGet, pure, StateT.pure]
      unfold selectLinkF; split <;> rfl

theorem makeDecodeReady_seekable (s : VF) : (makeDecodeReady.run s).2.seekable = s.seekable := by
  unfold makeDecodeReady
  simp only [StateT.run, bind, StateT.bind, get, getThe, MonadStateOf.get, StateT.get, pure, StateT.pure, set, StateT.set]
  split
  · rfl
  · split <;> rfl

theorem makeDecodeReady_ready (s : VF) (h : OPENED ≤ s.ready) : OPENED ≤ (makeDecodeReady.run s).2.ready := by
  unfold makeDecodeReady
  simp only [StateT.run, bind, StateT.bind, get, getThe, MonadStateOf.get, StateT.get, pure, StateT.pure, set, StateT.set]
  split
  · exact h
  · split
    · exact h
    · show OPENED ≤ INITSET; decide

theorem execPlan_ready (f : Int → M Int) (p : SeekPlan) (s : VF) (h : OPENED ≤ s.ready) (hnr : ∀ l c o r, p ≠ .viaRaw l c o r) :
    OPENED ≤ ((execPlan f p).run s).2.ready := by
  cases p with
  | viaRaw l c o r => exact absurd rfl (hnr l c o r)
  | fail rc c => show OPENED ≤ OPENED; decide
  | failSel l c o rc => show OPENED ≤ OPENED; decide
  | land l c o po =>
      have e : (execPlan f (.land l c o po)).run s =
          (0, { (selectLinkF l { s with offset := c.off, fill := c.fill }) with os := o, pcm_offset := po }) := by
        simp [execPlan, setCur, selectLink, StateT.run, bind, StateT.bind, modify, modifyGet, MonadStateOf.modifyGet, StateT.modifyGet, pure, StateT.pure]
      rw [e]
      unfold selectLinkF
      split
      · show OPENED ≤ STREAMSET; decide
      · exact h

/-- the consistency invariant meets the requirements -/
theorem sinvOps : InvOps SInv where
  seekable := fun _ h => h.1
  cursor := fun _ h _ _ => h
  os := fun _ h _ => h
  pcmoff := fun _ h _ => h
  vdSome := fun _ h _ _ => ⟨h.1, ⟨h.2.1.1, fun _ => rfl, h.2.1.2.2⟩, h.2.2⟩
  read := fun _ h _ _ => ⟨h.1, ⟨h.2.1.1, fun _ => rfl, h.2.1.2.2⟩, h.2.2⟩
  vdKeep := fun _ h _ hv _ _ => ⟨h.1, ⟨h.2.1.1, fun hr => hv (h.2.1.2.1 hr), h.2.1.2.2⟩, h.2.2⟩
  decodeClear := fun s h => ⟨h.1, wf_decodeClear s, by show OPENED ≤ OPENED; decide⟩
  makeReady := fun s h => ⟨by rw [makeDecodeReady_seekable]; exact h.1, wf_makeDecodeReady s h.2.1, makeDecodeReady_ready s h.2.2⟩
  lapout := fun s h => by
    unfold lapoutVF
    split
    · exact h
    · refine ⟨h.1, ⟨h.2.1.1, fun hr => ?_, h.2.1.2.2⟩, h.2.2⟩
      have := h.2.1.2.1 hr
      show (s.vd.map (fun d => (File.lapout (sizesOf s) s.hs d).1)).isSome = true
      cases hv : s.vd with
      | none => rw [hv] at this; exact absurd this (by decide)
      | some d => rfl
  select := fun s h link => ⟨by unfold selectLinkF; split <;> exact h.1, wf_selectLinkF link s h.2.1, by
    unfold selectLinkF
    split
    · show OPENED ≤ STREAMSET; decide
    · exact h.2.2⟩
  restart := fun s h => ⟨h.1, ⟨h.2.1.1, fun hr => by
    have := h.2.1.2.1 hr
    show (s.vd.map (fun _ => freshDec s)).isSome = true
    cases hv : s.vd with
    | none => rw [hv] at this; exact absurd this (by decide)
    | some d => rfl, h.2.1.2.2⟩, h.2.2⟩
  link := fun s h serial link hl o => by
    have hser := linkOf_spec s serial link hl
    refine ⟨h.1, ⟨?_, ?_, ?_⟩, ?_⟩
    · intro _
      refine ⟨by simp, ?_⟩
      simp [hser]
    · intro hh; exact absurd (show STREAMSET > STREAMSET from hh) (by decide)
    · show STREAMSET ≤ INITSET; decide
    · show OPENED ≤ STREAMSET; decide
  take := fun s h n => ⟨h.1, wf_readTake s n h.2.1, h.2.2⟩
  exec := fun f p s h hnr => ⟨by rw [execPlan_seekable f p s hnr]; exact h.1, wf_execPlan f p s h.2.1 hnr, execPlan_ready f p s h.2.2 hnr⟩

/-- consistent and still the same file as `s0`: what `ov_open` fixed is untouched -/
def J (s0 : VF) (s : VF) : Prop := SInv s ∧ SameFile s0 s

theorem same_makeDecodeReady (s : VF) : SameFile s (makeDecodeReady.run s).2 := by
  unfold makeDecodeReady
  simp only [StateT.run, bind, StateT.bind, get, getThe, MonadStateOf.get, StateT.get, pure, StateT.pure, set, StateT.set]
  split
  · exact sameFile_refl s
  · split
    · exact sameFile_refl s
    · exact ⟨rfl, rfl, rfl, rfl, rfl, rfl, rfl, rfl⟩

theorem same_execPlan (f : Int → M Int) (p : SeekPlan) (s : VF) (hnr : ∀ l c o r, p ≠ .viaRaw l c o r) :
    SameFile s ((execPlan f p).run s).2 := by
  cases p with
  | viaRaw l c o r => exact absurd rfl (hnr l c o r)
  | fail rc c => exact (failing_plan_same f _ s (Or.inl ⟨rc, c, rfl⟩)).1
  | failSel l c o rc => exact (failing_plan_same f _ s (Or.inr ⟨l, c, o, rc, rfl⟩)).1
  | land l c o po =>
      have e : (execPlan f (.land l c o po)).run s =
          (0, { (selectLinkF l { s with offset := c.off, fill := c.fill }) with os := o, pcm_offset := po }) := by
        simp [execPlan, setCur, selectLink, StateT.run, bind, StateT.bind, modify, modifyGet, MonadStateOf.modifyGet, StateT.modifyGet, pure, StateT.pure]
      rw [e]
      unfold selectLinkF
      split <;> exact ⟨rfl, rfl, rfl, rfl, rfl, rfl, rfl, rfl⟩

theorem jOps (s0 : VF) : InvOps (J s0) where
  seekable := fun _ h => h.1.1
  cursor := fun s h o f => ⟨sinvOps.cursor s h.1 o f, sameFile_trans h.2 ⟨rfl, rfl, rfl, rfl, rfl, rfl, rfl, rfl⟩⟩
  os := fun s h o => ⟨sinvOps.os s h.1 o, sameFile_trans h.2 ⟨rfl, rfl, rfl, rfl, rfl, rfl, rfl, rfl⟩⟩
  pcmoff := fun s h p => ⟨sinvOps.pcmoff s h.1 p, sameFile_trans h.2 ⟨rfl, rfl, rfl, rfl, rfl, rfl, rfl, rfl⟩⟩
  vdSome := fun s h d l => ⟨sinvOps.vdSome s h.1 d l, sameFile_trans h.2 ⟨rfl, rfl, rfl, rfl, rfl, rfl, rfl, rfl⟩⟩
  read := fun s h d p => ⟨sinvOps.read s h.1 d p, sameFile_trans h.2 ⟨rfl, rfl, rfl, rfl, rfl, rfl, rfl, rfl⟩⟩
  vdKeep := fun s h v hv o p => ⟨sinvOps.vdKeep s h.1 v hv o p, sameFile_trans h.2 ⟨rfl, rfl, rfl, rfl, rfl, rfl, rfl, rfl⟩⟩
  decodeClear := fun s h => ⟨sinvOps.decodeClear s h.1, sameFile_trans h.2 ⟨rfl, rfl, rfl, rfl, rfl, rfl, rfl, rfl⟩⟩
  makeReady := fun s h => ⟨sinvOps.makeReady s h.1, sameFile_trans h.2 (same_makeDecodeReady s)⟩
  restart := fun s h => ⟨sinvOps.restart s h.1, sameFile_trans h.2 ⟨rfl, rfl, rfl, rfl, rfl, rfl, rfl, rfl⟩⟩
  lapout := fun s h => ⟨sinvOps.lapout s h.1, sameFile_trans h.2 (by unfold lapoutVF; split <;> exact ⟨rfl, rfl, rfl, rfl, rfl, rfl, rfl, rfl⟩)⟩
  select := fun s h link => ⟨sinvOps.select s h.1 link, sameFile_trans h.2 (by unfold selectLinkF; split <;> exact ⟨rfl, rfl, rfl, rfl, rfl, rfl, rfl, rfl⟩)⟩
  link := fun s h serial link hl o => ⟨sinvOps.link s h.1 serial link hl o, sameFile_trans h.2 ⟨rfl, rfl, rfl, rfl, rfl, rfl, rfl, rfl⟩⟩
  take := fun s h n => ⟨sinvOps.take s h.1 n, sameFile_trans h.2 ⟨rfl, rfl, rfl, rfl, rfl, rfl, rfl, rfl⟩⟩
  exec := fun f p s h hnr => ⟨sinvOps.exec f p s h.1 hnr, sameFile_trans h.2 (same_execPlan f p s hnr)⟩

/-- states reachable by any sequence of reads, sample-accurate seeks, page seeks, raw seeks and time seeks, plain or lapped -/
inductive Reach (ph : Phys) (s : VF) : VF → Prop
  | refl : Reach ph s s
  | read (t : VF) (n : Int) : Reach ph s t → Reach ph s ((readFloat ph n).run t).2
  | seek (t : VF) (pos : Int) : Reach ph s t → Reach ph s ((pcmSeek ph (rawSeek ph) pos).run t).2
  | page (t : VF) (pos : Int) : Reach ph s t → Reach ph s ((pcmSeekPage ph (rawSeek ph) pos).run t).2
  | raw (t : VF) (pos : Int) : Reach ph s t → Reach ph s ((rawSeek ph pos).run t).2
  | seekLap (t : VF) (pos : Int) : Reach ph s t → Reach ph s ((File.seekLap ph (pcmSeek ph (rawSeek ph) pos)).run t).2
  | pageLap (t : VF) (pos : Int) : Reach ph s t → Reach ph s ((File.seekLap ph (pcmSeekPage ph (rawSeek ph) pos)).run t).2
  | rawLap (t : VF) (pos : Int) : Reach ph s t → Reach ph s ((File.seekLap ph (rawSeek ph pos)).run t).2
  | time (t : VF) (secs : Float) : Reach ph s t → Reach ph s ((timeSeek (pcmSeek ph (rawSeek ph)) secs).run t).2
  | timePage (t : VF) (secs : Float) : Reach ph s t → Reach ph s ((timeSeek (pcmSeekPage ph (rawSeek ph)) secs).run t).2
  | timeLap (t : VF) (secs : Float) : Reach ph s t → Reach ph s ((File.seekLap ph (timeSeek (pcmSeek ph (rawSeek ph)) secs)).run t).2
  | timePageLap (t : VF) (secs : Float) : Reach ph s t → Reach ph s ((File.seekLap ph (timeSeek (pcmSeekPage ph (rawSeek ph)) secs)).run t).2

theorem reach_inv {I : VF → Prop} (ops : InvOps I) (ph : Phys) (s t : VF) (h : Reach ph s t) (hs : I s) : I t := by
  induction h with
  | refl => exact hs
  | read t n _ ih => exact pres_readFloat ops ph n t ih
  | seek t pos _ ih => exact inv_pcmSeek_raw ops ph pos t ih
  | page t pos _ ih => exact inv_pcmSeekPage_raw ops ph pos t ih
  | raw t pos _ ih => exact pres_rawSeek ops ph pos t ih
  | seekLap t pos _ ih => exact pres_seekLap ops ph _ (fun v hv => inv_pcmSeek_raw ops ph pos v hv) t ih
  | pageLap t pos _ ih => exact pres_seekLap ops ph _ (fun v hv => inv_pcmSeekPage_raw ops ph pos v hv) t ih
  | rawLap t pos _ ih => exact pres_seekLap ops ph _ (pres_rawSeek ops ph pos) t ih
  | time t secs _ ih => exact pres_timeSeek ops _ (fun pos v hv => inv_pcmSeek_raw ops ph pos v hv) secs t ih
  | timePage t secs _ ih => exact pres_timeSeek ops _ (fun pos v hv => inv_pcmSeekPage_raw ops ph pos v hv) secs t ih
  | timeLap t secs _ ih => exact pres_seekLap ops ph _ (pres_timeSeek ops _ (fun pos v hv => inv_pcmSeek_raw ops ph pos v hv) secs) t ih
  | timePageLap t secs _ ih => exact pres_seekLap ops ph _ (pres_timeSeek ops _ (fun pos v hv => inv_pcmSeekPage_raw ops ph pos v hv) secs) t ih

/-- a seekable handle without stream state (just opened, or after any failed seek) is consistent -/
theorem sinv_of_opened (s : VF) (hk : s.seekable = true) (hr : s.ready = OPENED) : SInv s := by
  have h1 : OPENED < STREAMSET := by decide
  have h2 : OPENED ≤ INITSET := by decide
  refine ⟨hk, ⟨?_, ?_, ?_⟩, ?_⟩
  · intro h; omega
  · intro h; omega
  · omega
  · omega

end Vorbis.Proofs.FileInv
