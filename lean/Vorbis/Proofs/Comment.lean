import Vorbis.Comment
namespace Vorbis
open Vorbis.Comment

theorem readLe32_le32 (n : Nat) (h : n < 4294967296) (rest : Bytes) :
    readLe32 (le32 n ++ rest) = some (n, rest) := by
  simp only [le32, List.cons_append, List.nil_append, readLe32, UInt8.toNat_ofNat']
  congr 2
  omega

theorem takeN_append (a b : Bytes) : takeN a.length (a ++ b) = some (a, b) := by
  simp [takeN]

theorem le32_length (n : Nat) : (le32 n).length = 4 := rfl

namespace Comment

theorem packEntries_length_ge (cs : List Bytes) : 4 * cs.length ≤ (packEntries cs).length := by
  induction cs with
  | nil => simp [packEntries]
  | cons c cs ih => simp [packEntries, le32_length]; omega

theorem unpackEntries_pack (cs : List Bytes) (tail : Bytes)
    (hlen : ∀ c ∈ cs, c.length < 2147483648) :
    unpackEntries cs.length (packEntries cs ++ tail) = some (cs, tail) := by
  induction cs with
  | nil => simp [unpackEntries, packEntries]
  | cons c cs ih =>
    have hc : c.length < 2147483648 := hlen c (by simp)
    have ih' := ih (fun x hx => hlen x (by simp [hx]))
    simp only [List.length_cons, unpackEntries, packEntries, List.append_assoc]
    rw [readLe32_le32 _ (by omega)]
    simp only [Option.bind_eq_bind, Option.bind_some]
    rw [if_neg (by omega), if_neg (by simp)]
    rw [takeN_append]
    simp [ih']

end Comment
end Vorbis
