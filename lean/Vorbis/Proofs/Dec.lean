import Vorbis.Block.Coherent
namespace Vorbis.Block

@[simp] theorem shr_zero (x : Int) : shr x 0 = x := by simp [shr]
@[simp] theorem shl_zero (x : Int) : shl x 0 = x := by simp [shl]

theorem adv_nonneg (z : Sizes) (h0 : 0 ≤ z.bs0) (h1 : 0 ≤ z.bs1) (a b : Bool) : 0 ≤ adv z a b := by
  unfold adv Sizes.bs
  cases a <;> cases b <;> simp <;> omega

/-- no trimming for an in-sequence packet that is not the last one -/
theorem granStage_mid (gran0 c a gp ret1 cur1 : Int) (hg : gran0 = -1 ∨ gran0 = c) (hc : 0 ≤ c) (ha : 0 ≤ a)
    (hgp : gp = -1 ∨ gp = c + a) :
    let r := granStage 0 gran0 (c + a) a gp false ret1 cur1
    (r.1 = -1 ∨ r.1 = c + a) ∧ r.2.1 = ret1 ∧ r.2.2 = cur1 := by
  unfold granStage
  rcases hg with h | h <;> rcases hgp with h' | h' <;> subst h <;> subst h'
  all_goals (simp; try omega)
  all_goals (repeat' split)
  all_goals (first | omega | simp_all)

/-- the last packet: the end is trimmed back to the stream's granule position -/
theorem granStage_last (gran0 c a N ret1 cur1 : Int) (hg : gran0 = -1 ∨ gran0 = c) (hc : 0 ≤ c)
    (hN0 : c ≤ N) (hN1 : N ≤ c + a) (hbuf : cur1 - ret1 = a) :
    let r := granStage 0 gran0 (c + a) a N true ret1 cur1
    r.2.1 = ret1 ∧ r.2.2 = cur1 - (c + a - N) := by
  have hN : N ≠ -1 := by omega
  unfold granStage
  simp only [shr_zero, shl_zero]
  rcases hg with h | h <;> subst h
  all_goals (repeat' split)
  all_goals (simp only [])
  all_goals (first | omega | (constructor <;> omega) | (exfalso; simp_all; done) | (exfalso; simp_all; omega) | (simp_all; done) | (simp_all; omega))

/-- decoder state between packets of a gap-free decode, everything delivered so far drained:
    `c` = samples the stream has advanced so far, `seq` = sequence number expected next -/
structure DecSt (z : Sizes) (d : Dec) (lW : Bool) (c seq : Int) : Prop where
  drained : d.ret = d.cur
  ret0 : 0 ≤ d.ret
  seqOk : d.seq = seq - 1
  seqNe : 0 ≤ d.seq
  wOk : d.W = lW
  scOk : d.sc = c
  sc0 : 0 ≤ c
  granOk : d.gran = -1 ∨ d.gran = c

theorem pcmStage_next (n1 a cW ret cur : Int) (hn : 0 ≤ n1) (hr : ret ≠ -1) :
    let p := pcmStage n1 a 0 cW ret cur true
    0 ≤ p.2.1 ∧ p.2.2 - p.2.1 = a := by
  unfold pcmStage
  simp only [if_true, hr, if_false, shr_zero]
  split <;> (first | omega | (constructor <;> omega) | (simp only []; omega))

theorem pcmStage_first (n1 a cW cur : Int) (hn : 0 ≤ n1) :
    let p := pcmStage n1 a 0 cW (-1) cur true
    0 ≤ p.2.1 ∧ p.2.2 - p.2.1 = 0 := by
  unfold pcmStage
  simp only [if_true]
  split <;> (first | omega | (constructor <;> omega) | (simp only []; omega))

end Vorbis.Block

namespace Vorbis.Block

theorem n1_nonneg (z : Sizes) (h1 : 0 ≤ z.bs1) : 0 ≤ shr z.bs1 (0 + 1) := by
  simp only [shr]; exact Int.ediv_nonneg h1 (by decide)

/-- closed form of `blockin` for an in-sequence packet on a drained decoder -/
theorem blockin_inseq (z : Sizes) (d : Dec) (lW : Bool) (c seq : Int) (st : DecSt z d lW c seq)
    (b : Blk) (hseq : b.seq = seq) :
    d.blockin z 0 b =
      (let a := adv z lW b.W
       let p := pcmStage (shr z.bs1 (0 + 1)) a 0 d.cW d.ret d.cur b.pcm
       let g := granStage 0 d.gran (c + a) a b.gp b.eos p.2.1 p.2.2
       ({ lW := d.W, W := b.W, cW := p.1, cur := g.2.2, ret := g.2.1, gran := g.1, seq := b.seq,
          sc := c + a, eof := d.eof || b.eos }, 0)) := by
  obtain ⟨hd, hr0, hs, hsn, hw, hsc, hc0, hg⟩ := st
  have hguard : ¬ (d.cur > d.ret ∧ d.ret ≠ -1) := by omega
  have hlost : ¬ (d.seq = -1 ∨ d.seq + 1 ≠ b.seq) := by omega
  have hc1 : ¬ (d.sc = -1) := by omega
  have hc2 : ¬ (c = -1) := by omega
  unfold Dec.blockin adv
  rw [if_neg hguard]
  simp only [hlost, if_false, hc1, hw, hsc, hc2]

theorem step_mid (z : Sizes) (h0 : 0 ≤ z.bs0) (h1 : 0 ≤ z.bs1) (d : Dec) (lW : Bool) (c seq : Int)
    (st : DecSt z d lW c seq) (b : Blk) (hpcm : b.pcm = true) (hseq : b.seq = seq)
    (heos : b.eos = false) (hgp : b.gp = -1 ∨ b.gp = c + adv z lW b.W) :
    (d.blockin z 0 b).1.pcmout = adv z lW b.W ∧
    DecSt z ((d.blockin z 0 b).1.read (d.blockin z 0 b).1.pcmout).1 b.W (c + adv z lW b.W) (seq + 1) := by
  rw [blockin_inseq z d lW c seq st b hseq]
  obtain ⟨hd, hr0, hs, hsn, hw, hsc, hc0, hg⟩ := st
  have ha := adv_nonneg z h0 h1 lW b.W
  have hret : d.ret ≠ -1 := by omega
  have hp := pcmStage_next (shr z.bs1 (0 + 1)) (adv z lW b.W) d.cW d.ret d.cur (n1_nonneg z h1) hret
  simp only [hpcm, heos] at *
  generalize pcmStage (shr z.bs1 (0 + 1)) (adv z lW b.W) 0 d.cW d.ret d.cur true = p at *
  have hgm := granStage_mid d.gran c (adv z lW b.W) b.gp p.2.1 p.2.2 hg hc0 ha hgp
  generalize granStage 0 d.gran (c + adv z lW b.W) (adv z lW b.W) b.gp false p.2.1 p.2.2 = g at *
  generalize adv z lW b.W = a at *
  obtain ⟨hg1, hg2, hg3⟩ := hgm
  obtain ⟨hp1, hp2⟩ := hp
  have hpo : (if g.2.1 > -1 ∧ g.2.1 < g.2.2 then g.2.2 - g.2.1 else 0) = a := by split <;> omega
  simp only [Dec.pcmout, Dec.read]
  rw [hpo]
  have hne : ¬ (a ≠ 0 ∧ g.2.1 + a > g.2.2) := by omega
  simp only [hne, if_false]
  refine ⟨trivial, ?_⟩
  constructor <;> first | omega | exact hg1 | rfl | (simp only [] <;> omega)

theorem step_last (z : Sizes) (h0 : 0 ≤ z.bs0) (h1 : 0 ≤ z.bs1) (d : Dec) (lW : Bool) (c seq N : Int)
    (st : DecSt z d lW c seq) (b : Blk) (hpcm : b.pcm = true) (hseq : b.seq = seq)
    (heos : b.eos = true) (hgp : b.gp = N) (hN0 : c ≤ N) (hN1 : N ≤ c + adv z lW b.W) :
    (d.blockin z 0 b).1.pcmout = N - c := by
  rw [blockin_inseq z d lW c seq st b hseq]
  obtain ⟨hd, hr0, hs, hsn, hw, hsc, hc0, hg⟩ := st
  have ha := adv_nonneg z h0 h1 lW b.W
  have hret : d.ret ≠ -1 := by omega
  have hp := pcmStage_next (shr z.bs1 (0 + 1)) (adv z lW b.W) d.cW d.ret d.cur (n1_nonneg z h1) hret
  simp only [hpcm, heos, hgp] at *
  generalize pcmStage (shr z.bs1 (0 + 1)) (adv z lW b.W) 0 d.cW d.ret d.cur true = p at *
  have hgl := granStage_last d.gran c (adv z lW b.W) N p.2.1 p.2.2 hg hc0 hN0 hN1 hp.2
  generalize granStage 0 d.gran (c + adv z lW b.W) (adv z lW b.W) N true p.2.1 p.2.2 = g at *
  generalize adv z lW b.W = a at *
  obtain ⟨hg2, hg3⟩ := hgl
  obtain ⟨hp1, hp2⟩ := hp
  simp only [Dec.pcmout]
  split <;> omega

end Vorbis.Block

namespace Vorbis.Block

/-- first packet after `restart` (any flags): nothing comes out; position 0 -/
theorem step_first (z : Sizes) (h1 : 0 ≤ z.bs1) (b : Blk) (hpcm : b.pcm = true)
    (hgp : b.gp = -1 ∨ b.gp = 0) (hseq : 0 ≤ b.seq) :
    ((Dec.restart z 0).blockin z 0 b).1.pcmout = 0 ∧
    DecSt z (((Dec.restart z 0).blockin z 0 b).1.read 0).1 b.W 0 (b.seq + 1) := by
  have hn := n1_nonneg z h1
  have hp := pcmStage_first (shr z.bs1 (0 + 1)) (z.bs false / 4 + z.bs b.W / 4) (shr z.bs1 (0 + 1))
    (shr (shr z.bs1 (0 + 1)) 0) hn
  unfold Dec.blockin Dec.restart
  simp only [hpcm]
  have hguard : ¬ (shr (shr z.bs1 (0 + 1)) 0 > (-1 : Int) ∧ (-1 : Int) ≠ -1) := by simp
  rw [if_neg hguard]
  simp only [true_or, if_true]
  generalize pcmStage (shr z.bs1 (0 + 1)) (z.bs false / 4 + z.bs b.W / 4) 0 (shr z.bs1 (0 + 1)) (-1)
    (shr (shr z.bs1 (0 + 1)) 0) true = p at *
  obtain ⟨hp1, hp2⟩ := hp
  have hgs : granStage 0 (-1) 0 (z.bs false / 4 + z.bs b.W / 4) b.gp b.eos p.2.1 p.2.2
      = (b.gp, p.2.1, p.2.2) := by
    unfold granStage
    rcases hgp with h | h <;> simp [h]
  rw [hgs]
  simp only [Dec.pcmout, Dec.read]
  have : ¬ (p.2.1 > -1 ∧ p.2.1 < p.2.2) := by omega
  simp only [this, if_false]
  refine ⟨trivial, ?_⟩
  simp only [ne_eq, not_true_eq_false, false_and, if_false]
  constructor <;> first | omega | rfl | (simp only [] <;> omega)

end Vorbis.Block
