import Vorbis.Proofs.Open
/-
`ov_halfrate` as a step of a call history: it changes the decode-rate flag and nothing else of what `ov_open` fixed, and it leaves a
consistent handle.
-/
namespace Vorbis.Proofs.Half
open Vorbis Vorbis.File Vorbis.Props.C07 Vorbis.Proofs.FileInv Vorbis.Proofs.Open

/-- the same file and settings, the decode rate aside -/
def SameButRate (a b : VF) : Prop := SameFile { a with hs := b.hs } b

theorem sameButRate_of_same {a b c : VF} (h : SameButRate a b) (g : SameFile b c) : SameButRate a c := by
  unfold SameButRate at *
  have e : c.hs = b.hs := g.hs.symm
  rw [e]
  exact sameFile_trans h g

theorem hoare_set_bind {β : Type} {P : VF → Prop} {Q : β → VF → Prop} (s' : VF) (k : Unit → M β)
    (h : Hoare (fun t => t = s') (k ()) Q) : Hoare P (set s' >>= k) Q := fun _ _ => h s' rfl

/-- the state `ov_halfrate` hands to its recovering seek: flag set, decoder dumped, position forgotten -/
def dumped (s : VF) (hs' : Nat) : VF :=
  { ({ ({ s with hs := hs' } : VF) with vd := none, lapped := false, ready := STREAMSET } : VF) with pcm_offset := -1 }

theorem dumped_inv (s : VF) (hs' : Nat) (hk : s.seekable = true) (wl : LinkWF s) (hge : s.ready ≥ STREAMSET) : SInv (dumped s hs') :=
  ⟨hk, ⟨fun _ => wl hge, fun h => absurd (show STREAMSET > STREAMSET from h) (by decide), by show STREAMSET ≤ INITSET; decide⟩,
   by show OPENED ≤ STREAMSET; decide⟩

theorem seek_from (ph : Phys) (pos : Int) (s3 : VF) (i3 : SInv s3) :
    SInv ((pcmSeek ph (rawSeek ph) pos).run s3).2 ∧ SameFile s3 ((pcmSeek ph (rawSeek ph) pos).run s3).2 :=
  inv_pcmSeek_raw (jOps s3) ph pos s3 ⟨i3, sameFile_refl s3⟩

theorem rebuild_post (ph : Phys) (hs' : Nat) (s0 : VF) :
    Hoare (fun s => s = s0 ∧ SInv s0) (halfrateRebuild ph hs') (fun _ t => SInv t ∧ SameButRate s0 t ∧ t.hs = hs') := by
  unfold halfrateRebuild
  refine hoare_modify_bind _ _ ?_
  refine hoare_get_bind _ (fun s1 h1 => ?_)
  obtain ⟨s, ⟨rfl, hi⟩, rfl⟩ := h1
  obtain ⟨hk, ⟨wl, wv, wr⟩, ho⟩ := hi
  refine hoare_ite _ _ _ (fun hgt => ?_) (fun hgt => ?_)
  · have hge : s.ready ≥ STREAMSET := by have : s.ready > STREAMSET := hgt; omega
    refine hoare_set_bind _ _ ?_
    refine hoare_ite _ _ _ (fun hp => ?_) (fun hp => ?_)
    · refine hoare_modify_bind _ _ ?_
      refine hoare_bind (R := fun _ t => SInv t ∧ SameButRate s t ∧ t.hs = hs') _ _ ?_ (fun _ => hoare_pure _ (fun _ h => h))
      intro t ht
      obtain ⟨t2, ht2, rfl⟩ := ht
      subst ht2
      have j := fun pos => seek_from ph pos (dumped s hs') (dumped_inv s hs' hk wl hge)
      have e0 : SameButRate s (dumped s hs') := ⟨rfl, rfl, rfl, rfl, rfl, rfl, rfl, rfl⟩
      exact ⟨(j _).1, sameButRate_of_same e0 (j _).2, (j _).2.hs.symm⟩
    · refine hoare_pure _ (fun t ht => ?_)
      subst ht
      refine ⟨⟨hk, ⟨fun _ => wl hge, fun h => absurd (show STREAMSET > STREAMSET from h) (by decide), by show STREAMSET ≤ INITSET; decide⟩, by show OPENED ≤ STREAMSET; decide⟩, ⟨rfl, rfl, rfl, rfl, rfl, rfl, rfl, rfl⟩, rfl⟩
  · refine hoare_pure _ (fun t ht => ?_)
    subst ht
    exact ⟨⟨hk, ⟨wl, wv, wr⟩, ho⟩, ⟨rfl, rfl, rfl, rfl, rfl, rfl, rfl, rfl⟩, rfl⟩

theorem halfrate_post (ph : Phys) (flag : Bool) (s0 : VF) :
    Hoare (fun s => s = s0 ∧ SInv s0) (halfrate ph flag)
      (fun _ t => SInv t ∧ SameButRate s0 t ∧ (s0.infos.size ≠ 0 → t.hs = (halfrateFlags s0 flag).1)) := by
  unfold halfrate
  refine hoare_get_bind _ (fun s h => ?_)
  obtain ⟨rfl, hi⟩ := h
  refine hoare_ite _ _ _ (fun he => ?_) (fun _ => ?_)
  · refine hoare_pure _ (fun t ht => ?_)
    subst ht
    exact ⟨hi, ⟨rfl, rfl, rfl, rfl, rfl, rfl, rfl, rfl⟩, fun h => absurd he h⟩
  · refine hoare_bind _ _ (hoare_weaken _ (rebuild_post ph _ s) (fun t ht => ⟨ht, hi⟩) (fun _ _ h => h)) (fun _ => ?_)
    exact hoare_pure _ (fun _ h => ⟨h.1, h.2.1, fun _ => h.2.2⟩)

theorem sameButRate_trans {a b c : VF} (h : SameButRate a b) (g : SameButRate b c) : SameButRate a c := by
  unfold SameButRate at *
  exact ⟨h.tab.trans g.tab, h.infos.trans g.infos, h.seekable.trans g.seekable, h.end_.trans g.end_, rfl, h.hdrkey.trans g.hdrkey,
         h.source.trans g.source, h.closes.trans g.closes⟩

theorem sameFile_of_rate {a c : VF} (h : SameButRate a c) (e : a.hs = c.hs) : SameFile a c := by
  unfold SameButRate at h
  exact ⟨h.tab, h.infos, h.seekable, h.end_, e, h.hdrkey, h.source, h.closes⟩

theorem sameButRate_of_file {a b : VF} (h : SameFile a b) : SameButRate a b := by
  unfold SameButRate
  exact ⟨h.tab, h.infos, h.seekable, h.end_, rfl, h.hdrkey, h.source, h.closes⟩

end Vorbis.Proofs.Half
