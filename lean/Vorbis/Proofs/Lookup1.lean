import Vorbis.Setup
namespace Vorbis.Proofs.Lookup1
open Vorbis Vorbis.Setup

theorem pow_mono {a b : Int} (h0 : 0 ≤ a) (h : a ≤ b) : ∀ n : Nat, a ^ n ≤ b ^ n
  | 0 => by simp
  | n + 1 => by
      rw [Int.pow_succ, Int.pow_succ]
      exact Int.mul_le_mul (pow_mono h0 h n) h h0 (Int.pow_nonneg (by omega))

theorem pow_ge_self {a : Int} (h1 : 1 ≤ a) : ∀ n : Nat, 1 ≤ n → a ≤ a ^ n
  | 0, h => by omega
  | 1, _ => by rw [Int.pow_one]; exact Int.le_refl _
  | n + 2, _ => by
      have ih := pow_ge_self h1 (n + 1) (by omega)
      rw [Int.pow_succ]
      have hp : 0 ≤ a ^ (n + 1) := Int.pow_nonneg (by omega)
      have : a ^ (n + 1) * 1 ≤ a ^ (n + 1) * a := Int.mul_le_mul_of_nonneg_left h1 hp
      omega

/-- the saturating accumulator of the C: `min x LONG_MAX` -/
def sat (x : Int) : Int := if x ≤ LONG_MAX then x else LONG_MAX

theorem tdiv_lt_iff (e v acc : Int) (he : 0 ≤ e) (hv : 0 < v) : Int.tdiv e v < acc ↔ e < acc * v := by
  rw [Int.tdiv_eq_ediv_of_nonneg he]; exact Int.ediv_lt_iff_lt_mul hv

/-- what the verification loop computes for a candidate `v ≥ 1`: it runs all `k` rounds exactly when every
    partial power stays within `entries`; the accumulators are the powers themselves, the second one saturated -/
theorem acc_spec (entries v : Int) (he : 1 ≤ entries) (hv : 1 ≤ v) :
    ∀ (k i : Nat) (acc acc1 : Int), acc = v ^ i → acc ≤ entries → acc1 = sat ((v + 1) ^ i) →
      (lookup1Acc entries v k i acc acc1 = (i + k, v ^ (i + k), sat ((v + 1) ^ (i + k))) ∧ v ^ (i + k) ≤ entries) ∨
      (∃ j, j < i + k ∧ (lookup1Acc entries v k i acc acc1).1 = j ∧ entries < v ^ (j + 1))
  | 0, i, acc, acc1, ha, hle, h1 => by
      left; simp [lookup1Acc, ha, h1]; rw [← ha]; exact hle
  | k + 1, i, acc, acc1, ha, hle, h1 => by
      unfold lookup1Acc
      by_cases hb : Int.tdiv entries v < acc
      · right
        refine ⟨i, by omega, by simp [hb], ?_⟩
        rw [tdiv_lt_iff entries v acc (by omega) (by omega)] at hb
        rw [Int.pow_succ, ← ha]; exact hb
      · simp only [hb, if_false]
        have hb' : acc * v ≤ entries := by
          rw [tdiv_lt_iff entries v acc (by omega) (by omega)] at hb; omega
        have hstep : (if Int.tdiv LONG_MAX (v + 1) < acc1 then LONG_MAX else acc1 * (v + 1)) = sat ((v + 1) ^ (i + 1)) := by
          have hiff := tdiv_lt_iff LONG_MAX (v + 1) acc1 (by decide) (by omega)
          have hp : 0 ≤ (v + 1) ^ i := Int.pow_nonneg (by omega)
          have h2 : (v + 1) ^ i * 1 ≤ (v + 1) ^ i * (v + 1) := Int.mul_le_mul_of_nonneg_left (by omega) hp
          have h3 : LONG_MAX * 1 < LONG_MAX * (v + 1) := Int.mul_lt_mul_of_pos_left (by omega) (by decide)
          rw [Int.pow_succ]
          by_cases hs : (v + 1) ^ i ≤ LONG_MAX
          · have e1 : acc1 = (v + 1) ^ i := by rw [h1]; simp [sat, hs]
            by_cases hs2 : LONG_MAX < (v + 1) ^ i * (v + 1)
            · have : Int.tdiv LONG_MAX (v + 1) < acc1 := hiff.mpr (by rw [e1]; exact hs2)
              have hn : ¬ ((v + 1) ^ i * (v + 1) ≤ LONG_MAX) := by omega
              simp [this, sat, hn]
            · have : ¬ Int.tdiv LONG_MAX (v + 1) < acc1 := fun h => hs2 (by have := hiff.mp h; rw [e1] at this; exact this)
              have hn : (v + 1) ^ i * (v + 1) ≤ LONG_MAX := by omega
              rw [if_neg this, e1]; simp [sat, hn]
          · have e1 : acc1 = LONG_MAX := by rw [h1]; simp [sat, hs]
            have : Int.tdiv LONG_MAX (v + 1) < acc1 := hiff.mpr (by rw [e1]; omega)
            have hn : ¬ ((v + 1) ^ i * (v + 1) ≤ LONG_MAX) := by omega
            simp [this, sat, hn]
        rw [hstep]
        have := acc_spec entries v he hv k (i + 1) (acc * v) (sat ((v + 1) ^ (i + 1)))
          (by rw [Int.pow_succ, ha]) hb' rfl
        rcases this with ⟨h, hle'⟩ | ⟨j, hj, hj1, hj2⟩
        · left
          have e : i + 1 + k = i + (k + 1) := by omega
          rw [e] at h hle'
          exact ⟨h, hle'⟩
        · right
          exact ⟨j, by omega, hj1, hj2⟩


theorem pow_le_pow_right {a : Int} (h1 : 1 ≤ a) (m : Nat) : ∀ k : Nat, a ^ m ≤ a ^ (m + k)
  | 0 => Int.le_refl _
  | k + 1 => by
      have ih := pow_le_pow_right h1 m k
      have hp : 0 ≤ a ^ (m + k) := Int.pow_nonneg (by omega)
      have : a ^ (m + k) * 1 ≤ a ^ (m + k) * a := Int.mul_le_mul_of_nonneg_left h1 hp
      rw [show m + (k + 1) = (m + k) + 1 by omega, Int.pow_succ]
      omega

/-- `P v`: the candidate is not too large -/
def P (entries : Int) (dim : Nat) (v : Int) : Prop := v ^ dim ≤ entries

theorem sat_gt_iff (x e : Int) (he : e < LONG_MAX) : sat x > e ↔ x > e := by
  unfold sat; split <;> omega

/-- one round of the search, decided by `P` alone -/
theorem search_step (entries : Int) (dim : Nat) (he : 1 ≤ entries) (hmax : entries < LONG_MAX) (f : Nat) (v : Int) (hv : 1 ≤ v) :
    (P entries dim v → ¬ P entries dim (v + 1) → lookup1Search entries dim (f + 1) v = some v) ∧
    (P entries dim v → P entries dim (v + 1) → lookup1Search entries dim (f + 1) v = lookup1Search entries dim f (v + 1)) ∧
    (¬ P entries dim v → lookup1Search entries dim (f + 1) v = lookup1Search entries dim f (v - 1)) := by
  have hs1 : (1 : Int) = sat ((v + 1) ^ 0) := by simp [sat]; decide
  have spec := acc_spec entries v he hv dim 0 1 1 (by simp) he hs1
  simp only [Nat.zero_add] at spec
  unfold P
  rcases spec with ⟨h, hle⟩ | ⟨j, hj, hj1, hj2⟩
  · refine ⟨fun _ hn => ?_, fun _ hp => ?_, fun hn => absurd hle hn⟩
    · rw [lookup1Search.eq_2, h]
      have : sat ((v + 1) ^ dim) > entries := (sat_gt_iff _ _ hmax).mpr (by omega)
      simp [hle, this]
    · rw [lookup1Search.eq_2, h]
      have : ¬ sat ((v + 1) ^ dim) > entries := fun hc => by
        have := (sat_gt_iff _ _ hmax).mp hc; omega
      have h2 : ¬ (dim < dim ∨ v ^ dim > entries) := by omega
      simp only [this, and_false, if_false, h2]
  · have hbig : entries < v ^ dim := by
      have := pow_le_pow_right hv (j + 1) (dim - (j + 1))
      rw [show j + 1 + (dim - (j + 1)) = dim by omega] at this
      omega
    refine ⟨fun hp _ => absurd hp (by omega), fun hp _ => absurd hp (by omega), fun _ => ?_⟩
    rw [lookup1Search.eq_2]
    generalize hq : lookup1Acc entries v dim 0 1 1 = q at hj1
    obtain ⟨i, acc, acc1⟩ := q
    simp only at hj1
    subst hj1
    have h1 : ¬ (i ≥ dim ∧ acc ≤ entries ∧ acc1 > entries) := by omega
    have h2 : (i < dim ∨ acc > entries) := Or.inl hj
    simp only [h1, h2, if_false, if_true]


theorem P_one (entries : Int) (dim : Nat) (he : 1 ≤ entries) : P entries dim 1 := by
  unfold P; rw [Int.one_pow]; exact he

theorem P_anti (entries : Int) (dim : Nat) (a b : Int) (ha : 0 ≤ a) (hab : a ≤ b) (h : P entries dim b) : P entries dim a := by
  unfold P at *; exact Int.le_trans (pow_mono ha hab dim) h

theorem P_le (entries : Int) (dim : Nat) (hd : 1 ≤ dim) (v : Int) (hv : 1 ≤ v) (h : P entries dim v) : v ≤ entries := by
  unfold P at h; exact Int.le_trans (pow_ge_self hv dim hd) h

/-- walking down: from a candidate whose successor is too large, the search ends at the root -/
theorem search_down (entries : Int) (dim : Nat) (he : 1 ≤ entries) (hmax : entries < LONG_MAX) :
    ∀ (f : Nat) (v : Int), 1 ≤ v → ¬ P entries dim (v + 1) → v.toNat ≤ f →
      ∃ r, 1 ≤ r ∧ lookup1Search entries dim f v = some r ∧ P entries dim r ∧ ¬ P entries dim (r + 1)
  | 0, v, hv, _, hf => by omega
  | f + 1, v, hv, hn, hf => by
      obtain ⟨s1, _, s3⟩ := search_step entries dim he hmax f v hv
      by_cases hp : P entries dim v
      · exact ⟨v, hv, s1 hp hn, hp, hn⟩
      · have hv2 : 2 ≤ v := by
          by_cases h1 : v = 1
          · subst h1; exact absurd (P_one entries dim he) hp
          · omega
        rw [s3 hp]
        exact search_down entries dim he hmax f (v - 1) (by omega) (by rw [show v - 1 + 1 = v by omega]; exact hp) (by omega)

/-- walking up: from a candidate that is not too large, the search ends at the root -/
theorem search_up (entries : Int) (dim : Nat) (hd : 1 ≤ dim) (he : 1 ≤ entries) (hmax : entries < LONG_MAX) :
    ∀ (f : Nat) (v : Int), 1 ≤ v → P entries dim v → (entries - v).toNat < f →
      ∃ r, 1 ≤ r ∧ lookup1Search entries dim f v = some r ∧ P entries dim r ∧ ¬ P entries dim (r + 1)
  | 0, v, hv, _, hf => by omega
  | f + 1, v, hv, hp, hf => by
      obtain ⟨s1, s2, _⟩ := search_step entries dim he hmax f v hv
      by_cases hn : P entries dim (v + 1)
      · rw [s2 hp hn]
        have := P_le entries dim hd (v + 1) (by omega) hn
        exact search_up entries dim hd he hmax f (v + 1) (by omega) hn (by omega)
      · exact ⟨v, hv, s1 hp hn, hp, hn⟩

/-- **the lattice search is correct and terminates from every initial guess** (`dim ≥ 1`, `1 ≤ entries < LONG_MAX`,
    guess `≥ 1` as the C clamps it): with fuel beyond `entries + guess` it answers the `r ≥ 1` with
    `r^dim ≤ entries < (r+1)^dim` -/
theorem search_correct (entries : Int) (dim : Nat) (hd : 1 ≤ dim) (he : 1 ≤ entries) (hmax : entries < LONG_MAX)
    (g : Int) (hg : 1 ≤ g) (f : Nat) (hf : (entries + g).toNat + 1 < f) :
    ∃ r, 1 ≤ r ∧ lookup1Search entries dim f g = some r ∧ r ^ dim ≤ entries ∧ entries < (r + 1) ^ dim := by
  have key : ∃ r, 1 ≤ r ∧ lookup1Search entries dim f g = some r ∧ P entries dim r ∧ ¬ P entries dim (r + 1) := by
    by_cases hp : P entries dim g
    · exact search_up entries dim hd he hmax f g hg hp (by omega)
    · match f, hf with
      | f' + 1, hf' =>
        obtain ⟨_, _, s3⟩ := search_step entries dim he hmax f' g hg
        have hg2 : 2 ≤ g := by
          by_cases h1 : g = 1
          · subst h1; exact absurd (P_one entries dim he) hp
          · omega
        rw [s3 hp]
        exact search_down entries dim he hmax f' (g - 1) (by omega) (by rw [show g - 1 + 1 = g by omega]; exact hp) (by omega)
  obtain ⟨r, hr, hs, hP, hnP⟩ := key
  exact ⟨r, hr, hs, hP, by unfold P at hnP; omega⟩

/-- the answer does not depend on the guess (so the float `pow` that produces it is irrelevant) -/
theorem search_unique (entries : Int) (dim : Nat) (hd : 1 ≤ dim) (r1 r2 : Int) (h1 : 1 ≤ r1) (h2 : 1 ≤ r2)
    (a1 : r1 ^ dim ≤ entries) (b1 : entries < (r1 + 1) ^ dim) (a2 : r2 ^ dim ≤ entries) (b2 : entries < (r2 + 1) ^ dim) : r1 = r2 := by
  by_cases hlt : r1 < r2
  · have := pow_mono (a := r1 + 1) (b := r2) (by omega) (by omega) dim; omega
  · by_cases hgt : r2 < r1
    · have := pow_mono (a := r2 + 1) (b := r1) (by omega) (by omega) dim; omega
    · omega

end Vorbis.Proofs.Lookup1
