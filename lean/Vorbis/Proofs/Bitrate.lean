import Vorbis.Bitrate
namespace Vorbis.Bitrate

def cap (c : Nat) : Nat := if c ≥ PACKETBLOBS then PACKETBLOBS - 1 else c

theorem cap_of_le {c : Nat} (h : c ≤ 14) : cap c = c := by
  unfold cap; split
  · rename_i h'; simp only [PACKETBLOBS] at h'; omega
  · rfl

theorem cap_le (c : Nat) : cap c ≤ 14 := by
  unfold cap; split
  · simp [PACKETBLOBS]
  · rename_i h'; simp only [PACKETBLOBS] at h'; omega

theorem cap_15 : cap 15 = 14 := by simp [cap, PACKETBLOBS]

theorem minLoop_spec (b : Nat → Nat) (R mt : Int) (choice : Nat) (this : Int)
    (hc : choice ≤ 14) (ht : this = 8 * (b choice : Int)) :
    let r := minLoop b R mt choice this
    r.1 ≤ 15 ∧ r.2 = 8 * (b (cap r.1) : Int) ∧ (r.1 ≤ 14 → ¬ (R - (mt - r.2) < 0)) := by
  fun_induction minLoop b R mt choice this with
  | case1 choice this h1 h2 =>
    simp only [PACKETBLOBS] at h2
    have : choice = 14 := by omega
    subst this
    refine ⟨by omega, ?_, by omega⟩
    simp only []
    rw [cap_15]; exact ht
  | case2 choice this h1 h2 ih =>
    simp only [PACKETBLOBS] at h2
    exact ih (by omega) rfl
  | case3 choice this h1 =>
    refine ⟨by omega, ?_, fun _ => h1⟩
    simp only []
    rw [cap_of_le hc]; exact ht

theorem maxLoop_spec (b : Nat → Nat) (R mt RB : Int) (choice : Nat) (this : Int)
    (hc : choice ≤ 15) (ht : this = 8 * (b (cap choice) : Int)) :
    match maxLoop b R mt RB choice this with
    | (none, t) => R + (t - mt) > RB ∧ t = 8 * (b 0 : Int)
    | (some c, t) => c ≤ choice ∧ t = 8 * (b (cap c) : Int) ∧ R + (t - mt) ≤ RB := by
  induction choice generalizing this with
  | zero =>
    by_cases h : R + (this - mt) > RB
    · simp only [maxLoop, h, if_true]
      exact ⟨by first | exact h | trivial, by rw [ht, cap_of_le (by omega)]⟩
    · simp only [maxLoop, h, if_false]
      exact ⟨Nat.le_refl _, ht, by omega⟩
  | succ c ih =>
    by_cases h : R + (this - mt) > RB
    · simp only [maxLoop, h, if_true]
      have := ih (8 * (b c : Int)) (by omega) (by rw [cap_of_le (by omega)])
      revert this
      cases maxLoop b R mt RB c (8 * (b c : Int)) with
      | mk o t =>
        cases o with
        | none => exact fun h => h
        | some c' => exact fun h => ⟨by omega, h.2⟩
    · simp only [maxLoop, h, if_false]
      exact ⟨Nat.le_refl _, ht, by omega⟩

/-- the configuration facts `vorbis_bitrate_init` and the control interface guarantee, plus the one
    side condition the proof forces when *both* limits are set (byte granularity needs 7 bits of room) -/
structure Side (c : Cfg) : Prop where
  minb0 : 0 ≤ c.minb
  maxb0 : 0 ≤ c.maxb
  spl1 : 1 ≤ c.spl
  des0 : 0 ≤ c.desired
  desRB : c.desired ≤ c.RB
  both : c.minb > 0 → c.maxb > 0 → c.minb ≤ c.maxb ∧ 7 ≤ c.RB

def Inv (c : Cfg) (R : Int) : Prop := 0 ≤ R ∧ R ≤ c.RB

theorem targets (c : Cfg) (s : Side c) (W : Bool) :
    0 ≤ minT c W ∧ 0 ≤ maxT c W ∧ (c.minb > 0 ↔ minT c W > 0) ∧ (c.maxb > 0 ↔ maxT c W > 0) ∧
    (c.minb > 0 → c.maxb > 0 → minT c W ≤ maxT c W) := by
  have h1 := s.minb0; have h2 := s.maxb0; have h3 := s.spl1
  unfold minT maxT
  cases W
  · simp only [Bool.false_eq_true, if_false]
    exact ⟨h1, h2, by first | exact Iff.rfl | trivial, by first | exact Iff.rfl | trivial, fun a b => (s.both a b).1⟩
  · simp only [if_true]
    have e1 : c.minb * 1 ≤ c.minb * c.spl := Int.mul_le_mul_of_nonneg_left h3 h1
    have e2 : c.maxb * 1 ≤ c.maxb * c.spl := Int.mul_le_mul_of_nonneg_left h3 h2
    rw [Int.mul_one] at e1 e2
    refine ⟨by omega, by omega, ⟨fun h => by omega, fun h => ?_⟩, ⟨fun h => by omega, fun h => ?_⟩, fun a b => ?_⟩
    · apply Int.lt_of_not_ge; intro hle
      have : c.minb = 0 := by omega
      rw [this, Int.zero_mul] at h; omega
    · apply Int.lt_of_not_ge; intro hle
      have : c.maxb = 0 := by omega
      rw [this, Int.zero_mul] at h; omega
    · exact Int.mul_le_mul_of_nonneg_right (s.both a b).1 (by omega)

/-- what the selection stage guarantees about the final packet size `F` -/
theorem select_spec (c : Cfg) (s : Side c) (R : Int) (hI : Inv c R) (W : Bool) (b : Nat → Nat)
    (c0 : Nat) (hc0 : c0 ≤ 14) :
    let F := (select c R W b c0).2
    0 ≤ F ∧
    (c.maxb > 0 → F ≤ maxT c W ∨ R + (F - maxT c W) ≤ c.RB) ∧
    (c.minb > 0 → F ≥ minT c W ∨ R + (F - minT c W) ≥ 0) ∧
    (select c R W b c0).1 ≤ 14 := by
  obtain ⟨hmn0, hmx0, hmnp, hmxp, hle⟩ := targets c s W
  obtain ⟨hR0, hRB⟩ := hI
  have hboth := s.both
  unfold select
  simp only
  generalize minT c W = mn at *
  generalize maxT c W = mx at *
  -- stage 1: min loop
  have st1 : ∃ c1 t1, (if c.minb > 0 ∧ 8 * (b c0 : Int) < mn then minLoop b R mn c0 (8 * (b c0 : Int)) else (c0, 8 * (b c0 : Int))) = (c1, t1)
      ∧ c1 ≤ 15 ∧ t1 = 8 * (b (cap c1) : Int) := by
    split
    · have := minLoop_spec b R mn c0 (8 * (b c0 : Int)) hc0 rfl
      exact ⟨_, _, rfl, this.1, this.2.1⟩
    · refine ⟨c0, _, rfl, by omega, ?_⟩
      rw [cap_of_le hc0]
  obtain ⟨c1, t1, e1, hc1, ht1⟩ := st1
  rw [e1]
  simp only
  have hb0 : ∀ k, (0:Int) ≤ 8 * (b k : Int) := fun k => by omega
  -- stage 2: max loop
  by_cases hmax : c.maxb > 0 ∧ t1 > mx
  · rw [if_pos hmax]
    have sp := maxLoop_spec b R mx c.RB c1 t1 hc1 ht1
    revert sp
    cases maxLoop b R mx c.RB c1 t1 with
    | mk o t2 =>
      cases o with
      | none =>
        intro ⟨hgt, ht2⟩
        simp only
        have hnum : 0 ≤ mx + (c.RB - R) := by omega
        have htd : Int.tdiv (mx + (c.RB - R)) 8 = (mx + (c.RB - R)) / 8 := Int.tdiv_eq_ediv_of_nonneg hnum
        rw [htd]
        have hb0' := hb0 0
        split
        · refine ⟨by omega, fun _ => Or.inr (by omega), fun hm => Or.inr ?_, by omega⟩
          have := hboth hm hmax.1
          have := hle hm hmax.1
          omega
        · exfalso; omega
      | some c2 =>
        intro ⟨hc2, ht2, hle2⟩
        simp only
        have hcap : (if c2 ≥ PACKETBLOBS then PACKETBLOBS - 1 else c2) = cap c2 := rfl
        rw [hcap]
        have hcap14 : cap c2 ≤ 14 := cap_le c2
        have hbk := hb0 (cap c2)
        by_cases hpos : 0 ≤ mn - R + 7
        · have htd : Int.tdiv (mn - R + 7) 8 = (mn - R + 7) / 8 := Int.tdiv_eq_ediv_of_nonneg hpos
          rw [htd]
          split
          · refine ⟨by omega, fun _ => Or.inr ?_, fun _ => Or.inr (by omega), hcap14⟩
            by_cases hm : c.minb > 0
            · have := hboth hm hmax.1; have := hle hm hmax.1; omega
            · have : mn = 0 := by have := hmnp.2; omega
              omega
          · exact ⟨by omega, fun _ => Or.inr (by omega), fun _ => Or.inr (by omega), hcap14⟩
        · have hneg : Int.tdiv (mn - R + 7) 8 ≤ 0 := by
            have h : (-(-(mn - R + 7))).tdiv 8 = -((-(mn - R + 7)).tdiv 8) := Int.neg_tdiv _ 8
            rw [Int.neg_neg] at h
            have := Int.tdiv_nonneg (a := -(mn - R + 7)) (b := 8) (by omega) (by omega)
            omega
          rw [if_neg (by omega)]
          exact ⟨by omega, fun _ => Or.inr (by omega), fun _ => Or.inr (by omega), hcap14⟩
  · rw [if_neg hmax]
    simp only
    have hcap : (if c1 ≥ PACKETBLOBS then PACKETBLOBS - 1 else c1) = cap c1 := rfl
    rw [hcap]
    have hcap14 : cap c1 ≤ 14 := cap_le c1
    have hbk := hb0 (cap c1)
    by_cases hpos : 0 ≤ mn - R + 7
    · have htd : Int.tdiv (mn - R + 7) 8 = (mn - R + 7) / 8 := Int.tdiv_eq_ediv_of_nonneg hpos
      rw [htd]
      split
      · refine ⟨by omega, fun hm' => ?_, fun _ => Or.inr (by omega), hcap14⟩
        by_cases hm : c.minb > 0
        · have := hboth hm hm'; have := hle hm hm'; right; omega
        · have : mn = 0 := by have := hmnp.2; omega
          omega
      · refine ⟨by omega, fun hm' => Or.inl ?_, fun _ => Or.inr (by omega), hcap14⟩
        have : ¬ t1 > mx := fun h => hmax ⟨hm', h⟩
        omega
    · have hneg : Int.tdiv (mn - R + 7) 8 ≤ 0 := by
        have h : (-(-(mn - R + 7))).tdiv 8 = -((-(mn - R + 7)).tdiv 8) := Int.neg_tdiv _ 8
        rw [Int.neg_neg] at h
        have := Int.tdiv_nonneg (a := -(mn - R + 7)) (b := 8) (by omega) (by omega)
        omega
      rw [if_neg (by omega)]
      refine ⟨by omega, fun hm' => Or.inl ?_, fun _ => Or.inr (by omega), hcap14⟩
      have : ¬ t1 > mx := fun h => hmax ⟨hm', h⟩
      omega

/-- the reservoir update keeps the invariant and accounts for every bit above / below target -/
theorem update_spec (c : Cfg) (s : Side c) (R : Int) (hI : Inv c R) (W : Bool) (F : Int)
    (hmaxS : c.maxb > 0 → F ≤ maxT c W ∨ R + (F - maxT c W) ≤ c.RB)
    (hminS : c.minb > 0 → F ≥ minT c W ∨ R + (F - minT c W) ≥ 0) :
    Inv c (update c R W F) ∧
    (c.maxb > 0 → F - maxT c W ≤ update c R W F - R) ∧
    (c.minb > 0 → update c R W F - R ≤ F - minT c W) := by
  obtain ⟨hmn0, hmx0, hmnp, hmxp, hle⟩ := targets c s W
  obtain ⟨hR0, hRB⟩ := hI
  have hd0 := s.des0; have hd1 := s.desRB
  unfold update Inv
  simp only
  generalize minT c W = mn at *
  generalize maxT c W = mx at *
  by_cases h1 : c.minb > 0 <;> by_cases h2 : c.maxb > 0
  all_goals (
    first
    | (have hl := hle h1 h2)
    | skip)
  all_goals (
    have hm1 := hmnp.1; have hm2 := hmnp.2; have hm3 := hmxp.1; have hm4 := hmxp.2
    repeat' split
    all_goals (first | omega | (refine ⟨⟨?_, ?_⟩, ?_, ?_⟩ <;> intros <;> omega)))

end Vorbis.Bitrate
