import Vorbis.Generated.Funcs
import Vorbis.Bits
import Vorbis.Proofs.Lookup1
/-
Lemmas about the function bodies regenerated from /repo by tools/c2lean.py
(`Vorbis/Generated/Funcs.lean`).  Property theorems built on them are in Props/C02.lean.
-/
namespace Vorbis.Proofs.Funcs
open Vorbis.CSem Vorbis.Generated.Funcs

/-! ## arithmetic helpers -/

/-- C's truncating division by a positive divisor, split into magnitude quotient and remainder -/
theorem tdiv_decomp (a b : Int) (hb : 0 < b) :
    ∃ q r : Int, 0 ≤ q ∧ 0 ≤ r ∧ r < b ∧ cabs a = b * q + r ∧
      Int.tdiv a b = (if a < 0 then -q else q) := by
  by_cases ha : a < 0
  · refine ⟨(-a) / b, (-a) % b, ?_, ?_, ?_, ?_, ?_⟩
    · exact Int.ediv_nonneg (by omega) (by omega)
    · exact Int.emod_nonneg _ (by omega)
    · exact Int.emod_lt_of_pos _ hb
    · have := Int.mul_ediv_add_emod (-a) b
      simp [cabs, ha]; omega
    · simp only [ha, if_true]
      have h1 : Int.tdiv a b = -(Int.tdiv (-a) b) := by
        rw [Int.neg_tdiv]; simp
      rw [h1, Int.tdiv_eq_ediv_of_nonneg (by omega)]
  · refine ⟨a / b, a % b, ?_, ?_, ?_, ?_, ?_⟩
    · exact Int.ediv_nonneg (by omega) (by omega)
    · exact Int.emod_nonneg _ (by omega)
    · exact Int.emod_lt_of_pos _ hb
    · have := Int.mul_ediv_add_emod a b
      simp [cabs, ha]; omega
    · simp only [ha, if_false]
      exact Int.tdiv_eq_ediv_of_nonneg (by omega)


/-! ## `render_line` (lib/floor1.c): every index it computes is inside its object -/
namespace RL
open render_line

/-- an access recorded by `render_line` is in bounds: `d[idx]` with `idx < n`, the dB table with `idx ≤ 255` -/
def AccOK (n : Int) (a : Acc) : Prop :=
  (a.arr = "d" ∧ 0 ≤ a.idx ∧ a.idx < n) ∨ (a.arr = "FLOOR1_fromdB_LOOKUP" ∧ 0 ≤ a.idx ∧ a.idx ≤ 255)

/-- loop invariant of `while(++x<n)`: Bresenham bookkeeping (`c` = number of carries so far) -/
def Inv (s : St) : Prop :=
  0 < s.adx ∧ s.adx = s.x1 - s.x0 ∧ 0 ≤ s.x0 ∧ s.n ≤ s.x1 ∧ s.x0 ≤ s.x ∧
  0 ≤ s.ady ∧ s.ady < s.adx ∧ 0 ≤ s.err ∧ s.err < s.adx ∧
  0 ≤ s.y0 ∧ s.y0 ≤ 255 ∧ 0 ≤ s.y1 ∧ s.y1 ≤ 255 ∧
  (∃ q c : Int, 0 ≤ q ∧ 0 ≤ c ∧ s.err + s.adx * c = (s.x - s.x0) * s.ady ∧
     ((s.base = q ∧ s.sy = q + 1 ∧ s.y = s.y0 + (s.x - s.x0) * q + c ∧ s.y1 = s.y0 + s.adx * q + s.ady) ∨
      (s.base = -q ∧ s.sy = -q - 1 ∧ s.y = s.y0 - (s.x - s.x0) * q - c ∧ s.y1 = s.y0 - s.adx * q - s.ady))) ∧
  (∀ a ∈ s.tr, AccOK s.n a)

/-- inside the segment the line never leaves the band between its end points -/
theorem y_in_band (adx ady q c k err y0 : Int) (hadx : 0 < adx) (hq : 0 ≤ q) (hc : 0 ≤ c) (hk0 : 0 ≤ k) (hk : k ≤ adx)
    (hady : 0 ≤ ady) (herr : 0 ≤ err) (h : err + adx * c = k * ady) :
    0 ≤ k * q + c ∧ k * q + c ≤ adx * q + ady := by
  have h1 : 0 ≤ k * q := Int.mul_nonneg hk0 hq
  have h2 : k * q ≤ adx * q := Int.mul_le_mul_of_nonneg_right hk hq
  have h3 : k * ady ≤ adx * ady := Int.mul_le_mul_of_nonneg_right hk hady
  have h4 : adx * c ≤ adx * ady := by omega
  have h5 : c ≤ ady := Int.le_of_mul_le_mul_left h4 hadx
  omega

theorem step (s : St) (h : Inv s) (hx : s.x + 1 < s.n) :
    ∃ s', loop1_body { s with x := s.x + 1 } = .norm s' ∧ Inv s' ∧ s'.x = s.x + 1 ∧ s'.n = s.n := by
  obtain ⟨hadx, hadxe, hx0, hn, hxx, hady0, hady, herr0, herr, hy0a, hy0b, hy1a, hy1b, ⟨q, c, hq, hc, hrel, hcase⟩, htr⟩ := h
  have hmul : (s.x + 1 - s.x0) * s.ady = (s.x - s.x0) * s.ady + s.ady := by
    rw [show s.x + 1 - s.x0 = (s.x - s.x0) + 1 by omega, Int.add_mul, Int.one_mul]
  have hmulq : (s.x + 1 - s.x0) * q = (s.x - s.x0) * q + q := by
    rw [show s.x + 1 - s.x0 = (s.x - s.x0) + 1 by omega, Int.add_mul, Int.one_mul]
  by_cases hcarry : s.err + s.ady ≥ s.adx
  · -- carry: err -= adx, y += sy
    have hband := y_in_band s.adx s.ady q (c + 1) (s.x + 1 - s.x0) (s.err + s.ady - s.adx) s.y0 hadx hq (by omega)
      (by omega) (by omega) hady0 (by omega) (by rw [Int.mul_add]; omega)
    simp only [loop1_body, seq, act, ifS, hcarry, decide_true, if_true]
    refine ⟨_, rfl, ?_, rfl, rfl⟩
    refine ⟨hadx, hadxe, hx0, hn, by simp; omega, hady0, hady, by simp; omega, by simp; omega, hy0a, hy0b, hy1a, hy1b,
      ⟨q, c + 1, hq, by omega, by simp; rw [Int.mul_add]; omega, ?_⟩, ?_⟩
    · rcases hcase with ⟨hb, hsy, hy, hy1⟩ | ⟨hb, hsy, hy, hy1⟩
      · left; simp; omega
      · right; simp; omega
    · intro a ha
      simp at ha
      rcases ha with rfl | rfl | ha
      · left; simp; omega
      · right; simp
        rcases hcase with ⟨hb, hsy, hy, hy1⟩ | ⟨hb, hsy, hy, hy1⟩ <;> omega
      · exact htr a ha
  · -- no carry: y += base
    have hband := y_in_band s.adx s.ady q c (s.x + 1 - s.x0) (s.err + s.ady) s.y0 hadx hq hc
      (by omega) (by omega) hady0 (by omega) (by omega)
    simp only [loop1_body, seq, act, ifS, hcarry, decide_false, Bool.false_eq_true, if_false]
    refine ⟨_, rfl, ?_, rfl, rfl⟩
    refine ⟨hadx, hadxe, hx0, hn, by simp; omega, hady0, hady, by simp; omega, by simp; omega, hy0a, hy0b, hy1a, hy1b,
      ⟨q, c, hq, hc, by simp; omega, ?_⟩, ?_⟩
    · rcases hcase with ⟨hb, hsy, hy, hy1⟩ | ⟨hb, hsy, hy, hy1⟩
      · left; simp; omega
      · right; simp; omega
    · intro a ha
      simp at ha
      rcases ha with rfl | rfl | ha
      · left; simp; omega
      · right; simp
        rcases hcase with ⟨hb, hsy, hy, hy1⟩ | ⟨hb, hsy, hy, hy1⟩ <;> omega
      · exact htr a ha


/-- the loop terminates with fuel to spare and every access it records is in bounds -/
theorem loop_ok : ∀ (fuel : Nat) (s : St), Inv s → (s.n - s.x).toNat < fuel →
    ∃ s', loop1 fuel s = .norm s' ∧ (∀ a ∈ s'.tr, AccOK s.n a)
  | 0, s, _, hf => by omega
  | f + 1, s, h, hf => by
      by_cases hx : s.x + 1 < s.n
      · obtain ⟨s2, hb, hi2, hx2, hn2⟩ := step s h hx
        obtain ⟨s3, h3, htr3⟩ := loop_ok f s2 hi2 (by omega)
        refine ⟨s3, ?_, by simpa [hn2] using htr3⟩
        simp only [loop1, loop, hx, decide_true, if_true, hb]
        simpa [loop1] using h3
      · exact ⟨{ s with x := s.x + 1 }, by simp [loop1, loop, hx], h.2.2.2.2.2.2.2.2.2.2.2.2.2.2⟩

theorem inv_entry (nn x0 x1 y0 y1 q r b : Int) (tr : List Acc) (hx0 : 0 ≤ x0) (hx : x0 < x1) (hnn : nn ≤ x1)
    (hy0 : 0 ≤ y0 ∧ y0 ≤ 255) (hy1 : 0 ≤ y1 ∧ y1 ≤ 255) (hq : 0 ≤ q) (hr0 : 0 ≤ r) (hr : r < x1 - x0)
    (hdec : cabs (y1 - y0) = (x1 - x0) * q + r) (hb : b = if y1 - y0 < 0 then -q else q)
    (htr : ∀ a ∈ tr, AccOK nn a) :
    Inv { n := nn, x0 := x0, x1 := x1, y0 := y0, y1 := y1, dy := y1 - y0, adx := x1 - x0, ady := r, base := b,
          sy := if decide (y1 - y0 < 0) = true then b - 1 else b + 1, x := x0, y := y0, err := 0, tr := tr } := by
  refine ⟨by simp; omega, rfl, hx0, hnn, by simp, hr0, hr, by simp, by simp; omega, hy0.1, hy0.2, hy1.1, hy1.2,
    ⟨q, 0, hq, by omega, by simp, ?_⟩, htr⟩
  by_cases hd : y1 - y0 < 0
  · right
    simp only [hd, if_true] at hb
    simp [cabs, hd] at hdec
    simp [hd, hb]; omega
  · left
    simp only [hd, if_false] at hb
    simp [cabs, hd] at hdec
    simp [hd, hb]; omega

theorem ady_eq (dy adx q r : Int) (hadx : 0 < adx) (hq : 0 ≤ q) (hdec : cabs dy = adx * q + r)
    (hbase : dy.tdiv adx = if dy < 0 then -q else q) : cabs dy - cabs (dy.tdiv adx * adx) = r := by
  have hqa : 0 ≤ q * adx := Int.mul_nonneg hq (by omega)
  have hc : adx * q = q * adx := Int.mul_comm _ _
  rw [hbase, hdec]
  by_cases hd : dy < 0
  · simp only [hd, if_true, cabs, Int.neg_mul]
    split <;> omega
  · simp only [hd, if_false, cabs]
    split <;> omega

theorem run_safe (n x0 x1 y0 y1 : Int) (fuel : Nat) (hx0 : 0 ≤ x0) (hx : x0 < x1)
    (hy0 : 0 ≤ y0 ∧ y0 ≤ 255) (hy1 : 0 ≤ y1 ∧ y1 ≤ 255) (hf : (n - x0).toNat < fuel) :
    ∃ s', run n x0 x1 y0 y1 fuel = .norm s' ∧ ∀ a ∈ s'.tr, AccOK n a := by
  obtain ⟨q, r, hq, hr0, hr, hdec, hbase⟩ := tdiv_decomp (y1 - y0) (x1 - x0) (by omega)
  have hady := ady_eq (y1 - y0) (x1 - x0) q r (by omega) hq hdec hbase
  simp only [run, body, init, seq, act, ifS, hady]
  by_cases hn : n > x1
  · simp only [hn, decide_true, if_true]
    by_cases hxn : x0 < x1
    · simp only [hxn, decide_true, if_true]
      have hinv := inv_entry x1 x0 x1 y0 y1 q r _ [⟨"d", x0⟩, ⟨"FLOOR1_fromdB_LOOKUP", y0⟩] hx0 hx (by omega) hy0 hy1 hq hr0 hr hdec hbase
        (by intro a ha; simp at ha; rcases ha with rfl | rfl
            · left; simp; omega
            · right; simp; omega)
      obtain ⟨s', h1, h2⟩ := loop_ok fuel _ hinv (by simp; omega)
      refine ⟨s', h1, ?_⟩
      intro a ha
      rcases h2 a ha with ⟨h, h', h''⟩ | h
      · left; simp at h''; exact ⟨h, h', by omega⟩
      · right; exact h
    · omega
  · simp only [hn, decide_false, Bool.false_eq_true, if_false, skip]
    by_cases hxn : x0 < n
    · simp only [hxn, decide_true, if_true]
      have hinv := inv_entry n x0 x1 y0 y1 q r _ [⟨"d", x0⟩, ⟨"FLOOR1_fromdB_LOOKUP", y0⟩] hx0 hx (by omega) hy0 hy1 hq hr0 hr hdec hbase
        (by intro a ha; simp at ha; rcases ha with rfl | rfl
            · left; simp; omega
            · right; simp; omega)
      obtain ⟨s', h1, h2⟩ := loop_ok fuel _ hinv (by simp; omega)
      exact ⟨s', h1, h2⟩
    · simp only [hxn, decide_false, Bool.false_eq_true, if_false]
      have hinv := inv_entry n x0 x1 y0 y1 q r _ [] hx0 hx (by omega) hy0 hy1 hq hr0 hr hdec hbase (by simp)
      obtain ⟨s', h1, h2⟩ := loop_ok fuel _ hinv (by simp; omega)
      exact ⟨s', h1, h2⟩
end RL


/-! ## `render_point` (lib/floor1.c) interpolates between its end values -/
namespace RP
open render_point

/-- `render_point` (lib/floor1.c) interpolates between its two end values: for `x0 ≤ x ≤ x1`, `x0 < x1` the predicted value lies between the
    (flag-masked) `y0` and `y1` -/
theorem run_between (x0 x1 y0 y1 x : Int) (fuel : Nat) (hx : x0 < x1) (h0 : x0 ≤ x) (h1 : x ≤ x1) :
    ∃ r s', run x0 x1 y0 y1 x fuel = .ret r s' ∧
      ((land y0 32767 ≤ r ∧ r ≤ land y1 32767) ∨ (land y1 32767 ≤ r ∧ r ≤ land y0 32767)) := by
  generalize hm0 : land y0 32767 = m0
  generalize hm1 : land y1 32767 = m1
  have hadx : 0 < x1 - x0 := by omega
  have hc : 0 ≤ cabs (m1 - m0) := by unfold cabs; split <;> omega
  have hk0 : 0 ≤ x - x0 := by omega
  have herr : 0 ≤ cabs (m1 - m0) * (x - x0) := Int.mul_nonneg hc hk0
  have hle : cabs (m1 - m0) * (x - x0) ≤ cabs (m1 - m0) * (x1 - x0) := Int.mul_le_mul_of_nonneg_left (by omega) hc
  have hoff0 : 0 ≤ Int.tdiv (cabs (m1 - m0) * (x - x0)) (x1 - x0) := by
    rw [Int.tdiv_eq_ediv_of_nonneg herr]; exact Int.ediv_nonneg herr (by omega)
  have hoff1 : Int.tdiv (cabs (m1 - m0) * (x - x0)) (x1 - x0) ≤ cabs (m1 - m0) := by
    rw [Int.tdiv_eq_ediv_of_nonneg herr]
    have : cabs (m1 - m0) * (x - x0) / (x1 - x0) < cabs (m1 - m0) + 1 := by
      rw [Int.ediv_lt_iff_lt_mul hadx, Int.add_mul]; omega
    omega
  simp only [run, body, init, seq, act, ifS, retS, hm0, hm1]
  by_cases hd : m1 - m0 < 0
  · simp only [hd, decide_true, if_true]
    refine ⟨_, _, rfl, Or.inr ?_⟩
    have : cabs (m1 - m0) = m0 - m1 := by unfold cabs; simp [hd]; omega
    omega
  · simp only [hd, decide_false, Bool.false_eq_true, if_false, skip]
    refine ⟨_, _, rfl, Or.inl ?_⟩
    have : cabs (m1 - m0) = m1 - m0 := by unfold cabs; simp [hd]
    omega

end RP

/-! ## `ov_ilog` (lib/sharedbook.c) is the hand model's `ilogNat` -/
namespace IL
open ov_ilog

theorem ilogNat_pos (n : Nat) (h : 0 < n) : ilogNat n = 1 + ilogNat (n / 2) := by
  cases n with
  | zero => omega
  | succ k => rw [ilogNat]

/-- the shift loop of `ov_ilog` counts exactly the hand model's `ilogNat` -/
theorem loop_eq : ∀ (fuel : Nat) (s : St), 0 ≤ s.v → ilogNat s.v.toNat < fuel →
    loop1 fuel s = .norm { s with v := 0, ret := s.ret + (ilogNat s.v.toNat : Int) }
  | 0, s, _, hf => by omega
  | f + 1, s, hv, hf => by
      by_cases h0 : s.v = 0
      · have hz : ilogNat s.v.toNat = 0 := by rw [h0]; exact ilogNat.eq_1
        simp only [loop1, loop, truth, h0, hz]
        cases s; simp_all
      · have hpos : 0 < s.v.toNat := by omega
        have hil := ilogNat_pos s.v.toNat hpos
        have hhalf : (shr s.v 1).toNat = s.v.toNat / 2 := by
          simp [shr]; omega
        have hnn : 0 ≤ shr s.v 1 := by simp [shr]; omega
        have hrec := loop_eq f { s with v := shr s.v 1, ret := s.ret + 1 } (by simpa using hnn) (by simp [hhalf]; omega)
        simp only [loop1, loop, truth, loop1_body, act] at hrec ⊢
        simp [h0, hrec, hhalf, hil]
        omega

/-- **`ov_ilog` as it stands in lib/sharedbook.c computes the model's `ilogNat`** for every unsigned argument,
    with any fuel beyond the bit length (33 suffices for 32-bit arguments) -/
theorem run_eq (v : Nat) (fuel : Nat) (hf : ilogNat v < fuel) :
    (run (v : Int) fuel).val? = some (ilogNat v : Int) := by
  have h := loop_eq fuel { v := (v : Int), ret := 0 } (by simp) (by simpa using hf)
  simp only [run, body, init, seq, act, retS]
  simp [h, Ctl.val?]

end IL


/-! ## `_book_maptype1_quantvals` (lib/sharedbook.c) is the model's `lookup1Search`, which terminates and is right -/
open Vorbis Vorbis.Setup Vorbis.Proofs.Lookup1
namespace QV
open book_maptype1_quantvals

/-- the inner `for` of `_book_maptype1_quantvals` is the model's `lookup1Acc` -/
theorem inner_eq : ∀ (k : Nat) (fuel : Nat) (s : St) (i : Nat), s.i = (i : Int) → s.b_dim = ((i + k : Nat) : Int) → k < fuel →
    loop2 fuel s = .norm { s with i := ((lookup1Acc s.b_entries s.vals k i s.acc s.acc1).1 : Int),
                                  acc := (lookup1Acc s.b_entries s.vals k i s.acc s.acc1).2.1,
                                  acc1 := (lookup1Acc s.b_entries s.vals k i s.acc s.acc1).2.2 }
  | 0, fuel + 1, s, i, hi, hd, _ => by
      have hc : ¬ (s.i < s.b_dim) := by omega
      simp only [loop2, loop, hc, decide_false, Bool.false_eq_true, if_false, lookup1Acc]
      cases s; simp_all
  | k + 1, fuel + 1, s, i, hi, hd, hf => by
      have hc : s.i < s.b_dim := by omega
      by_cases hb : Int.tdiv s.b_entries s.vals < s.acc
      · simp only [loop2, loop, hc, decide_true, if_true, loop2_body, seq, ifS, hb, brkS, lookup1Acc]
        cases s; simp_all
      · have ih := inner_eq k fuel
          { s with acc := s.acc * s.vals,
                   acc1 := (if Int.tdiv 9223372036854775807 (s.vals + 1) < s.acc1 then 9223372036854775807 else s.acc1 * (s.vals + 1)),
                   i := s.i + 1 } (i + 1) (by simp [hi]) (by simp [hd]; omega) (by omega)
        simp only [loop2, loop, hc, decide_true, if_true, loop2_body, seq, ifS, hb, decide_false, Bool.false_eq_true, if_false, skip, act] at ih ⊢
        by_cases h1 : Int.tdiv 9223372036854775807 (s.vals + 1) < s.acc1
        · simp only [h1, decide_true, if_true] at ih ⊢
          rw [ih]; simp [lookup1Acc, hb, h1, LONG_MAX]
        · simp only [h1, decide_false, Bool.false_eq_true, if_false] at ih ⊢
          rw [ih]; simp [lookup1Acc, hb, h1, LONG_MAX]


/-- the outer `while(1)` is the model's `lookup1Search`: when the model answers `r` within `n` corrections, so does the C -/
theorem outer_eq (F : Nat) (dim : Nat) (hF : dim < F) : ∀ (n : Nat) (fuel : Nat) (s : St) (r : Int), s.b_dim = (dim : Int) →
    lookup1Search s.b_entries dim n s.vals = some r → n ≤ fuel →
    ∃ s', loop (fun s => s) (fun _ => true) (loop1_body F) (fun s => s) fuel s = .ret r s'
  | 0, _, s, r, _, h, _ => by simp [lookup1Search] at h
  | n + 1, 0, s, r, _, _, hf => by omega
  | n + 1, fuel + 1, s, r, hd, h, hf => by
      have hin := inner_eq dim F { s with acc := 1, acc1 := 1, i := 0 } 0 (by simp) (by simp [hd]) hF
      rw [lookup1Search.eq_2] at h
      generalize hq : lookup1Acc s.b_entries s.vals dim 0 1 1 = q at h hin
      obtain ⟨i, acc, acc1⟩ := q
      simp only at h hin
      simp only [loop, if_true, loop1_body, seq, act, hin, ifS]
      by_cases c1 : i ≥ dim ∧ acc ≤ s.b_entries ∧ acc1 > s.b_entries
      · simp only [c1, and_self, if_true, Option.some.injEq] at h
        have c1' : ((decide ((i : Int) ≥ s.b_dim) && decide (acc ≤ s.b_entries)) && decide (acc1 > s.b_entries)) = true := by
          simp [hd, c1.1, c1.2.1, c1.2.2]
        simp only [c1', if_true, retS]
        exact ⟨_, by rw [h]⟩
      · simp only [c1, if_false] at h
        have c1' : ((decide ((i : Int) ≥ s.b_dim) && decide (acc ≤ s.b_entries)) && decide (acc1 > s.b_entries)) = false := by
          simp only [hd, Bool.and_eq_false_iff, decide_eq_false_iff_not]
          by_cases a : i ≥ dim
          · by_cases b : acc ≤ s.b_entries
            · right; intro c; exact c1 ⟨a, b, c⟩
            · left; right; exact b
          · left; left; omega
        simp only [c1', Bool.false_eq_true, if_false]
        by_cases c2 : i < dim ∨ acc > s.b_entries
        · simp only [c2, if_true] at h
          have c2' : (decide ((i : Int) < s.b_dim) || decide (acc > s.b_entries)) = true := by
            simp only [hd, Bool.or_eq_true, decide_eq_true_eq]
            rcases c2 with a | b
            · left; omega
            · right; exact b
          simp only [c2', if_true]
          exact outer_eq F dim hF n fuel _ r (by simp [hd]) (by simpa using h) (by omega)
        · simp only [c2, if_false] at h
          have c2' : (decide ((i : Int) < s.b_dim) || decide (acc > s.b_entries)) = false := by
            simp only [hd, Bool.or_eq_false_iff, decide_eq_false_iff_not]
            constructor
            · intro a; exact c2 (Or.inl (by omega))
            · intro b; exact c2 (Or.inr b)
          simp only [c2', Bool.false_eq_true, if_false]
          exact outer_eq F dim hF n fuel _ r (by simp [hd]) (by simpa using h) (by omega)

/-- **`_book_maptype1_quantvals` as it stands in lib/sharedbook.c terminates and is right, whatever the float guess**:
    for `dim ≥ 1`, `1 ≤ entries < LONG_MAX`, ANY value `guess` of `floor(pow((float)entries,1.f/dim))`, and fuel beyond
    `entries + max guess 1 + dim`, the function returns the `r ≥ 1` with `r^dim ≤ entries < (r+1)^dim` -/
theorem run_correct (entries guess : Int) (dim : Nat) (hd : 1 ≤ dim) (he : 1 ≤ entries) (hmax : entries < LONG_MAX)
    (fuel : Nat) (hf : (entries + (if guess < 1 then 1 else guess)).toNat + dim + 2 < fuel) :
    ∃ r, 1 ≤ r ∧ (run entries guess (dim : Int) fuel).val? = some r ∧ r ^ dim ≤ entries ∧ entries < (r + 1) ^ dim := by
  have hne : ¬ (entries < 1) := by omega
  obtain ⟨r, hr, hs, ha, hb⟩ := search_correct entries dim hd he hmax (if guess < 1 then 1 else guess) (by split <;> omega) fuel (by omega)
  refine ⟨r, hr, ?_, ha, hb⟩
  simp only [run, body, init, seq, ifS, act, skip, hne, decide_false, Bool.false_eq_true, if_false, loop1]
  by_cases hg : guess < 1
  · simp only [hg, decide_true, if_true] at hs ⊢
    obtain ⟨s', h'⟩ := outer_eq fuel dim (by omega) fuel fuel
      { b_entries := entries, fp_vals := guess, b_dim := (dim : Int), vals := 1 } r rfl hs (Nat.le_refl _)
    rw [h']; rfl
  · simp only [hg, decide_false, Bool.false_eq_true, if_false] at hs ⊢
    obtain ⟨s', h'⟩ := outer_eq fuel dim (by omega) fuel fuel
      { b_entries := entries, fp_vals := guess, b_dim := (dim : Int), vals := guess } r rfl hs (Nat.le_refl _)
    rw [h']; rfl

/-- an empty book needs no values -/
theorem run_empty (entries guess dim : Int) (fuel : Nat) (he : entries < 1) : (run entries guess dim fuel).val? = some 0 := by
  simp [run, body, init, seq, ifS, he, retS, Ctl.val?]

end QV

end Vorbis.Proofs.Funcs
