import Vorbis.Setup
import Vorbis.Codebook
import Vorbis.Comment
import Vorbis.Block.Dec
/-
`vorbis_synthesis_headerin` as a state machine over the three header types, `vorbis_synthesis_init`,
and the packet-header part of `vorbis_synthesis` / `vorbis_synthesis_trackonly`.
-/
namespace Vorbis.Header
open Vorbis Vorbis.Setup

structure Info where
  ci : Bool := true            -- `vi->codec_setup != NULL`
  version : Int := 0
  channels : Int := 0
  rate : Int := 0
  bs0 : Int := 0
  bs1 : Int := 0
  brUpper : Int := 0           -- (ogg_int32_t) fields of the identification header
  brNominal : Int := 0
  brLower : Int := 0
  vendor : Bool := false       -- `vc->vendor != NULL`
  setup : Option Setup := none
  halfrate : Nat := 0
  fullbooks : Bool := false    -- `ci->fullbooks != NULL` (a decoder was initialised, or tried to)
  booksOk : Bool := true       -- every `vorbis_book_init_decode` succeeded when fullbooks was built
  deriving Inhabited

def Info.cleared : Info := { ci := false }

def OV_ENOTVORBIS := Generated.OV_ENOTVORBIS
def OV_EBADHEADER := Generated.OV_EBADHEADER
def OV_EVERSION := Generated.OV_EVERSION
def OV_EFAULT := Generated.OV_EFAULT
def OV_ENOTAUDIO := Generated.OV_ENOTAUDIO
def OV_EBADPACKET := Generated.OV_EBADPACKET

/-- `_vorbis_unpack_info`; the reader stands after the preamble -/
def unpackInfo (i : Info) (r : Reader) : Info × Int :=
  if !i.ci then (i, OV_EFAULT) else
  let (version, r) := r.read 32
  if version ≠ 0 then ({ i with version := version }, OV_EVERSION) else
  let (channels, r) := r.read 8
  let (rate, r) := r.read 32
  let (bu, r) := r.read 32
  let (bn, r) := r.read 32
  let (bl, r) := r.read 32
  let s32 (v : Int) : Int := if v ≥ 2147483648 then v - 4294967296 else v     -- `(ogg_int32_t)`
  let (b0, r) := r.read 4
  if b0 < 0 then (Info.cleared, OV_EBADHEADER) else
  let (b1, r) := r.read 4
  if b1 < 0 then (Info.cleared, OV_EBADHEADER) else
  let bs0 : Int := 2 ^ b0.toNat
  let bs1 : Int := 2 ^ b1.toNat
  if rate < 1 ∨ channels < 1 ∨ bs0 < 64 ∨ bs1 < bs0 ∨ bs1 > 8192 then (Info.cleared, OV_EBADHEADER) else
  let (fr, _) := r.read 1
  if fr ≠ 1 then (Info.cleared, OV_EBADHEADER)
  else ({ i with version := 0, channels := channels, rate := rate, bs0 := bs0, bs1 := bs1,
                 brUpper := s32 bu, brNominal := s32 bn, brLower := s32 bl }, 0)

def vorbisTag : List Int := [118, 111, 114, 98, 105, 115]

/-- `vorbis_synthesis_headerin(vi,vc,op)` -/
def headerin (i : Info) (bos : Bool) (pkt : ByteArray) : Info × Int :=
  let r0 := Reader.init pkt
  let (ptype, r1) := r0.read 8
  -- `_v_readstring`: six 8-bit reads, each -1 becomes the char 0xff
  let (tag, r7) := (List.range 6).foldl (fun (acc : List Int × Reader) _ =>
      let (c, r') := acc.2.read 8; (acc.1 ++ [c % 256], r')) ([], r1)
  if tag ≠ vorbisTag then (i, OV_ENOTVORBIS)
  else if ptype = 1 then
    if !bos then (i, OV_EBADHEADER)
    else if i.rate ≠ 0 then (i, OV_EBADHEADER)
    else unpackInfo i r7
  else if ptype = 3 then
    if i.rate = 0 then (i, OV_EBADHEADER)
    else if i.vendor then (i, OV_EBADHEADER)
    else match Comment.unpackBody pkt.size (pkt.toList.drop 7) with
      | some _ => ({ i with vendor := true }, 0)
      | none => (i, OV_EBADHEADER)
  else if ptype = 5 then
    if i.rate = 0 ∨ !i.vendor then (i, OV_EBADHEADER)
    else if !i.ci then (i, OV_EFAULT)
    else if i.setup.isSome then (i, OV_EBADHEADER)
    else match (unpackSetup i.channels).run r7 with
      | (Except.ok s, _) => ({ i with setup := some s.val }, 0)
      | _ => ({ Info.cleared with vendor := i.vendor }, OV_EBADHEADER)
  else (i, OV_EBADHEADER)

/-- `vorbis_synthesis_init`: 0 ok, 1 failure; `fullbooks` survives in the info struct -/
def synthesisInit (i : Info) : Info × Int :=
  match i.setup with
  | none => (i, 1)                       -- `ci==NULL || ci->modes<=0`
  | some s =>
      if !i.ci ∨ i.bs0 < 64 ∨ i.bs1 < i.bs0 then (i, 1)
      else if i.fullbooks then (i, if i.booksOk then 0 else 1)
      else if Codebook.initOk s then ({ i with fullbooks := true, booksOk := true }, 0)
      else ({ i with fullbooks := true, booksOk := false }, 1)

/-- packet header part of `vorbis_synthesis`: rc, W, lW, nW -/
def packetHeader (s : Setup) (pkt : ByteArray) : Int × Int × Int × Int :=
  let r := Reader.init pkt
  let (t, r) := r.read 1
  if t ≠ 0 then (OV_ENOTAUDIO, 0, 0, 0) else
  let modebits := ilog ((s.modes.size : Int) - 1)
  let (mode, r) := r.read modebits
  if mode = -1 then (OV_EBADPACKET, 0, 0, 0) else
  match s.modes[mode.toNat]? with
  | none => (OV_EBADPACKET, 0, 0, 0)          -- `!ci->mode_param[mode]`
  | some m =>
      if m.blockflag ≠ 0 then
        let (lW, r) := r.read 1
        let (nW, _) := r.read 1
        if nW = -1 then (OV_EBADPACKET, 0, 0, 0) else (0, m.blockflag, lW, nW)
      else (0, 0, 0, 0)

end Vorbis.Header
