import Vorbis.Driver.Common
import Vorbis.EncSetup
namespace Vorbis.Driver.C15
open Vorbis Vorbis.EncSetup Vorbis.Driver

def parseDbl (t : List String) : Option Dbl :=
  match t with
  | ["nan"] => some .nan
  | ["nan", _] => some .nan
  | ["inf", _] => some .pinf
  | ["-inf", _] => some .ninf
  | ["inf"] => some .pinf
  | ["-inf"] => some .ninf
  | [n, d] => match n.toInt?, d.toNat? with
      | some a, some b => some (.fin a b)
      | _, _ => none
  | _ => none

def showSt (op : String) (rc : Int) (s : St) : String :=
  if !s.inited then s!"{op} rc={ovname rc} cleared=1"
  else
    let (t, i) : Int × Int := match s.setup with | some (a, b) => (a, b) | none => (-1, -1)
    s!"{op} rc={ovname rc} cleared=0 tmpl={t} is={i} managed={if s.managed then 1 else 0} stone={if s.stone then 1 else 0} ch={s.channels} rate={s.rate}"

def step (s : St) : List String → St × List String
  | "case" :: id :: _ => ({}, ["== case " ++ id])
  | op :: rest =>
      if !s.inited ∧ op ≠ "clear" then (s, [op ++ " skipped-cleared"]) else
      match op, rest with
      | "vbr", ch :: rate :: r =>
          match ch.toInt?, rate.toInt?, parseDbl r with
          | some c, some ra, some q => let (s', rc) := setupVbr s c ra q; (s', [showSt op rc s'])
          | _, _, _ => (s, ["bad-op vbr"])
      | "initvbr", ch :: rate :: r =>
          match ch.toInt?, rate.toInt?, parseDbl r with
          | some c, some ra, some q => let (s', rc) := initVbr s c ra q; (s', [showSt op rc s'])
          | _, _, _ => (s, ["bad-op initvbr"])
      | "managed", [ch, rate, mx, nom, mn] =>
          match ch.toInt?, rate.toInt?, mx.toInt?, nom.toInt?, mn.toInt? with
          | some c, some ra, some a, some b, some d => let (s', rc) := setupManaged s c ra a b d; (s', [showSt op rc s'])
          | _, _, _, _, _ => (s, ["bad-op managed"])
      | "initmanaged", [ch, rate, mx, nom, mn] =>
          match ch.toInt?, rate.toInt?, mx.toInt?, nom.toInt?, mn.toInt? with
          | some c, some ra, some a, some b, some d => let (s', rc) := initManaged s c ra a b d; (s', [showSt op rc s'])
          | _, _, _, _, _ => (s, ["bad-op initmanaged"])
      | "setupinit", [] => let (s', rc) := setupInit s; (s', [showSt op rc s'])
      | "rm2", active :: mn :: mx :: av :: res :: r =>
          -- bias and damping arrive as two Dbl encodings of two tokens each
          match mn.toInt?, mx.toInt?, av.toInt?, res.toInt?, parseDbl (r.take 2), parseDbl (r.drop 2) with
          | some a, some b, some c, some d, some bias, some damp =>
              if s.stone then (s, [showSt op EINVAL s])
              else if ratemanage2Ok a b c d bias damp then
                let s' := { s with managed := active ≠ "0" }
                (s', [showSt op 0 s'])
              else (s, [showSt op EINVAL s])
          | _, _, _, _, _, _ => (s, ["bad-op rm2"])
      | "clear", _ => (cleared, ["clear done"])
      | _, _ => (s, ["bad-op " ++ op])
  | [] => (s, [])

def main : IO Unit := do
  lineLoop (← IO.getStdin) (← IO.getStdout) ({} : St) step

end Vorbis.Driver.C15
