import Vorbis.Driver.Common
import Vorbis.Comment
namespace Vorbis.Driver.C16
open Vorbis Vorbis.Comment Vorbis.Driver

structure St where
  cur : Option (List Bytes) := none     -- last successfully unpacked list
  pending : List Bytes := []

def showUnpack (pkt : Bytes) : Option (List Bytes) × String :=
  match headerinSecond pkt with
  | (.ok, some (vendor, cs)) =>
      (some cs, "unpacked rc=0 vendor=" ++ toHex (cstr vendor) ++ " n=" ++ toString cs.length ++
        String.join (cs.map (fun c => " " ++ toHex c)))
  | (.notVorbis, _) => (none, "unpacked rc=" ++ ovname Generated.OV_ENOTVORBIS ++ " cleared=1")
  | _ => (none, "unpacked rc=" ++ ovname Generated.OV_EBADHEADER ++ " cleared=1")

def packUnpack (s : St) (cs : List Bytes) : St × List String :=
  let pkt := pack Generated.ENCODE_VENDOR_STRING cs
  let (cur, l2) := showUnpack pkt
  ({ s with cur := cur }, ["packed rc=0 " ++ toHex pkt, l2])

def step (s : St) : List String → St × List String
  | "case" :: id :: _ => ({ s with pending := [] }, ["== case " ++ id])
  | "roundtrip" :: hs =>
      match hs.mapM fromHex with
      | some cs => packUnpack s cs
      | none => (s, ["bad-hex"])
  | ["add", h] =>
      match fromHex h with
      | some b => ({ s with pending := s.pending ++ [cstr b] }, [])
      | none => (s, ["bad-hex"])
  | ["addtag", t, v] =>
      match fromHex t, fromHex v with
      | some a, some b => ({ s with pending := s.pending ++ [cstr a ++ [61] ++ cstr b] }, [])
      | _, _ => (s, ["bad-hex"])
  | ["flush"] => packUnpack s s.pending
  | ["unpack", h] =>
      match fromHex h with
      | some pkt => let (cur, l) := showUnpack pkt; ({ s with cur := cur }, [l])
      | none => (s, ["bad-hex"])
  | ["query", t, k] =>
      match s.cur, fromHex t, k.toNat? with
      | none, _, _ => (s, ["q nolist"])
      | some cs, some tag, some n =>
          -- C strings: the comment seen by tagcompare ends at its first NUL
          match query (cs.map id) (cstr tag) n with
          | some (idx, _) => (s, ["q idx=" ++ toString idx ++ " off=" ++ toString ((cstr tag).length + 1)])
          | none => (s, ["q none"])
      | _, _, _ => (s, ["bad-op query"])
  | ["count", t] =>
      match s.cur, fromHex t with
      | none, _ => (s, ["count nolist"])
      | some cs, some tag => (s, ["count " ++ toString (queryCount cs (cstr tag))])
      | _, _ => (s, ["bad-op count"])
  | t :: _ => (s, ["bad-op " ++ t])
  | [] => (s, [])

def main : IO Unit := do
  lineLoop (← IO.getStdin) (← IO.getStdout) ({} : St) step

end Vorbis.Driver.C16
