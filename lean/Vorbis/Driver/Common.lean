import Vorbis.Basic
import Vorbis.Generated.Consts
/- helpers shared by the stream drivers of `vdriver` -/
namespace Vorbis.Driver
open Vorbis

def tokens (line : String) : List String :=
  (line.trimAscii.toString.splitOn " ").filter (· ≠ "")

def ovname (rc : Int) : String :=
  if rc = Generated.OV_FALSE then "OV_FALSE" else if rc = Generated.OV_EOF then "OV_EOF"
  else if rc = Generated.OV_HOLE then "OV_HOLE" else if rc = Generated.OV_EREAD then "OV_EREAD"
  else if rc = Generated.OV_EFAULT then "OV_EFAULT" else if rc = Generated.OV_EIMPL then "OV_EIMPL"
  else if rc = Generated.OV_EINVAL then "OV_EINVAL" else if rc = Generated.OV_ENOTVORBIS then "OV_ENOTVORBIS"
  else if rc = Generated.OV_EBADHEADER then "OV_EBADHEADER" else if rc = Generated.OV_EVERSION then "OV_EVERSION"
  else if rc = Generated.OV_ENOTAUDIO then "OV_ENOTAUDIO" else if rc = Generated.OV_EBADPACKET then "OV_EBADPACKET"
  else if rc = Generated.OV_EBADLINK then "OV_EBADLINK" else if rc = Generated.OV_ENOSEEK then "OV_ENOSEEK"
  else toString rc

/-- generic line loop: `step` maps a state and a token list to a new state and output lines -/
partial def lineLoop {σ : Type} (h : IO.FS.Stream) (out : IO.FS.Stream) (s : σ)
    (step : σ → List String → σ × List String) : IO Unit := do
  let line ← h.getLine
  if line.isEmpty then return ()
  let toks := tokens line
  match toks with
  | [] => lineLoop h out s step
  | _ =>
    let (s', outs) := step s toks
    for o in outs do out.putStrLn o
    lineLoop h out s' step

def cstr (b : Bytes) : Bytes := b.takeWhile (· ≠ 0)

end Vorbis.Driver
