import Vorbis.Driver.Common
import Vorbis.Header
import Vorbis.Spec.Decode
/- stream `c01`: three headers through the C02/C05 header model, then audio packets through the specification decoder;
   samples are printed as the bit patterns of doubles -/
namespace Vorbis.Driver.C01
open Vorbis Vorbis.Header Vorbis.Spec Vorbis.Driver

structure St where
  info : Info := {}
  stream : Option Stream := none

def hex16 (x : UInt64) : String :=
  String.mk ((List.range 16).map fun i => hexDigit ((x.toNat / 16 ^ (15 - i)) % 16))

def step (s : St) : List String → St × List String
  | "case" :: id :: _ => ({}, ["== case " ++ id])
  | ["new"] => ({}, [])
  | ["hdr", bos, h] =>
      match fromHex h with
      | none => (s, ["bad-hex"])
      | some l =>
          let (i', rc) := headerin s.info (bos ≠ "0") (ByteArray.mk l.toArray)
          ({ s with info := i' }, ["hdr rc=" ++ ovname rc])
  | ["init"] =>
      match s.info.setup with
      | some su =>
          if Codebook.initOk su then
            ({ s with stream := some (Stream.init s.info.channels.toNat s.info.bs0.toNat s.info.bs1.toNat su) }, ["init rc=0"])
          else (s, ["init rc=1"])
      | none => (s, ["init rc=1"])
  | ["pkt", h] =>
      match s.stream, fromHex h with
      | some st, some l =>
          let (st', out) := st.packet (ByteArray.mk l.toArray)
          match out with
          | none => ({ s with stream := some st' }, ["pkt rc=bad"])
          | some (chans, eop) =>
              let n := (chans[0]?.map (·.size)).getD 0
              ({ s with stream := some st' },
               s!"pkt rc=0 n={n} eop={if eop then 1 else 0}" :: (chans.toList.zipIdx.map fun (v, c) =>
                  s!"pcm {c} " ++ " ".intercalate (v.toList.map fun x => hex16 x.toBits)))
      | _, _ => (s, ["pkt skipped"])
  | ["dbg", h] =>
      match s.stream, fromHex h with
      | some st, some l =>
          match decodeStages st (ByteArray.mk l.toArray) false with
          | none => (s, ["dbg undecodable"])
          | some g =>
              let b (x : Bool) := if x then 1 else 0
              let line (tag : String) (vs : Array (Array Float)) := vs.toList.zipIdx.map fun (v, c) =>
                s!"{tag} {c} " ++ " ".intercalate (v.toList.map fun x => hex16 x.toBits)
              (s, [s!"dbg mode={g.mode} W={b g.long} lW={g.pf} nW={g.nf} n={g.n}"] ++
                  ((List.range g.used.size).map fun c => s!"flr {c} used={b g.used[c]!} type={g.ftype[c]!} pos={g.fpos[c]!}") ++
                  line "res" g.res ++ line "spec" g.spec)
      | _, _ => (s, ["dbg skipped"])
  | _ => (s, ["bad-op"])

def main : IO Unit := do
  lineLoop (← IO.getStdin) (← IO.getStdout) ({} : St) step

end Vorbis.Driver.C01
