import Vorbis.Driver.Common
import Vorbis.Pcm
namespace Vorbis.Driver.C17
open Vorbis Vorbis.Pcm Vorbis.Driver

def bitsOf : Bytes → List Nat
  | a :: b :: c :: d :: rest => (a.toNat * 16777216 + b.toNat * 65536 + c.toNat * 256 + d.toNat) :: bitsOf rest
  | _ => []

def chunks (n : Nat) (l : List Nat) (fuel : Nat) : List (List Nat) :=
  match fuel with
  | 0 => []
  | fuel + 1 => if l.isEmpty ∨ n = 0 then [] else l.take n :: chunks n (l.drop n) fuel

/-- `conv word sgned be len ch avail hs <inhex>`; `in` holds the frames that were converted -/
def step (_ : Unit) : List String → Unit × List String
  | "case" :: id :: _ => ((), ["== case " ++ id])
  | ["conv", w, s, b, len, ch, avail, hs, inh] =>
      match w.toInt?, s.toNat?, b.toNat?, len.toInt?, ch.toInt?, avail.toNat?, hs.toNat?, fromHex inh with
      | some word, some sg, some be, some length, some chn, some av, some h, some raw =>
          match readFrames av length word chn with
          | .einval => ((), ["rc=" ++ ovname Generated.OV_EINVAL ++ " adv=0 out=-"])
          | .ok frames =>
              let vals := bitsOf raw
              let frs := chunks chn.toNat (vals.take (frames * chn.toNat)) (frames + 1)
              let out := packFrames word.toNat (sg ≠ 0) (be ≠ 0) frs
              let bps := word.toNat * chn.toNat
              ((), ["rc=" ++ toString (frames * bps) ++ " adv=" ++ toString (frames * 2 ^ h) ++
                    " nin=" ++ toString vals.length ++ " out=" ++ toHex out])
      | _, _, _, _, _, _, _, _ => ((), ["bad-op conv"])
  | t :: _ => ((), ["bad-op " ++ t])
  | [] => ((), [])

def main : IO Unit := do
  lineLoop (← IO.getStdin) (← IO.getStdout) () step

end Vorbis.Driver.C17
