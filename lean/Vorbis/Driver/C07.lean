import Vorbis.Driver.Common
import Vorbis.Header
import Vorbis.File.Model
/-
Stream `c07`: the vorbisfile model (Vorbis/File/Model.lean) driven by the page table the harness
prints for the physical stream it built, then by the same call sequence as the real library.
-/
namespace Vorbis.Driver.C07
open Vorbis Vorbis.File Vorbis.Driver

structure Slot where
  vf : VF := {}
  isOpen : Bool := false
  bos : List Int := []
  deriving Inhabited

structure St where
  size : Int := 0
  pages : Array Page := #[]
  hdrs : List (Int × ByteArray) := []       -- (offset of the stream's BOS page, packet) in order
  stalls : List Int := []
  ph : Phys := { size := 0, pages := #[], infos := [] }
  slots : Array Slot := #[{}, {}, {}, {}]

def kv (toks : List String) (k : String) : String :=
  match toks.find? (fun t => t.startsWith (k ++ "=")) with
  | some t => (t.drop (k.length + 1)).toString
  | none => ""

def kvInt (toks : List String) (k : String) : Int := (kv toks k).toInt?.getD 0

def hexByte (s : String) : Nat :=
  match fromHex s with
  | some [b] => b.toNat
  | _ => 0

def parsePk (s : String) : List QPkt :=
  if s = "-" then [] else
  (s.splitOn ",").filterMap fun e =>
    if e = "hole" then none else
    match e.splitOn ":" with
    | [bytes, bb, gran, eos] =>
        some { bytes := bytes.toNat?.getD 0, b0 := hexByte (bb.take 2).toString, b1 := hexByte (bb.drop 2).toString,
               gran := gran.toInt?.getD (-1), eos := eos ≠ "0" }
    | _ => none

def parsePage (t : List String) : Page :=
  { off := kvInt t "off", len := kvInt t "len", hlen := kvInt t "hlen", serial := kvInt t "serial", pageno := kvInt t "pageno",
    gran := kvInt t "gran", bos := kv t "bos" ≠ "0", eos := kv t "eos" ≠ "0", cont := kv t "cont" ≠ "0",
    tail := kv t "tail" ≠ "0", pk := parsePk (kv t "pk") }

/-- run the header model over the three header packets of every link -/
def buildInfos (hdrs : List (Int × ByteArray)) : List (Int × LinkInfo) × List Int :=
  let serials := hdrs.map (·.1) |>.eraseDups
  serials.foldl (fun (acc : List (Int × LinkInfo) × List Int) s =>
    let pk := hdrs.filter (·.1 = s) |>.map (·.2)
    let (info, ok, idok) := pk.zipIdx.foldl (fun (st : Header.Info × Bool × Bool) (p, k) =>
        let (i', rc) := Header.headerin st.1 (k = 0) p
        (i', st.2.1 ∧ rc = 0, if k = 0 then rc = 0 else st.2.2)) (({} : Header.Info), true, false)
    match info.setup with
    | some su =>
        if ok ∧ pk.length = 3 then
          (acc.1 ++ [(s, { channels := info.channels, rate := info.rate, bs0 := info.bs0, bs1 := info.bs1,
                           modes := su.modes.map (fun m => m.blockflag) })], acc.2)
        else (acc.1, if idok then acc.2 ++ [s] else acc.2)
    | none => (acc.1, if idok then acc.2 ++ [s] else acc.2)) ([], [])

def commas (xs : List Int) : String := ",".intercalate (xs.map toString)

def linktable (vf : VF) : String :=
  s!" links={vf.links} seekable={if vf.seekable then 1 else 0} state={vf.ready}" ++
  (if vf.seekable ∧ vf.ready ≥ OPENED then
    s!" end={vf.end_} offs={commas vf.offsets.toList} doffs={commas vf.dataoffsets.toList} serials={commas vf.serialnos.toList} pcml={commas vf.pcmlengths.toList}"
   else "")

def nano (x : Float) : Int := (x * 1e9).round.toInt64.toInt

def timeTotal (vf : VF) (i : Int) : Float :=
  if vf.ready < OPENED then Float.ofInt OV_EINVAL
  else if !vf.seekable ∨ i ≥ vf.links then Float.ofInt OV_EINVAL
  else if i < 0 then (List.range vf.links).foldl (fun a l => a + Float.ofInt vf.pcmlengths[l * 2 + 1]! / Float.ofInt vf.infos[l]!.rate) 0.0
  else Float.ofInt vf.pcmlengths[i.toNat * 2 + 1]! / Float.ofInt vf.infos[i.toNat]!.rate

def timeTell (vf : VF) : Float :=
  if vf.ready < OPENED then Float.ofInt OV_EINVAL
  else if vf.seekable then
    let rec go (k : Nat) (pcmT : Int) (timeT : Float) : Nat × Int × Float :=
      match k with
      | 0 => (0, pcmT, timeT)       -- link = -1 in C: not reached for pcm_offset ≥ 0
      | k' + 1 =>
          let p := pcmT - vf.pcmlengths[k' * 2 + 1]!
          let t := timeT - timeTotal vf k'
          if vf.pcm_offset ≥ p then (k', p, t) else go k' p t
    let (link, p, t) := go vf.links (pcmTotal vf (-1)) (timeTotal vf (-1))
    t + Float.ofInt (vf.pcm_offset - p) / Float.ofInt vf.infos[link]!.rate
  else Float.ofInt vf.pcm_offset / Float.ofInt vf.infos[0]!.rate

/-- the argument of a time seek: milliseconds, or the exact duration ("end"), the double just below / above it ("endm" / "endp"), or "nan" -/
def secsOf (vf : VF) (a : Option String) (ms : Int) : Float :=
  match a with
  | some "end" => timeTotal vf (-1)
  | some "endm" => Float.ofBits ((timeTotal vf (-1)).toBits - 1)
  | some "endp" => Float.ofBits ((timeTotal vf (-1)).toBits + 1)
  | some "nan" => 0.0 / 0.0
  | some a =>
      if a.startsWith "le" then
        -- le<k>q<n>: n quarter samples before the end of link k
        match ((a.drop 2).toString.splitOn "q").map (·.toNat?) with
        | [some k, some n] =>
            if vf.seekable ∧ k < vf.links then
              (List.range (k + 1)).foldl (fun t (i : Nat) => t + timeTotal vf (i : Int)) 0.0 - Float.ofNat n / (4.0 * Float.ofInt vf.infos[k]!.rate)
            else 0.0
        | _ => 0.0
      else Float.ofInt ms / 1000.0
  | _ => Float.ofInt ms / 1000.0

/-- the range check the lapped time seeks make up front -/
def inTime (secs : Float) (v : VF) : Bool := !(secs < 0) && (secs < timeTotal v (-1))

def seekLine (op : String) (rc : Int) (vf : VF) : String :=
  s!"{op} rc={ovname rc} tell={pcmTell vf} state={vf.ready} link={if vf.ready ≥ STREAMSET then vf.current_link else -1}"

def infoLink (vf : VF) (i : Int) : Option LinkInfo :=
  if vf.seekable then
    if i < 0 then (if vf.ready ≥ STREAMSET then vf.infos[vf.current_link.toNat]? else vf.infos[0]?)
    else if i ≥ vf.links then none else vf.infos[i.toNat]?
  else vf.infos[0]?

def step (s : St) (toks : List String) : St × List String :=
  match toks with
  | "case" :: id :: _ => ({}, ["== case " ++ id])
  | ["phys", n] => ({ s with size := n.toInt?.getD 0, pages := #[], hdrs := [], stalls := [] }, [])
  | ["stalls", l] => ({ s with stalls := (l.splitOn ",").filterMap (·.toInt?) }, [])
  | "pg" :: rest => ({ s with pages := s.pages.push (parsePage rest) }, [])
  | ["hdrpk", _, _, bos, h] =>
      match fromHex h with
      | some l => ({ s with hdrs := s.hdrs ++ [(((bos.drop 4).toString.toInt?.getD 0), ByteArray.mk l.toArray)] }, [])
      | none => (s, ["bad-hex"])
  | ["build"] =>
      let (infos, bad) := buildInfos s.hdrs
      ({ s with ph := { size := s.size, pages := s.pages, infos := infos, badhdr := bad, stalls := s.stalls } }, [s!"build pages={s.pages.size} links={infos.length} bad={bad.length}"])
  | op :: slot :: args =>
      let k := (slot.toNat?.getD 0) % 4
      let sl := s.slots[k]!
      let put (sl' : Slot) (out : List String) : St × List String := ({ s with slots := s.slots.set! k sl' }, out)
      let ph := s.ph
      if op = "open" ∨ op = "test" then
        let seekable := args.head? ≠ some "0"
        let vf0 : VF := { closes := 0 }
        let ((rc, bos), vf1) := (do
            let (r, bos) ← open1 ph seekable
            if r ≠ 0 then return (r, [])
            if op = "open" then
              let r2 ← open2 ph bos
              return (r2, bos)
            else return ((0 : Int), bos)).run vf0
        if rc = 0 then put { vf := vf1, isOpen := true, bos := bos } [s!"{op} rc=0 closed={vf1.closes}" ++ linktable vf1]
        else put { vf := vf1, isOpen := false } [s!"{op} rc={ovname rc} closed={vf1.closes} zeroed=1"]
      else if op = "testopen" then
        if !sl.isOpen then put sl ["testopen rc=-9999 closed=0"]
        else
          let (rc, vf1) := (open2 ph sl.bos).run sl.vf
          if rc = 0 then put { sl with vf := vf1 } [s!"testopen rc=0 closed={vf1.closes}" ++ linktable vf1]
          else put { sl with vf := vf1, isOpen := rc = OV_EINVAL } [s!"testopen rc={ovname rc} closed={vf1.closes}"]
      else if !sl.isOpen then put sl [op ++ " notopen"]
      else
        let vf := sl.vf
        let arg (i : Nat) : Int := (args[i]?.bind String.toInt?).getD 0
        let secs : Float := secsOf vf args[0]? (arg 0)
        let run (m : M Int) (fmt : Int → VF → String) : St × List String :=
          let (rc, vf1) := m.run vf
          put { sl with vf := vf1 } [fmt rc vf1]
        match op with
        | "tell" => put sl [s!"tell {pcmTell vf}"]
        | "rawtell" =>
            -- in the last 26 bytes of the file the hunt for a page stops wherever fewer than 27 bytes were buffered when
            -- `ogg_sync_pageseek` was asked: that depends on how the read callback delivered the bytes, which the model does not know
            let v := rawTell vf
            put sl [if v > ph.size - 27 ∧ vf.ready ≥ OPENED then s!"rawtell {v} tail={ph.size - 26}" else s!"rawtell {v}"]
        | "timetell" => put sl [s!"timetell {nano (timeTell vf)}"]
        | "total" => put sl [s!"total {pcmTotal vf (arg 0)}"]
        | "rawtotal" => put sl [s!"rawtotal {rawTotal vf (arg 0)}"]
        | "timetotal" => put sl [s!"timetotal {nano (timeTotal vf (arg 0))}"]
        | "serial" =>
            -- ov_serialnumber: i past the end means the last link; a streaming handle knows the current one only
            let i0 := arg 0
            let i1 : Int := if i0 ≥ vf.links then (vf.links : Int) - 1 else i0
            let i2 : Int := if !vf.seekable ∧ i1 ≥ 0 then -1 else i1
            let v : Int := if i2 < 0 then vf.current_serialno else vf.serialnos[i2.toNat]!
            put sl [s!"serial {v}"]
        | "streams" => put sl [s!"streams {vf.links}"]
        | "seekable" => put sl [s!"seekable {if vf.seekable then 1 else 0}"]
        | "info" =>
            match infoLink vf (arg 0) with
            | some li => put sl [s!"info ch={li.channels} rate={li.rate}"]
            | none => put sl ["info null"]
        | "read" =>
            let t0 := pcmTell vf
            let ((rc, link), vf1) := (readFloat ph (arg 0)).run vf
            put { sl with vf := vf1 } [s!"read rc={ovname rc} link={if rc > 0 then link else -1} t0={t0} t1={pcmTell vf1}"]
        | "readto" =>
            -- read on until the position reaches the target, with requests sized so that it lands on it exactly
            let rec go (fuel : Nat) (v : VF) (last : Int) : VF × Int :=
              match fuel with
              | 0 => (v, last)
              | f + 1 =>
                  let t0 := pcmTell v
                  if t0 < 0 ∨ t0 ≥ arg 0 then (v, last)
                  else
                    let w0 := (arg 0 - t0) / (if v.hs > 0 then 2 else 1)
                    let want := if w0 < 1 then 1 else if w0 > 4096 then 4096 else w0
                    let ((rc, _), v1) := (readFloat ph want).run v
                    if rc ≤ 0 then (v1, rc) else go f v1 rc
            let (vf1, last) := go 200000 vf 0
            put { sl with vf := vf1 } [s!"readto rc={ovname (if last < 0 then last else 0)} tell={pcmTell vf1}"]
        | "readi" =>
            let t0 := pcmTell vf
            let word := arg 2
            if vf.ready < OPENED ∨ word ≤ 0 then put sl [s!"readi rc=OV_EINVAL link=-1 t0={t0} t1={t0}"]
            else
              -- decode until samples are available, then the byte arithmetic of ov_read_filter
              let ((rc, link), vf1) := (readFloat ph 0).run vf       -- length 0: fetches, consumes nothing
              if rc < 0 ∨ (rc = 0 ∧ (vf1.vd.map (·.pcmout)).getD 0 = 0) then
                put { sl with vf := vf1 } [s!"readi rc={ovname rc} link=-1 t0={t0} t1={pcmTell vf1}"]
              else
                let ch := (curInfo' vf1).channels
                let bps := word * ch
                let avail := (vf1.vd.map (·.pcmout)).getD 0
                let n0 := if avail > arg 0 / bps then arg 0 / bps else avail
                if n0 ≤ 0 then put { sl with vf := vf1 } [s!"readi rc=OV_EINVAL link=-1 t0={t0} t1={pcmTell vf1}"]
                else
                  let ((_, _), vf2) := (readFloat ph n0).run vf1
                  let _ := link
                  put { sl with vf := vf2 } [s!"readi rc={n0 * bps} link={vf2.current_link} t0={t0} t1={pcmTell vf2}"]
        | "rawseek" => run (rawSeek ph (arg 0)) (seekLine op)
        | "pcmseekpage" => run (pcmSeekPage ph (rawSeek ph) (arg 0)) (seekLine op)
        | "pcmseek" => run (pcmSeek ph (rawSeek ph) (arg 0)) (seekLine op)
        | "rawseeklap" => run (lapGuard (fun v => decide (0 ≤ arg 0 ∧ arg 0 ≤ v.end_)) (seekLap ph (rawSeek ph (arg 0)))) (seekLine op)
        | "pcmseekpagelap" => run (lapGuard (fun v => decide (0 ≤ arg 0 ∧ arg 0 ≤ pcmTotal v (-1))) (seekLap ph (pcmSeekPage ph (rawSeek ph) (arg 0)))) (seekLine op)
        | "pcmseeklap" => run (lapGuard (fun v => decide (0 ≤ arg 0 ∧ arg 0 ≤ pcmTotal v (-1))) (seekLap ph (pcmSeek ph (rawSeek ph) (arg 0)))) (seekLine op)
        | "timeseek" => run (timeSeek (pcmSeek ph (rawSeek ph)) secs) (seekLine op)
        | "timeseekpage" => run (timeSeek (pcmSeekPage ph (rawSeek ph)) secs) (seekLine op)
        | "timeseeklap" => run (lapGuard (inTime secs) (seekLap ph (timeSeek (pcmSeek ph (rawSeek ph)) secs))) (seekLine op)
        | "timeseekpagelap" => run (lapGuard (inTime secs) (seekLap ph (timeSeek (pcmSeekPage ph (rawSeek ph)) secs))) (seekLine op)
        | "halfrate" => run (halfrate ph (arg 0 ≠ 0)) (fun rc v => s!"halfrate rc={ovname rc} p={v.hs} tell={pcmTell v}")
        | "crosslap" =>
            let k2 := (arg 0).toNat % 4
            let s2 := s.slots[k2]!
            if !s2.isOpen then put sl ["crosslap rc=-9999"]
            else if k2 = k then put sl ["crosslap rc=0"]
            else if vf.ready < OPENED ∨ s2.vf.ready < OPENED then put sl ["crosslap rc=OV_EINVAL"]
            else
              let (r1, vfa) := (initset ph ph.work).run vf
              if r1 ≠ 0 then ({ s with slots := s.slots.set! k { sl with vf := vfa } }, [s!"crosslap rc={ovname r1}"])
              else
                let (r2, vfb) := (initprime ph ph.work).run s2.vf
                if r2 ≠ 0 then ({ s with slots := (s.slots.set! k { sl with vf := vfa }).set! k2 { s2 with vf := vfb } }, [s!"crosslap rc={ovname r2}"])
                else
                  let (_, vfa2) := (getlapFull ph (Block.shr (curInfo' vfa).bs0 (1 + vfa.hs))).run vfa
                  let vfb2 := (doLapout.run vfb).2
                  ({ s with slots := (s.slots.set! k { sl with vf := vfa2 }).set! k2 { s2 with vf := vfb2 } }, ["crosslap rc=0"])
        | "clear" =>
            let (rc, vf1) := clear.run vf
            put { vf := vf1, isOpen := false } [s!"clear rc={rc} closed={vf1.closes}"]
        | _ => put sl ["bad-op " ++ op]
  | _ => (s, ["bad-op"])
where
  curInfo' (vf : VF) : LinkInfo := if vf.seekable then (if vf.ready ≥ STREAMSET then vf.infos[vf.current_link.toNat]! else vf.infos[0]!) else vf.infos[0]!
  sizesOf' (vf : VF) : Block.Sizes := { bs0 := (curInfo' vf).bs0, bs1 := (curInfo' vf).bs1 }

/-- `step`, then the consistency check `decWFb` on every open seekable handle: a broken one marks the answer line -/
def stepChecked (s : St) (toks : List String) : St × List String :=
  let (s', out) := step s toks
  let bad := s'.slots.any fun sl => sl.isOpen && sl.vf.seekable && sl.vf.ready ≥ OPENED && !decWFb sl.vf
  if bad then
    match out.reverse with
    | last :: rest => (s', (((last ++ " wfbroken=1") :: rest).reverse))
    | [] => (s', out)
  else (s', out)

def main : IO Unit := do
  lineLoop (← IO.getStdin) (← IO.getStdout) ({} : St) stepChecked

end Vorbis.Driver.C07
