import Vorbis.Driver.Common
import Vorbis.Block.Dec
import Vorbis.Props.C04
namespace Vorbis.Driver.C04
open Vorbis Vorbis.Block Vorbis.Driver

structure St where
  z : Sizes := { bs0 := 64, bs1 := 64 }
  e : Enc := Enc.init { bs0 := 64, bs1 := 64 }
  d : Dec := Dec.restart { bs0 := 64, bs1 := 64 } 0
  hs : Nat := 0

def b01 (b : Bool) : String := if b then "1" else "0"

def step (s : St) : List String → St × List String
  | "case" :: id :: _ => (s, ["== case " ++ id])
  | ["sizes", a, b, h] =>
      match a.toInt?, b.toInt?, h.toNat? with
      | some x, some y, some hs =>
          let z : Sizes := { bs0 := x, bs1 := y }
          ({ z := z, e := Enc.init z, d := Dec.restart z hs, hs := hs }, [])
      | _, _, _ => (s, ["bad-op sizes"])
  | ["buffer", n] =>
      match n.toInt? with
      | some v => let e := s.e.buffer v
                  ({ s with e := e }, ["cur=" ++ toString e.cur ++ " storage=" ++ toString e.storage])
      | none => (s, ["bad-op buffer"])
  | ["wrote", n] =>
      match n.toInt? with
      | some v => let (e, rc) := s.e.wrote s.z v
                  ({ s with e := e }, ["rc=" ++ ovname rc ++ " cur=" ++ toString e.cur ++ " eof=" ++ toString e.eof ++ " pre=" ++ b01 e.pre])
      | none => (s, ["bad-op wrote"])
  | ["blockout", bp] =>
      match bp.toInt? with
      | some v =>
          let (e, p) := s.e.blockout s.z v
          let base := " cur=" ++ toString e.cur ++ " cW=" ++ toString e.cW ++ " eof=" ++ toString e.eof ++ " gp=" ++ toString e.gp
          match p with
          | some k => ({ s with e := e }, ["rc=1" ++ base ++ " pkt lW=" ++ b01 k.lW ++ " W=" ++ b01 k.W ++ " nW=" ++ b01 k.nW ++
                        " gp=" ++ toString k.gp ++ " eos=" ++ b01 k.eos ++ " seq=" ++ toString k.seq])
          | none => ({ s with e := e }, ["rc=0" ++ base])
      | none => (s, ["bad-op blockout"])
  | ["dec", w, gp, eos, seq] =>
      match w.toNat?, gp.toInt?, eos.toNat?, seq.toInt? with
      | some W, some g, some e, some q =>
          let (d1, rc) := s.d.blockin s.z s.hs { W := W ≠ 0, gp := g, eos := e ≠ 0, seq := q }
          let n := d1.pcmout
          let (d2, _) := d1.read n
          ({ s with d := d2 }, ["brc=" ++ toString rc ++ " n=" ++ toString n])
      | _, _, _, _ => (s, ["bad-op dec"])
  | "coh" :: n :: pk =>
      -- `coh N W:gp:eos:seq ...` : is the packet trace of the shape theorem C04_decode_total assumes?
      let parse (t : String) : Option (Pkt × Bool) :=
        match t.splitOn ":" with
        | [w, g, e, q] =>
            match w.toNat?, g.toInt?, e.toNat?, q.toInt? with
            | some W, some gp, some eos, some sq =>
                some ({ lW := false, W := W ≠ 0, nW := false, gp := gp, eos := eos ≠ 0, seq := sq }, eos ≠ 0)
            | _, _, _, _ => none
        | _ => none
      match n.toInt?, pk.mapM parse with
      | some N, some l =>
          let seq0 := match l with | (p, _) :: _ => p.seq | [] => 0
          (s, ["coherent=" ++ (if decide (Vorbis.Block.Coherent s.z N true false 0 seq0 l) then "1" else "0")])
      | _, _ => (s, ["bad-op coh"])
  | t :: _ => (s, ["bad-op " ++ t])
  | [] => (s, [])

def main : IO Unit := do
  lineLoop (← IO.getStdin) (← IO.getStdout) ({} : St) step

end Vorbis.Driver.C04
