import Vorbis.Driver.Common
import Vorbis.Header
import Vorbis.Generated.Funcs
namespace Vorbis.Driver.C02
open Vorbis Vorbis.Setup Vorbis.Header Vorbis.Block Vorbis.Driver

structure St where
  have_ : Bool := false
  info : Info := {}
  dsp : Option Dec := none

def hashArr (xs : Array Int) : Nat := xs.foldl (fun h v => (h * 31 + (v % 4294967296).toNat) % 4294967296) 0
def commas (xs : Array Int) : String := ",".intercalate (xs.toList.map toString)

def dumpSetup (channels : Int) (s : Setup) : List String :=
  let hdr := s!"setup books={s.books.size} floors={s.floors.size} residues={s.residues.size} maps={s.maps.size} modes={s.modes.size}"
  let books := s.books.toList.zipIdx.map fun (b, i) =>
    let used := b.lengthlist.foldl (fun n l => if l > 0 then n + 1 else n) 0
    let lh := hashArr (b.lengthlist.map (fun (x : Nat) => Int.ofNat x))
    s!"book {i} dim={b.dim} entries={b.entries} maptype={b.maptype} qmin={b.q_min} qdelta={b.q_delta} qquant={b.q_quant} qseq={b.q_sequencep} used={used} lenhash={lh} nq={b.quantlist.size} qhash={hashArr b.quantlist}"
  let floors := s.floors.toList.zipIdx.map fun (f, i) =>
    match f with
    | .f0 f => s!"floor {i} type=0 order={f.order} rate={f.rate} barkmap={f.barkmap} ampbits={f.ampbits} ampdB={f.ampdB} books={commas f.books}"
    | .f1 f =>
        let classes := ",".intercalate ((List.range f.class_dim.size).map fun j =>
          s!"{f.class_dim[j]!}:{f.class_subs[j]!}:{f.class_book[j]!}:" ++ ".".intercalate ((f.class_subbook[j]!).toList.map toString))
        s!"floor {i} type=1 parts={f.partitionclass.size} pclass={commas f.partitionclass} classes={classes} mult={f.mult} posts={commas f.postlist}"
  let residues := s.residues.toList.zipIdx.map fun (r, i) =>
    s!"residue {i} type={r.type} begin={r.begin} end={r.end_} grouping={r.grouping} partitions={r.partitions} partvals={r.partvals} groupbook={r.groupbook} stages={commas r.secondstages} books={commas r.booklist}"
  let maps := s.maps.toList.zipIdx.map fun (m, i) =>
    let cp := ",".intercalate (m.coupling.toList.map fun pr => s!"{pr.1}:{pr.2}")
    let _ := channels
    s!"map {i} submaps={m.submaps} chmux={commas m.chmuxlist} floor={commas m.floorsubmap} res={commas m.residuesubmap} coupling={cp}"
  let modes := s.modes.toList.zipIdx.map fun (m, i) =>
    s!"mode {i} bf={m.blockflag} wt={m.windowtype} tt={m.transformtype} map={m.mapping}"
  hdr :: (books ++ floors ++ residues ++ maps ++ modes)

def bytesOf (h : String) : Option ByteArray := (fromHex h).map (fun l => ByteArray.mk l.toArray)

def step (s : St) : List String → St × List String
  | "case" :: id :: _ => ({}, ["== case " ++ id])
  | ["new"] => ({ have_ := true, info := {}, dsp := none }, [])
  | ["hdr", bos, h] =>
      if !s.have_ then (s, ["skipped hdr"]) else
      match bytesOf h with
      | none => (s, ["bad-hex"])
      | some pkt =>
          let hadSetup := s.info.setup.isSome
          let (i', rc) := headerin s.info (bos ≠ "0") pkt
          let line := "hdr rc=" ++ ovname rc ++
            (if rc = 0 ∧ pkt.size > 0 ∧ pkt.get! 0 = 1 then s!" ch={i'.channels} rate={i'.rate} bs0={i'.bs0} bs1={i'.bs1} br={i'.brUpper},{i'.brNominal},{i'.brLower}" else "")
          let dump := if rc = 0 ∧ pkt.size > 0 ∧ pkt.get! 0 = 5 ∧ !hadSetup then
              match i'.setup with | some su => dumpSetup i'.channels su | none => [] else []
          ({ s with info := i' }, line :: dump)
  | ["fn", "ilog", v] =>
      -- the function body regenerated from lib/sharedbook.c, run as it is
      match v.toNat? with
      | some x => (s, ["fn " ++ (match (Vorbis.Generated.Funcs.ov_ilog.run (x : Int) 40).val? with | some r => toString r | none => "fuel")])
      | none => (s, ["bad-op fn"])
  | ["fn", "qv", e, d] =>
      match e.toInt?, d.toInt? with
      | some en, some dm =>
          if dm < 1 ∨ en ≥ 16777216 then (s, ["fn refused"]) else
          -- any starting guess gives the same answer (C02_quantvals_terminates_correct); a float guess keeps the run short (the inner loop alone needs dim+1 rounds of fuel)
          let g : Int := (Float.floor (Float.pow (Float.ofInt en) (1.0 / Float.ofInt dm))).toInt64.toInt
          (s, ["fn " ++ (match (Vorbis.Generated.Funcs.book_maptype1_quantvals.run en g dm (dm.toNat + 400)).val? with | some r => toString r | none => "fuel")])
      | _, _ => (s, ["bad-op fn"])
  | ["init"] =>
      if !s.have_ ∨ s.dsp.isSome then (s, ["skipped init"]) else
      let (i', rc) := synthesisInit s.info
      if rc = 0 then
        ({ s with info := i', dsp := some (Dec.restart { bs0 := i'.bs0, bs1 := i'.bs1 } i'.halfrate) }, ["init rc=0"])
      else ({ s with info := i' }, ["init rc=1"])
  | [op, h, gp, eos, seq] =>
      if op ≠ "pkt" ∧ op ≠ "track" then (s, ["skipped " ++ op]) else
      match s.dsp, s.info.setup, bytesOf h, gp.toInt?, eos.toNat?, seq.toInt? with
      | some d, some su, some pkt, some g, some e, some q =>
          let (rc, W, lW, nW) := packetHeader su pkt
          if rc ≠ 0 then (s, [op ++ " rc=" ++ ovname rc]) else
          let z : Sizes := { bs0 := s.info.bs0, bs1 := s.info.bs1 }
          let (d1, brc) := d.blockin z s.info.halfrate { W := W ≠ 0, gp := g, eos := e ≠ 0, seq := q, pcm := op = "pkt" }
          let n := d1.pcmout
          let (d2, _) := d1.read n
          ({ s with dsp := some d2 }, [s!"{op} rc=0 W={W} lW={lW} nW={nW} brc={ovname brc} n={n}"])
      | _, _, _, _, _, _ => (s, ["skipped " ++ op])
  | ["restart"] =>
      match s.dsp with
      | some _ => ({ s with dsp := some (Dec.restart { bs0 := s.info.bs0, bs1 := s.info.bs1 } s.info.halfrate) }, ["restart rc=0"])
      | none => (s, ["skipped restart"])
  | ["halfrate", f] =>
      if !s.have_ ∨ !s.info.ci then (s, ["skipped halfrate"]) else
      if s.info.bs0 ≤ 64 ∧ f ≠ "0" then (s, ["halfrate rc=-1"])
      else ({ s with info := { s.info with halfrate := if f ≠ "0" then 1 else 0 } }, ["halfrate rc=0"])
  | ["clear"] => ({}, ["cleared"])
  | t :: _ => (s, ["skipped " ++ t])
  | [] => (s, [])

def main : IO Unit := do
  lineLoop (← IO.getStdin) (← IO.getStdout) ({} : St) step

end Vorbis.Driver.C02
