import Vorbis.Driver.Common
import Vorbis.Bitrate
namespace Vorbis.Driver.C14
open Vorbis Vorbis.Bitrate Vorbis.Driver

structure St where
  cfg : Cfg := { minb := 0, maxb := 0, spl := 1, RB := 0, desired := 0 }
  R : Int := 0

/-- `cfg minb maxb spl RB desired R0` then `blk W c0 b0 .. b14` -/
def step (s : St) : List String → St × List String
  | "case" :: id :: _ => (s, ["== case " ++ id])
  | ["cfg", a, b, c, d, e, f] =>
      match a.toInt?, b.toInt?, c.toInt?, d.toInt?, e.toInt?, f.toInt? with
      | some minb, some maxb, some spl, some rb, some des, some r0 =>
          ({ cfg := { minb := minb, maxb := maxb, spl := spl, RB := rb, desired := des }, R := r0 }, [])
      | _, _, _, _, _, _ => (s, ["bad-op cfg"])
  | ["cfgr", a, b, c, d, e, f, g, h] =>
      -- from the configuration: min rate, max rate (bit/s), sample rate, block sizes, reservoir bits, desired fill, initial reservoir
      match a.toInt?, b.toInt?, c.toInt?, d.toInt?, e.toInt?, f.toInt?, g.toInt?, h.toInt? with
      | some mn, some mx, some rate, some bs0, some bs1, some rb, some des, some r0 =>
          if rate ≤ 0 ∨ bs0 ≤ 0 then (s, ["bad-op cfgr"])
          else
            let cf := Cfg.ofRates mn mx rate bs0 bs1 rb des
            ({ cfg := cf, R := r0 }, [s!"cfgr minb={cf.minb} maxb={cf.maxb} spl={cf.spl}"])
      | _, _, _, _, _, _, _, _ => (s, ["bad-op cfgr"])
  | "blk" :: w :: c0 :: blobs =>
      match w.toNat?, c0.toNat?, blobs.mapM String.toNat? with
      | some W, some c, some bl =>
          let bf : Nat → Nat := fun i => bl.getD i 0
          let (R', bits, ch) := addblock s.cfg s.R (W ≠ 0) bf c
          ({ s with R := R' }, ["choice=" ++ toString ch ++ " bytes=" ++ toString (bits / 8) ++ " R=" ++ toString R'])
      | _, _, _ => (s, ["bad-op blk"])
  | t :: _ => (s, ["bad-op " ++ t])
  | [] => (s, [])

def main : IO Unit := do
  lineLoop (← IO.getStdin) (← IO.getStdout) ({} : St) step

end Vorbis.Driver.C14
