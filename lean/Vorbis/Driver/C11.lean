import Vorbis.Driver.Common
import Vorbis.Block.Lap
namespace Vorbis.Driver.C11
open Vorbis Vorbis.Block.Lap Vorbis.Driver

def showCell (c : Cell) : String :=
  ",".intercalate (c.map fun s => match s with | .stale => "stale" | .pkt k j => s!"{k}:{j}")

/-- model state of one decoder: the provenance buffer; `k` counts blocks as the harness does -/
structure St where
  n0 : Int := 32
  n1 : Int := 32
  s : Block.Lap.St := restart 32
  k : Nat := 0

def step (st : St) : List String → St × List String
  | "case" :: id :: _ => ({}, ["== case " ++ id])
  | ["sizes", a, b] =>
      match a.toInt?, b.toInt? with
      | some x, some y => ({ n0 := x, n1 := y, s := restart y, k := 0 }, [])
      | _, _ => (st, ["bad-op sizes"])
  | ["blk", w] =>
      let s' := blockin st.n0 st.n1 st.s st.k (w ≠ "0")
      let cnt := if s'.retHi > s'.retLo then (s'.retHi - s'.retLo).toNat else 0
      let cells := (List.range cnt).map fun (r : Nat) => showCell (s'.buf (s'.retLo + (r : Int)))
      ({ st with s := s', k := st.k + 1 }, [s!"out k={st.k} n={cnt} cells=" ++ (if cells.isEmpty then "-" else "|".intercalate cells)])
  | ["restart"] =>
      -- the buffer keeps its content: it is simply all `stale` from the decoder's point of view
      ({ st with s := restart st.n1 }, ["restart rc=0"])
  | t :: _ => (st, ["skipped " ++ t])
  | [] => (st, [])

def main : IO Unit := do
  lineLoop (← IO.getStdin) (← IO.getStdout) ({} : St) step

end Vorbis.Driver.C11
