import Vorbis.Basic
/-
Model of the comment header (lib/info.c): `_vorbis_pack_comment`, `_vorbis_unpack_comment`,
`vorbis_comment_query`, `vorbis_comment_query_count`, `tagcompare`, `_v_toupper`.

The comment header is byte aligned up to its final framing bit, so the model works on bytes.
`storage` is `opb->storage` (length of the whole packet, 7 byte preamble included) and
`used` is `oggpack_bytes(opb)`.
-/
namespace Vorbis.Comment
open Vorbis

/-- the 7 byte preamble of header packet type `t` -/
def preamble (t : UInt8) : Bytes := t :: [118, 111, 114, 98, 105, 115]   -- "vorbis"

/-- `_vorbis_pack_comment` for a vendor string and a list of (length,bytes) entries -/
def packEntries : List Bytes → Bytes
  | [] => []
  | c :: cs => le32 c.length ++ c ++ packEntries cs

def pack (vendor : Bytes) (cs : List Bytes) : Bytes :=
  preamble 3 ++ le32 vendor.length ++ vendor ++ le32 cs.length ++ packEntries cs ++ [1]

/-- the loop `for(i=0;i<vc->comments;i++)` of `_vorbis_unpack_comment`:
    `n` entries still to read, `rest` the unread bytes (so `storage-used = rest.length`). -/
def unpackEntries : Nat → Bytes → Option (List Bytes × Bytes)
  | 0, rest => some ([], rest)
  | n + 1, rest => do
      let (len, r1) ← readLe32 rest
      if len ≥ 2147483648 then none            -- `len<0`
      else if len > r1.length then none        -- `len>opb->storage-oggpack_bytes(opb)`
      else
        let (c, r2) ← takeN len r1
        let (cs, r3) ← unpackEntries n r2
        pure (c :: cs, r3)

/-- `_vorbis_unpack_comment` on the bytes after the preamble; `storage` = whole packet length -/
def unpackBody (storage : Nat) (body : Bytes) : Option (Bytes × List Bytes) := do
  let (vlen, r1) ← readLe32 body
  if vlen ≥ 2147483648 then none               -- `vendorlen<0`
  else if (vlen : Int) > (storage : Int) - 8 then none
  else
    let (vendor, r2) ← takeN vlen r1
    let (cnt, r3) ← readLe32 r2
    if cnt ≥ 2147483648 then none              -- `i<0`
    else if cnt > r3.length / 4 then none      -- `i>((storage-bytes)>>2)`
    else
      let (cs, r4) ← unpackEntries cnt r3
      match r4 with
      | b :: _ => if b.toNat % 2 = 1 then some (vendor, cs) else none   -- framing bit
      | [] => none

/-- comment packet as `vorbis_synthesis_headerin` sees it once the info header has been read -/
def unpack (pkt : Bytes) : Option (Bytes × List Bytes) :=
  match takeN 7 pkt with
  | some (pre, body) => if pre = preamble 3 then unpackBody pkt.length body else none
  | none => none

/-- outcome of `vorbis_synthesis_headerin` for a packet offered as the *second* header (info header
    already accepted, no comment header yet, `b_o_s` clear): the return code class. -/
inductive HeaderRc | ok | notVorbis | badHeader
  deriving DecidableEq, Repr

/-- `vorbis_synthesis_headerin` in the state "ident seen, comments not yet seen", packet without b_o_s.
    Reads past the end yield -1 (0xff bytes), so a short packet is simply "not vorbis". -/
def headerinSecond (pkt : Bytes) : HeaderRc × Option (Bytes × List Bytes) :=
  match takeN 7 pkt with
  | none => (.notVorbis, none)
  | some (pre, _) =>
    if pre.drop 1 ≠ (preamble 0).drop 1 then (.notVorbis, none)
    else if pre.head? = some 3 then
      match unpack pkt with
      | some r => (.ok, some r)
      | none => (.badHeader, none)
    else (.badHeader, none)   -- type 1 without b_o_s, type 5 before comments, anything else

/-- `_v_toupper`: ASCII only -/
def toupper (b : UInt8) : UInt8 := if 97 ≤ b ∧ b ≤ 122 then b - 32 else b

/-- `tagcompare(s1, fulltag, taglen)==0` where `s1` is the NUL-terminated comment: a comment
    shorter than the tag stops on its terminator, which never equals a tag byte. -/
def tagMatches (tag : Bytes) (c : Bytes) : Bool :=
  let ft := tag ++ [61]    -- '='
  decide (ft.length ≤ c.length) && ((c.take ft.length).map toupper == ft.map toupper)

/-- the loop of `vorbis_comment_query`: index of the `count`-th match and the bytes after `tag=` -/
def queryLoop (tag : Bytes) : (cs : List Bytes) → (idx found count : Nat) → Option (Nat × Bytes)
  | [], _, _, _ => none
  | c :: cs, idx, found, count =>
      if tagMatches tag c then
        if count = found then some (idx, c.drop (tag.length + 1))
        else queryLoop tag cs (idx + 1) (found + 1) count
      else queryLoop tag cs (idx + 1) found count

def query (cs : List Bytes) (tag : Bytes) (count : Nat) : Option (Nat × Bytes) :=
  queryLoop tag cs 0 0 count

def queryCount (cs : List Bytes) (tag : Bytes) : Nat :=
  cs.foldl (fun n c => if tagMatches tag c then n + 1 else n) 0

end Vorbis.Comment
