/-
libogg's LSb-first bit reader (`oggpack_readinit`, `oggpack_read`, `oggpack_bytes`) as libvorbis uses it.
External component: modelled executably, validated by the correspondence streams only.

A read that would pass the end of the packet returns -1 and leaves the reader "dead":
every later read returns -1 and `oggpack_bytes` reports `storage+1`.
-/
namespace Vorbis

structure Reader where
  data : ByteArray
  pos : Nat          -- bit position
  dead : Bool
  deriving Inhabited

def Reader.init (d : ByteArray) : Reader := { data := d, pos := 0, dead := false }

def Reader.storage (r : Reader) : Nat := r.data.size

def Reader.bit (r : Reader) (i : Nat) : Nat :=
  ((r.data.get! (i / 8)).toNat / 2 ^ (i % 8)) % 2

/-- value of the `n` bits starting at `pos` (bit `i` has weight 2^i) -/
def Reader.peek (r : Reader) (pos : Nat) : Nat → Nat
  | 0 => 0
  | n + 1 => r.bit pos + 2 * r.peek (pos + 1) n

/-- `oggpack_read(b,bits)` for `bits ≤ 32`; -1 = ran off the end -/
def Reader.read (r : Reader) (n : Nat) : Int × Reader :=
  if r.dead ∨ n > 32 then (-1, { r with dead := true })
  else if r.pos + n > 8 * r.data.size then (-1, { r with dead := true })
  else ((r.peek r.pos n : Nat), { r with pos := r.pos + n })

/-- `oggpack_bytes(b)` -/
def Reader.bytes (r : Reader) : Int :=
  if r.dead then (r.data.size : Int) + 1 else ((r.pos + 7) / 8 : Nat)

/-- `ov_ilog`: number of bits needed to write `v` (0 for 0); `v` is taken as a 32 bit unsigned -/
def ilogNat : Nat → Nat
  | 0 => 0
  | n + 1 => 1 + ilogNat ((n + 1) / 2)
decreasing_by omega

/-- `ov_ilog((ogg_uint32_t)v)` for a C `int`/`long` argument that may be negative -/
def ilog (v : Int) : Nat := ilogNat (v % 4294967296).toNat

end Vorbis

namespace Vorbis

theorem Reader.bit_lt (r : Reader) (i : Nat) : r.bit i < 2 := by
  unfold Reader.bit; exact Nat.mod_lt _ (by decide)

theorem Reader.peek_lt (r : Reader) (pos n : Nat) : r.peek pos n < 2 ^ n := by
  induction n generalizing pos with
  | zero => simp [Reader.peek]
  | succ k ih =>
    have h1 := r.bit_lt pos
    have h2 := ih (pos + 1)
    simp only [Reader.peek, Nat.pow_succ]
    omega

/-- a read either fails (-1, reader dead afterwards) or yields a value in `[0, 2^n)` -/
theorem Reader.read_range (r : Reader) (n : Nat) :
    (r.read n).1 = -1 ∨ (0 ≤ (r.read n).1 ∧ (r.read n).1 < (2 ^ n : Nat)) := by
  unfold Reader.read
  split
  · left; rfl
  · split
    · left; rfl
    · right
      have := r.peek_lt r.pos n
      constructor
      · exact Int.natCast_nonneg _
      · exact Int.ofNat_lt.mpr this

end Vorbis
