import Vorbis.Setup
/-
`_make_words` (lib/sharedbook.c): Huffman codeword assignment from a length list, with the
over/under-population checks that decide whether `vorbis_synthesis_init` accepts a book.
-/
namespace Vorbis.Codebook
open Vorbis Vorbis.Setup

/-- the `marker[33]` array, index 0 unused -/
abbrev Markers := Array Nat

def M32 : Nat := 4294967296

/-- "update ourself ... Look to see if the next shorter marker points to the node above":
    the loop `for(j=length;j>0;j--)` -/
def bumpUp (m : Markers) : Nat → Markers
  | 0 => m
  | j + 1 =>
      if m[j + 1]! % 2 = 1 then
        if j + 1 = 1 then m.set! 1 ((m[1]! + 1) % M32)
        else m.set! (j + 1) ((m[j]! * 2) % M32)
      else bumpUp (m.set! (j + 1) ((m[j + 1]! + 1) % M32)) j

/-- "prune the tree": the loop `for(j=length+1;j<33;j++)` -/
def prune (m : Markers) (entry : Nat) : Nat → Nat → Markers
  | 0, _ => m
  | fuel + 1, j =>
      if j < 33 then
        if m[j]! / 2 = entry then
          let e' := m[j]!
          prune (m.set! j ((m[j - 1]! * 2) % M32)) e' fuel (j + 1)
        else m
      else m

/-- one entry of length `len > 0`: returns the codeword (before bit reversal) or `none` if the
    tree is overpopulated -/
def assign (m : Markers) (len : Nat) : Option (Nat × Markers) :=
  let entry := m[len]!
  if len < 32 ∧ entry / 2 ^ len ≠ 0 then none
  else
    let m1 := bumpUp m len
    some (entry, prune m1 entry 33 (len + 1))

/-- the first loop of `_make_words`: `count` counts assigned (sparse) or all (dense) slots -/
def assignAll (lengths : List Nat) (m : Markers) (acc : Array Nat) : Option (Array Nat × Markers) :=
  match lengths with
  | [] => some (acc, m)
  | l :: rest =>
      if l > 0 then
        match assign m l with
        | none => none
        | some (e, m') => assignAll rest m' (acc.push e)
      else assignAll rest m acc

/-- "any underpopulated tree must be rejected" with the single-entry exception -/
def underpopulated (m : Markers) (count : Nat) : Bool :=
  if count = 1 ∧ m[2]! = 2 then false
  else (List.range 33).any (fun i => i ≥ 1 ∧ m[i]! % 2 ^ i ≠ 0)

/-- does `_make_words(l,n,used)` return non-NULL?  (`vorbis_book_init_decode` fails otherwise) -/
def makeWordsOk (lengths : Array Nat) : Bool :=
  match assignAll lengths.toList (Array.replicate 33 0) #[] with
  | none => false
  | some (codes, m) => !underpopulated m codes.size

/-- the unreversed codewords of the used entries, in entry order -/
def makeWords (lengths : Array Nat) : Option (Array Nat) :=
  match assignAll lengths.toList (Array.replicate 33 0) #[] with
  | none => none
  | some (codes, m) => if underpopulated m codes.size then none else some codes

/-- `vorbis_synthesis_init`'s verdict on the books of a set-up (0 ok, 1 failure) -/
def initOk (s : Setup) : Bool :=
  s.books.all (fun b =>
    let used := b.lengthlist.foldl (fun n l => if l > 0 then n + 1 else n) 0
    used = 0 ∨ makeWordsOk b.lengthlist)

end Vorbis.Codebook
