import Vorbis.File.Model
namespace Vorbis.Props.C10
open Vorbis Vorbis.File Vorbis.Block
set_option linter.unusedSimpArgs false

/-- how much the sync layer happens to have buffered (which depends on what the read callback
    returned) influences neither the page found nor where the cursor ends up, for bounded and
    unbounded searches alike (`boundary ≠ 0`) -/
theorem C10_next_page_ignores_buffering (ph : Phys) (off f1 f2 boundary : Int) (hb : boundary ≠ 0) :
    (nextPage ph { off := off, fill := f1 } boundary).1 = (nextPage ph { off := off, fill := f2 } boundary).1 ∧
    (nextPage ph { off := off, fill := f1 } boundary).2.1.off = (nextPage ph { off := off, fill := f2 } boundary).2.1.off ∧
    (nextPage ph { off := off, fill := f1 } boundary).2.2.off = (nextPage ph { off := off, fill := f2 } boundary).2.2.off := by
  unfold nextPage
  simp only [hb, false_and, if_false]
  generalize ph.pages.find? (fun p => decide (p.off ≥ off ∧ p.off < stallAt ph off)) = r
  generalize stallAt ph off = st
  cases r with
  | none =>
      by_cases h : boundary > 0 ∧ off + boundary ≤ st <;> simp [h]
  | some p =>
      by_cases h : boundary > 0 ∧ p.off ≥ off + boundary <;> simp [h]

theorem shl_add (a b : Int) (k : Nat) : shl (a + b) k = shl a k + shl b k := by
  unfold shl; exact Int.add_mul a b _

theorem read_ok (d : Dec) (n : Int) (h0 : 0 ≤ n) (h : n ≤ d.pcmout) : (d.read n).1 = { d with ret := d.ret + n } := by
  unfold Dec.read
  unfold Dec.pcmout at h
  by_cases hn : n = 0
  · subst hn; simp
  · have : ¬ (d.ret + n > d.cur) := by
      split at h <;> omega
    simp [hn, this]

theorem pcmout_read (d : Dec) (n : Int) (h0 : 0 ≤ n) (h : n ≤ d.pcmout) :
    ({ d with ret := d.ret + n } : Dec).pcmout = d.pcmout - n := by
  unfold Dec.pcmout at *
  simp only []
  split at h
  · rename_i hc
    by_cases hn : d.ret + n < d.cur
    · have : d.ret + n > -1 := by omega
      simp [this, hn]; omega
    · have : ¬ (d.ret + n > -1 ∧ d.ret + n < d.cur) := by omega
      simp [this]; omega
  · rename_i hc
    have hn : n = 0 := by omega
    subst hn
    simp [hc]

def take (avail len : Int) : Int := if avail > len then len else avail

theorem readTake_spec (s : VF) (d : Dec) (len : Int) (hr : s.ready = INITSET) (hv : s.vd = some d) (hl : 0 ≤ len) :
    readTake s len = (take d.pcmout len,
      { s with vd := some { d with ret := d.ret + take d.pcmout len }, pcm_offset := s.pcm_offset + shl (take d.pcmout len) s.hs }) := by
  have hp : 0 ≤ d.pcmout := by unfold Dec.pcmout; split <;> omega
  simp only [readTake, readAvail, hr, hv, if_true, Option.map, take]
  rw [read_ok d _ (by split <;> omega) (by split <;> omega)]

/-- the lengths passed to the read calls do not matter: asking for `a` and then for `b` samples hands out the same stretch of the
    decoder's buffer — same total count, same final decoder cursor and position — as asking for `a+b` at once -/
theorem C10_read_split (s : VF) (a b : Int) (ha : 0 ≤ a) (hb : 0 ≤ b) :
    (readTake (readTake s a).2 b).2 = (readTake s (a + b)).2 ∧
    (readTake s a).1 + (readTake (readTake s a).2 b).1 = (readTake s (a + b)).1 := by
  by_cases hr : s.ready = INITSET
  · cases hv : s.vd with
    | none =>
        simp [readTake, readAvail, hr, hv, shl]
        have h1 : ¬ ((0:Int) > a) := by omega
        have h2 : ¬ ((0:Int) > b) := by omega
        have h3 : ¬ ((0:Int) > a + b) := by omega
        simp [h1, h2, h3]
    | some d =>
        have hp : 0 ≤ d.pcmout := by unfold Dec.pcmout; split <;> omega
        have ht : 0 ≤ take d.pcmout a ∧ take d.pcmout a ≤ d.pcmout := by unfold take; split <;> omega
        rw [readTake_spec s d a hr hv ha, readTake_spec s d (a + b) hr hv (by omega)]
        simp only []
        have e2 := readTake_spec
          { s with vd := some { d with ret := d.ret + take d.pcmout a }, pcm_offset := s.pcm_offset + shl (take d.pcmout a) s.hs }
          { d with ret := d.ret + take d.pcmout a } b hr rfl hb
        rw [e2]
        rw [pcmout_read d _ ht.1 ht.2]
        have key : take d.pcmout a + take (d.pcmout - take d.pcmout a) b = take d.pcmout (a + b) := by
          unfold take; split <;> split <;> split <;> omega
        constructor
        · simp only [shl_add, ← key, Int.add_assoc]
        · exact key
  · simp [readTake, readAvail, hr, shl]
    have h1 : ¬ ((0:Int) > a) := by omega
    have h2 : ¬ ((0:Int) > b) := by omega
    have h3 : ¬ ((0:Int) > a + b) := by omega
    simp [h1, h2, h3]
    cases s.vd <;> simp [Dec.read]

/-- a sequence of read calls with the given maximum lengths: total count and final state -/
def readSeq (s : VF) : List Int → Int × VF
  | [] => (0, s)
  | l :: ls => ((readTake s l).1 + (readSeq (readTake s l).2 ls).1, (readSeq (readTake s l).2 ls).2)

theorem readTake_zero (s : VF) : readTake s 0 = (0, s) := by
  have key : ∀ (d : Dec), (d.read 0).1 = d := by
    intro d; cases d; simp [Dec.read]
  have hn : (if readAvail s > 0 then (0:Int) else readAvail s) = 0 := by
    have : 0 ≤ readAvail s := by
      unfold readAvail
      split
      · cases s.vd with
        | none => simp
        | some d => simp only []; unfold Dec.pcmout; split <;> omega
      · omega
    split <;> omega
  cases s with
  | mk a1 a2 a3 a4 a5 a6 a7 a8 a9 a10 a11 a12 a13 a14 a15 vd a17 a18 a19 a20 a21 =>
    simp only [readTake, hn]
    cases vd with
    | none => simp [shl]
    | some d => simp [shl, key]

theorem sum_nonneg (ls : List Int) (h : ∀ l ∈ ls, 0 ≤ l) : 0 ≤ ls.sum := by
  induction ls with
  | nil => simp
  | cons x xs ih =>
      have h1 := h x (by simp)
      have h2 := ih (fun y hy => h y (by simp [hy]))
      simp only [List.sum_cons]; omega

/-- **request lengths are irrelevant**: any sequence of reads with non-negative maximum lengths hands out, in total, exactly what one
    read of the summed length hands out, and leaves the handle in the same state (within the decoded block: a read never crosses a packet) -/
theorem C10_read_lengths_irrelevant (ls : List Int) (h : ∀ l ∈ ls, 0 ≤ l) (s : VF) :
    readSeq s ls = readTake s ls.sum := by
  induction ls generalizing s with
  | nil => simp [readSeq, readTake_zero]
  | cons l ls ih =>
      have hl : 0 ≤ l := h l (by simp)
      have hs : 0 ≤ ls.sum := sum_nonneg ls (fun y hy => h y (by simp [hy]))
      have ih' := ih (by intro y hy; exact h y (by simp [hy])) (readTake s l).2
      have sp := C10_read_split s l ls.sum hl hs
      simp only [readSeq, List.sum_cons]
      rw [ih']
      exact Prod.ext sp.2 sp.1

/-- non-vacuity: a handle with 6 decoded samples pending; 2+3+4 and 9 at once both hand out all 6 and end in the same state -/
example : readSeq { ready := INITSET, vd := some { lW := false, W := false, cW := 0, cur := 10, ret := 4, gran := -1, seq := 0, sc := 0, eof := false } } [2, 3, 4] =
    readTake { ready := INITSET, vd := some { lW := false, W := false, cW := 0, cur := 10, ret := 4, gran := -1, seq := 0, sc := 0, eof := false } } 9 :=
  C10_read_lengths_irrelevant [2, 3, 4] (by decide) _
example : (readTake { ready := INITSET, vd := some { lW := false, W := false, cW := 0, cur := 10, ret := 4, gran := -1, seq := 0, sc := 0, eof := false } } 9).1 = 6 := by decide

end Vorbis.Props.C10
