import Vorbis.File.Model
namespace Vorbis.Props.C10
open Vorbis Vorbis.File

/-- how much the sync layer happens to have buffered (which depends on what the read callback
    returned) influences neither the page found nor where the cursor ends up, for bounded and
    unbounded searches alike (`boundary ≠ 0`) -/
theorem C10_next_page_ignores_buffering (ph : Phys) (off f1 f2 boundary : Int) (hb : boundary ≠ 0) :
    (nextPage ph { off := off, fill := f1 } boundary).1 = (nextPage ph { off := off, fill := f2 } boundary).1 ∧
    (nextPage ph { off := off, fill := f1 } boundary).2.1.off = (nextPage ph { off := off, fill := f2 } boundary).2.1.off ∧
    (nextPage ph { off := off, fill := f1 } boundary).2.2.off = (nextPage ph { off := off, fill := f2 } boundary).2.2.off := by
  unfold nextPage
  simp only [hb, false_and, if_false]
  generalize ph.pages.find? (fun p => decide (p.off ≥ off ∧ p.off < stallAt ph off)) = r
  generalize stallAt ph off = st
  cases r with
  | none =>
      by_cases h : boundary > 0 ∧ off + boundary ≤ st <;> simp [h]
  | some p =>
      by_cases h : boundary > 0 ∧ p.off ≥ off + boundary <;> simp [h]

end Vorbis.Props.C10
