import Vorbis.Proofs.Pcm
/-!
# C17 — integer PCM output is the rounded, clipped, interleaved float output

Model: `Vorbis/Pcm.lean` (`ov_read_filter` packing loops, `vorbis_ftoi`). Floats are bit patterns.
Tied to the C by stream `c17` (real decoded blocks and injected bit patterns, every format).
-/
namespace Vorbis.Props.C17
open Vorbis Vorbis.Pcm

/-- **C17_round** — the conversion primitive rounds to nearest (ties to even): the scaled integer is
within half a unit of the exact value `n / 2^k`, and it is monotone. -/
theorem C17_round (n : Int) (k : Nat) :
    (-(2^k : Int) ≤ 2 * (rne n k * 2^k - n) ∧ 2 * (rne n k * 2^k - n) ≤ 2^k) ∧
    (∀ m, n ≤ m → rne n k ≤ rne m k) :=
  ⟨rne_error n k, fun m h => rne_mono n m k h⟩

/-- **C17_inrange** — for every finite sample whose scaled magnitude needs rounding (|x·2^shift| < 2^24,
which includes the whole representable PCM range) the converted integer is exactly
round-to-nearest-even of the exact scaled value, with the sign of the sample; nothing saturates. -/
theorem C17_inrange (bits shift : Nat) (he : fexp bits ≠ 255) (hp : fpow bits shift < 150) :
    ftoiScaled bits shift
      = (if fsign bits = 1 then -(rne (fmant bits) (150 - fpow bits shift))
         else rne (fmant bits) (150 - fpow bits shift)) := by
  have hm0 : 0 ≤ fmant bits := by unfold fmant; split <;> omega
  have hm1 : fmant bits < 16777216 := by unfold fmant fman; split <;> omega
  have hk : 1 ≤ 150 - fpow bits shift := by omega
  have hr0 := rne_nonneg (fmant bits) (150 - fpow bits shift) hm0
  have hr1 : rne (fmant bits) (150 - fpow bits shift) ≤ 16777216 := by
    have e := (rne_error (fmant bits) (150 - fpow bits shift)).2
    have hd : (2:Int) ≤ 2 ^ (150 - fpow bits shift) := by
      obtain ⟨j, hj⟩ : ∃ j, 150 - fpow bits shift = j + 1 := ⟨150 - fpow bits shift - 1, by omega⟩
      rw [hj, Int.pow_succ]
      have : (0:Int) < 2 ^ j := Int.pow_pos (by decide)
      omega
    generalize (2:Int) ^ (150 - fpow bits shift) = d at *
    generalize rne (fmant bits) (150 - fpow bits shift) = R at *
    apply Int.not_lt.mp
    intro hlt
    have : (16777216 + 1) * d ≤ R * d := Int.mul_le_mul_of_nonneg_right (by omega) (by omega)
    rw [Int.add_mul, Int.one_mul] at this
    omega
  have hmag : magnitude bits shift = rne (fmant bits) (150 - fpow bits shift) := by
    unfold magnitude; rw [if_neg (by omega)]
  unfold ftoiScaled
  rw [if_neg he]
  unfold signedMag
  rw [hmag]
  generalize rne (fmant bits) (150 - fpow bits shift) = R at *
  unfold saturate INT_MAX INT_MIN
  split <;> (rw [if_neg (by omega), if_neg (by omega)])

/-- **C17_saturate_pos** — a positive sample whose scaled value is at least 2^31 converts to
INT_MAX (not to INT_MIN) and is therefore delivered as the most positive PCM value.
This is the regression theorem for finding F5. -/
theorem C17_saturate_pos (bits shift : Nat) (he : fexp bits ≠ 255) (hs : fsign bits = 0)
    (hp : 150 ≤ fpow bits shift)
    (hbig : (2147483648 : Int) ≤ fmant bits * 2 ^ (fpow bits shift - 150)) :
    ftoiScaled bits shift = INT_MAX := by
  have hmag : magnitude bits shift = fmant bits * 2 ^ (fpow bits shift - 150) := by
    unfold magnitude; rw [if_pos hp]
  unfold ftoiScaled
  rw [if_neg he]
  unfold signedMag
  rw [hmag, if_neg (by omega)]
  unfold saturate INT_MAX
  rw [if_pos (by omega)]

theorem C17_clip_pos (bits : Nat) (he : fexp bits ≠ 255) (hs : fsign bits = 0)
    (hp : 150 ≤ fpow bits 15)
    (hbig : (2147483648 : Int) ≤ fmant bits * 2 ^ (fpow bits 15 - 150)) :
    sample 2 bits = 32767 := by
  unfold sample
  rw [if_neg (by decide), C17_saturate_pos bits 15 he hs hp hbig]
  decide

/-- non-vacuity: +70000.0f = 0x4788B800 satisfies the hypotheses (70000·32768 ≥ 2^31) -/
example : fexp 0x4788B800 ≠ 255 ∧ fsign 0x4788B800 = 0 ∧ 150 ≤ fpow 0x4788B800 15 ∧
    (2147483648 : Int) ≤ fmant 0x4788B800 * 2 ^ (fpow 0x4788B800 15 - 150) := by decide

/-- **C17_sample_range** — whatever the bit pattern (huge, infinite, NaN), the delivered value is
inside the representable range of the word size. -/
theorem C17_sample_range (word bits : Nat) :
    (word = 1 → -128 ≤ sample word bits ∧ sample word bits ≤ 127) ∧
    (word ≠ 1 → -32768 ≤ sample word bits ∧ sample word bits ≤ 32767) := by
  constructor
  · intro h; subst h; simpa [sample] using clip_range (-128) 127 (ftoiScaled bits 7) (by decide)
  · intro h; simp only [sample, if_neg h]; exact clip_range (-32768) 32767 _ (by decide)

/-- how a reader of the byte stream recovers the sample -/
def decode (word : Nat) (sgned be : Bool) (b : Bytes) : Option Int :=
  match word, b with
  | 1, [x] => some (if sgned then (if x.toNat ≥ 128 then (x.toNat : Int) - 256 else x.toNat) else (x.toNat : Int) - 128)
  | 2, [x, y] =>
      let u : Int := if be then 256 * x.toNat + y.toNat else 256 * y.toNat + x.toNat
      some (if sgned then (if u ≥ 32768 then u - 65536 else u) else u - 32768)
  | _, _ => none

theorem byteOf_toNat (v : Int) : ((byteOf v).toNat : Int) = v % 256 := by
  unfold byteOf
  have h0 : 0 ≤ v % 256 := Int.emod_nonneg v (by decide)
  have h1 : v % 256 < 256 := Int.emod_lt_of_pos v (by decide)
  simp only [UInt8.toNat_ofNat']
  have : (v % 256).toNat < 256 := by omega
  rw [Nat.mod_eq_of_lt this]
  omega

/-- **C17_bytes** — for every word size, signedness and byte order the bytes written for a sample
decode (as two's complement or offset binary, in the stated byte order) to exactly the rounded,
clipped value of that sample. -/
theorem C17_bytes (word : Nat) (hw : word = 1 ∨ word = 2) (sgned be : Bool) (bits : Nat) :
    decode word sgned be (packSample word sgned be bits) = some (sample word bits) := by
  have hr := C17_sample_range word bits
  rcases hw with h | h <;> subst h
  · have ⟨h1, h2⟩ := hr.1 rfl
    unfold packSample decode
    simp only [if_true]
    generalize sample 1 bits = v at *
    have hb := byteOf_toNat (v + if sgned = true then 0 else 128)
    cases sgned <;> simp only [Bool.false_eq_true, if_false, if_true] at * <;> congr 1 <;> omega
  · have ⟨h1, h2⟩ := hr.2 (by decide)
    unfold packSample decode
    simp only [show (2:Nat) ≠ 1 by decide, if_false]
    generalize sample 2 bits = v at *
    have hb0 := byteOf_toNat (v + if sgned = true then 0 else 32768)
    have hb1 := byteOf_toNat ((v + if sgned = true then 0 else 32768) / 256)
    cases sgned <;> cases be <;>
      simp only [Bool.false_eq_true, if_false, if_true] at * <;> congr 1 <;> omega

theorem tdiv_nonpos_of_nonpos (a b : Int) (ha : a ≤ 0) (hb : 0 < b) : a.tdiv b ≤ 0 := by
  have h : (-(-a)).tdiv b = -((-a).tdiv b) := Int.neg_tdiv (-a) b
  rw [Int.neg_neg] at h
  have := Int.tdiv_nonneg (a := -a) (b := b) (by omega) (by omega)
  omega

def bytesPerWord (word : Nat) : Nat := if word = 1 then 1 else 2

theorem packSample_length (word : Nat) (sgned be : Bool) (bits : Nat) :
    (packSample word sgned be bits).length = bytesPerWord word := by
  unfold packSample bytesPerWord
  split
  · rfl
  · cases be <;> rfl

theorem packChans_length (word : Nat) (sgned be : Bool) (fr : List Nat) :
    ((fr.map (packSample word sgned be)).flatten).length = fr.length * bytesPerWord word := by
  induction fr with
  | nil => simp
  | cons x xs ih => simp [List.flatten_cons, packSample_length, ih, Nat.add_mul]; omega

/-- **C17_interleave** — frames are written one after another and, inside a frame, channels in stream
order: the bytes of channel `i` of frame `j` start exactly after `j` whole frames and `i` samples. -/
theorem C17_interleave (word : Nat) (sgned be : Bool) (pre post : List (List Nat))
    (cpre cpost : List Nat) (x : Nat) (ch : Nat) (hch : ∀ fr ∈ pre, fr.length = ch) :
    ∃ before after,
      packFrames word sgned be (pre ++ [cpre ++ [x] ++ cpost] ++ post)
        = before ++ packSample word sgned be x ++ after ∧
      before.length = (pre.length * ch + cpre.length) * bytesPerWord word := by
  refine ⟨packFrames word sgned be pre ++ (cpre.map (packSample word sgned be)).flatten,
          (cpost.map (packSample word sgned be)).flatten ++ packFrames word sgned be post, ?_, ?_⟩
  · simp [packFrames, List.append_assoc]
  · have hpre : (packFrames word sgned be pre).length = pre.length * ch * bytesPerWord word := by
      induction pre with
      | nil => simp [packFrames]
      | cons f fs ih =>
        have hf : f.length = ch := hch f (by simp)
        have ih' := ih (fun fr h => hch fr (by simp [h]))
        simp only [packFrames, List.map_cons, List.flatten_cons, List.length_append, List.length_cons] at *
        rw [ih', packChans_length, hf, Nat.add_mul, Nat.add_mul, Nat.one_mul]; omega
    rw [List.length_append, hpre, packChans_length, Nat.add_mul]

/-- **C17_frames** — the call returns a whole number of frames, at least one, not more than are
available and not more than fit in the buffer, and it takes as many as both limits allow; a buffer
shorter than one frame, a non-positive word size, or a channel count outside 1..255 is an error. -/
theorem C17_frames (avail : Nat) (length word channels : Int) :
    (word ≤ 0 → readFrames avail length word channels = .einval) ∧
    (0 < word → 1 ≤ channels → channels ≤ 255 → length < word * channels →
        readFrames avail length word channels = .einval) ∧
    (∀ n, readFrames avail length word channels = .ok n →
        1 ≤ n ∧ n ≤ avail ∧ (n : Int) * (word * channels) ≤ length ∧
        (n = avail ∨ length < ((n : Int) + 1) * (word * channels))) := by
  refine ⟨?_, ?_, ?_⟩
  · intro h; simp [readFrames, h]
  · intro hw h1 h2 hl
    have hb : 0 < word * channels := Int.mul_pos hw (by omega)
    have hfit : Int.tdiv length (word * channels) ≤ 0 := by
      by_cases hl0 : 0 ≤ length
      · rw [Int.tdiv_eq_zero_of_lt hl0 hl]; decide
      · exact tdiv_nonpos_of_nonpos _ _ (by omega) hb
    have hw' : ¬ word ≤ 0 := by omega
    have hc' : ¬ (channels < 1 ∨ channels > 255) := by omega
    simp only [readFrames, hw', hc', if_false]
    by_cases hgt : (avail : Int) > Int.tdiv length (word * channels)
    · simp only [hgt, if_true]; rw [if_pos hfit]
    · simp only [hgt, if_false]; rw [if_pos (by omega)]
  · intro n h
    by_cases hw : word ≤ 0
    · simp [readFrames, hw] at h
    by_cases hc : (channels < 1 ∨ channels > 255)
    · simp [readFrames, hw, hc] at h
    simp only [readFrames, hw, hc, if_false] at h
    have hb : 0 < word * channels := Int.mul_pos (by omega) (by omega)
    generalize word * channels = bps at *
    by_cases hl0 : 0 ≤ length
    · have ht : Int.tdiv length bps = length / bps := Int.tdiv_eq_ediv_of_nonneg hl0
      rw [ht] at h
      have e1 := Int.emod_add_mul_ediv length bps
      have e2 := Int.emod_nonneg length (Int.ne_of_gt hb)
      have e3 := Int.emod_lt_of_pos length hb
      generalize length / bps = q at *
      generalize length % bps = r at *
      have hmc : bps * q = q * bps := Int.mul_comm _ _
      have hadd : (q + 1) * bps = q * bps + bps := by rw [Int.add_mul, Int.one_mul]
      by_cases hgt : (avail : Int) > q
      · simp only [hgt, if_true] at h
        by_cases hq0 : q ≤ 0
        · simp [hq0] at h
        · simp only [hq0, if_false, ReadRc.ok.injEq] at h
          have hq : (n : Int) = q := by omega
          refine ⟨by omega, by omega, ?_, Or.inr ?_⟩
          · rw [hq]; omega
          · rw [hq, hadd]; omega
      · simp only [hgt, if_false] at h
        by_cases ha0 : (avail : Int) ≤ 0
        · have : avail = 0 := by omega
          simp [this] at h
        · simp only [ha0, if_false, ReadRc.ok.injEq] at h
          have hq : (n : Int) = avail := by omega
          have hnq : (n : Int) ≤ q := by omega
          have : (n : Int) * bps ≤ q * bps := Int.mul_le_mul_of_nonneg_right hnq (by omega)
          refine ⟨by omega, by omega, by omega, Or.inl (by omega)⟩
    · exfalso
      have hneg : Int.tdiv length bps ≤ 0 := tdiv_nonpos_of_nonpos _ _ (by omega) hb
      by_cases hgt : (avail : Int) > Int.tdiv length bps
      · simp only [hgt, if_true] at h; simp [hneg] at h
      · simp only [hgt, if_false] at h
        have : avail = 0 := by omega
        simp [this] at h

end Vorbis.Props.C17
