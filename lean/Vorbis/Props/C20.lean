import Vorbis.File.Model
namespace Vorbis.Props.C20
open Vorbis Vorbis.File Vorbis.Block

/-- switching half-rate on is refused exactly when some link has short blocks of 64 samples or fewer,
    a refused call leaves every link at full rate, an accepted one sets the flag asked for -/
theorem C20_flags (vf : VF) (flag : Bool) :
    (halfrateFlags vf flag).2 = (flag && (List.range vf.links).any (fun i => decide (vf.infos[i]!.bs0 ≤ 64))) ∧
    ((halfrateFlags vf flag).2 = true → (halfrateFlags vf flag).1 = 0) ∧
    ((halfrateFlags vf flag).2 = false → (halfrateFlags vf flag).1 = if flag then 1 else 0) := by
  unfold halfrateFlags
  cases flag
  · simp
  · by_cases hx : (List.range vf.links).any (fun i => decide (vf.infos[i]!.bs0 ≤ 64)) = true
    · simp only [hx]; simp
    · simp only [hx]; simp

/-- switching off is never refused -/
theorem C20_off_never_refused (vf : VF) : halfrateFlags vf false = (0, false) := by
  simp [halfrateFlags]

theorem fst_seq_pure {α : Type} (m : M α) (r : Int) (s : VF) : ((m >>= fun _ => (pure r : M Int)).run s).1 = r := by
  simp only [StateT.run, bind, StateT.bind, pure, StateT.pure]
  cases m s
  rfl

/-- the return value of `ov_halfrate` is the refusal decision, whatever the re-seek inside does -/
theorem C20_return_code (ph : Phys) (flag : Bool) (s : VF) (h : s.infos.size ≠ 0) :
    ((halfrate ph flag).run s).1 = if (halfrateFlags s flag).2 then OV_EINVAL else 0 := by
  unfold halfrate
  simp only [StateT.run, bind, StateT.bind, get, getThe, MonadStateOf.get, StateT.get, h, if_false, pure, StateT.pure]
  exact fst_seq_pure (halfrateRebuild ph (halfrateFlags s flag).1) _ s

/-- what a read does to the position: `n` samples returned advance it by `n<<hs` -/
theorem C20_read_advance (hs : Nat) (p n : Int) (h : hs = 0 ∨ hs = 1) :
    p + shl n hs = if hs = 1 then p + 2 * n else p + n := by
  rcases h with h | h <;> subst h <;> simp [shl] <;> omega

/-- the target of the sample-skipping loop of a seek: the even position at or below `pos` at half rate -/
theorem C20_seek_target_even (pos : Int) :
    shl (shr pos 1) 1 ≤ pos ∧ pos - 1 ≤ shl (shr pos 1) 1 ∧ shl (shr pos 1) 1 % 2 = 0 ∧ shl (shr pos 0) 0 = pos := by
  simp [shl, shr]
  omega

end Vorbis.Props.C20
