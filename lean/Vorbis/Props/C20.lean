import Vorbis.File.Model
import Vorbis.Proofs.DecHalf
import Vorbis.Props.C04
import Vorbis.Proofs.Half
namespace Vorbis.Props.C20
open Vorbis Vorbis.File Vorbis.Block Vorbis.Props.C04

/-- switching half-rate on is refused exactly when some link has short blocks of 64 samples or fewer,
    a refused call leaves every link at full rate, an accepted one sets the flag asked for -/
theorem C20_flags (vf : VF) (flag : Bool) :
    (halfrateFlags vf flag).2 = (flag && (List.range vf.links).any (fun i => decide (vf.infos[i]!.bs0 ≤ 64))) ∧
    ((halfrateFlags vf flag).2 = true → (halfrateFlags vf flag).1 = 0) ∧
    ((halfrateFlags vf flag).2 = false → (halfrateFlags vf flag).1 = if flag then 1 else 0) := by
  unfold halfrateFlags
  cases flag
  · simp
  · by_cases hx : (List.range vf.links).any (fun i => decide (vf.infos[i]!.bs0 ≤ 64)) = true
    · simp only [hx]; simp
    · simp only [hx]; simp

/-- switching off is never refused -/
theorem C20_off_never_refused (vf : VF) : halfrateFlags vf false = (0, false) := by
  simp [halfrateFlags]

theorem fst_seq_pure {α : Type} (m : M α) (r : Int) (s : VF) : ((m >>= fun _ => (pure r : M Int)).run s).1 = r := by
  simp only [StateT.run, bind, StateT.bind, pure, StateT.pure]
  cases m s
  rfl

/-- the return value of `ov_halfrate` is the refusal decision, whatever the re-seek inside does -/
theorem C20_return_code (ph : Phys) (flag : Bool) (s : VF) (h : s.infos.size ≠ 0) :
    ((halfrate ph flag).run s).1 = if (halfrateFlags s flag).2 then OV_EINVAL else 0 := by
  unfold halfrate
  simp only [StateT.run, bind, StateT.bind, get, getThe, MonadStateOf.get, StateT.get, h, if_false, pure, StateT.pure]
  exact fst_seq_pure (halfrateRebuild ph (halfrateFlags s flag).1) _ s

/-- what a read does to the position: `n` samples returned advance it by `n<<hs` -/
theorem C20_read_advance (hs : Nat) (p n : Int) (h : hs = 0 ∨ hs = 1) :
    p + shl n hs = if hs = 1 then p + 2 * n else p + n := by
  rcases h with h | h <;> subst h <;> simp [shl] <;> omega

/-- the target of the sample-skipping loop of a seek: the even position at or below `pos` at half rate -/
theorem C20_seek_target_even (pos : Int) :
    shl (shr pos 1) 1 ≤ pos ∧ pos - 1 ≤ shl (shr pos 1) 1 ∧ shl (shr pos 1) 1 % 2 = 0 ∧ shl (shr pos 0) 0 = pos := by
  simp [shl, shr]
  omega

theorem decode_rest_h (z : Sizes) (s : SzHalf z) (N : Int) (l : List (Pkt × Bool))
    (d : Dec) (lW : Bool) (c seq : Int) (st : DecSt z d lW c seq) (hce : c % 2 = 0)
    (hc : Coherent z N false lW c seq l) :
    sum (Dec.drainAll z 1 d (toBlks l)) = (N + 1) / 2 - c / 2 := by
  induction l generalizing d lW c seq with
  | nil => simp [Coherent] at hc
  | cons pv rest ih =>
    obtain ⟨p, vis⟩ := pv
    cases rest with
    | nil =>
      simp only [Coherent, Bool.false_eq_true, if_false] at hc
      obtain ⟨he, hv, hs, hg, hN0, hN1⟩ := hc
      subst hv
      have := step_last_h z s d lW c seq N st (p.toBlk true) rfl (by simp [Pkt.toBlk, hs])
        (by simp [Pkt.toBlk, he]) (by simp [Pkt.toBlk, hg]) hN0 (by simpa [Pkt.toBlk] using hN1)
      have ⟨hae, ha⟩ := adv_even z s lW (p.toBlk true).W
      rw [toBlks_cons, sum_drain_cons, this]
      simp only [toBlks, List.map_nil, Dec.drainAll, sum]
      generalize adv z lW (p.toBlk true).W = a at *
      omega
    | cons q rest' =>
      simp only [Coherent, Bool.false_eq_true, if_false] at hc
      obtain ⟨he, hs, hg, hrest⟩ := hc
      have hgp : (p.toBlk vis).gp = -1 ∨ (p.toBlk vis).gp = c + adv z lW (p.toBlk vis).W := by
        cases vis <;> simp [Pkt.toBlk, hg]
      have sm := step_mid_h z s d lW c seq st (p.toBlk vis) rfl (by simp [Pkt.toBlk, hs])
        (by simp [Pkt.toBlk, he]) hgp
      have ⟨hae, ha⟩ := adv_even z s lW (p.toBlk vis).W
      have ihr := ih _ _ _ _ sm.2 (by omega) (by simpa [Pkt.toBlk] using hrest)
      rw [toBlks_cons, sum_drain_cons, ihr, sm.1]
      simp only [Pkt.toBlk] at *
      generalize adv z lW p.W = a at *
      omega

/-- **half-rate decoding delivers ceil(N/2) samples**: for every pair of block sizes from 64 up (quarter sizes even), every `N ≥ 0`,
    every packet sequence of the encoder's shape and every way Ogg paging hides granule positions, draining the half-rate decoder
    after each packet delivers exactly `(N+1)/2` samples in total -/
theorem C20_halfrate_total (z : Sizes) (s : SzHalf z) (N : Int) (seq0 : Int)
    (hseq : 0 ≤ seq0) (l : List (Pkt × Bool)) (hc : Coherent z N true false 0 seq0 l) :
    sum (Dec.drainAll z 1 (Dec.restart z 1) (toBlks l)) = (N + 1) / 2 := by
  cases l with
  | nil => simp [Coherent] at hc
  | cons pv rest =>
    obtain ⟨p, vis⟩ := pv
    cases rest with
    | nil =>
      simp only [Coherent, if_true] at hc
      obtain ⟨he, hv, hs, hg, hN0, hN1⟩ := hc
      have hN : N = 0 := by omega
      subst hv
      have sf := step_first_h z s.p1 (p.toBlk true) rfl (by simp [Pkt.toBlk, hg, hN]) (by simp [Pkt.toBlk, hs, hseq])
      rw [toBlks_cons, sum_drain_cons, sf.1]
      simp [toBlks, Dec.drainAll, sum, hN]
    | cons q rest' =>
      simp only [Coherent, if_true] at hc
      obtain ⟨he, hs, hg, hrest⟩ := hc
      have hgp : (p.toBlk vis).gp = -1 ∨ (p.toBlk vis).gp = 0 := by
        cases vis <;> simp [Pkt.toBlk, hg]
      have sf := step_first_h z s.p1 (p.toBlk vis) rfl hgp (by simp [Pkt.toBlk, hs, hseq])
      have hst : DecSt z ((Dec.blockin z 1 (Dec.restart z 1) (p.toBlk vis)).fst.read 0).fst p.W 0 (seq0 + 1) := by
        simpa [Pkt.toBlk, hs] using sf.2
      have hr := decode_rest_h z s N (q :: rest') _ p.W 0 (seq0 + 1) hst (by decide) hrest
      rw [toBlks_cons, sum_drain_cons, sf.1, hr]
      omega

/-- encode then decode at half rate: every encoder run (any partition of the input, any answers of the envelope search) that accepted
    `N` samples is decoded, at half rate, to exactly `(N+1)/2` samples — for every page layout -/
theorem C20_encode_then_halfrate (z : Sizes) (s : SzOk z) (sh : SzHalf z) (pre post : List EncOp) (n0 : Int) (hn0 : n0 ≤ 0)
    (hpre : ∀ op ∈ pre, DataOp op) (hpost : ∀ op ∈ post, DrainOp op)
    (hdone : (Enc.run z (Enc.init z) (pre ++ [EncOp.wrote n0] ++ post)).1.eof = -1) (vis : Pkt → Bool) :
    ∃ mids last,
      (Enc.run z (Enc.init z) (pre ++ [EncOp.wrote n0] ++ post)).2 = mids ++ [last] ∧
      sum (Dec.drainAll z 1 (Dec.restart z 1) (toBlks (mids.map (fun q => (q, vis q)) ++ [(last, true)])))
        = (accepted z (Enc.init z) pre + 1) / 2 := by
  obtain ⟨mids, last, hout, hcoh, _⟩ := C04_encode_coherent z s pre post n0 hn0 hpre hpost hdone vis
  exact ⟨mids, last, hout, C20_halfrate_total z sh _ 3 (by decide) _ hcoh⟩

/-- non-vacuity: 256/2048 blocks meet the size hypothesis; a three-packet stream of 901 samples (block centres 0, 576, 1152, end trimmed to 901)
    delivers 451 -/
example : SzHalf { bs0 := 256, bs1 := 2048 } := ⟨by decide, by decide, by decide, by decide⟩
example : sum (Dec.drainAll { bs0 := 256, bs1 := 2048 } 1 (Dec.restart { bs0 := 256, bs1 := 2048 } 1)
    [{ W := false, gp := 0, eos := false, seq := 3 }, { W := true, gp := -1, eos := false, seq := 4 }, { W := false, gp := 901, eos := true, seq := 5 }]) = 451 := by decide

open Vorbis.Props.C07 Vorbis.Proofs.FileInv Vorbis.Proofs.Half in
/-- **C20_toggle_keeps_the_handle** — at any point of any call history (every consistent seekable handle): `ov_halfrate`, accepted or
refused, leaves a consistent handle on the same file; of everything `ov_open` fixed only the decode-rate flag may differ, and it is the
flag the decision logic (`C20_flags`) yields. -/
theorem C20_toggle_keeps_the_handle (ph : Phys) (flag : Bool) (s : VF) (hi : SInv s) :
    let t := ((halfrate ph flag).run s).2
    SInv t ∧ SameButRate s t ∧ (s.infos.size ≠ 0 → t.hs = (halfrateFlags s flag).1) :=
  halfrate_post ph flag s s ⟨rfl, hi⟩

open Vorbis.Props.C07 Vorbis.Proofs.FileInv Vorbis.Proofs.Half in
/-- **C20_off_restores_the_full_rate_handle** — switch half-rate on at any point of a history (handle `s`, full rate), run ANY history
of reads and seeks (plain, lapped, by time) at half rate, switch it off: the handle is consistent and describes exactly the file and
settings of `s` again, so by `C07_seek_history_independent` every later sample seek leaves the state a handle that never used
half-rate is left in. -/
theorem C20_off_restores_the_full_rate_handle (ph : Phys) (s t1 : VF) (hi : SInv s) (h0 : s.hs = 0) (hn : s.infos.size ≠ 0)
    (hist : Reach ph ((halfrate ph true).run s).2 t1) :
    let t2 := ((halfrate ph false).run t1).2
    SInv t2 ∧ SameFile s t2 := by
  obtain ⟨i1, r1, _⟩ := C20_toggle_keeps_the_handle ph true s hi
  have j1 := reach_inv (jOps ((halfrate ph true).run s).2) ph _ t1 hist ⟨i1, sameFile_refl _⟩
  have n1 : t1.infos.size ≠ 0 := by
    have e1 : s.infos = ((halfrate ph true).run s).2.infos := r1.infos
    rw [← j1.2.infos, ← e1]; exact hn
  obtain ⟨i2, r2, e2⟩ := C20_toggle_keeps_the_handle ph false t1 j1.1
  refine ⟨i2, sameFile_of_rate (sameButRate_trans r1 (sameButRate_trans (sameButRate_of_file j1.2) r2)) ?_⟩
  rw [e2 n1, C20_off_never_refused, h0]

/-- non-vacuity: the freshly opened example handle of C07 meets the hypotheses -/
example : Proofs.FileInv.SInv Props.C07.exFresh ∧ Props.C07.exFresh.hs = 0 ∧ Props.C07.exFresh.infos.size ≠ 0 :=
  ⟨Proofs.FileInv.sinv_of_opened _ rfl rfl, rfl, by decide⟩

end Vorbis.Props.C20
