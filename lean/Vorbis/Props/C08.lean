import Vorbis.File.Model
import Vorbis.Props.C07
namespace Vorbis.Props.C08
open Vorbis Vorbis.File Vorbis.Block Vorbis.Props Vorbis.Props.C07
set_option linter.unusedSimpArgs false

/-- an out-of-range sample position is refused by the page seek and nothing at all is changed -/
theorem C08_page_seek_rejects_unchanged (ph : Phys) (f : Int → M Int) (pos : Int) (s : VF)
    (hr : s.ready ≥ OPENED) (hs : s.seekable = true) (hp : pos < 0 ∨ pos > pcmTotal s (-1)) :
    (pcmSeekPage ph f pos).run s = (OV_EINVAL, s) := by
  unfold pcmSeekPage
  have h1 : ¬ (s.ready < OPENED) := by omega
  simp [StateT.run, bind, StateT.bind, get, getThe, MonadStateOf.get, StateT.get, pure, StateT.pure, h1, hs, hp]

/-- ... and so is the sample-accurate seek built on it -/
theorem C08_seek_rejects_unchanged (ph : Phys) (f : Int → M Int) (pos : Int) (s : VF)
    (hr : s.ready ≥ OPENED) (hs : s.seekable = true) (hp : pos < 0 ∨ pos > pcmTotal s (-1)) :
    (pcmSeek ph f pos).run s = (OV_EINVAL, s) := by
  have h := C08_page_seek_rejects_unchanged ph f pos s hr hs hp
  unfold pcmSeek
  simp only [StateT.run, bind, StateT.bind] at h ⊢
  rw [h]
  simp [OV_EINVAL, Generated.OV_EINVAL, pure, StateT.pure]

theorem sumLen_succ (pl : Array Int) (n : Nat) : sumLen pl (n + 1) = sumLen pl n + pl[n * 2 + 1]! := by
  unfold sumLen
  rw [List.range_succ, List.foldl_append]
  rfl

theorem sumLen_zero (pl : Array Int) : sumLen pl 0 = 0 := by
  unfold sumLen; rfl

theorem go_spec (pl : Array Int) (pos : Int) (h0 : 0 ≤ pos) :
    ∀ (k : Nat) (total : Int), 1 ≤ k → total = sumLen pl k → pos ≤ total →
      let r := linkFor.go pl pos k total
      0 ≤ r.1 ∧ r.1 < k ∧ r.2 = sumLen pl r.1.toNat ∧ r.2 ≤ pos ∧ pos ≤ r.2 + pl[r.1.toNat * 2 + 1]! := by
  intro k
  induction k with
  | zero => intro total hk; omega
  | succ k' ih =>
      intro total _ ht hp
      simp only [linkFor.go]
      have hs := sumLen_succ pl k'
      by_cases hc : pos ≥ total - pl[k' * 2 + 1]!
      · simp only [hc, if_true]
        refine ⟨by omega, by omega, ?_, ?_, ?_⟩
        · simp only [Int.toNat_natCast]; omega
        · first | exact hc | trivial | omega
        · simp only [Int.toNat_natCast]; omega
      · simp only [hc, if_false]
        have hk1 : 1 ≤ k' := by
          cases k' with
          | zero =>
              have hz : sumLen pl 0 = 0 := sumLen_zero pl
              rw [hz] at hs
              omega
          | succ n => omega
        have := ih (total - pl[k' * 2 + 1]!) hk1 (by omega) (by omega)
        simp only [] at this
        obtain ⟨a, b, c, d, e⟩ := this
        exact ⟨a, by omega, c, d, e⟩

/-- the link a valid sample position is assigned to really contains it -/
theorem C08_link_lookup (pl : Array Int) (links : Nat) (pos : Int) (hl : 0 < links) (h0 : 0 ≤ pos) (h1 : pos ≤ sumLen pl links) :
    0 ≤ (linkFor pl links pos).1 ∧ (linkFor pl links pos).1 < links ∧
    (linkFor pl links pos).2 = sumLen pl (linkFor pl links pos).1.toNat ∧
    (linkFor pl links pos).2 ≤ pos ∧
    pos ≤ (linkFor pl links pos).2 + pl[(linkFor pl links pos).1.toNat * 2 + 1]! := by
  unfold linkFor
  exact go_spec pl pos h0 links (sumLen pl links) hl rfl h1


example : linkFor #[0, 10, 0, 5, 0, 7] 3 15 = (2, 15) ∧ linkFor #[0, 10, 0, 5, 0, 7] 3 14 = (1, 10) ∧ linkFor #[0, 10, 0, 0, 0, 7] 3 10 = (2, 10) := by decide

theorem verdict_land (pos total : Int) (link : Nat) (cur : Cur) (os : OStream) (po : Int) (l : Nat) (c : Cur) (o : OStream) (p : Int)
    (h : (if po > pos ∨ pos > total then SeekPlan.failSel link cur os OV_EFAULT else SeekPlan.land link cur os po) = .land l c o p) :
    p ≤ pos ∧ pos ≤ total := by
  split at h
  · cases h
  · rename_i hc
    injection h with h1 h2 h3 h4
    subst h4
    omega

/-- the result verification of `ov_pcm_seek_page`: a plan that lands puts the position at or before the target, and the target inside the file -/
theorem C08_plan_lands_at_or_before (ph : Phys) (t : Tab) (pos : Int) (link : Nat) (cur : Cur) (os : OStream) (po : Int)
    (h : planSeekPage ph t pos = .land link cur os po) : po ≤ pos ∧ pos ≤ sumAll t := by
  unfold planSeekPage at h
  simp only [] at h
  split at h
  · cases h
  · split at h
    · split at h
      · split at h
        · cases h
        · exact verdict_land _ _ _ _ _ _ _ _ _ _ h
      · cases h
    · split at h
      · cases h
      · split at h
        · exact verdict_land _ _ _ _ _ _ _ _ _ _ h
        · cases h
        · split at h <;> cases h

/-- ... and carried out on any handle it returns 0 and leaves exactly that position, in the link the plan names -/
theorem C08_page_seek_lands_at_or_before (ph : Phys) (f : Int → M Int) (pos : Int) (s : VF)
    (hr : s.ready ≥ OPENED) (hs : s.seekable = true) (hp : 0 ≤ pos ∧ pos ≤ sumAll s.tab)
    (link : Nat) (cur : Cur) (os : OStream) (po : Int) (hplan : planSeekPage ph s.tab pos = .land link cur os po) :
    ((pcmSeekPage ph f pos).run s).1 = 0 ∧ ((pcmSeekPage ph f pos).run s).2.pcm_offset = po ∧
    ((pcmSeekPage ph f pos).run s).2.current_link = link ∧ po ≤ pos := by
  have ta := pcmTotal_all s hr hs
  have h1 : ¬ (s.ready < OPENED) := by omega
  have n1 : ¬ (pos < 0) := by omega
  have n2 : ¬ (pcmTotal s (-1) < pos) := by rw [ta]; omega
  have e : (pcmSeekPage ph f pos).run s =
      (0, { (selectLinkF link { s with offset := cur.off, fill := cur.fill }) with os := os, pcm_offset := po }) := by
    unfold pcmSeekPage
    simp [StateT.run, bind, StateT.bind, get, getThe, MonadStateOf.get, StateT.get, pure, StateT.pure, h1, hs, n1, n2, hplan,
      execPlan, setCur, selectLink, modify, modifyGet, MonadStateOf.modifyGet, StateT.modifyGet]
  rw [e]
  refine ⟨rfl, rfl, ?_, (C08_plan_lands_at_or_before ph s.tab pos link cur os po hplan).1⟩
  simp only [selectLinkF]
  split
  · rfl
  · rename_i hc
    simp only []
    have : (link : Int) = s.current_link := by
      by_cases e : (link : Int) = s.current_link
      · exact e
      · exact absurd (Or.inl e) hc
    exact this.symm

def Reached (pos : Int) (s : VF) : Prop := s.pcm_offset = FUEL ∨ s.vd = none ∨ shr (pos - s.pcm_offset) s.hs ≤ 0

theorem run_bind_post {α β : Type} (P : VF → Prop) (m : M α) (k : α → M β) (s : VF) (h : ∀ a s', P ((k a).run s').2) :
    P ((m >>= k).run s).2 := by
  show P ((StateT.bind m k) s).2
  unfold StateT.bind
  simp only [bind]
  cases hm : m s with
  | mk a s' => exact h a s'

theorem run_get_bind {β : Type} (k : VF → M β) (s : VF) : ((get >>= k).run s) = (k s).run s := rfl

theorem skip_reaches (ph : Phys) (pos : Int) : ∀ (fuel : Nat) (s : VF), Reached pos ((pcmSeekTail.skip ph pos fuel).run s).2 := by
  intro fuel
  induction fuel with
  | zero =>
      intro s
      left
      simp [pcmSeekTail.skip, StateT.run, modify, modifyGet, MonadStateOf.modifyGet, StateT.modifyGet, pure, StateT.pure]
  | succ f ih =>
      intro s
      unfold pcmSeekTail.skip
      rw [run_get_bind]
      simp only []
      by_cases ht : shr (pos - s.pcm_offset) s.hs ≤ 0
      · simp only [ht, if_true]
        exact Or.inr (Or.inr ht)
      · simp only [ht, if_false]
        cases hv : s.vd with
        | none => exact Or.inr (Or.inl hv)
        | some d =>
            simp only []
            generalize (if d.pcmout > shr (pos - s.pcm_offset) s.hs then shr (pos - s.pcm_offset) s.hs else d.pcmout) = n
            apply run_bind_post
            intro _ s1
            split
            · apply run_bind_post
              intro r s2
              split
              · apply run_bind_post
                intro _ s3
                exact ih s3
              · exact ih s2
            · exact ih s1

theorem run_bind_from {α β : Type} (P : β × VF → Prop) (m : M α) (k : α → M β) (s : VF)
    (h : ∀ a s', m.run s = (a, s') → P ((k a).run s')) : P ((m >>= k).run s) := by
  show P ((StateT.bind m k) s)
  unfold StateT.bind
  simp only [bind]
  cases hm : m s with
  | mk a s' => exact h a s' hm

/-- **the sample seek never stops short**: when the second half of `ov_pcm_seek` (discard whole packets, then decode and drop samples)
    returns 0, the position is within one output sample of the target from below or beyond it — or there is no decoder (end of data) -/
theorem C08_seek_tail_not_short (ph : Phys) (pos : Int) (s : VF) :
    ((pcmSeekTail ph pos).run s).1 = 0 → Reached pos ((pcmSeekTail ph pos).run s).2 := by
  unfold pcmSeekTail
  apply run_bind_from (fun r => r.1 = 0 → Reached pos r.2)
  intro r3 s1 _
  split
  · rename_i h
    intro h0
    exact absurd h0 h
  · apply run_bind_from (fun r => r.1 = 0 → Reached pos r.2)
    intro _ s2 hs2
    intro _
    have := skip_reaches ph pos (2 * ph.work) s1
    rw [hs2] at this
    exact this

theorem shl_shr_le (x : Int) (k : Nat) : shl (shr x k) k ≤ x := by
  unfold shl shr
  have hp : (0 : Int) < 2 ^ k := by
    have : (0:Int) < 2 := by decide
    exact Int.pow_pos this
  exact Int.ediv_mul_le x (by omega)

/-- the consuming step of the skip loop never overshoots: dropping at most `(pos - position) >> hs` output samples moves the
    position by at most `pos - position` -/
theorem C08_skip_step_never_overshoots (pos off n : Int) (hs : Nat) (hn : n ≤ shr (pos - off) hs) :
    off + shl n hs ≤ pos := by
  have h1 := shl_shr_le (pos - off) hs
  have h2 : shl n hs ≤ shl (shr (pos - off) hs) hs := by
    unfold shl
    have hp : (0 : Int) ≤ 2 ^ hs := by
      have : (0:Int) < 2 := by decide
      exact Int.le_of_lt (Int.pow_pos this)
    exact Int.mul_le_mul_of_nonneg_right hn hp
  omega

/-- non-vacuity: the landing plan of the five-page example file of Props/C07 (target 200 lands at 192) -/
example : ∃ l c o, planSeekPage C07.exPhys C07.exTab 200 = .land l c o 192 := by
  obtain ⟨l, c, o, po, h⟩ := C07.isLand_iff _ (show C07.SeekPlan.isLand (planSeekPage C07.exPhys C07.exTab 200) = true by decide +kernel)
  have hp : po = 192 := by
    have : (match planSeekPage C07.exPhys C07.exTab 200 with | .land _ _ _ p => p | _ => -7) = 192 := by decide +kernel
    rw [h] at this; exact this
  exact ⟨l, c, o, hp ▸ h⟩

end Vorbis.Props.C08
