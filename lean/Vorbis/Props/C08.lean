import Vorbis.File.Model
namespace Vorbis.Props.C08
open Vorbis Vorbis.File Vorbis.Block

/-- an out-of-range sample position is refused by the page seek and nothing at all is changed -/
theorem C08_page_seek_rejects_unchanged (ph : Phys) (f : Int → M Int) (pos : Int) (s : VF)
    (hr : s.ready ≥ OPENED) (hs : s.seekable = true) (hp : pos < 0 ∨ pos > pcmTotal s (-1)) :
    (pcmSeekPage ph f pos).run s = (OV_EINVAL, s) := by
  unfold pcmSeekPage
  have h1 : ¬ (s.ready < OPENED) := by omega
  simp [StateT.run, bind, StateT.bind, get, getThe, MonadStateOf.get, StateT.get, pure, StateT.pure, h1, hs, hp]

/-- ... and so is the sample-accurate seek built on it -/
theorem C08_seek_rejects_unchanged (ph : Phys) (f : Int → M Int) (pos : Int) (s : VF)
    (hr : s.ready ≥ OPENED) (hs : s.seekable = true) (hp : pos < 0 ∨ pos > pcmTotal s (-1)) :
    (pcmSeek ph f pos).run s = (OV_EINVAL, s) := by
  have h := C08_page_seek_rejects_unchanged ph f pos s hr hs hp
  unfold pcmSeek
  simp only [StateT.run, bind, StateT.bind] at h ⊢
  rw [h]
  simp [OV_EINVAL, Generated.OV_EINVAL, pure, StateT.pure]

end Vorbis.Props.C08
