import Vorbis.File.Model
namespace Vorbis.Props.C08
open Vorbis Vorbis.File Vorbis.Block
set_option linter.unusedSimpArgs false

/-- an out-of-range sample position is refused by the page seek and nothing at all is changed -/
theorem C08_page_seek_rejects_unchanged (ph : Phys) (f : Int → M Int) (pos : Int) (s : VF)
    (hr : s.ready ≥ OPENED) (hs : s.seekable = true) (hp : pos < 0 ∨ pos > pcmTotal s (-1)) :
    (pcmSeekPage ph f pos).run s = (OV_EINVAL, s) := by
  unfold pcmSeekPage
  have h1 : ¬ (s.ready < OPENED) := by omega
  simp [StateT.run, bind, StateT.bind, get, getThe, MonadStateOf.get, StateT.get, pure, StateT.pure, h1, hs, hp]

/-- ... and so is the sample-accurate seek built on it -/
theorem C08_seek_rejects_unchanged (ph : Phys) (f : Int → M Int) (pos : Int) (s : VF)
    (hr : s.ready ≥ OPENED) (hs : s.seekable = true) (hp : pos < 0 ∨ pos > pcmTotal s (-1)) :
    (pcmSeek ph f pos).run s = (OV_EINVAL, s) := by
  have h := C08_page_seek_rejects_unchanged ph f pos s hr hs hp
  unfold pcmSeek
  simp only [StateT.run, bind, StateT.bind] at h ⊢
  rw [h]
  simp [OV_EINVAL, Generated.OV_EINVAL, pure, StateT.pure]

theorem sumLen_succ (pl : Array Int) (n : Nat) : sumLen pl (n + 1) = sumLen pl n + pl[n * 2 + 1]! := by
  unfold sumLen
  rw [List.range_succ, List.foldl_append]
  rfl

theorem sumLen_zero (pl : Array Int) : sumLen pl 0 = 0 := by
  unfold sumLen; rfl

theorem go_spec (pl : Array Int) (pos : Int) (h0 : 0 ≤ pos) :
    ∀ (k : Nat) (total : Int), 1 ≤ k → total = sumLen pl k → pos ≤ total →
      let r := linkFor.go pl pos k total
      0 ≤ r.1 ∧ r.1 < k ∧ r.2 = sumLen pl r.1.toNat ∧ r.2 ≤ pos ∧ pos ≤ r.2 + pl[r.1.toNat * 2 + 1]! := by
  intro k
  induction k with
  | zero => intro total hk; omega
  | succ k' ih =>
      intro total _ ht hp
      simp only [linkFor.go]
      have hs := sumLen_succ pl k'
      by_cases hc : pos ≥ total - pl[k' * 2 + 1]!
      · simp only [hc, if_true]
        refine ⟨by omega, by omega, ?_, ?_, ?_⟩
        · simp only [Int.toNat_natCast]; omega
        · first | exact hc | trivial | omega
        · simp only [Int.toNat_natCast]; omega
      · simp only [hc, if_false]
        have hk1 : 1 ≤ k' := by
          cases k' with
          | zero =>
              have hz : sumLen pl 0 = 0 := sumLen_zero pl
              rw [hz] at hs
              omega
          | succ n => omega
        have := ih (total - pl[k' * 2 + 1]!) hk1 (by omega) (by omega)
        simp only [] at this
        obtain ⟨a, b, c, d, e⟩ := this
        exact ⟨a, by omega, c, d, e⟩

/-- the link a valid sample position is assigned to really contains it -/
theorem C08_link_lookup (pl : Array Int) (links : Nat) (pos : Int) (hl : 0 < links) (h0 : 0 ≤ pos) (h1 : pos ≤ sumLen pl links) :
    0 ≤ (linkFor pl links pos).1 ∧ (linkFor pl links pos).1 < links ∧
    (linkFor pl links pos).2 = sumLen pl (linkFor pl links pos).1.toNat ∧
    (linkFor pl links pos).2 ≤ pos ∧
    pos ≤ (linkFor pl links pos).2 + pl[(linkFor pl links pos).1.toNat * 2 + 1]! := by
  unfold linkFor
  exact go_spec pl pos h0 links (sumLen pl links) hl rfl h1


example : linkFor #[0, 10, 0, 5, 0, 7] 3 15 = (2, 15) ∧ linkFor #[0, 10, 0, 5, 0, 7] 3 14 = (1, 10) ∧ linkFor #[0, 10, 0, 0, 0, 7] 3 10 = (2, 10) := by decide

end Vorbis.Props.C08
