import Vorbis.Header
import Vorbis.Proofs.Funcs
/-!
# C02 — packet-level decoder is memory-safe and terminates on arbitrary input

The set-up parser model (`Vorbis/Setup.lean`) is *proof-carrying*: every unpacker returns its result
together with the facts its checks establish, so the kernel has checked, for every byte string, that
an accepted set-up satisfies `SetupWF` — the conjunction of the index facts the decoder relies on
when it later indexes `book_param[]`, `floor_param[]`, `residue_param[]`, `map_param[]`,
`mode_param[]`, the floor-1 class tables, the residue book lists and the channel arrays.
All model functions are total (structural recursion or explicit fuel), which is the model-level
termination statement. The model is tied to the C by stream `c02` (return codes and complete parse
dumps on valid, boundary and malformed headers; packets under ASan/UBSan).
-/
namespace Vorbis.Props.C02
open Vorbis Vorbis.Setup Vorbis.Header

/-- **C02_setup_wf** — whatever bytes are offered as a set-up header, if the parser accepts them the
result satisfies every table-index fact in `SetupWF` (for any channel count of the stream). -/
theorem C02_setup_wf (channels : Int) (pkt : ByteArray) (s : Setup)
    (h : parseSetup channels pkt = some s) : SetupWF channels s := by
  unfold parseSetup at h
  simp only at h
  split at h
  · rename_i sv _ _
    simp only [Option.some.injEq] at h
    subst h
    exact sv.property
  · simp at h

/-- **C02_table_sizes** — the counts of an accepted set-up fit the fixed-size tables of
`codec_setup_info` (sizes regenerated from `lib/codec_internal.h` on every run), and the floor-1
post list fits `postlist[VIF_POSIT+2]`. -/
theorem C02_table_sizes (channels : Int) (s : Setup) (h : SetupWF channels s) :
    s.books.size ≤ Generated.CI_BOOK_PARAM_SIZE ∧
    s.floors.size ≤ Generated.CI_FLOOR_PARAM_SIZE ∧ s.floors.size ≤ Generated.CI_FLOOR_TYPE_SIZE ∧
    s.residues.size ≤ Generated.CI_RESIDUE_PARAM_SIZE ∧ s.residues.size ≤ Generated.CI_RESIDUE_TYPE_SIZE ∧
    s.maps.size ≤ Generated.CI_MAP_PARAM_SIZE ∧ s.maps.size ≤ Generated.CI_MAP_TYPE_SIZE ∧
    s.modes.size ≤ Generated.CI_MODE_PARAM_SIZE := by
  have := h.nbooks; have := h.nfloors; have := h.nres; have := h.nmaps; have := h.nmodes
  simp only [Generated.CI_BOOK_PARAM_SIZE, Generated.CI_FLOOR_PARAM_SIZE, Generated.CI_FLOOR_TYPE_SIZE,
    Generated.CI_RESIDUE_PARAM_SIZE, Generated.CI_RESIDUE_TYPE_SIZE, Generated.CI_MAP_PARAM_SIZE,
    Generated.CI_MAP_TYPE_SIZE, Generated.CI_MODE_PARAM_SIZE]
  omega

/-- the floor-1 class and post tables have the sizes the C structs give them -/
theorem C02_floor1_tables (nbooks : Nat) (f : Floor1) (h : Floor1WF nbooks f) :
    f.partitionclass.size ≤ Generated.VIF_PARTS ∧ f.class_dim.size ≤ Generated.VIF_CLASS ∧
    f.postlist.size ≤ Generated.VIF_POSIT + 2 ∧ ∀ c ∈ f.partitionclass, c < Generated.VIF_CLASS := by
  refine ⟨?_, ?_, h.posts, fun c hc => ?_⟩
  · have := h.parts; simp only [Generated.VIF_PARTS]; omega
  · have := h.ncls; simp only [Generated.VIF_CLASS]; omega
  · have := (h.pclass c hc).2.2; simp only [Generated.VIF_CLASS]; omega

theorem ilogNat_le (n k : Nat) (h : n < 2 ^ k) : ilogNat n ≤ k := by
  induction k generalizing n with
  | zero =>
    have : n = 0 := by simpa using h
    subst this; simp [ilogNat]
  | succ k ih =>
    cases n with
    | zero => simp [ilogNat]
    | succ m =>
      rw [ilogNat]
      have : (m + 1) / 2 < 2 ^ k := by
        rw [Nat.pow_succ] at h; omega
      have := ih _ this
      omega

/-- **C02_mode_index** — the mode number of an audio packet is read with `ilog(modes-1)` bits; with
at most 64 modes that value is below 64, so `mode_param[mode]` is always inside the 64-slot table
(a slot beyond `modes` holds NULL and the packet is refused). -/
theorem C02_mode_index (nmodes : Nat) (h1 : 1 ≤ nmodes) (h64 : nmodes ≤ Generated.CI_MODE_PARAM_SIZE)
    (r : Reader) :
    (r.read (ilog ((nmodes : Int) - 1))).1 < (Generated.CI_MODE_PARAM_SIZE : Int) := by
  have hb : ilog ((nmodes : Int) - 1) ≤ 6 := by
    unfold ilog
    simp only [Generated.CI_MODE_PARAM_SIZE] at h64
    have hx : (((nmodes : Int) - 1) % 4294967296).toNat < 2 ^ 6 := by omega
    exact ilogNat_le _ 6 hx
  have hr := r.read_range (ilog ((nmodes : Int) - 1))
  have hp : (2 ^ ilog ((nmodes : Int) - 1) : Nat) ≤ 2 ^ 6 := Nat.pow_le_pow_right (by decide) hb
  simp only [Generated.CI_MODE_PARAM_SIZE]
  rcases hr with h | ⟨_, h⟩
  · omega
  · have : ((2 ^ ilog ((nmodes : Int) - 1) : Nat) : Int) ≤ ((2 ^ 6 : Nat) : Int) := Int.ofNat_le.mpr hp
    have e : ((2 ^ 6 : Nat) : Int) = 64 := by decide
    omega

/-- **C02_packet_codes** — the packet-header stage of `vorbis_synthesis` answers 0 or one of two
documented error codes, and on success the mode it selected exists and its mapping exists. -/
theorem C02_packet_codes (channels : Int) (s : Setup) (hwf : SetupWF channels s) (pkt : ByteArray) :
    let r := packetHeader s pkt
    (r.1 = 0 ∨ r.1 = Generated.OV_ENOTAUDIO ∨ r.1 = Generated.OV_EBADPACKET) ∧
    (r.1 = 0 → (r.2.1 = 0 ∨ r.2.1 = 1)) := by
  unfold packetHeader
  simp only [OV_ENOTAUDIO, OV_EBADPACKET]
  split
  · simp
  · split
    · simp
    · split
      · simp
      · rename_i m hm
        have hmem : m ∈ s.modes := by
          have := Array.mem_of_getElem? hm
          exact this
        have hbf := (hwf.modes m hmem).bf
        split
        · split
          · simp
          · simp; rcases hbf with h | h <;> simp [h]
        · simp

/-- **C02_headerin_codes** — `vorbis_synthesis_headerin` on any bytes, in any state, with any
`b_o_s` flag, returns 0 or one of the four documented error codes. -/
theorem C02_headerin_codes (i : Info) (bos : Bool) (pkt : ByteArray) :
    let rc := (headerin i bos pkt).2
    rc = 0 ∨ rc = Generated.OV_ENOTVORBIS ∨ rc = Generated.OV_EBADHEADER ∨
    rc = Generated.OV_EVERSION ∨ rc = Generated.OV_EFAULT := by
  unfold headerin
  simp only [OV_ENOTVORBIS, OV_EBADHEADER, OV_EVERSION, OV_EFAULT]
  repeat' split
  all_goals (first | simp | skip)
  all_goals (
    unfold unpackInfo
    simp only [OV_EBADHEADER, OV_EVERSION, OV_EFAULT]
    repeat' split
    all_goals simp)

theorem unpackInfo_setup (i : Info) (r : Reader) :
    (unpackInfo i r).1.setup = none ∨ (unpackInfo i r).1.setup = i.setup := by
  unfold unpackInfo
  simp only []
  repeat' split
  all_goals (first | (right; rfl) | (left; rfl))

/-- **C02_reject_keeps_state** — a header call that fails never installs a set-up: afterwards the
info structure holds either no set-up at all (it was cleared) or exactly the set-up it held before. -/
theorem C02_reject_keeps_state (i : Info) (bos : Bool) (pkt : ByteArray)
    (hrc : (headerin i bos pkt).2 ≠ 0) :
    (headerin i bos pkt).1.setup = none ∨ (headerin i bos pkt).1.setup = i.setup := by
  unfold headerin at hrc ⊢
  simp only [] at hrc ⊢
  repeat' split at hrc
  all_goals (repeat' split)
  all_goals (first | (right; rfl) | (left; rfl) | exact unpackInfo_setup _ _ | (exfalso; simp_all; done) | simp_all)

/-- **C02_lookup1_dim0_diverges** — regression theorem for finding F1: with zero dimensions the
lattice-size search of `_book_maptype1_quantvals` never finds an answer, whatever the initial guess
and however long it runs (which is why value-mapped books with `dim < 1` must be refused). -/
theorem C02_lookup1_dim0_diverges (entries : Int) (he : 1 ≤ entries) (fuel : Nat) (guess : Int) :
    lookup1Search entries 0 fuel guess = none := by
  induction fuel generalizing guess with
  | zero => rfl
  | succ n ih =>
    unfold lookup1Search
    simp only [lookup1Acc]
    have h1 : ¬ ((0:Nat) ≥ 0 ∧ 1 ≤ entries ∧ (1:Int) > entries) := by omega
    have h2 : ¬ ((0:Nat) < 0 ∨ (1:Int) > entries) := by omega
    simp only [h1, h2, if_false]
    exact ih _

/-- **C02_valuebook_has_dim** — after the fix an accepted value-mapped book has at least one
dimension, every codeword length indexes inside `marker[33]`, and the quantised value list has
exactly the size the decoder will read. -/
theorem C02_valuebook_has_dim (b : Book) (h : BookWF b) :
    (b.maptype ≠ 0 → 1 ≤ b.dim) ∧ (∀ l ∈ b.lengthlist, l < 33) ∧
    b.lengthlist.size = b.entries.toNat ∧
    (b.maptype ≠ 0 → b.quantlist.size = (quantvalsOf b.maptype b.entries b.dim).toNat) :=
  ⟨h.mapDim, fun l hl => by have := h.lenMax l hl; omega, h.lenSize, h.qSize⟩


/-! ### Function bodies regenerated from the source (tools/c2lean.py → Vorbis/Generated/Funcs.lean)

The statements below are about the C functions *as they stand in /repo now*: the translator re-emits
their bodies on every run, so an edit to `render_line` or `ov_ilog` re-opens these obligations. -/
open Vorbis.CSem Vorbis.Generated.Funcs Vorbis.Proofs.Funcs in
/-- **C02_render_line_indices** — floor 1's line renderer (lib/floor1.c `render_line`) stays inside its
objects for every segment the decoder can hand it: end points `0 ≤ x0 < x1` (posts are sorted and pairwise
distinct, C02_floor1_tables) and end values in `[0,255]` (the clamp in `floor1_inverse2`), any block
length `n`. It returns (needs no more than `n - x0 + 1` loop rounds), every write is `d[i]` with
`0 ≤ i < n` and every table read is `FLOOR1_fromdB_LOOKUP[j]` with `0 ≤ j ≤ 255` — by the Bresenham
invariant `err + adx·carries = (x - x0)·ady`, which keeps `y` between `y0` and `y1`. -/
theorem C02_render_line_indices (n x0 x1 y0 y1 : Int) (fuel : Nat) (hx0 : 0 ≤ x0) (hx : x0 < x1)
    (hy0 : 0 ≤ y0 ∧ y0 ≤ 255) (hy1 : 0 ≤ y1 ∧ y1 ≤ 255) (hf : (n - x0).toNat < fuel) :
    ∃ s', render_line.run n x0 x1 y0 y1 fuel = .norm s' ∧
      ∀ a ∈ s'.tr, (a.arr = "d" ∧ 0 ≤ a.idx ∧ a.idx < n) ∨
                   (a.arr = "FLOOR1_fromdB_LOOKUP" ∧ 0 ≤ a.idx ∧ a.idx ≤ 255) :=
  RL.run_safe n x0 x1 y0 y1 fuel hx0 hx hy0 hy1 hf

open Vorbis.CSem Vorbis.Generated.Funcs in
/-- the hypotheses are met and the trace is not empty: a rising segment cut off by the block end -/
example : ((render_line.run 6 2 9 10 200 8).state.tr.map (fun a => (a.arr, a.idx))) =
    [("d", 5), ("FLOOR1_fromdB_LOOKUP", 91), ("d", 4), ("FLOOR1_fromdB_LOOKUP", 64),
     ("d", 3), ("FLOOR1_fromdB_LOOKUP", 37), ("d", 2), ("FLOOR1_fromdB_LOOKUP", 10)] := by decide

open Vorbis.CSem Vorbis.Generated.Funcs Vorbis.Proofs.Funcs in
/-- **C02_ilog_is_the_source** — `ov_ilog` as it stands in lib/sharedbook.c returns, for every unsigned
argument and within `ilog v + 1` loop rounds, the value of the model's `ilogNat` (the field widths the
set-up and packet parsers of the model read with are the library's). -/
theorem C02_ilog_is_the_source (v : Nat) (fuel : Nat) (hf : ilogNat v < fuel) :
    (ov_ilog.run (v : Int) fuel).val? = some (ilogNat v : Int) :=
  IL.run_eq v fuel hf

open Vorbis.CSem Vorbis.Generated.Funcs Vorbis.Proofs.Funcs in
/-- **C02_quantvals_terminates_correct** — the lattice search `_book_maptype1_quantvals`, as it stands in
lib/sharedbook.c (regenerated on every run), returns for every value-mapped book the parser accepts
(`dim ≥ 1` by C02_valuebook_has_dim, `1 ≤ entries < 2^24`) and for EVERY result `guess` of the
single-precision `floor(pow(entries,1/dim))` it starts from — the float library's rounding is irrelevant —
within `entries + max guess 1 + dim + 3` loop rounds, and what it returns is the `r ≥ 1` with
`r^dim ≤ entries < (r+1)^dim` (the number of quantised values the header must carry). The `LONG_MAX`
guards keep both accumulators inside a C `long`: `acc ≤ entries`, `acc1 = min((vals+1)^i, LONG_MAX)`
(`Proofs/Lookup1.acc_spec`). With `dim = 0` the same function never returns (C02_lookup1_dim0_diverges, finding F1). -/
theorem C02_quantvals_terminates_correct (entries guess : Int) (dim : Nat) (hd : 1 ≤ dim) (he : 1 ≤ entries)
    (hmax : entries < 9223372036854775807) (fuel : Nat)
    (hf : (entries + (if guess < 1 then 1 else guess)).toNat + dim + 2 < fuel) :
    ∃ r, 1 ≤ r ∧ (book_maptype1_quantvals.run entries guess (dim : Int) fuel).val? = some r ∧
      r ^ dim ≤ entries ∧ entries < (r + 1) ^ dim :=
  QV.run_correct entries guess dim hd he hmax fuel hf

open Vorbis.CSem Vorbis.Generated.Funcs in
/-- non-vacuity: 625 entries in 4 dimensions from the guesses 1, 5 and 40: five values per dimension -/
example : ((book_maptype1_quantvals.run 625 1 4 700).val?, (book_maptype1_quantvals.run 625 5 4 700).val?,
           (book_maptype1_quantvals.run 625 40 4 700).val?) = (some 5, some 5, some 5) := by decide

/-- **C02_quantvals_unique** — that answer is the only one: two values satisfying the bracket are equal, so the
library and the model agree on `quantvals` whatever each one's search started from. -/
theorem C02_quantvals_unique (entries : Int) (dim : Nat) (hd : 1 ≤ dim) (r1 r2 : Int) (h1 : 1 ≤ r1) (h2 : 1 ≤ r2)
    (a1 : r1 ^ dim ≤ entries) (b1 : entries < (r1 + 1) ^ dim) (a2 : r2 ^ dim ≤ entries) (b2 : entries < (r2 + 1) ^ dim) :
    r1 = r2 :=
  Vorbis.Proofs.Lookup1.search_unique entries dim hd r1 r2 h1 h2 a1 b1 a2 b2

open Vorbis.CSem Vorbis.Generated.Funcs Vorbis.Proofs.Funcs in
/-- **C02_render_point_between** — floor 1's predictor (lib/floor1.c `render_point`, regenerated from the source): for `x0 < x1` and
`x0 ≤ x ≤ x1` (the two neighbours of a post always enclose it) the function returns, and the value it predicts lies between the two
flag-masked end values — so `floor1_inverse1`'s `room` arithmetic starts from a value inside `[0, 2^15)` and its division by `adx > 0`
never divides by zero. -/
theorem C02_render_point_between (x0 x1 y0 y1 x : Int) (fuel : Nat) (hx : x0 < x1) (h0 : x0 ≤ x) (h1 : x ≤ x1) :
    ∃ r s', render_point.run x0 x1 y0 y1 x fuel = .ret r s' ∧
      ((land y0 32767 ≤ r ∧ r ≤ land y1 32767) ∨ (land y1 32767 ≤ r ∧ r ≤ land y0 32767)) :=
  RP.run_between x0 x1 y0 y1 x fuel hx h0 h1

open Vorbis.CSem in
/-- **C02_icount_is_the_source** — `icount` as it stands in lib/res0.c (the number of books a residue stage word announces: it sizes the
loop that reads `booklist[]`) equals the model's bit count for every stage word the parser can produce (`0 ≤ s < 256`, ResidueWF.st);
the whole table is evaluated by the kernel (`decide +kernel`, no axiom beyond the three). -/
theorem C02_icount_is_the_source : ∀ v : Fin 256,
    (Vorbis.Generated.Funcs.icount.run (v.val : Int) 10).val? = some ((Vorbis.Setup.icount v.val : Nat) : Int) := by
  decide +kernel

end Vorbis.Props.C02
