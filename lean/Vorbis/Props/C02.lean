import Vorbis.Header
namespace Vorbis.Props.C02
open Vorbis

/-- placeholder; replaced by the real theorems below as they land -/
theorem C02_ilog_zero : ilog 0 = 0 := by simp [ilog, ilogNat]

end Vorbis.Props.C02
