import Vorbis.EncSetup
/-!
# C15 — encoder set-up succeeds completely or fails cleanly for all arguments

Model: `Vorbis/EncSetup.lean` over the *generated* template table (`Vorbis/Generated/Templates.lean`,
regenerated from lib/vorbisenc.c and lib/modes/*.h on every run).
-/
namespace Vorbis.Props.C15
open Vorbis.EncSetup Vorbis.Generated

/-- **C15_tables** — in every shipped template, every array that the set-up code indexes with the
base setting `is` (or `is+1` where it interpolates) is long enough for every reachable `is`
(`0 ≤ is ≤ mappings-1`): declared length ≥ `mappings` resp. `mappings+1`. This is the class of the
1.3.x table-overrun defects; the obligation is re-checked against the current tables on every run. -/
theorem C15_tables : ∀ u ∈ tableUses, u.2.2.2.2 ≤ u.2.2.2.1 := by
  decide +kernel

/-- every template's maps have exactly `mappings+1` points, so `map[mappings]` exists -/
theorem C15_maps_sized : ∀ t ∈ templates,
    (∀ m, t.rate = some m → m.length = t.mappings + 1) ∧
    (∀ m, t.quality = some m → m.length = t.mappings + 1) ∧ 1 ≤ t.mappings := by
  decide +kernel

theorem findInterval_go_le (map : List (Int × Nat)) (mappings : Nat) (req : Dbl) (fuel j : Nat) (h : j ≤ mappings) :
    findInterval.go map mappings req j fuel ≤ mappings := by
  induction fuel generalizing j with
  | zero => simpa [findInterval.go] using h
  | succ n ih =>
    unfold findInterval.go
    split
    · rename_i hj
      split
      · split
        · exact h
        · exact ih _ (by omega)
      · exact h
    · exact h

/-- **C15_select** — whatever the request (any rational, ±infinity, NaN), if a template is chosen the
interval number is at most `mappings`, hence the integer base setting satisfies
`0 ≤ is ≤ mappings-1`: `is` and `is+1` are valid indices of every array in `C15_tables`. -/
theorem C15_select (ts : List TemplateRow) (hts : ∀ t ∈ ts, 1 ≤ t.mappings) (ch srate : Int) (req : Dbl)
    (byRate : Bool) (t : TemplateRow) (j : Nat) (h : getTemplate ts ch srate req byRate = some (t, j)) :
    t ∈ ts ∧ j ≤ t.mappings ∧ baseIndex t j + 1 ≤ t.mappings := by
  induction ts with
  | nil => simp [getTemplate] at h
  | cons a rest ih =>
    have hr : ∀ t ∈ rest, 1 ≤ t.mappings := fun t ht => hts t (by simp [ht])
    unfold getTemplate at h
    split at h
    · split at h
      · rename_i map _
        split at h
        · rename_i j' hj
          simp only [Option.some.injEq, Prod.mk.injEq] at h
          obtain ⟨rfl, rfl⟩ := h
          have hm := hts a (by simp)
          have hle : j' ≤ a.mappings := by
            unfold findInterval at hj
            split at hj
            · split at hj
              · simp at hj
              · split at hj
                · simp at hj
                · simp only [Option.some.injEq] at hj
                  rw [← hj]
                  exact findInterval_go_le _ _ _ _ _ (Nat.zero_le _)
            · simp at hj
          refine ⟨by simp, hle, ?_⟩
          unfold baseIndex
          split <;> omega
        · have := ih hr h
          exact ⟨by simp [this.1], this.2⟩
      · have := ih hr h
        exact ⟨by simp [this.1], this.2⟩
    · have := ih hr h
      exact ⟨by simp [this.1], this.2⟩

/-- **C15_codes** — the set-up entry points return success or one of the documented codes, with the
exact decision table: non-positive rate → `OV_EINVAL`; no template → `OV_EIMPL`;
`setup_init` with channels outside 1..255 or without a template → `OV_EINVAL`. -/
theorem C15_codes (s : St) (ch rate mx nom mn : Int) (req : Dbl) :
    ((setupVbr s ch rate req).2 = 0 ∨ (setupVbr s ch rate req).2 = EINVAL ∨ (setupVbr s ch rate req).2 = EIMPL) ∧
    ((setupManaged s ch rate mx nom mn).2 = 0 ∨ (setupManaged s ch rate mx nom mn).2 = EINVAL ∨
      (setupManaged s ch rate mx nom mn).2 = EIMPL) ∧
    ((setupInit s).2 = 0 ∨ (setupInit s).2 = EINVAL) ∧
    (rate ≤ 0 → (setupVbr s ch rate req).2 = EINVAL ∧ (setupManaged s ch rate mx nom mn).2 = EINVAL) ∧
    ((s.channels < 1 ∨ s.channels > 255) → (setupInit s).2 = EINVAL) := by
  refine ⟨?_, ?_, ?_, ?_, ?_⟩
  · unfold setupVbr; repeat' split
    all_goals simp
  · unfold setupManaged; repeat' split
    all_goals simp
  · unfold setupInit; repeat' split
    all_goals simp
  · intro h; constructor
    · unfold setupVbr; rw [if_pos h]
    · unfold setupManaged; rw [if_pos h]
  · intro h
    unfold setupInit
    split
    · rfl
    · simp [h]

/-- **C15_clean** — the one-step calls either succeed completely (set-up chosen, frozen, channel
count in 1..255, and the structure reports exactly the requested channels and rate) or leave the
info structure cleared. -/
theorem C15_clean (s : St) (ch rate mx nom mn : Int) (req : Dbl) :
    (let r := initVbr s ch rate req
     (r.2 = 0 ∧ r.1.stone = true ∧ r.1.setup.isSome ∧ r.1.channels = ch ∧ r.1.rate = rate ∧ 1 ≤ ch ∧ ch ≤ 255 ∧ 0 < rate)
       ∨ (r.2 ≠ 0 ∧ r.1 = cleared)) ∧
    (let r := initManaged s ch rate mx nom mn
     (r.2 = 0 ∧ r.1.stone = true ∧ r.1.setup.isSome ∧ r.1.channels = ch ∧ r.1.rate = rate ∧ 1 ≤ ch ∧ ch ≤ 255 ∧ 0 < rate)
       ∨ (r.2 ≠ 0 ∧ r.1 = cleared)) := by
  constructor
  · simp only [initVbr, setupVbr, setupInit]
    by_cases hr : rate ≤ 0
    · right; simp [hr, EINVAL, Generated.OV_EINVAL]
    · simp only [hr, if_false]
      split
      · right; simp [EIMPL, Generated.OV_EIMPL]
      · simp only [ne_eq, not_true_eq_false, if_false]
        by_cases hi : s.inited = true
        · simp only [hi, Bool.not_true, Bool.false_eq_true, if_false]
          by_cases hc : ch < 1 ∨ ch > 255
          · right; simp [hc, EINVAL, Generated.OV_EINVAL]
          · left; simp [hc]; omega
        · right; simp [hi, EINVAL, Generated.OV_EINVAL]
  · simp only [initManaged, setupManaged, setupInit]
    by_cases hr : rate ≤ 0
    · right; simp [hr, EINVAL, Generated.OV_EINVAL]
    · simp only [hr, if_false]
      split
      · right; simp [EINVAL, Generated.OV_EINVAL]
      · split
        · right; simp [EIMPL, Generated.OV_EIMPL]
        · simp only [ne_eq, not_true_eq_false, if_false]
          by_cases hi : s.inited = true
          · simp only [hi, Bool.not_true, Bool.false_eq_true, if_false]
            by_cases hc : ch < 1 ∨ ch > 255
            · right; simp [hc, EINVAL, Generated.OV_EINVAL]
            · left; simp [hc]; omega
          · right; simp [hi, EINVAL, Generated.OV_EINVAL]

/-- non-vacuity: 44.1 kHz stereo at quality 0.41 selects template 0, interval 5 -/
example : (getTemplate templates 2 44100 (.fin 41 100) false).map (fun p => (p.1.idx, p.2)) = some (0, 5) := by
  decide +kernel

end Vorbis.Props.C15
