import Vorbis.EncSetup
/-!
# C15 — encoder set-up succeeds completely or fails cleanly for all arguments

Model: `Vorbis/EncSetup.lean` over the *generated* template table (`Vorbis/Generated/Templates.lean`,
regenerated from lib/vorbisenc.c and lib/modes/*.h on every run).
-/
namespace Vorbis.Props.C15
open Vorbis.EncSetup Vorbis.Generated

/-- **C15_tables** — in every shipped template, every array that the set-up code indexes with the
base setting `is` (or `is+1` where it interpolates) is long enough for every reachable `is`
(`0 ≤ is ≤ mappings-1`): declared length ≥ `mappings` resp. `mappings+1`. This is the class of the
1.3.x table-overrun defects; the obligation is re-checked against the current tables on every run. -/
theorem C15_tables : ∀ u ∈ tableUses, u.2.2.2.2 ≤ u.2.2.2.1 := by
  decide +kernel

/-- every template's maps have exactly `mappings+1` points, so `map[mappings]` exists -/
theorem C15_maps_sized : ∀ t ∈ templates,
    (∀ m, t.rate = some m → m.length = t.mappings + 1) ∧
    (∀ m, t.quality = some m → m.length = t.mappings + 1) ∧ 1 ≤ t.mappings := by
  decide +kernel

theorem findInterval_go_le (map : List (Int × Nat)) (mappings : Nat) (req : Dbl) (fuel j : Nat) (h : j ≤ mappings) :
    findInterval.go map mappings req j fuel ≤ mappings := by
  induction fuel generalizing j with
  | zero => simpa [findInterval.go] using h
  | succ n ih =>
    unfold findInterval.go
    split
    · rename_i hj
      split
      · split
        · exact h
        · exact ih _ (by omega)
      · exact h
    · exact h

/-- **C15_select** — whatever the request (any rational, ±infinity, NaN), if a template is chosen it
is one of the table and the interval search stopped at some `j ≤ mappings`: the request lies inside
the template's map, or it is the all-points match. -/
theorem C15_select (map : List (Int × Nat)) (mappings : Nat) (req : Dbl) (j : Nat)
    (h : findInterval map mappings req = some j) : j ≤ mappings := by
  unfold findInterval at h
  split at h
  · split at h
    · simp at h
    · split at h
      · simp at h
      · simp only [Option.some.injEq] at h
        rw [← h]
        exact findInterval_go_le _ _ _ _ _ (Nat.zero_le _)
  · simp at h

/-- the all-points match (`j = mappings`, base setting `j-.001`) yields `is = mappings-1` -/
theorem C15_allpoints (t : TemplateRow) (map : List (Int × Nat)) (req : Dbl) (h : 1 ≤ t.mappings) :
    baseIndex t map t.mappings req + 1 ≤ t.mappings := by
  unfold baseIndex
  simp only [if_true]
  omega

/-- **C15_base_in_interval** — for every request (any rational, ±infinity, NaN), every map and every
interval the search can stop at, the integer base setting computed with the C's exact float
arithmetic (`Vorbis/F32.lean`) satisfies `is ≤ j`, hence `is+1 ≤ mappings`: `is` and `is+1` index
inside every array listed in `C15_tables`. This theorem was *false* of the unrepaired code (finding
F15: in the last interval float rounding gave `is = mappings`); it holds after the clamp. -/
theorem C15_base_in_interval (t : TemplateRow) (map : List (Int × Nat)) (j : Nat) (req : Dbl)
    (hm : 1 ≤ t.mappings) (hj : j ≤ t.mappings) :
    baseIndex t map j req + 1 ≤ t.mappings := by
  unfold baseIndex
  split
  · omega
  · rename_i hne
    have hlt : j < t.mappings := by omega
    split
    · simp only []
      split
      · omega
      · split
        · omega
        · omega
    · omega

/-- the whole selection: a chosen template is one of the table and its base setting indexes in bounds -/
theorem C15_select_in_bounds (ts : List TemplateRow) (hts : ∀ t ∈ ts, 1 ≤ t.mappings) (ch srate : Int)
    (req : Dbl) (byRate : Bool) (t : TemplateRow) (is : Nat)
    (h : getTemplate ts ch srate req byRate = some (t, is)) : t ∈ ts ∧ is + 1 ≤ t.mappings := by
  induction ts with
  | nil => simp [getTemplate] at h
  | cons a rest ih =>
    have hr : ∀ t ∈ rest, 1 ≤ t.mappings := fun t ht => hts t (by simp [ht])
    unfold getTemplate at h
    split at h
    · split at h
      · rename_i map _
        split at h
        · rename_i j hj
          simp only [Option.some.injEq, Prod.mk.injEq] at h
          obtain ⟨rfl, rfl⟩ := h
          exact ⟨by simp, C15_base_in_interval _ _ _ _ (hts _ (by simp)) (C15_select _ _ _ _ hj)⟩
        · have := ih hr h; exact ⟨by simp [this.1], this.2⟩
      · have := ih hr h; exact ⟨by simp [this.1], this.2⟩
    · have := ih hr h; exact ⟨by simp [this.1], this.2⟩

/-- **C15_codes** — the set-up entry points return success or one of the documented codes, with the
exact decision table: non-positive rate → `OV_EINVAL`; no template → `OV_EIMPL`;
`setup_init` with channels outside 1..255 or without a template → `OV_EINVAL`. -/
theorem C15_codes (s : St) (ch rate mx nom mn : Int) (req : Dbl) :
    ((setupVbr s ch rate req).2 = 0 ∨ (setupVbr s ch rate req).2 = EINVAL ∨ (setupVbr s ch rate req).2 = EIMPL) ∧
    ((setupManaged s ch rate mx nom mn).2 = 0 ∨ (setupManaged s ch rate mx nom mn).2 = EINVAL ∨
      (setupManaged s ch rate mx nom mn).2 = EIMPL) ∧
    ((setupInit s).2 = 0 ∨ (setupInit s).2 = EINVAL) ∧
    (rate ≤ 0 → (setupVbr s ch rate req).2 = EINVAL ∧ (setupManaged s ch rate mx nom mn).2 = EINVAL) ∧
    ((s.channels < 1 ∨ s.channels > 255) → (setupInit s).2 = EINVAL) := by
  refine ⟨?_, ?_, ?_, ?_, ?_⟩
  · unfold setupVbr; repeat' split
    all_goals simp
  · unfold setupManaged; repeat' split
    all_goals simp
  · unfold setupInit; repeat' split
    all_goals simp
  · intro h; constructor
    · unfold setupVbr; rw [if_pos h]
    · unfold setupManaged; rw [if_pos h]
  · intro h
    unfold setupInit
    split
    · rfl
    · simp [h]

/-- **C15_clean** — the one-step calls either succeed completely (set-up chosen, frozen, channel
count in 1..255, and the structure reports exactly the requested channels and rate) or leave the
info structure cleared. -/
theorem C15_clean (s : St) (ch rate mx nom mn : Int) (req : Dbl) :
    (let r := initVbr s ch rate req
     (r.2 = 0 ∧ r.1.stone = true ∧ r.1.setup.isSome ∧ r.1.channels = ch ∧ r.1.rate = rate ∧ 1 ≤ ch ∧ ch ≤ 255 ∧ 0 < rate)
       ∨ (r.2 ≠ 0 ∧ r.1 = cleared)) ∧
    (let r := initManaged s ch rate mx nom mn
     (r.2 = 0 ∧ r.1.stone = true ∧ r.1.setup.isSome ∧ r.1.channels = ch ∧ r.1.rate = rate ∧ 1 ≤ ch ∧ ch ≤ 255 ∧ 0 < rate)
       ∨ (r.2 ≠ 0 ∧ r.1 = cleared)) := by
  constructor
  · simp only [initVbr, setupVbr, setupInit]
    by_cases hr : rate ≤ 0
    · right; simp [hr, EINVAL, Generated.OV_EINVAL]
    · simp only [hr, if_false]
      split
      · right; simp [EIMPL, Generated.OV_EIMPL]
      · simp only [ne_eq, not_true_eq_false, if_false]
        by_cases hi : s.inited = true
        · simp only [hi, Bool.not_true, Bool.false_eq_true, if_false]
          by_cases hc : ch < 1 ∨ ch > 255
          · right; simp [hc, EINVAL, Generated.OV_EINVAL]
          · by_cases hst : s.stone = true
            · right; simp [hc, hst, EINVAL, Generated.OV_EINVAL]
            · left; simp [hc, hst]; omega
        · right; simp [hi, EINVAL, Generated.OV_EINVAL]
  · simp only [initManaged, setupManaged, setupInit]
    by_cases hr : rate ≤ 0
    · right; simp [hr, EINVAL, Generated.OV_EINVAL]
    · simp only [hr, if_false]
      split
      · right; simp [EINVAL, Generated.OV_EINVAL]
      · split
        · right; simp [EIMPL, Generated.OV_EIMPL]
        · simp only [ne_eq, not_true_eq_false, if_false]
          by_cases hi : s.inited = true
          · simp only [hi, Bool.not_true, Bool.false_eq_true, if_false]
            by_cases hc : ch < 1 ∨ ch > 255
            · right; simp [hc, EINVAL, Generated.OV_EINVAL]
            · by_cases hst : s.stone = true
              · right; simp [hc, hst, EINVAL, Generated.OV_EINVAL]
              · left; simp [hc, hst]; omega
          · right; simp [hi, EINVAL, Generated.OV_EINVAL]

/-- non-vacuity: 44.1 kHz stereo at quality 0.41 selects template 0, interval 5 -/
example : (getTemplate templates 2 44100 (.fin 41 100) false).map (fun p => (p.1.idx, p.2)) = some (0, 5) := by
  decide +kernel

/-- the boundary case the correspondence found: quality 0.9 - 2 ulp (+1e-7 in float = 0.9f = 15099494/16777216)
    lies in interval 9; the float sum rounds to 10.0 and the clamp brings the setting back to 9 -/
example : (getTemplate templates 2 44100 (.fin 15099494 16777216) false).map (fun p => (p.1.idx, p.2)) = some (0, 9) := by
  decide +kernel

end Vorbis.Props.C15
