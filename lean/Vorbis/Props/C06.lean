import Vorbis.Props.C11
/-
C06 — time alignment.  Granule coordinates: block `b` (half size `hsz`) centred at granule position `c_b` carries, as sample `j`
of its inverse-transform output, the time instant `c_b - hsz_b + j`; consecutive centres are `hsz_{b-1}/2 + hsz_b/2` apart
(lib/block.c: "centerW", granule positions are counted from block centres; the encoder centres its first block on sample 0 —
that side is C04's `Coherent`: packet `b` carries granule position `c_b`, the first one 0).
The theorems say: every source that the specification (and, by C11_local, the decoder's overlap-add) combines into the sample
returned at offset `r` after packet `k` stands for the *same* time instant `c_{k-1} + r` — the tail of block `k-1` and the head
of block `k` are laid exactly on top of each other, for all four combinations of block sizes, so output sample `i` is input
time `i`: no delay, no advance.  (That each block's transform pair is itself time-exact is TDAC of the MDCT, a float kernel
outside the model; the check measures it: best lag 0.)
-/
namespace Vorbis.Props.C06
open Vorbis.Block.Lap Vorbis.Props.C11
set_option linter.unusedSimpArgs false

/-- half size of a block with flag `w` -/
def hsz (n0 n1 : Int) (w : Bool) : Int := if w then n1 else n0

/-- granule coordinate of sample `j` of block `b`'s inverse-transform output, when block `k-1` is centred at `c`
    and block `k` (flags `lW`, `W`) therefore at `c + hsz lW/2 + hsz W/2` -/
def coord (n0 n1 c : Int) (lW W : Bool) (k : Nat) : Src → Option Int
  | .stale => none
  | .pkt b j =>
      if b = k then some (c + hsz n0 n1 lW / 2 + hsz n0 n1 W / 2 - hsz n0 n1 W + j)
      else if b + 1 = k then some (c - hsz n0 n1 lW + j)
      else none

theorem C06_overlap_aligned (n0 n1 : Int) (z : Sz n0 n1) (c : Int) (lW W : Bool) (k : Nat) (hk : 0 < k) (r : Int)
    (h0 : 0 ≤ r) (h1 : r < hsz n0 n1 lW / 2 + hsz n0 n1 W / 2) :
    ∀ s ∈ specCell n0 n1 lW W k r, coord n0 n1 c lW W k s = some (c + r) := by
  intro s hs
  unfold specCell at hs
  have hkk : k - 1 + 1 = k := by omega
  have hne : ¬ (k - 1 = k) := by omega
  have e0 := z.ev0
  have e1 := z.ev1
  cases lW <;> cases W <;> simp only [hsz, if_true, if_false, Bool.false_eq_true] at hs h1 ⊢
  · -- short / short
    simp only [List.mem_cons, List.mem_nil_iff, or_false] at hs
    rcases hs with h | h <;> subst h <;> simp [coord, hsz, hkk, hne] <;> omega
  · -- short / long
    by_cases hr : r < n0
    · simp only [hr, if_true, List.mem_cons, List.mem_nil_iff, or_false] at hs
      rcases hs with h | h <;> subst h <;> simp [coord, hsz, hkk, hne] <;> omega
    · simp only [hr, if_false, List.mem_cons, List.mem_nil_iff, or_false] at hs
      subst hs; simp [coord, hsz, hkk, hne]; omega
  · -- long / short
    by_cases hr : r < n1 / 2 - n0 / 2
    · simp only [hr, if_true, List.mem_cons, List.mem_nil_iff, or_false] at hs
      subst hs; simp [coord, hsz, hkk, hne]; omega
    · simp only [hr, if_false, List.mem_cons, List.mem_nil_iff, or_false] at hs
      rcases hs with h | h <;> subst h <;> simp [coord, hsz, hkk, hne] <;> omega
  · -- long / long
    simp only [List.mem_cons, List.mem_nil_iff, or_false] at hs
    rcases hs with h | h <;> subst h <;> simp [coord, hsz, hkk, hne] <;> omega

/-- **C06_decoder_aligned** — restart the decoder anywhere, feed any packets with any window flags: every source combined into
    the `r`-th sample handed out after the last packet is the time instant `c + r`, `c` the centre of the block before it -/
theorem C06_decoder_aligned (n0 n1 : Int) (z : Sz n0 n1) (k0 : Nat) (w0 : Bool) (ws : List Bool) (w : Bool) (c : Int) :
    let sN := runFrom n0 n1 k0 (w0 :: ws ++ [w])
    let prevW := (w0 :: ws).getLast (by simp)
    let k := k0 + 1 + ws.length
    ∀ i, returned sN i → ∀ s ∈ sN.buf i, coord n0 n1 c prevW w k s = some (c + (i - sN.retLo)) := by
  intro sN prevW k i hi s hs
  have hl := C11_local n0 n1 z k0 w0 ws w
  simp only [] at hl
  obtain ⟨hcell, hlen⟩ := hl
  have hc := hcell i hi
  rw [hc] at hs
  have hr : returned sN i := hi
  unfold returned at hr
  have hlen' : sN.retHi - sN.retLo = (if prevW then n1 else n0) / 2 + (if w then n1 else n0) / 2 := hlen
  apply C06_overlap_aligned n0 n1 z c prevW w k (by omega) (i - sN.retLo) (by omega)
  · simp only [hsz]; omega
  · exact hs

/-- non-vacuity: long block after short block, sizes 64/512 (half sizes 32/256): offset 40 -/
example : specCell 32 256 false true 3 40 = [Src.pkt 3 152] ∧ coord 32 256 1000 false true 3 (Src.pkt 3 152) = some 1040 := by decide

end Vorbis.Props.C06
