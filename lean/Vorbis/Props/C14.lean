import Vorbis.Proofs.Bitrate
/-!
# C14 — hard bitrate limits hold to within the configured reservoir

Model: `Vorbis/Bitrate.lean` (`vorbis_bitrate_addblock`). The theorems quantify over every sequence of
blocks (any mix of short/long), every set of 15 candidate packet sizes per block and every choice the
average floater could make. Targets are the manager's own per-block budgets
`t(W) = bitsper · (W ? short_per_long : 1)`.
-/
namespace Vorbis.Props.C14
open Vorbis.Bitrate

/-- blocks the analysis stage can hand over: the floater's choice is a valid blob index -/
def Valid (bs : List Block) : Prop := ∀ blk ∈ bs, blk.c0 ≤ 14

/-- bits emitted above the maximum budget over a run -/
def excessMax (c : Cfg) : List (Bool × Int) → Int
  | [] => 0
  | (W, bits) :: rest => (bits - maxT c W) + excessMax c rest

/-- bits missing below the minimum budget over a run -/
def deficitMin (c : Cfg) : List (Bool × Int) → Int
  | [] => 0
  | (W, bits) :: rest => (minT c W - bits) + deficitMin c rest

/-- **C14_step** — one block: the reservoir stays inside `[0, reservoir_bits]`, every bit above the
maximum budget is booked in the reservoir, every bit below the minimum budget is taken from it,
and the chosen blob index is in range. -/
theorem C14_step (c : Cfg) (s : Side c) (R : Int) (hI : Inv c R) (W : Bool) (b : Nat → Nat)
    (c0 : Nat) (hc0 : c0 ≤ 14) :
    let r := addblock c R W b c0
    Inv c r.1 ∧ 0 ≤ r.2.1 ∧ r.2.2 ≤ 14 ∧
    (c.maxb > 0 → r.2.1 - maxT c W ≤ r.1 - R) ∧
    (c.minb > 0 → r.1 - R ≤ r.2.1 - minT c W) := by
  have hs := select_spec c s R hI W b c0 hc0
  have hu := update_spec c s R hI W (select c R W b c0).2 hs.2.1 hs.2.2.1
  simp only [addblock]
  exact ⟨hu.1, hs.1, hs.2.2.2, hu.2.1, hu.2.2⟩

/-- **C14_inv** — over any sequence of blocks the reservoir never leaves `[0, reservoir_bits]`. -/
theorem C14_inv (c : Cfg) (s : Side c) (R : Int) (hI : Inv c R) (bs : List Block) (hv : Valid bs) :
    Inv c (run c R bs).1 := by
  induction bs generalizing R with
  | nil => simpa [run] using hI
  | cons blk rest ih =>
    have st := C14_step c s R hI blk.W blk.b blk.c0 (hv blk (by simp))
    simp only [run]
    exact ih _ st.1 (fun x hx => hv x (by simp [hx]))

/-- accounting identity behind both limits -/
theorem run_account (c : Cfg) (s : Side c) (R : Int) (hI : Inv c R) (bs : List Block) (hv : Valid bs) :
    (c.maxb > 0 → excessMax c (run c R bs).2 ≤ (run c R bs).1 - R) ∧
    (c.minb > 0 → deficitMin c (run c R bs).2 ≤ R - (run c R bs).1) := by
  induction bs generalizing R with
  | nil => simp [run, excessMax, deficitMin]
  | cons blk rest ih =>
    have st := C14_step c s R hI blk.W blk.b blk.c0 (hv blk (by simp))
    have ih' := ih _ st.1 (fun x hx => hv x (by simp [hx]))
    revert st ih'
    rcases hab : addblock c R blk.W blk.b blk.c0 with ⟨R', bits, ch⟩
    intro st ih'
    simp only [run, hab, excessMax, deficitMin] at *
    constructor
    · intro hm; have := ih'.1 hm; have := st.2.2.2.1 hm; omega
    · intro hm; have := ih'.2 hm; have := st.2.2.2.2 hm; omega

/-- **C14_max** — with a hard maximum, over *every contiguous run* of packets (any prefix `pre`
already encoded, then the run `mid`) the bits emitted exceed the sum of the per-packet maximum
budgets by at most the reservoir size. -/
theorem C14_max (c : Cfg) (s : Side c) (R0 : Int) (hI : Inv c R0) (pre mid : List Block)
    (hp : Valid pre) (hm : Valid mid) (hmax : c.maxb > 0) :
    excessMax c (run c (run c R0 pre).1 mid).2 ≤ c.RB := by
  have h1 := C14_inv c s R0 hI pre hp
  have h2 := C14_inv c s _ h1 mid hm
  have h3 := (run_account c s _ h1 mid hm).1 hmax
  unfold Bitrate.Inv at h1 h2
  omega

/-- **C14_min** — symmetric: with a hard minimum the bits never fall short of the minimum budgets
by more than the reservoir size, over every contiguous run. -/
theorem C14_min (c : Cfg) (s : Side c) (R0 : Int) (hI : Inv c R0) (pre mid : List Block)
    (hp : Valid pre) (hm : Valid mid) (hmin : c.minb > 0) :
    deficitMin c (run c (run c R0 pre).1 mid).2 ≤ c.RB := by
  have h1 := C14_inv c s R0 hI pre hp
  have h2 := C14_inv c s _ h1 mid hm
  have h3 := (run_account c s _ h1 mid hm).2 hmin
  unfold Bitrate.Inv at h1 h2
  omega

/-- the output of a run over `pre ++ mid` is the output over `pre` followed by the output of
`mid` started in the state `pre` left — so "contiguous run" above really is a window of one encode -/
theorem C14_window (c : Cfg) (R0 : Int) (pre mid : List Block) :
    (run c R0 (pre ++ mid)).2 = (run c R0 pre).2 ++ (run c (run c R0 pre).1 mid).2 ∧
    (run c R0 (pre ++ mid)).1 = (run c (run c R0 pre).1 mid).1 := by
  induction pre generalizing R0 with
  | nil => simp [run]
  | cons blk rest ih =>
    simp only [List.cons_append, run]
    have := ih (addblock c R0 blk.W blk.b blk.c0).1
    exact ⟨by rw [this.1], this.2⟩

/-- non-vacuity: a CBR-like configuration (both limits, 8-bit-or-larger reservoir) meets `Side`,
and its initial fill meets `Inv`. -/
example : Side { minb := 372, maxb := 372, spl := 8, RB := 4096, desired := 2048 } ∧
    Inv { minb := 372, maxb := 372, spl := 8, RB := 4096, desired := 2048 } 2048 := by
  refine ⟨⟨by decide, by decide, by decide, by decide, by decide, fun _ _ => by decide⟩, by unfold Bitrate.Inv; decide⟩

/-- **C14_side_needed** — the side condition is not an artefact: with both limits set and a reservoir
smaller than one byte's worth of slack the invariant fails (concrete witness; the same inputs are
replayed on the real rate manager by the check). -/
theorem C14_side_needed :
    let c : Cfg := { minb := 100, maxb := 100, spl := 1, RB := 3, desired := 0 }
    ¬ Inv c (addblock c 0 false (fun _ => 1000) 7).1 := by
  simp only []; unfold Bitrate.Inv; decide

/-- the budgets the manager enforces are the configured rates rounded to whole bits per half short block: each is within half a bit
    of the exact value (this rounding is the drift recorded as known finding F9) -/
theorem C14_budget_quantisation (num den : Int) (hd : 0 < den) :
    2 * (rintDiv num den * den - num) ≤ den ∧ -den ≤ 2 * (rintDiv num den * den - num) := by
  unfold rintDiv
  have h1 := Int.emod_add_mul_ediv num den
  have h2 := Int.emod_nonneg num (Int.ne_of_gt hd)
  have h3 := Int.emod_lt_of_pos num hd
  have e : num / den * den = den * (num / den) := Int.mul_comm _ _
  simp only []
  split
  · rw [e]; omega
  · split
    · rw [Int.add_mul, e]; omega
    · split
      · rw [e]; omega
      · rw [Int.add_mul, e]; omega

example : rintDiv (128000 * 128) 44100 = 372 ∧ rintDiv 5 2 = 2 ∧ rintDiv 7 2 = 4 ∧ rintDiv 1 3 = 0 := by decide

end Vorbis.Props.C14
