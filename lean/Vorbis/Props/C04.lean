import Vorbis.Proofs.Dec
import Vorbis.Proofs.Enc
/-!
# C04 — encode then decode preserves the exact sample count and starts at zero

Models: `Vorbis/Block/Enc.lean` (analysis-side bookkeeping), `Vorbis/Block/Dec.lean` (synthesis-side).
Both are replayed call by call against the real encoder and decoder (stream `c04`).

`C04_decode_total` is the decoder half, for *every* packet sequence of the shape the encoder
produces (`Coherent`) and *every* way of hiding granule positions that Ogg paging allows.
`C04_encode_coherent` is the encoder half: every run (any partition, any answers of the envelope
search) that signals end of input once and is drained hands out a `Coherent` sequence.
`C04_main` composes the two.
-/
namespace Vorbis.Props.C04
open Vorbis.Block

theorem sum_drain_cons (z : Sizes) (hs : Nat) (d : Dec) (b : Blk) (bs : List Blk) :
    sum (Dec.drainAll z hs d (b :: bs))
      = (d.blockin z hs b).1.pcmout
        + sum (Dec.drainAll z hs ((d.blockin z hs b).1.read (d.blockin z hs b).1.pcmout).1 bs) := rfl

theorem toBlks_cons (pv : Pkt × Bool) (l : List (Pkt × Bool)) :
    toBlks (pv :: l) = pv.1.toBlk pv.2 :: toBlks l := rfl

theorem decode_rest (z : Sizes) (h0 : 0 ≤ z.bs0) (h1 : 0 ≤ z.bs1) (N : Int) (l : List (Pkt × Bool))
    (d : Dec) (lW : Bool) (c seq : Int) (st : DecSt z d lW c seq)
    (hc : Coherent z N false lW c seq l) :
    sum (Dec.drainAll z 0 d (toBlks l)) = N - c := by
  induction l generalizing d lW c seq with
  | nil => simp [Coherent] at hc
  | cons pv rest ih =>
    obtain ⟨p, vis⟩ := pv
    cases rest with
    | nil =>
      simp only [Coherent, Bool.false_eq_true, if_false] at hc
      obtain ⟨he, hv, hs, hg, hN0, hN1⟩ := hc
      subst hv
      have := step_last z h0 h1 d lW c seq N st (p.toBlk true) rfl (by simp [Pkt.toBlk, hs])
        (by simp [Pkt.toBlk, he]) (by simp [Pkt.toBlk, hg]) hN0 (by simpa [Pkt.toBlk] using hN1)
      rw [toBlks_cons, sum_drain_cons, this]
      simp [toBlks, Dec.drainAll, sum]
    | cons q rest' =>
      simp only [Coherent, Bool.false_eq_true, if_false] at hc
      obtain ⟨he, hs, hg, hrest⟩ := hc
      have hgp : (p.toBlk vis).gp = -1 ∨ (p.toBlk vis).gp = c + adv z lW (p.toBlk vis).W := by
        cases vis <;> simp [Pkt.toBlk, hg]
      have sm := step_mid z h0 h1 d lW c seq st (p.toBlk vis) rfl (by simp [Pkt.toBlk, hs])
        (by simp [Pkt.toBlk, he]) hgp
      have ihr := ih _ _ _ _ sm.2 (by simpa [Pkt.toBlk] using hrest)
      rw [toBlks_cons, sum_drain_cons, ihr, sm.1]
      simp only [Pkt.toBlk]
      omega

/-- **C04_decode_total** — for every block-size pair, every `N ≥ 0`, every packet sequence of the
encoder's shape (any mix of short/long windows, first packet at position 0, last packet carrying
granule position `N` and the end-of-stream flag) and every choice of which intermediate granule
positions are visible to the decoder, draining the decoder after each packet delivers exactly `N`
samples in total — including `N = 0` (single packet) and `N` smaller than one block. -/
theorem C04_decode_total (z : Sizes) (h0 : 0 ≤ z.bs0) (h1 : 0 ≤ z.bs1) (N : Int) (seq0 : Int)
    (hseq : 0 ≤ seq0) (l : List (Pkt × Bool)) (hc : Coherent z N true false 0 seq0 l) :
    sum (Dec.drainAll z 0 (Dec.restart z 0) (toBlks l)) = N := by
  cases l with
  | nil => simp [Coherent] at hc
  | cons pv rest =>
    obtain ⟨p, vis⟩ := pv
    cases rest with
    | nil =>
      simp only [Coherent, if_true] at hc
      obtain ⟨he, hv, hs, hg, hN0, hN1⟩ := hc
      have hN : N = 0 := by omega
      subst hv
      have sf := step_first z h1 (p.toBlk true) rfl (by simp [Pkt.toBlk, hg, hN]) (by simp [Pkt.toBlk, hs, hseq])
      rw [toBlks_cons, sum_drain_cons, sf.1]
      simp [toBlks, Dec.drainAll, sum, hN]
    | cons q rest' =>
      simp only [Coherent, if_true] at hc
      obtain ⟨he, hs, hg, hrest⟩ := hc
      have hgp : (p.toBlk vis).gp = -1 ∨ (p.toBlk vis).gp = 0 := by
        cases vis <;> simp [Pkt.toBlk, hg]
      have sf := step_first z h1 (p.toBlk vis) rfl hgp (by simp [Pkt.toBlk, hs, hseq])
      have hst : DecSt z ((Dec.blockin z 0 (Dec.restart z 0) (p.toBlk vis)).fst.read 0).fst p.W 0 (seq0 + 1) := by
        simpa [Pkt.toBlk, hs] using sf.2
      have hr := decode_rest z h0 h1 N (q :: rest') _ p.W 0 (seq0 + 1) hst hrest
      rw [toBlks_cons, sum_drain_cons, sf.1, hr]
      omega

/-- **C04_encode_coherent** — for all block sizes `4 ≤ bs0 ≤ bs1`, every sequence `pre` of
`vorbis_analysis_buffer` / `vorbis_analysis_wrote(n>0)` / `vorbis_analysis_blockout` calls in any
order and with any sizes (over-submissions are refused and do not count), every answer sequence of
the envelope search, followed by one end-of-input call and any draining calls `post`: if the encoder
reports itself finished, the packets handed out are `mids ++ [last]` and form a `Coherent` sequence
for `N` = the number of samples accepted — in particular `last` carries end-of-stream and granule
position `N`, and it is the only packet with the end-of-stream flag. -/
theorem C04_encode_coherent (z : Sizes) (s : SzOk z) (pre post : List EncOp) (n0 : Int) (hn0 : n0 ≤ 0)
    (hpre : ∀ op ∈ pre, DataOp op) (hpost : ∀ op ∈ post, DrainOp op)
    (hdone : (Enc.run z (Enc.init z) (pre ++ [EncOp.wrote n0] ++ post)).1.eof = -1) (vis : Pkt → Bool) :
    ∃ mids last,
      (Enc.run z (Enc.init z) (pre ++ [EncOp.wrote n0] ++ post)).2 = mids ++ [last] ∧
      Coherent z (accepted z (Enc.init z) pre) true false 0 3 (mids.map (fun q => (q, vis q)) ++ [(last, true)]) ∧
      0 ≤ accepted z (Enc.init z) pre := by
  -- phase 1: data
  have h1 := run_data z s pre (Enc.init z) [] 0 (init_inv z) rfl hpre
  simp only [List.nil_append, Int.zero_add] at h1
  obtain ⟨hinv1, heof1⟩ := h1
  -- the end-of-input call
  have h2 := wrote_eof_inv z s _ _ _ n0 hinv1 hn0 heof1
  obtain ⟨hinv2, hne2, _⟩ := h2
  -- phase 2: drain
  have h3 := run_drain z s post _ _ _ hinv2 hne2 hpost
  have hrun : Enc.run z (Enc.init z) (pre ++ [EncOp.wrote n0] ++ post)
      = ((Enc.run z ((Enc.run z (Enc.init z) pre).1.wrote z n0).1 post).1,
         (Enc.run z (Enc.init z) pre).2 ++ (Enc.run z ((Enc.run z (Enc.init z) pre).1.wrote z n0).1 post).2) := by
    rw [List.append_assoc, run_append]
    simp [Enc.run, Enc.step]
  rw [hrun] at hdone ⊢
  simp only at hdone ⊢
  rcases h3 with ⟨hi, hn⟩ | ⟨_, mids, last, hout, hm, hf⟩
  · exact absurd hdone hi.live
  · refine ⟨(Enc.run z (Enc.init z) pre).2 ++ mids, last, by rw [hout, List.append_assoc], ?_, hinv1.nw0⟩
    have := coherent_of_mid_final z (accepted z (Enc.init z) pre) vis ((Enc.run z (Enc.init z) pre).2 ++ mids)
      View.init last hm hf.eos hf.seq hf.gp hf.lo hf.hi
      (fun hfirst => ⟨hf.firstZero hfirst, by
        -- a view that is still "first" has seen no packet: its centre is the initial 0
        generalize (Enc.run z (Enc.init z) pre).2 ++ mids = l at hfirst ⊢
        cases l with
        | nil => rfl
        | cons a rest =>
          exfalso
          have : ∀ (l : List Pkt) (v : View), v.first = false → (View.run z v l).first = false := by
            intro l; induction l with
            | nil => intro v hv; exact hv
            | cons b t ih => intro v _; exact ih _ rfl
          have := this rest (View.init.step z a) rfl
          simp [View.run] at hfirst
          rw [this] at hfirst
          exact Bool.noConfusion hfirst⟩)
    simpa [View.init] using this

/-- **C04_main** — encode then decode: for every such encoder run, every page layout (visibility of
intermediate granule positions), the decoder delivers exactly the `N` samples that were accepted,
nothing comes out of the first packet (the stream starts at position 0), the last packet carries
granule position `N` and the only end-of-stream flag. -/
theorem C04_main (z : Sizes) (s : SzOk z) (pre post : List EncOp) (n0 : Int) (hn0 : n0 ≤ 0)
    (hpre : ∀ op ∈ pre, DataOp op) (hpost : ∀ op ∈ post, DrainOp op)
    (hdone : (Enc.run z (Enc.init z) (pre ++ [EncOp.wrote n0] ++ post)).1.eof = -1) (vis : Pkt → Bool) :
    ∃ mids last,
      (Enc.run z (Enc.init z) (pre ++ [EncOp.wrote n0] ++ post)).2 = mids ++ [last] ∧
      last.eos = true ∧ last.gp = accepted z (Enc.init z) pre ∧ (∀ p ∈ mids, p.eos = false) ∧
      sum (Dec.drainAll z 0 (Dec.restart z 0) (toBlks (mids.map (fun q => (q, vis q)) ++ [(last, true)])))
        = accepted z (Enc.init z) pre := by
  obtain ⟨mids, last, hout, hcoh, hN⟩ := C04_encode_coherent z s pre post n0 hn0 hpre hpost hdone vis
  have hz0 : 0 ≤ z.bs0 := by have := s.lo; omega
  have hz1 : 0 ≤ z.bs1 := by have := s.lo; have := s.le; omega
  refine ⟨mids, last, hout, ?_, ?_, ?_, C04_decode_total z hz0 hz1 _ 3 (by decide) _ hcoh⟩
  all_goals (
    -- read the facts off `Coherent`
    have key : ∀ (l : List Pkt) (f lW : Bool) (c sq : Int),
        Coherent z (accepted z (Enc.init z) pre) f lW c sq (l.map (fun q => (q, vis q)) ++ [(last, true)]) →
        last.eos = true ∧ last.gp = accepted z (Enc.init z) pre ∧ ∀ p ∈ l, p.eos = false := by
      intro l
      induction l with
      | nil => intro f lW c sq h; simp only [List.map_nil, List.nil_append, Coherent] at h; exact ⟨h.1, h.2.2.2.1, by simp⟩
      | cons a rest ih =>
        intro f lW c sq h
        cases hrest : (rest.map (fun q => (q, vis q)) ++ [(last, true)]) with
        | nil => simp at hrest
        | cons q tl =>
          simp only [List.map_cons, List.cons_append, hrest, Coherent] at h
          have := ih _ _ _ _ (by rw [hrest]; exact h.2.2.2)
          exact ⟨this.1, this.2.1, by intro p hp; simp at hp; rcases hp with rfl | hp; exact h.1; exact this.2.2 p hp⟩
    have k := key mids _ _ _ _ hcoh)
  · exact k.1
  · exact k.2.1
  · exact k.2.2

/-- non-vacuity of `C04_main`: five samples through a 64/64 encoder, drained by two blockout calls -/
example : (Enc.run { bs0 := 64, bs1 := 64 } (Enc.init { bs0 := 64, bs1 := 64 })
    ([EncOp.buffer 5, EncOp.wrote 5] ++ [EncOp.wrote 0] ++ [EncOp.blockout (-1), EncOp.blockout 0])).1.eof = -1 ∧
    accepted { bs0 := 64, bs1 := 64 } (Enc.init { bs0 := 64, bs1 := 64 }) [EncOp.buffer 5, EncOp.wrote 5] = 5 := by
  decide

/-- **C04_drain_progress** — after end of input has been signalled, every `vorbis_analysis_blockout`
call hands out a block (whatever the envelope search answers) until the end-of-stream block: the
3·bs1 samples of padding always suffice, so draining cannot stall. -/
theorem C04_drain_progress (z : Sizes) (s : SzOk z) (e : Enc) (pk : List Pkt) (Nw : Int)
    (h : EInv z e pk Nw) (he : e.eof ≠ 0) (hpre : e.pre = true) (bp : Int) :
    (e.blockout z bp).2 ≠ none := blockout_progress z s e pk Nw h he hpre bp

/-- **C04_first_zero** — the first packet never delivers samples: output starts at position 0. -/
theorem C04_first_zero (z : Sizes) (h1 : 0 ≤ z.bs1) (b : Blk) (hpcm : b.pcm = true)
    (hgp : b.gp = -1 ∨ b.gp = 0) (hseq : 0 ≤ b.seq) :
    ((Dec.restart z 0).blockin z 0 b).1.pcmout = 0 :=
  (step_first z h1 b hpcm hgp hseq).1

/-- non-vacuity: N = 5 with 64/64 blocks, two packets (the encoder's output for five samples) -/
example : Coherent { bs0 := 64, bs1 := 64 } 5 true false 0 3
    [({ lW := false, W := false, nW := false, gp := 0, eos := false, seq := 3 }, false),
     ({ lW := false, W := false, nW := false, gp := 5, eos := true, seq := 4 }, true)] := by
  simp [Coherent, adv, Sizes.bs]

/-- **C04_enc_eof_granule** — once end of input has been signalled and the current block's centre
has reached the end of the real data, the block handed out carries the end-of-stream flag and the
encoder's current granule position, and the encoder is finished. -/
theorem C04_enc_eos (z : Sizes) (e : Enc) (bp : Int) (hpre : e.pre = true) (hnd : e.eof ≠ -1)
    (heof : e.eof ≠ 0) (hc : e.cW ≥ e.eof)
    (hroom : e.cur ≥ e.cW + z.bs e.W / 4 + z.bs0 / 4 + z.bs0 / 2 ∧ e.cur ≥ e.cW + z.bs e.W / 4 + z.bs1 / 4 + z.bs1 / 2) :
    ∃ p, (e.blockout z bp).2 = some p ∧ p.eos = true ∧ p.gp = e.gp ∧ (e.blockout z bp).1.eof = -1 := by
  have h1 : ¬ (bp = -1 ∧ e.eof = 0) := fun h => heof h.2
  unfold Enc.blockout
  rw [if_neg (by simp [hpre]), if_neg hnd, if_neg h1]
  simp only []
  generalize (if bp = -1 then false else if z.bs0 = z.bs1 then false else decide (bp ≠ 0)) = nW
  have hb : ¬ (e.cur < e.cW + z.bs e.W / 4 + z.bs nW / 4 + z.bs nW / 2) := by
    cases nW <;> simp only [Sizes.bs, Bool.false_eq_true, if_false, if_true] at hroom ⊢ <;> omega
  rw [if_neg hb]
  simp only [ne_eq, heof, not_false_eq_true, true_and]
  rw [if_pos hc]
  exact ⟨_, rfl, rfl, rfl, rfl⟩

/-- **C04_wrote_rejects_overrun** — submitting more than was reserved is refused and changes nothing. -/
theorem C04_wrote_rejects_overrun (z : Sizes) (e : Enc) (n : Int) (hn : 0 < n) (h : e.cur + n > e.storage) :
    e.wrote z n = (e, -131) := by
  unfold Enc.wrote
  rw [if_neg (by omega), if_pos h]

end Vorbis.Props.C04
