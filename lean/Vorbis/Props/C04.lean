import Vorbis.Proofs.Dec
/-!
# C04 — encode then decode preserves the exact sample count and starts at zero

Models: `Vorbis/Block/Enc.lean` (analysis-side bookkeeping), `Vorbis/Block/Dec.lean` (synthesis-side).
Both are replayed call by call against the real encoder and decoder (stream `c04`).

`C04_decode_total` is the decoder half, for *every* packet sequence of the shape the encoder
produces (`Coherent`) and *every* way of hiding granule positions that Ogg paging allows.
The encoder half is `C04_enc_*` (single-step facts); the statement "every drained encoder run is
`Coherent`" is checked on every trace by the correspondence (`coherent` field of the check) and is
recorded in DESIGN.md as the part of `C04_main` that is not yet a theorem (`C04_main_partial`).
-/
namespace Vorbis.Props.C04
open Vorbis.Block

/-- The shape of an encoder packet sequence for `N` submitted samples, as seen by a decoder:
    `first` — no packet seen yet; `lW` — window flag of the previous packet; `c` — centre position of
    the previous block (= samples the stream has advanced); `seq` — expected sequence number.
    Each entry carries a visibility flag: whether its granule position survives Ogg paging. -/
def Coherent (z : Sizes) (N : Int) : Bool → Bool → Int → Int → List (Pkt × Bool) → Prop
  | _, _, _, _, [] => False
  | first, lW, c, seq, [(p, vis)] =>
      let c' := if first then 0 else c + adv z lW p.W
      p.eos = true ∧ vis = true ∧ p.seq = seq ∧ p.gp = N ∧ c ≤ N ∧ N ≤ c'
  | first, lW, c, seq, (p, _) :: q :: rest =>
      let c' := if first then 0 else c + adv z lW p.W
      p.eos = false ∧ p.seq = seq ∧ p.gp = c' ∧ Coherent z N false p.W c' (seq + 1) (q :: rest)

/-- `Coherent` is decidable, so the correspondence can evaluate this very predicate on every real
    encoder trace -/
def Coherent.dec (z : Sizes) (N : Int) : ∀ (first lW : Bool) (c seq : Int) (l : List (Pkt × Bool)),
    Decidable (Coherent z N first lW c seq l)
  | _, _, _, _, [] => isFalse (by simp [Coherent])
  | first, lW, c, seq, [(p, vis)] => by unfold Coherent; exact inferInstance
  | first, lW, c, seq, (p, v) :: q :: rest => by
      unfold Coherent
      have := Coherent.dec z N false p.W (if first then 0 else c + adv z lW p.W) (seq + 1) (q :: rest)
      exact inferInstance

instance (z : Sizes) (N : Int) (first lW : Bool) (c seq : Int) (l : List (Pkt × Bool)) :
    Decidable (Coherent z N first lW c seq l) := Coherent.dec z N first lW c seq l

def toBlks (l : List (Pkt × Bool)) : List Blk := l.map (fun pv => pv.1.toBlk pv.2)

theorem sum_drain_cons (z : Sizes) (hs : Nat) (d : Dec) (b : Blk) (bs : List Blk) :
    sum (Dec.drainAll z hs d (b :: bs))
      = (d.blockin z hs b).1.pcmout
        + sum (Dec.drainAll z hs ((d.blockin z hs b).1.read (d.blockin z hs b).1.pcmout).1 bs) := rfl

theorem toBlks_cons (pv : Pkt × Bool) (l : List (Pkt × Bool)) :
    toBlks (pv :: l) = pv.1.toBlk pv.2 :: toBlks l := rfl

theorem decode_rest (z : Sizes) (h0 : 0 ≤ z.bs0) (h1 : 0 ≤ z.bs1) (N : Int) (l : List (Pkt × Bool))
    (d : Dec) (lW : Bool) (c seq : Int) (st : DecSt z d lW c seq)
    (hc : Coherent z N false lW c seq l) :
    sum (Dec.drainAll z 0 d (toBlks l)) = N - c := by
  induction l generalizing d lW c seq with
  | nil => simp [Coherent] at hc
  | cons pv rest ih =>
    obtain ⟨p, vis⟩ := pv
    cases rest with
    | nil =>
      simp only [Coherent, Bool.false_eq_true, if_false] at hc
      obtain ⟨he, hv, hs, hg, hN0, hN1⟩ := hc
      subst hv
      have := step_last z h0 h1 d lW c seq N st (p.toBlk true) rfl (by simp [Pkt.toBlk, hs])
        (by simp [Pkt.toBlk, he]) (by simp [Pkt.toBlk, hg]) hN0 (by simpa [Pkt.toBlk] using hN1)
      rw [toBlks_cons, sum_drain_cons, this]
      simp [toBlks, Dec.drainAll, sum]
    | cons q rest' =>
      simp only [Coherent, Bool.false_eq_true, if_false] at hc
      obtain ⟨he, hs, hg, hrest⟩ := hc
      have hgp : (p.toBlk vis).gp = -1 ∨ (p.toBlk vis).gp = c + adv z lW (p.toBlk vis).W := by
        cases vis <;> simp [Pkt.toBlk, hg]
      have sm := step_mid z h0 h1 d lW c seq st (p.toBlk vis) rfl (by simp [Pkt.toBlk, hs])
        (by simp [Pkt.toBlk, he]) hgp
      have ihr := ih _ _ _ _ sm.2 (by simpa [Pkt.toBlk] using hrest)
      rw [toBlks_cons, sum_drain_cons, ihr, sm.1]
      simp only [Pkt.toBlk]
      omega

/-- **C04_decode_total** — for every block-size pair, every `N ≥ 0`, every packet sequence of the
encoder's shape (any mix of short/long windows, first packet at position 0, last packet carrying
granule position `N` and the end-of-stream flag) and every choice of which intermediate granule
positions are visible to the decoder, draining the decoder after each packet delivers exactly `N`
samples in total — including `N = 0` (single packet) and `N` smaller than one block. -/
theorem C04_decode_total (z : Sizes) (h0 : 0 ≤ z.bs0) (h1 : 0 ≤ z.bs1) (N : Int) (seq0 : Int)
    (hseq : 0 ≤ seq0) (l : List (Pkt × Bool)) (hc : Coherent z N true false 0 seq0 l) :
    sum (Dec.drainAll z 0 (Dec.restart z 0) (toBlks l)) = N := by
  cases l with
  | nil => simp [Coherent] at hc
  | cons pv rest =>
    obtain ⟨p, vis⟩ := pv
    cases rest with
    | nil =>
      simp only [Coherent, if_true] at hc
      obtain ⟨he, hv, hs, hg, hN0, hN1⟩ := hc
      have hN : N = 0 := by omega
      subst hv
      have sf := step_first z h1 (p.toBlk true) rfl (by simp [Pkt.toBlk, hg, hN]) (by simp [Pkt.toBlk, hs, hseq])
      rw [toBlks_cons, sum_drain_cons, sf.1]
      simp [toBlks, Dec.drainAll, sum, hN]
    | cons q rest' =>
      simp only [Coherent, if_true] at hc
      obtain ⟨he, hs, hg, hrest⟩ := hc
      have hgp : (p.toBlk vis).gp = -1 ∨ (p.toBlk vis).gp = 0 := by
        cases vis <;> simp [Pkt.toBlk, hg]
      have sf := step_first z h1 (p.toBlk vis) rfl hgp (by simp [Pkt.toBlk, hs, hseq])
      have hst : DecSt z ((Dec.blockin z 0 (Dec.restart z 0) (p.toBlk vis)).fst.read 0).fst p.W 0 (seq0 + 1) := by
        simpa [Pkt.toBlk, hs] using sf.2
      have hr := decode_rest z h0 h1 N (q :: rest') _ p.W 0 (seq0 + 1) hst hrest
      rw [toBlks_cons, sum_drain_cons, sf.1, hr]
      omega

/-- **C04_first_zero** — the first packet never delivers samples: output starts at position 0. -/
theorem C04_first_zero (z : Sizes) (h1 : 0 ≤ z.bs1) (b : Blk) (hpcm : b.pcm = true)
    (hgp : b.gp = -1 ∨ b.gp = 0) (hseq : 0 ≤ b.seq) :
    ((Dec.restart z 0).blockin z 0 b).1.pcmout = 0 :=
  (step_first z h1 b hpcm hgp hseq).1

/-- non-vacuity: N = 5 with 64/64 blocks, two packets (the encoder's output for five samples) -/
example : Coherent { bs0 := 64, bs1 := 64 } 5 true false 0 3
    [({ lW := false, W := false, nW := false, gp := 0, eos := false, seq := 3 }, false),
     ({ lW := false, W := false, nW := false, gp := 5, eos := true, seq := 4 }, true)] := by
  simp [Coherent, adv, Sizes.bs]

/-- **C04_enc_eof_granule** — once end of input has been signalled and the current block's centre
has reached the end of the real data, the block handed out carries the end-of-stream flag and the
encoder's current granule position, and the encoder is finished. -/
theorem C04_enc_eos (z : Sizes) (e : Enc) (bp : Int) (hpre : e.pre = true) (hnd : e.eof ≠ -1)
    (heof : e.eof ≠ 0) (hc : e.cW ≥ e.eof)
    (hroom : e.cur ≥ e.cW + z.bs e.W / 4 + z.bs0 / 4 + z.bs0 / 2 ∧ e.cur ≥ e.cW + z.bs e.W / 4 + z.bs1 / 4 + z.bs1 / 2) :
    ∃ p, (e.blockout z bp).2 = some p ∧ p.eos = true ∧ p.gp = e.gp ∧ (e.blockout z bp).1.eof = -1 := by
  have h1 : ¬ (bp = -1 ∧ e.eof = 0) := fun h => heof h.2
  unfold Enc.blockout
  rw [if_neg (by simp [hpre]), if_neg hnd, if_neg h1]
  simp only []
  generalize (if bp = -1 then false else if z.bs0 = z.bs1 then false else decide (bp ≠ 0)) = nW
  have hb : ¬ (e.cur < e.cW + z.bs e.W / 4 + z.bs nW / 4 + z.bs nW / 2) := by
    cases nW <;> simp only [Sizes.bs, Bool.false_eq_true, if_false, if_true] at hroom ⊢ <;> omega
  rw [if_neg hb]
  simp only [ne_eq, heof, not_false_eq_true, true_and]
  rw [if_pos hc]
  exact ⟨_, rfl, rfl, rfl, rfl⟩

/-- **C04_wrote_rejects_overrun** — submitting more than was reserved is refused and changes nothing. -/
theorem C04_wrote_rejects_overrun (z : Sizes) (e : Enc) (n : Int) (hn : 0 < n) (h : e.cur + n > e.storage) :
    e.wrote z n = (e, -131) := by
  unfold Enc.wrote
  rw [if_neg (by omega), if_pos h]

end Vorbis.Props.C04
