import Vorbis.Proofs.Comment
/-!
# C16 — comments survive the header round trip and queries are consistent

Property theorems only (helper lemmas live in `Vorbis/Proofs/Comment.lean`).
The model is `Vorbis/Comment.lean`; it is tied to `lib/info.c` by the correspondence stream `c16`.
-/
namespace Vorbis.Props.C16
open Vorbis Vorbis.Comment

/-- Size hypothesis: exactly what the C types force (`int` lengths, `int` count). -/
def Sizes (vendor : Bytes) (cs : List Bytes) : Prop :=
  vendor.length < 2147483648 ∧ cs.length < 2147483648 ∧ ∀ c ∈ cs, c.length < 2147483648

/-- **C16_roundtrip** — any vendor string and any list of comments (any bytes, empty entries,
embedded zero bytes) written by the packer is read back identically: same count, same lengths,
same bytes, same order. -/
theorem C16_roundtrip (vendor : Bytes) (cs : List Bytes) (h : Sizes vendor cs) :
    unpack (pack vendor cs) = some (vendor, cs) := by
  obtain ⟨hv, hn, hc⟩ := h
  have hpre : takeN 7 (pack vendor cs)
      = some (preamble 3, le32 vendor.length ++ vendor ++ le32 cs.length ++ packEntries cs ++ [1]) := by
    simp [pack, takeN, preamble]
  have hlen : (pack vendor cs).length
      = 7 + 4 + vendor.length + 4 + (packEntries cs).length + 1 := by
    simp [pack, preamble, le32_length]; omega
  unfold unpack
  rw [hpre]
  simp only [if_true]
  unfold unpackBody
  simp only [List.append_assoc]
  rw [readLe32_le32 _ (by omega)]
  simp only [Option.bind_eq_bind, Option.bind_some]
  rw [if_neg (by omega), if_neg (by rw [hlen]; omega)]
  rw [takeN_append]
  simp only [Option.bind_some]
  rw [readLe32_le32 _ (by omega)]
  simp only [Option.bind_some]
  have hge := packEntries_length_ge cs
  rw [if_neg (by omega), if_neg (by simp; omega)]
  rw [unpackEntries_pack cs [1] hc]
  simp

/-- **C16_headerin** — the same through the header dispatcher: the encoder's comment packet, offered
after the identification header, is accepted (never "not vorbis", never "bad header") with that content. -/
theorem C16_headerin (vendor : Bytes) (cs : List Bytes) (h : Sizes vendor cs) :
    headerinSecond (pack vendor cs) = (.ok, some (vendor, cs)) := by
  have hr := C16_roundtrip vendor cs h
  have hpre : takeN 7 (pack vendor cs)
      = some (preamble 3, le32 vendor.length ++ vendor ++ le32 cs.length ++ packEntries cs ++ [1]) := by
    simp [pack, takeN, preamble]
  unfold headerinSecond
  rw [hpre]
  simp [preamble, hr]

/-- non-vacuity: a list with an empty entry, an entry with an embedded NUL and a non-ASCII entry -/
example : Sizes [88] [[], [65, 0, 66], [255, 61, 1]] := by
  refine ⟨by decide, by decide, ?_⟩
  intro c hc
  simp at hc
  rcases hc with h | h | h <;> subst h <;> decide

/-- total payload of an accepted entry list -/
def payload : List Bytes → Nat
  | [] => 0
  | c :: cs => 4 + c.length + payload cs

theorem unpackEntries_bound (n : Nat) (rest : Bytes) (cs : List Bytes) (r : Bytes)
    (h : unpackEntries n rest = some (cs, r)) :
    cs.length = n ∧ payload cs + r.length = rest.length := by
  induction n generalizing rest cs r with
  | zero => simp [unpackEntries] at h; obtain ⟨h1, h2⟩ := h; subst h1 h2; simp [payload]
  | succ n ih =>
    unfold unpackEntries at h
    match hr : readLe32 rest with
    | none => simp [hr] at h
    | some (len, r1) =>
      simp only [hr, Option.bind_eq_bind, Option.bind_some] at h
      split at h
      · simp at h
      · split at h
        · simp at h
        · rename_i h1 h2
          have hr1 : rest.length = 4 + r1.length := by
            unfold readLe32 at hr
            split at hr
            · simp at hr; obtain ⟨_, rfl⟩ := hr; simp; omega
            · simp at hr
          have ht : takeN len r1 = some (r1.take len, r1.drop len) := by
            simp [takeN]; omega
          rw [ht] at h
          simp only [Option.bind_some] at h
          match hu : unpackEntries n (r1.drop len) with
          | none => simp [hu] at h
          | some (cs', r3) =>
            simp only [hu, Option.bind_some, Option.pure_def, Option.some.injEq, Prod.mk.injEq] at h
            obtain ⟨rfl, rfl⟩ := h
            obtain ⟨ihl, ihp⟩ := ih _ _ _ hu
            refine ⟨by simp [ihl], ?_⟩
            simp [payload, List.length_take, List.length_drop] at *
            omega

/-- **C16_reject** — nothing that is accepted can be larger than the packet that carried it: every
length field exceeding the bytes that are left is rejected (before any allocation is sized by it),
so vendor + all entries + their length words fit in the packet. -/
theorem C16_reject (pkt vendor : Bytes) (cs : List Bytes)
    (h : unpack pkt = some (vendor, cs)) :
    7 + 4 + vendor.length + 4 + payload cs + 1 ≤ pkt.length := by
  unfold unpack at h
  match ht : takeN 7 pkt with
  | none => simp [ht] at h
  | some (pre, body) =>
    simp only [ht] at h
    split at h
    · have hb : pkt.length = 7 + body.length := by
        simp [takeN] at ht; obtain ⟨h7, _, rfl⟩ := ht; simp; omega
      unfold unpackBody at h
      match h1 : readLe32 body with
      | none => simp [h1] at h
      | some (vlen, r1) =>
        simp only [h1, Option.bind_eq_bind, Option.bind_some] at h
        have hr1 : body.length = 4 + r1.length := by
          unfold readLe32 at h1; split at h1
          · simp at h1; obtain ⟨_, rfl⟩ := h1; simp; omega
          · simp at h1
        split at h; · simp at h
        split at h; · simp at h
        match h2 : takeN vlen r1 with
        | none => simp [h2] at h
        | some (v, r2) =>
          simp only [h2, Option.bind_some] at h
          have hv : v.length = vlen ∧ r1.length = vlen + r2.length := by
            simp [takeN] at h2; obtain ⟨hle, rfl, rfl⟩ := h2
            simp [List.length_take, List.length_drop]; omega
          match h3 : readLe32 r2 with
          | none => simp [h3] at h
          | some (cnt, r3) =>
            simp only [h3, Option.bind_some] at h
            have hr3 : r2.length = 4 + r3.length := by
              unfold readLe32 at h3; split at h3
              · simp at h3; obtain ⟨_, rfl⟩ := h3; simp; omega
              · simp at h3
            split at h; · simp at h
            split at h; · simp at h
            match h4 : unpackEntries cnt r3 with
            | none => simp [h4] at h
            | some (cs', r4) =>
              simp only [h4, Option.bind_some] at h
              obtain ⟨_, hp⟩ := unpackEntries_bound _ _ _ _ h4
              match r4, h with
              | b :: r5, h =>
                simp only at h
                split at h
                · simp at h; obtain ⟨rfl, rfl⟩ := h
                  simp at hp; omega
                · simp at h
    · simp at h

/-- `vorbis_comment_query_count` counts exactly the matching entries. -/
theorem C16_count (cs : List Bytes) (tag : Bytes) :
    queryCount cs tag = (cs.filter (tagMatches tag)).length := by
  unfold queryCount
  suffices ∀ k, cs.foldl (fun n c => if tagMatches tag c then n + 1 else n) k
      = k + (cs.filter (tagMatches tag)).length by simpa using this 0
  induction cs with
  | nil => simp
  | cons c cs ih =>
    intro k
    simp only [List.foldl_cons, List.filter_cons]
    split <;> simp [ih] <;> omega

theorem queryLoop_spec (tag : Bytes) (cs : List Bytes) (idx found count : Nat) (hf : found ≤ count) :
    (queryLoop tag cs idx found count).map Prod.snd
      = ((cs.filter (tagMatches tag))[count - found]?).map (List.drop (tag.length + 1)) := by
  induction cs generalizing idx found with
  | nil => simp [queryLoop]
  | cons c cs ih =>
    unfold queryLoop
    by_cases hm : tagMatches tag c
    · simp only [hm, if_true, List.filter_cons_of_pos]
      by_cases hc : count = found
      · subst hc; simp
      · rw [if_neg hc, ih _ _ (by omega)]
        have : count - found = (count - (found + 1)) + 1 := by omega
        rw [this]; simp
    · simp only [hm, Bool.false_eq_true, if_false]
      rw [ih _ _ hf]
      simp [hm]

/-- **C16_query** — the `n`-th query returns the value part (bytes after `tag=`) of the `n`-th
matching entry in insertion order, matching being ASCII case-insensitive comparison of the first
`|tag|+1` bytes with `tag=`. -/
theorem C16_query (cs : List Bytes) (tag : Bytes) (n : Nat) :
    (query cs tag n).map Prod.snd
      = ((cs.filter (tagMatches tag))[n]?).map (List.drop (tag.length + 1)) := by
  simpa [query] using queryLoop_spec tag cs 0 0 n (Nat.zero_le _)

/-- **C16_query_iff_count** — the reported match count equals the number of successful queries:
query `n` succeeds exactly for `n < count`. -/
theorem C16_query_iff_count (cs : List Bytes) (tag : Bytes) (n : Nat) :
    (query cs tag n).isSome ↔ n < queryCount cs tag := by
  have h := C16_query cs tag n
  rw [C16_count]
  constructor
  · intro hs
    have : ((query cs tag n).map Prod.snd).isSome := by simpa using hs
    rw [h] at this
    simpa using this
  · intro hn
    have : ((query cs tag n).map Prod.snd).isSome := by
      rw [h]; simp [hn]
    simpa using this

/-- the index reported by the query is the position of that entry in the list -/
theorem queryLoop_index (tag : Bytes) (cs : List Bytes) (idx found count : Nat) (i : Nat) (v : Bytes)
    (h : queryLoop tag cs idx found count = some (i, v)) :
    idx ≤ i ∧ ∃ c, cs[i - idx]? = some c ∧ tagMatches tag c = true ∧ v = c.drop (tag.length + 1) := by
  induction cs generalizing idx found with
  | nil => simp [queryLoop] at h
  | cons c cs ih =>
    unfold queryLoop at h
    by_cases hm : tagMatches tag c
    · simp only [hm, if_true] at h
      by_cases hc : count = found
      · simp [hc] at h; obtain ⟨rfl, rfl⟩ := h
        exact ⟨Nat.le_refl _, c, by simp, hm, rfl⟩
      · rw [if_neg hc] at h
        obtain ⟨h1, c', h2, h3, h4⟩ := ih _ _ h
        refine ⟨by omega, c', ?_, h3, h4⟩
        have : i - idx = (i - (idx + 1)) + 1 := by omega
        rw [this]; simpa using h2
    · simp only [hm, Bool.false_eq_true, if_false] at h
      obtain ⟨h1, c', h2, h3, h4⟩ := ih _ _ h
      refine ⟨by omega, c', ?_, h3, h4⟩
      have : i - idx = (i - (idx + 1)) + 1 := by omega
      rw [this]; simpa using h2

/-- **C16_locale** — case folding touches only ASCII `a`–`z`, and is idempotent, so matching is
locale independent and bytes ≥ 0x80 are compared exactly. -/
theorem C16_locale (b : UInt8) :
    (toupper b ≠ b → 97 ≤ b ∧ b ≤ 122) ∧ toupper (toupper b) = toupper b := by
  constructor
  · unfold toupper; split <;> simp_all
  · unfold toupper
    by_cases h : 97 ≤ b ∧ b ≤ 122
    · simp only [h, and_self, if_true]
      have h1 : ¬ (97 ≤ b - 32 ∧ b - 32 ≤ 122) := by
        obtain ⟨ha, hb⟩ := h
        rw [UInt8.le_iff_toNat_le] at ha hb
        intro ⟨hc, _⟩
        rw [UInt8.le_iff_toNat_le, UInt8.toNat_sub_of_le _ _ (by rw [UInt8.le_iff_toNat_le]; simp at *; omega)] at hc
        simp at *; omega
      simp [h1]
    · simp [h]

/-- the matcher is case-insensitive in the tag: folding the tag does not change the answer -/
theorem C16_case_insensitive (tag c : Bytes) :
    tagMatches (tag.map toupper) c = tagMatches tag c := by
  unfold tagMatches
  have hidem : ∀ l : Bytes, (l.map toupper).map toupper = l.map toupper := by
    intro l; simp only [List.map_map]
    apply List.map_congr_left; intro a _; exact (C16_locale a).2
  have h61 : toupper 61 = 61 := by decide
  simp only [List.length_append, List.length_map, List.map_append, List.map_cons, List.map_nil,
    hidem, h61]

end Vorbis.Props.C16
