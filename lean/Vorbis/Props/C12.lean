import Vorbis.File.Model
namespace Vorbis.Props.C12
open Vorbis Vorbis.File

/-- the search a page seek performs reads nothing but the link table: two handles that agree on
    the table (whatever happened to their decode state, cursor or position, e.g. in a failed call)
    find the same page -/
theorem C12_search_reads_only_link_table (ph : Phys) (a b : VF) (link : Nat) (target : Int)
    (h1 : a.offsets = b.offsets) (h2 : a.dataoffsets = b.dataoffsets) (h3 : a.pcmlengths = b.pcmlengths)
    (h4 : a.serialnos = b.serialnos) :
    (searchPcm ph a link target).best = (searchPcm ph b link target).best ∧
    (searchPcm ph a link target).cur = (searchPcm ph b link target).cur ∧
    (searchPcm ph a link target).err = (searchPcm ph b link target).err := by
  unfold searchPcm
  simp only [h1, h2, h3, h4]
  exact ⟨trivial, trivial, trivial⟩

/-- the error exit of every seek: position unknown, decoder dumped, data source still attached and
    not closed -/
theorem C12_seek_error_state (rc : Int) (s : VF) :
    ((seekError rc).run s).1 = rc ∧ ((seekError rc).run s).2.pcm_offset = -1 ∧ ((seekError rc).run s).2.vd = none ∧
    ((seekError rc).run s).2.ready = OPENED ∧ ((seekError rc).run s).2.source = s.source ∧
    ((seekError rc).run s).2.closes = s.closes := by
  simp [seekError, decodeClear, StateT.run, bind, StateT.bind, modify, modifyGet, MonadStateOf.modifyGet, StateT.modifyGet, pure, StateT.pure]

end Vorbis.Props.C12
