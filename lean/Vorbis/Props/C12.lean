import Vorbis.File.Model
import Vorbis.Props.C07
import Vorbis.Proofs.FileInv
namespace Vorbis.Props.C12
open Vorbis Vorbis.File Vorbis.Block Vorbis.Props Vorbis.Props.C07
set_option linter.unusedSimpArgs false

/-- what a page seek is going to do is decided from the link table and the target alone: two handles that agree on the table
    (whatever a failed call did to decoder, cursor, queue or position) get the same plan -/
theorem C12_plan_reads_only_link_table (ph : Phys) (a b : VF) (pos : Int) (h : a.tab = b.tab) :
    planSeekPage ph a.tab pos = planSeekPage ph b.tab pos := by rw [h]

/-- recovery: a handle that went through any failed calls (its decoder dumped, its cursor anywhere, its position unknown) and a
    handle that never failed, on the same file, answer a page seek with the same code, byte cursor, sample position, packet queue
    and selected link (C07_page_seek_history_independent instantiated: nothing about the failure can reach the outcome) -/
theorem C12_recovery_after_failure (ph : Phys) (f : Int → M Int) (pos : Int) (failed clean : VF)
    (ht : failed.tab = clean.tab) (hf : failed.ready ≥ OPENED) (hc : clean.ready ≥ OPENED)
    (sf : failed.seekable = true) (sc : clean.seekable = true) (wf : C07.LinkWF failed) (wc : C07.LinkWF clean)
    (hp : 0 ≤ pos ∧ pos ≤ sumAll failed.tab) (hnr : ∀ l c o r, planSeekPage ph failed.tab pos ≠ .viaRaw l c o r) :
    ((pcmSeekPage ph f pos).run failed).1 = ((pcmSeekPage ph f pos).run clean).1 ∧
    C07.obs ((pcmSeekPage ph f pos).run failed).2 = C07.obs ((pcmSeekPage ph f pos).run clean).2 :=
  C07.C07_page_seek_history_independent ph f pos failed clean ht hf hc sf sc wf wc hp hnr

/-- the error exit of every seek: position unknown, decoder dumped, data source still attached and
    not closed -/
theorem C12_seek_error_state (rc : Int) (s : VF) :
    ((seekError rc).run s).1 = rc ∧ ((seekError rc).run s).2.pcm_offset = -1 ∧ ((seekError rc).run s).2.vd = none ∧
    ((seekError rc).run s).2.ready = OPENED ∧ ((seekError rc).run s).2.source = s.source ∧
    ((seekError rc).run s).2.closes = s.closes := by
  simp [seekError, decodeClear, StateT.run, bind, StateT.bind, modify, modifyGet, MonadStateOf.modifyGet, StateT.modifyGet, pure, StateT.pure]

/-- **full recovery**: take any handle, let any seek on it fail (every failing exit of the page search: before or after a link was
    selected, with any code), then seek to `pos`; take a handle on the same file that never failed and seek to `pos`: same return
    value and *identical* handle state, hence identical audio from every later read -/
theorem C12_state_after_failure_is_forgotten (ph : Phys) (f : Int → M Int) (pos : Int) (s clean : VF) (p : SeekPlan)
    (hfail : (∃ rc c, p = .fail rc c) ∨ (∃ l c o rc, p = .failSel l c o rc))
    (hsame : SameFile s clean) (hc : clean.ready ≥ OPENED) (sc : clean.seekable = true) (wc : DecWF clean)
    (hp : 0 ≤ pos ∧ pos ≤ sumAll clean.tab)
    (link : Nat) (cur : Cur) (os : OStream) (po : Int) (hplan : planSeekPage ph clean.tab pos = .land link cur os po) :
    (pcmSeek ph f pos).run ((execPlan f p).run s).2 = (pcmSeek ph f pos).run clean := by
  have ⟨h1, h2⟩ := failing_plan_same f p s hfail
  have hs2 : SameFile ((execPlan f p).run s).2 clean := sameFile_trans (sameFile_symm h1) hsame
  have hr : ((execPlan f p).run s).2.ready ≥ OPENED := by
    rcases hfail with ⟨rc, c, rfl⟩ | ⟨l, c, o, rc, rfl⟩ <;>
    simp [execPlan, setCur, selectLink, seekError, decodeClear, StateT.run, bind, StateT.bind, modify, modifyGet, MonadStateOf.modifyGet, StateT.modifyGet, pure, StateT.pure]
  have hsk : ((execPlan f p).run s).2.seekable = true := by rw [hs2.seekable]; exact sc
  exact C07_seek_history_independent ph f pos _ clean hs2 hr hc hsk h2 wc (by rw [hs2.tab]; exact hp) link cur os po (by rw [hs2.tab]; exact hplan)

/-- non-vacuity: on the five-page example file of Props/C07 a seek beyond a (deliberately) failing plan and a clean handle -/
example (f : Int → M Int) :
    (pcmSeek C07.exPhys f 200).run ((execPlan f (.fail OV_EREAD { off := 17, fill := 300 })).run C07.exUsed).2 =
      (pcmSeek C07.exPhys f 200).run C07.exFresh := by
  obtain ⟨l, c, o, po, h⟩ := C07.isLand_iff _ (show C07.SeekPlan.isLand (planSeekPage C07.exPhys C07.exFresh.tab 200) = true by decide +kernel)
  exact C12_state_after_failure_is_forgotten C07.exPhys f 200 C07.exUsed C07.exFresh _ (Or.inl ⟨_, _, rfl⟩)
    ⟨rfl, rfl, rfl, rfl, rfl, rfl, rfl, rfl⟩ (by decide) rfl
    ⟨fun h => absurd h (by decide), fun h => absurd h (by decide), by decide⟩ (by decide +kernel) l c o po h

/-- **the consistency the recovery theorems assume is an invariant**: start from any seekable handle without stream state (freshly
    opened, or left behind by ANY failed seek), issue any sequence of reads, sample seeks, page seeks, raw seeks and time seeks, plain or lapped: every state reached
    is consistent (`DecWF`) and still describes the same file (`SameFile`: link table, infos, flags, data source, close count untouched) -/
theorem C12_consistency_is_invariant (ph : Phys) (s t : VF) (hk : s.seekable = true) (hr : s.ready = OPENED)
    (h : Proofs.FileInv.Reach ph s t) : DecWF t ∧ SameFile s t ∧ OPENED ≤ t.ready := by
  have := Proofs.FileInv.reach_inv (Proofs.FileInv.jOps s) ph s t h ⟨Proofs.FileInv.sinv_of_opened s hk hr, sameFile_refl s⟩
  exact ⟨this.1.2.1, this.2, this.1.2.2⟩

/-- **recovery for all histories**: two handles on the same file — one that went through any failing seek, one that did not — are
    each taken through ANY sequence of reads, sample seeks, page seeks, raw seeks and time seeks, plain or lapped (different ones); a sample seek to the same target
    then leaves both in the identical state with the same return value (whenever that seek's page search lands) -/
theorem C12_recovery_for_all_histories (ph : Phys) (a0 b0 a b : VF) (h0 : SameFile a0 b0)
    (ka : a0.seekable = true) (ra0 : a0.ready = OPENED) (rb0 : b0.ready = OPENED)
    (ha : Proofs.FileInv.Reach ph a0 a) (hb : Proofs.FileInv.Reach ph b0 b)
    (pos : Int) (hp : 0 ≤ pos ∧ pos ≤ sumAll a0.tab)
    (link : Nat) (cur : Cur) (os : OStream) (po : Int) (hplan : planSeekPage ph a0.tab pos = .land link cur os po) :
    (pcmSeek ph (rawSeek ph) pos).run a = (pcmSeek ph (rawSeek ph) pos).run b := by
  have kb : b0.seekable = true := by rw [← h0.seekable]; exact ka
  obtain ⟨wa, sa, oa⟩ := C12_consistency_is_invariant ph a0 a ka ra0 ha
  obtain ⟨wb, sb, ob⟩ := C12_consistency_is_invariant ph b0 b kb rb0 hb
  have hab : SameFile a b := sameFile_trans (sameFile_symm sa) (sameFile_trans h0 sb)
  have hsk : a.seekable = true := by rw [← sa.seekable]; exact ka
  exact C07_seek_history_independent ph _ pos a b hab oa ob hsk wa wb (by rw [← sa.tab]; exact hp) link cur os po (by rw [← sa.tab]; exact hplan)

/-- non-vacuity: from the freshly opened example handle: raw seek to byte 300, sample seek to 200, read 50 -/
example : DecWF ((readFloat C07.exPhys 50).run ((pcmSeek C07.exPhys (rawSeek C07.exPhys) 200).run ((rawSeek C07.exPhys 300).run C07.exFresh).2).2).2 := by
  refine (C12_consistency_is_invariant C07.exPhys C07.exFresh _ rfl (by decide) ?_).1
  exact .read _ _ (.seek _ _ (.raw _ _ .refl))

end Vorbis.Props.C12
