import Vorbis.File.Model
import Vorbis.Props.C07
namespace Vorbis.Props.C12
open Vorbis Vorbis.File Vorbis.Props

/-- what a page seek is going to do is decided from the link table and the target alone: two handles that agree on the table
    (whatever a failed call did to decoder, cursor, queue or position) get the same plan -/
theorem C12_plan_reads_only_link_table (ph : Phys) (a b : VF) (pos : Int) (h : a.tab = b.tab) :
    planSeekPage ph a.tab pos = planSeekPage ph b.tab pos := by rw [h]

/-- recovery: a handle that went through any failed calls (its decoder dumped, its cursor anywhere, its position unknown) and a
    handle that never failed, on the same file, answer a page seek with the same code, byte cursor, sample position, packet queue
    and selected link (C07_page_seek_history_independent instantiated: nothing about the failure can reach the outcome) -/
theorem C12_recovery_after_failure (ph : Phys) (f : Int → M Int) (pos : Int) (failed clean : VF)
    (ht : failed.tab = clean.tab) (hf : failed.ready ≥ OPENED) (hc : clean.ready ≥ OPENED)
    (sf : failed.seekable = true) (sc : clean.seekable = true) (wf : C07.LinkWF failed) (wc : C07.LinkWF clean)
    (hp : 0 ≤ pos ∧ pos ≤ sumAll failed.tab) (hnr : ∀ l c o r, planSeekPage ph failed.tab pos ≠ .viaRaw l c o r) :
    ((pcmSeekPage ph f pos).run failed).1 = ((pcmSeekPage ph f pos).run clean).1 ∧
    C07.obs ((pcmSeekPage ph f pos).run failed).2 = C07.obs ((pcmSeekPage ph f pos).run clean).2 :=
  C07.C07_page_seek_history_independent ph f pos failed clean ht hf hc sf sc wf wc hp hnr

/-- the error exit of every seek: position unknown, decoder dumped, data source still attached and
    not closed -/
theorem C12_seek_error_state (rc : Int) (s : VF) :
    ((seekError rc).run s).1 = rc ∧ ((seekError rc).run s).2.pcm_offset = -1 ∧ ((seekError rc).run s).2.vd = none ∧
    ((seekError rc).run s).2.ready = OPENED ∧ ((seekError rc).run s).2.source = s.source ∧
    ((seekError rc).run s).2.closes = s.closes := by
  simp [seekError, decodeClear, StateT.run, bind, StateT.bind, modify, modifyGet, MonadStateOf.modifyGet, StateT.modifyGet, pure, StateT.pure]

end Vorbis.Props.C12
