import Vorbis.File.Model
namespace Vorbis.Props.C07
open Vorbis Vorbis.File Vorbis.Block
set_option linter.unusedSimpArgs false

/-- a position recovered from a granule position never lies before the link it was found in -/
theorem C07_granToPos_ge (vf : VF) (link : Nat) (g : Int) :
    sumLen vf.pcmlengths link ≤ granToPos vf link g := by
  unfold granToPos
  simp only []
  split <;> omega

/-- the consuming step of a read: it returns no more than was asked for and no more than is decoded,
    and the reported position advances by exactly the samples returned (two per sample at half rate) -/
theorem C07_read_advances (vf : VF) (length : Int) (hl : 0 < length) (ha : 0 < readAvail vf) (hh : vf.hs = 0 ∨ vf.hs = 1) :
    0 < (readTake vf length).1 ∧ (readTake vf length).1 ≤ length ∧ (readTake vf length).1 ≤ readAvail vf ∧
    (readTake vf length).2.pcm_offset = vf.pcm_offset + (if vf.hs = 1 then 2 else 1) * (readTake vf length).1 := by
  unfold readTake
  simp only []
  generalize readAvail vf = av at ha ⊢
  by_cases hc : av > length
  · simp only [hc, if_true]
    rcases hh with h | h
    · simp only [h, shl]; refine ⟨hl, Int.le_refl _, by omega, ?_⟩; simp
    · simp only [h, shl]; refine ⟨hl, Int.le_refl _, by omega, ?_⟩; simp; omega
  · simp only [hc, if_false]
    rcases hh with h | h
    · simp only [h, shl]; refine ⟨ha, by omega, Int.le_refl _, ?_⟩; simp
    · simp only [h, shl]; refine ⟨ha, by omega, Int.le_refl _, ?_⟩; simp; omega

/-- and the decoder hands out exactly that many fewer samples afterwards -/
theorem C07_read_consumes (vf : VF) (length : Int) (d : Dec) (hv : vf.vd = some d) (hr : vf.ready = INITSET)
    (hl : 0 < length) (ha : 0 < d.pcmout) :
    ∃ d', (readTake vf length).2.vd = some d' ∧ d'.pcmout = d.pcmout - (readTake vf length).1 := by
  have hav : readAvail vf = d.pcmout := by simp [readAvail, hr, hv]
  unfold readTake
  simp only [hav, hv, Option.map_some]
  refine ⟨_, rfl, ?_⟩
  have hp : d.ret > -1 ∧ d.ret < d.cur := by
    unfold Dec.pcmout at ha
    by_cases hc : d.ret > -1 ∧ d.ret < d.cur
    · exact hc
    · simp [hc] at ha
  have hpo : d.pcmout = d.cur - d.ret := by unfold Dec.pcmout; simp [hp]
  rw [hpo]
  by_cases hgt : d.cur - d.ret > length
  · simp only [hgt, if_true]
    have h1 : ¬ (length ≠ 0 ∧ d.ret + length > d.cur) := by omega
    have h2 : d.ret + length > -1 ∧ d.ret + length < d.cur := by omega
    simp [Dec.read, Dec.pcmout, h1, h2]
    omega
  · simp only [hgt, if_false]
    have h1 : ¬ (d.cur - d.ret ≠ 0 ∧ d.ret + (d.cur - d.ret) > d.cur) := by omega
    have h2 : ¬ (d.ret + (d.cur - d.ret) > -1 ∧ d.ret + (d.cur - d.ret) < d.cur) := by omega
    simp [Dec.read, Dec.pcmout, h1, h2]

/-- every successful page seek loads a decoder without lapping history for the link of the target
    (or none at all, to be built on the next read): nothing decoded before the seek can leak into what follows -/
theorem C07_select_link_fresh (link : Nat) (s : VF) :
    ((selectLink link).run s).2.vd = none ∨
    ((selectLink link).run s).2.vd = some (freshDec s) := by
  unfold selectLink
  by_cases h : (link : Int) ≠ s.current_link ∨ s.ready < STREAMSET
  · left
    simp [StateT.run, bind, StateT.bind, get, getThe, MonadStateOf.get, StateT.get, modify, modifyGet, MonadStateOf.modifyGet,
      StateT.modifyGet, pure, StateT.pure, decodeClear, restartDec, h]
  · cases hv : s.vd with
    | none =>
        left
        simp [StateT.run, bind, StateT.bind, get, getThe, MonadStateOf.get, StateT.get, modify, modifyGet, MonadStateOf.modifyGet,
          StateT.modifyGet, pure, StateT.pure, decodeClear, restartDec, h, hv]
    | some d =>
        right
        simp [StateT.run, bind, StateT.bind, get, getThe, MonadStateOf.get, StateT.get, modify, modifyGet, MonadStateOf.modifyGet,
          StateT.modifyGet, pure, StateT.pure, decodeClear, restartDec, h, hv]

example : readAvail { ready := INITSET, vd := some { lW := false, W := false, cW := 0, cur := 10, ret := 4, gran := -1, seq := 0, sc := 0, eof := false } } = 6 := by decide

end Vorbis.Props.C07
