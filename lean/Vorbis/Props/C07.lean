import Vorbis.File.Model
namespace Vorbis.Props.C07
open Vorbis Vorbis.File Vorbis.Block
set_option linter.unusedSimpArgs false

/-- a position recovered from a granule position never lies before the link it was found in -/
theorem C07_granToPos_ge (vf : VF) (link : Nat) (g : Int) :
    sumLen vf.pcmlengths link ≤ granToPos vf link g := by
  unfold granToPos
  simp only []
  split <;> omega

/-- the consuming step of a read: it returns no more than was asked for and no more than is decoded,
    and the reported position advances by exactly the samples returned (two per sample at half rate) -/
theorem C07_read_advances (vf : VF) (length : Int) (hl : 0 < length) (ha : 0 < readAvail vf) (hh : vf.hs = 0 ∨ vf.hs = 1) :
    0 < (readTake vf length).1 ∧ (readTake vf length).1 ≤ length ∧ (readTake vf length).1 ≤ readAvail vf ∧
    (readTake vf length).2.pcm_offset = vf.pcm_offset + (if vf.hs = 1 then 2 else 1) * (readTake vf length).1 := by
  unfold readTake
  simp only []
  generalize readAvail vf = av at ha ⊢
  by_cases hc : av > length
  · simp only [hc, if_true]
    rcases hh with h | h
    · simp only [h, shl]; refine ⟨hl, Int.le_refl _, by omega, ?_⟩; simp
    · simp only [h, shl]; refine ⟨hl, Int.le_refl _, by omega, ?_⟩; simp; omega
  · simp only [hc, if_false]
    rcases hh with h | h
    · simp only [h, shl]; refine ⟨ha, by omega, Int.le_refl _, ?_⟩; simp
    · simp only [h, shl]; refine ⟨ha, by omega, Int.le_refl _, ?_⟩; simp; omega

/-- and the decoder hands out exactly that many fewer samples afterwards -/
theorem C07_read_consumes (vf : VF) (length : Int) (d : Dec) (hv : vf.vd = some d) (hr : vf.ready = INITSET)
    (hl : 0 < length) (ha : 0 < d.pcmout) :
    ∃ d', (readTake vf length).2.vd = some d' ∧ d'.pcmout = d.pcmout - (readTake vf length).1 := by
  have hav : readAvail vf = d.pcmout := by simp [readAvail, hr, hv]
  unfold readTake
  simp only [hav, hv, Option.map_some]
  refine ⟨_, rfl, ?_⟩
  have hp : d.ret > -1 ∧ d.ret < d.cur := by
    unfold Dec.pcmout at ha
    by_cases hc : d.ret > -1 ∧ d.ret < d.cur
    · exact hc
    · simp [hc] at ha
  have hpo : d.pcmout = d.cur - d.ret := by unfold Dec.pcmout; simp [hp]
  rw [hpo]
  by_cases hgt : d.cur - d.ret > length
  · simp only [hgt, if_true]
    have h1 : ¬ (length ≠ 0 ∧ d.ret + length > d.cur) := by omega
    have h2 : d.ret + length > -1 ∧ d.ret + length < d.cur := by omega
    simp [Dec.read, Dec.pcmout, h1, h2]
    omega
  · simp only [hgt, if_false]
    have h1 : ¬ (d.cur - d.ret ≠ 0 ∧ d.ret + (d.cur - d.ret) > d.cur) := by omega
    have h2 : ¬ (d.ret + (d.cur - d.ret) > -1 ∧ d.ret + (d.cur - d.ret) < d.cur) := by omega
    simp [Dec.read, Dec.pcmout, h1, h2]

/-- every successful page seek loads a decoder without lapping history for the link of the target
    (or none at all, to be built on the next read): nothing decoded before the seek can leak into what follows -/
theorem C07_select_link_fresh (link : Nat) (s : VF) :
    (selectLinkF link s).vd = none ∨ (selectLinkF link s).vd = some (freshDec s) := by
  unfold selectLinkF
  by_cases h : (link : Int) ≠ s.current_link ∨ s.ready < STREAMSET
  · left
    simp only [h, if_true]
  · cases hv : s.vd with
    | none => left; simp only [h, if_false, hv, Option.map_none]
    | some d => right; simp only [h, if_false, hv, Option.map_some]

/-! ### history independence: the landing point of a seek is a function of the file (its link table) and the target -/

structure Obs where
  offset : Int
  fill : Int
  pcm_offset : Int
  sel : Option (OStream × Int × Int)

def obs (v : VF) : Obs :=
  { offset := v.offset, fill := v.fill, pcm_offset := v.pcm_offset,
    sel := if v.ready ≥ STREAMSET then some (v.os, v.current_link, v.current_serialno) else none }

def LinkWF (s : VF) : Prop := s.ready ≥ STREAMSET → (0 ≤ s.current_link ∧ s.current_serialno = s.serialnos[s.current_link.toNat]!)

theorem pcmTotal_all (s : VF) (h : s.ready ≥ OPENED) (hs : s.seekable = true) : pcmTotal s (-1) = sumAll s.tab := by
  have h1 : ¬ (s.ready < OPENED) := by omega
  have hneg : ¬ ((-1 : Int) ≥ (s.links : Int)) := by omega
  unfold pcmTotal sumAll VF.tab
  simp [h1, hs, hneg]

theorem selectLinkF_obs (link : Nat) (s : VF) (w : LinkWF s) :
    (selectLinkF link s).current_link = link ∧ (selectLinkF link s).current_serialno = s.serialnos[link]! ∧
    (selectLinkF link s).ready ≥ STREAMSET ∧ (selectLinkF link s).offset = s.offset ∧ (selectLinkF link s).fill = s.fill ∧
    (selectLinkF link s).pcm_offset = s.pcm_offset := by
  unfold selectLinkF
  by_cases h : (link : Int) ≠ s.current_link ∨ s.ready < STREAMSET
  · simp only [h, if_true]
    refine ⟨?_, ?_, ?_, ?_, ?_, ?_⟩ <;> first | trivial | rfl | exact Nat.le_refl _
  · have hl : (link : Int) = s.current_link := by
      by_cases e : (link : Int) = s.current_link
      · exact e
      · exact absurd (Or.inl e) h
    have hr : s.ready ≥ STREAMSET := by
      by_cases e : s.ready < STREAMSET
      · exact absurd (Or.inr e) h
      · omega
    have hw := w hr
    simp only [h, if_false]
    refine ⟨?_, ?_, ?_, ?_, ?_, ?_⟩
    · exact hl.symm
    · show s.current_serialno = s.serialnos[link]!
      rw [hw.2, ← hl]
      simp
    · exact hr
    all_goals first | trivial | rfl

theorem obs_select (link : Nat) (s : VF) (w : LinkWF s) (os : OStream) (po : Int) :
    obs { (selectLinkF link s) with os := os, pcm_offset := po } =
      { offset := s.offset, fill := s.fill, pcm_offset := po, sel := some (os, (link : Int), s.serialnos[link]!) } := by
  obtain ⟨h1, h2, h3, h4, h5, _⟩ := selectLinkF_obs link s w
  unfold obs
  simp only [h1, h2, h3, h4, h5, if_true]

theorem exec_obs (f : Int → M Int) (p : SeekPlan) (a b : VF) (wa : LinkWF a) (wb : LinkWF b)
    (hs : a.serialnos = b.serialnos)
    (hnr : ∀ l c o r, p ≠ .viaRaw l c o r) :
    ((execPlan f p).run a).1 = ((execPlan f p).run b).1 ∧ obs ((execPlan f p).run a).2 = obs ((execPlan f p).run b).2 := by
  cases p with
  | fail rc cur =>
      simp [execPlan, setCur, seekError, decodeClear, StateT.run, bind, StateT.bind, modify, modifyGet, MonadStateOf.modifyGet,
        StateT.modifyGet, pure, StateT.pure, obs, OPENED, STREAMSET, Generated.OPENED, Generated.STREAMSET]
  | failSel link cur os rc =>
      simp [execPlan, setCur, seekError, decodeClear, selectLink, StateT.run, bind, StateT.bind, modify, modifyGet, MonadStateOf.modifyGet,
        StateT.modifyGet, pure, StateT.pure, obs, OPENED, STREAMSET, Generated.OPENED, Generated.STREAMSET]
      unfold selectLinkF
      split <;> split <;> simp
  | land link cur os po =>
      have la := obs_select link { a with offset := cur.off, fill := cur.fill } (by intro h; exact wa h) os po
      have lb := obs_select link { b with offset := cur.off, fill := cur.fill } (by intro h; exact wb h) os po
      simp only [execPlan, setCur, selectLink, StateT.run, bind, StateT.bind, modify, modifyGet, MonadStateOf.modifyGet,
        StateT.modifyGet, pure, StateT.pure]
      constructor
      · trivial
      · show obs { (selectLinkF link { a with offset := cur.off, fill := cur.fill }) with os := os, pcm_offset := po } =
             obs { (selectLinkF link { b with offset := cur.off, fill := cur.fill }) with os := os, pcm_offset := po }
        rw [la, lb]
        simp only [hs]
  | viaRaw l c o r => exact absurd rfl (hnr l c o r)

/- non-vacuity: a handle right after a successful seekable open of a two-link file, and the same handle after reads and a dumped decoder, satisfy the premises -/
example : LinkWF { ready := STREAMSET, current_link := 0, current_serialno := 7, serialnos := #[7, 9], links := 2 } ∧
          LinkWF { ready := OPENED, current_link := 5, current_serialno := 0, serialnos := #[7, 9], links := 2 } := by
  constructor
  · intro _; exact ⟨by decide, by decide⟩
  · intro h; exact absurd h (by decide)

/-- **C07_page_seek_history_independent**: two handles on the same file (same link table), whatever was done with them before —
    reads, seeks, failed seeks, a dumped decoder, any cursor — return the same code from `ov_pcm_seek_page(pos)` and end up
    with the same byte cursor, sample position, packet queue and selected link -/
theorem C07_page_seek_history_independent (ph : Phys) (f : Int → M Int) (pos : Int) (a b : VF)
    (ht : a.tab = b.tab) (ha : a.ready ≥ OPENED) (hb : b.ready ≥ OPENED) (sa : a.seekable = true) (sb : b.seekable = true)
    (wa : LinkWF a) (wb : LinkWF b) (hp : 0 ≤ pos ∧ pos ≤ sumAll a.tab)
    (hnr : ∀ l c o r, planSeekPage ph a.tab pos ≠ .viaRaw l c o r) :
    ((pcmSeekPage ph f pos).run a).1 = ((pcmSeekPage ph f pos).run b).1 ∧
    obs ((pcmSeekPage ph f pos).run a).2 = obs ((pcmSeekPage ph f pos).run b).2 := by
  have ta := pcmTotal_all a ha sa
  have tb := pcmTotal_all b hb sb
  have h1a : ¬ (a.ready < OPENED) := by omega
  have h1b : ¬ (b.ready < OPENED) := by omega
  have hra : ¬ (pos < 0 ∨ pos > pcmTotal a (-1)) := by rw [ta]; omega
  have hrb : ¬ (pos < 0 ∨ pos > pcmTotal b (-1)) := by rw [tb, ← ht]; omega
  have hser : a.serialnos = b.serialnos := by
    have := congrArg Tab.serialnos ht
    simpa [VF.tab] using this
  have ea : (pcmSeekPage ph f pos).run a = (execPlan f (planSeekPage ph a.tab pos)).run a := by
    unfold pcmSeekPage
    have n1 : ¬ (pos < 0) := by omega
    have n2 : ¬ (pcmTotal a (-1) < pos) := by rw [ta]; omega
    simp [StateT.run, bind, StateT.bind, get, getThe, MonadStateOf.get, StateT.get, pure, StateT.pure, h1a, sa, n1, n2]
  have eb : (pcmSeekPage ph f pos).run b = (execPlan f (planSeekPage ph a.tab pos)).run b := by
    unfold pcmSeekPage
    have n1 : ¬ (pos < 0) := by omega
    have n2 : ¬ (pcmTotal b (-1) < pos) := by rw [tb, ← ht]; omega
    simp [StateT.run, bind, StateT.bind, get, getThe, MonadStateOf.get, StateT.get, pure, StateT.pure, h1b, sb, n1, n2, ht]
  rw [ea, eb]
  exact exec_obs f _ a b wa wb hser hnr


/-- two handles on the same file with the same settings: everything `ov_open` fixed -/
structure SameFile (a b : VF) : Prop where
  tab : a.tab = b.tab
  infos : a.infos = b.infos
  seekable : a.seekable = b.seekable
  end_ : a.end_ = b.end_
  hs : a.hs = b.hs
  hdrkey : a.hdrkey = b.hdrkey
  source : a.source = b.source
  closes : a.closes = b.closes

/-- consistency of the decode state with the life-cycle marker -/
def DecWF (s : VF) : Prop := LinkWF s ∧ (s.ready > STREAMSET → s.vd.isSome = true) ∧ s.ready ≤ INITSET

/-- the state after "select the link, install queue and position, make the decoder ready" written out -/
def landed (s : VF) (link : Nat) (cur : Cur) (os : OStream) (po : Int) : VF :=
  let s0 : VF := { s with offset := cur.off, fill := cur.fill, current_link := link, current_serialno := s.serialnos[link]!, os := os, pcm_offset := po }
  { s0 with ready := INITSET, lapped := false, vd := some (freshDec s0) }

/-- the run-time check the driver performs on every reached state is exactly the hypothesis `DecWF` -/
theorem decWFb_iff (s : VF) : decWFb s = true ↔ DecWF s := by
  unfold decWFb DecWF LinkWF
  simp only [Bool.and_eq_true, Bool.or_eq_true, decide_eq_true_eq]
  constructor
  · rintro ⟨⟨h1, h2⟩, h3⟩
    refine ⟨fun hr => ?_, fun hr => ?_, h3⟩
    · rcases h1 with h | h
      · omega
      · exact h
    · rcases h2 with h | h
      · omega
      · exact h
  · rintro ⟨h1, h2, h3⟩
    refine ⟨⟨?_, ?_⟩, h3⟩
    · by_cases c : s.ready < STREAMSET
      · exact Or.inl c
      · exact Or.inr (h1 (by omega))
    · by_cases c : s.ready ≤ STREAMSET
      · exact Or.inl c
      · exact Or.inr (h2 (by omega))

theorem land_ready (s : VF) (w : DecWF s) (link : Nat) (cur : Cur) (os : OStream) (po : Int) :
    (makeDecodeReady.run { (selectLinkF link { s with offset := cur.off, fill := cur.fill }) with os := os, pcm_offset := po }) =
      (0, landed s link cur os po) := by
  obtain ⟨wl, wv, wr⟩ := w
  unfold selectLinkF
  by_cases h : (link : Int) ≠ s.current_link ∨ s.ready < STREAMSET
  · simp only [h, if_true]
    simp [makeDecodeReady, StateT.run, bind, StateT.bind, get, getThe, MonadStateOf.get, StateT.get, set, StateT.set, pure, StateT.pure,
      landed, freshDec, curInfo, STREAMSET, INITSET, Generated.STREAMSET, Generated.INITSET]
  · have hl : (link : Int) = s.current_link := by
      by_cases e : (link : Int) = s.current_link
      · exact e
      · exact absurd (Or.inl e) h
    have hr : s.ready ≥ STREAMSET := by
      by_cases e : s.ready < STREAMSET
      · exact absurd (Or.inr e) h
      · omega
    have hw := wl hr
    have hser : s.current_serialno = s.serialnos[link]! := by
      rw [hw.2, ← hl]; simp
    simp only [h, if_false]
    have h34 : s.ready = 3 ∨ s.ready = 4 := by
      have : STREAMSET = 3 := rfl
      have : INITSET = 4 := rfl
      omega
    rcases h34 with h3 | h4
    · simp [makeDecodeReady, StateT.run, bind, StateT.bind, get, getThe, MonadStateOf.get, StateT.get, set, StateT.set, pure, StateT.pure,
        landed, freshDec, curInfo, STREAMSET, INITSET, Generated.STREAMSET, Generated.INITSET, h3, ← hl, hser]
    · have hv := wv (by rw [h4]; decide)
      cases hvd : s.vd with
      | none => rw [hvd] at hv; exact absurd hv (by decide)
      | some d =>
          simp [makeDecodeReady, StateT.run, bind, StateT.bind, get, getThe, MonadStateOf.get, StateT.get, set, StateT.set, pure, StateT.pure,
            landed, freshDec, curInfo, STREAMSET, INITSET, Generated.STREAMSET, Generated.INITSET, h4, ← hl, hser, hvd]

theorem landed_eq (a b : VF) (h : SameFile a b) (link : Nat) (cur : Cur) (os : OStream) (po : Int) :
    landed a link cur os po = landed b link cur os po := by
  obtain ⟨ht, hi, hsk, he, hhs, hk, hso, hc⟩ := h
  cases a; cases b
  simp only [VF.tab, Tab.mk.injEq] at ht
  obtain ⟨t1, t2, t3, t4, t5⟩ := ht
  simp only [] at hi hsk he hhs hk hso hc t1 t2 t3 t4 t5
  subst hi hsk he hhs hk hso hc t1 t2 t3 t4 t5
  simp [landed, freshDec, curInfo]

theorem pcmSeek_run (ph : Phys) (f : Int → M Int) (pos : Int) (s : VF) :
    (pcmSeek ph f pos).run s =
      (if ((pcmSeekPage ph f pos).run s).1 < 0 then (pcmSeekPage ph f pos).run s
       else if ((makeDecodeReady).run ((pcmSeekPage ph f pos).run s).2).1 ≠ 0 then (makeDecodeReady).run ((pcmSeekPage ph f pos).run s).2
       else (pcmSeekTail ph pos).run ((makeDecodeReady).run ((pcmSeekPage ph f pos).run s).2).2) := by
  unfold pcmSeek
  simp only [StateT.run, bind, StateT.bind]
  split
  rename_i ret s1 h
  simp only [h, pure, StateT.pure]
  by_cases c : ret < (0:Int)
  · simp only [c, if_true, StateT.pure]; rfl
  · simp only [c, if_false, StateT.bind]
    cases h2 : makeDecodeReady s1 with
    | mk r2 s2 =>
      by_cases c2 : r2 ≠ (0:Int)
      · show (if r2 ≠ 0 then StateT.pure r2 else pcmSeekTail ph pos) s2 = _
        rw [if_pos c2, if_pos c2]; rfl
      · show (if r2 ≠ 0 then StateT.pure r2 else pcmSeekTail ph pos) s2 = _
        rw [if_neg c2, if_neg c2]

/-- **the sample-accurate seek forgets the past completely**: two handles on the same file, whatever their histories, are in the
    *same state* after `ov_pcm_seek(pos)` and got the same return value — whenever the page search lands (the ordinary case; the
    other plans are error exits and the raw-seek fallback for packets spanning pages) -/
theorem C07_seek_history_independent (ph : Phys) (f : Int → M Int) (pos : Int) (a b : VF)
    (hsame : SameFile a b) (ha : a.ready ≥ OPENED) (hb : b.ready ≥ OPENED) (sa : a.seekable = true)
    (wa : DecWF a) (wb : DecWF b) (hp : 0 ≤ pos ∧ pos ≤ sumAll a.tab)
    (link : Nat) (cur : Cur) (os : OStream) (po : Int) (hplan : planSeekPage ph a.tab pos = .land link cur os po) :
    (pcmSeek ph f pos).run a = (pcmSeek ph f pos).run b := by
  have sb : b.seekable = true := by rw [← hsame.seekable]; exact sa
  have ht := hsame.tab
  have ta := pcmTotal_all a ha sa
  have tb := pcmTotal_all b hb sb
  have h1a : ¬ (a.ready < OPENED) := by omega
  have h1b : ¬ (b.ready < OPENED) := by omega
  have ea : (pcmSeekPage ph f pos).run a = (execPlan f (.land link cur os po)).run a := by
    unfold pcmSeekPage
    have n1 : ¬ (pos < 0) := by omega
    have n2 : ¬ (pcmTotal a (-1) < pos) := by rw [ta]; omega
    simp [StateT.run, bind, StateT.bind, get, getThe, MonadStateOf.get, StateT.get, pure, StateT.pure, h1a, sa, n1, n2, hplan]
  have eb : (pcmSeekPage ph f pos).run b = (execPlan f (.land link cur os po)).run b := by
    unfold pcmSeekPage
    have n1 : ¬ (pos < 0) := by omega
    have n2 : ¬ (pcmTotal b (-1) < pos) := by rw [tb, ← ht]; omega
    simp [StateT.run, bind, StateT.bind, get, getThe, MonadStateOf.get, StateT.get, pure, StateT.pure, h1b, sb, n1, n2, ← ht, hplan]
  have xa : (execPlan f (.land link cur os po)).run a =
      (0, { (selectLinkF link { a with offset := cur.off, fill := cur.fill }) with os := os, pcm_offset := po }) := by
    simp [execPlan, setCur, selectLink, StateT.run, bind, StateT.bind, modify, modifyGet, MonadStateOf.modifyGet, StateT.modifyGet, pure, StateT.pure]
  have xb : (execPlan f (.land link cur os po)).run b =
      (0, { (selectLinkF link { b with offset := cur.off, fill := cur.fill }) with os := os, pcm_offset := po }) := by
    simp [execPlan, setCur, selectLink, StateT.run, bind, StateT.bind, modify, modifyGet, MonadStateOf.modifyGet, StateT.modifyGet, pure, StateT.pure]
  have ra := land_ready a wa link cur os po
  have rb := land_ready b wb link cur os po
  have le := landed_eq a b hsame link cur os po
  rw [pcmSeek_run, pcmSeek_run, ea, eb, xa, xb]
  simp only [show ¬ ((0 : Int) < 0) from by decide, if_false]
  rw [ra, rb, le]

def SeekPlan.isLand : SeekPlan → Bool
  | .land .. => true
  | _ => false

theorem isLand_iff (p : SeekPlan) (h : SeekPlan.isLand p = true) : ∃ l c o po, p = .land l c o po := by
  cases p with
  | land l c o po => exact ⟨l, c, o, po, rfl⟩
  | fail _ _ => exact absurd h (by simp [SeekPlan.isLand])
  | failSel _ _ _ _ => exact absurd h (by simp [SeekPlan.isLand])
  | viaRaw _ _ _ _ => exact absurd h (by simp [SeekPlan.isLand])

/-! non-vacuity: a one-link file of five pages, a landing plan for sample 200, and two handles with different pasts
    (one just opened, one in the middle of decoding after a lapped seek) that meet every hypothesis -/
def apk (g : Int) : QPkt := { bytes := 10, b0 := 0, b1 := 0, gran := g, eos := false }
def exPhys : Phys :=
  { size := 558,
    pages := #[
      { off := 0, len := 58, hlen := 28, serial := 7, pageno := 0, gran := 0, bos := true, eos := false, cont := false, pk := [{ bytes := 30, b0 := 1, b1 := 118, gran := 0, eos := false }] },
      { off := 58, len := 200, hlen := 29, serial := 7, pageno := 1, gran := 0, bos := false, eos := false, cont := false, pk := [{ bytes := 20, b0 := 3, b1 := 118, gran := 0, eos := false }, { bytes := 150, b0 := 5, b1 := 118, gran := 0, eos := false }] },
      { off := 258, len := 100, hlen := 29, serial := 7, pageno := 2, gran := 64, bos := false, eos := false, cont := false, pk := [apk (-1), apk 64] },
      { off := 358, len := 100, hlen := 29, serial := 7, pageno := 3, gran := 192, bos := false, eos := false, cont := false, pk := [apk (-1), apk 192] },
      { off := 458, len := 100, hlen := 29, serial := 7, pageno := 4, gran := 320, bos := false, eos := true, cont := false, pk := [apk (-1), { apk 320 with eos := true }] }],
    infos := [(0, { channels := 1, rate := 8000, bs0 := 64, bs1 := 256, modes := #[0, 1] })] }
def exTab : Tab := { links := 1, offsets := #[0, 558], dataoffsets := #[258], serialnos := #[7], pcmlengths := #[0, 320] }
def exFresh : VF :=
  { seekable := true, end_ := 558, ready := OPENED, links := 1, offsets := #[0, 558], dataoffsets := #[258], serialnos := #[7], pcmlengths := #[0, 320],
    infos := #[{ channels := 1, rate := 8000, bs0 := 64, bs1 := 256, modes := #[0, 1] }] }
def exUsed : VF :=
  { exFresh with ready := INITSET, offset := 458, fill := 558, pcm_offset := 100, current_link := 0, current_serialno := 7, lapped := true,
                 vd := some { lW := true, W := false, cW := 128, cur := 160, ret := 140, gran := 100, seq := 5, sc := 0, eof := false } }

example : SeekPlan.isLand (planSeekPage exPhys exTab 200) = true := by decide +kernel
example : SameFile exFresh exUsed ∧ DecWF exFresh ∧ DecWF exUsed ∧ exFresh.tab = exTab ∧ exFresh ≠ exUsed := by
  refine ⟨⟨rfl, rfl, rfl, rfl, rfl, rfl, rfl, rfl⟩, ⟨?_, ?_, ?_⟩, ⟨?_, ?_, ?_⟩, rfl, ?_⟩
  · intro h; exact absurd h (by decide)
  · intro h; exact absurd h (by decide)
  · decide
  · intro _; exact ⟨by decide, rfl⟩
  · intro _; rfl
  · decide
  · intro h; have := congrArg VF.lapped h; exact absurd this (by decide)
/-- the two handles above end in the same state after seeking to sample 200 -/
example (f : Int → M Int) : (pcmSeek exPhys f 200).run exFresh = (pcmSeek exPhys f 200).run exUsed := by
  obtain ⟨l, c, o, po, h⟩ := isLand_iff _ (show SeekPlan.isLand (planSeekPage exPhys exFresh.tab 200) = true by decide +kernel)
  exact C07_seek_history_independent exPhys f 200 exFresh exUsed ⟨rfl, rfl, rfl, rfl, rfl, rfl, rfl, rfl⟩ (by decide) (by decide) rfl
    ⟨fun h => absurd h (by decide), fun h => absurd h (by decide), by decide⟩
    ⟨fun _ => ⟨by decide, rfl⟩, fun _ => rfl, by decide⟩ (by decide +kernel) l c o po h

theorem sameFile_refl (s : VF) : SameFile s s := ⟨rfl, rfl, rfl, rfl, rfl, rfl, rfl, rfl⟩
theorem sameFile_symm {a b : VF} (h : SameFile a b) : SameFile b a :=
  ⟨h.tab.symm, h.infos.symm, h.seekable.symm, h.end_.symm, h.hs.symm, h.hdrkey.symm, h.source.symm, h.closes.symm⟩
theorem sameFile_trans {a b c : VF} (h : SameFile a b) (g : SameFile b c) : SameFile a c :=
  ⟨h.tab.trans g.tab, h.infos.trans g.infos, h.seekable.trans g.seekable, h.end_.trans g.end_, h.hs.trans g.hs, h.hdrkey.trans g.hdrkey,
   h.source.trans g.source, h.closes.trans g.closes⟩

/-- the error exit leaves a handle on the same file, in a consistent (decoder-less) state -/
theorem seekError_same (rc : Int) (s : VF) : SameFile s ((seekError rc).run s).2 ∧ DecWF ((seekError rc).run s).2 := by
  simp [seekError, decodeClear, StateT.run, bind, StateT.bind, modify, modifyGet, MonadStateOf.modifyGet, StateT.modifyGet, pure, StateT.pure]
  refine ⟨⟨rfl, rfl, rfl, rfl, rfl, rfl, rfl, rfl⟩, ?_, ?_, ?_⟩
  · intro h; exact absurd (show OPENED ≥ STREAMSET ∨ OPENED > STREAMSET from by first | exact Or.inl h | exact Or.inr h) (by decide)
  · intro h; exact absurd (show OPENED ≥ STREAMSET ∨ OPENED > STREAMSET from by first | exact Or.inl h | exact Or.inr h) (by decide)
  · show OPENED ≤ INITSET; decide

/-- every failing plan of a page seek: same file, consistent state, decoder dumped, position unknown -/
theorem failing_plan_same (f : Int → M Int) (p : SeekPlan) (s : VF) (hp : (∃ rc c, p = .fail rc c) ∨ (∃ l c o rc, p = .failSel l c o rc)) :
    SameFile s ((execPlan f p).run s).2 ∧ DecWF ((execPlan f p).run s).2 := by
  rcases hp with ⟨rc, c, rfl⟩ | ⟨l, c, o, rc, rfl⟩
  · simp [execPlan, setCur, seekError, decodeClear, StateT.run, bind, StateT.bind, modify, modifyGet, MonadStateOf.modifyGet, StateT.modifyGet, pure, StateT.pure]
    refine ⟨⟨rfl, rfl, rfl, rfl, rfl, rfl, rfl, rfl⟩, ?_, ?_, ?_⟩
    · intro h; exact absurd (show OPENED ≥ STREAMSET ∨ OPENED > STREAMSET from by first | exact Or.inl h | exact Or.inr h) (by decide)
    · intro h; exact absurd (show OPENED ≥ STREAMSET ∨ OPENED > STREAMSET from by first | exact Or.inl h | exact Or.inr h) (by decide)
    · show OPENED ≤ INITSET; decide
  · simp [execPlan, setCur, selectLink, seekError, decodeClear, StateT.run, bind, StateT.bind, modify, modifyGet, MonadStateOf.modifyGet, StateT.modifyGet, pure, StateT.pure]
    refine ⟨?_, ?_, ?_, ?_⟩
    · unfold selectLinkF; split <;> exact ⟨rfl, rfl, rfl, rfl, rfl, rfl, rfl, rfl⟩
    · intro h; exact absurd (show OPENED ≥ STREAMSET ∨ OPENED > STREAMSET from by first | exact Or.inl h | exact Or.inr h) (by decide)
    · intro h; exact absurd (show OPENED ≥ STREAMSET ∨ OPENED > STREAMSET from by first | exact Or.inl h | exact Or.inr h) (by decide)
    · show OPENED ≤ INITSET; decide


example : readAvail { ready := INITSET, vd := some { lW := false, W := false, cW := 0, cur := 10, ret := 4, gran := -1, seq := 0, sc := 0, eof := false } } = 6 := by decide

end Vorbis.Props.C07
