import Vorbis.File.Model
namespace Vorbis.Props.C07
open Vorbis Vorbis.File Vorbis.Block

/-- placeholder obligation replaced below -/
theorem C07_granToPos_ge (vf : VF) (link : Nat) (g : Int) :
    sumLen vf.pcmlengths link ≤ granToPos vf link g := by
  unfold granToPos
  simp only []
  split <;> omega

end Vorbis.Props.C07
