import Vorbis.Proofs.Lap
/-!
# C11 — a damaged or skipped packet disturbs only its own neighbourhood

Provenance model of the decoder's overlap-add double buffer (`Vorbis/Block/Lap.lean`): every buffer cell
records which sample of which packet's inverse-transform output went into it; whatever the buffer held
before a restart / seek / lost packet is `stale`.

`C11_local` — for every pair of block sizes, every restart point `k0` and every sequence of window
flags, each sample returned after packet `k` is *exactly* the specification's overlap of packet `k-1`'s
tail with packet `k`'s head (`specCell`): a function of the two window flags, `k` and the sample's
offset only. It mentions no `stale` cell, no earlier packet, and not the history (which half of the
double buffer is in use, where decoding was restarted).
Hence, if decoding is restarted at any packet, or earlier packets were dropped / altered / rejected,
the samples returned from the second packet after the disturbance on are the same expressions as in
the undisturbed decode (`C11_recover`), and changing packet `j` can change only the samples returned
after packets `j` and `j+1` (`C11_window`).

What the theorem cannot see: that the C computes each packet's inverse-transform output from that
packet and the set-up alone (no hidden cross-packet state in `vorbis_block`, floor/residue look-ups,
`localstore`). That is what the fault-injection correspondence of the check tests.
-/
namespace Vorbis.Props.C11
open Vorbis.Block.Lap

/-- decode packets `k0, k0+1, ...` with the given window flags, starting right after a restart -/
def runFrom (n0 n1 : Int) (k0 : Nat) : List Bool → St
  | [] => restart n1
  | ws => go (restart n1) k0 ws
where
  go (s : St) (k : Nat) : List Bool → St
    | [] => s
    | w :: rest => go (blockin n0 n1 s k w) (k + 1) rest

theorem go_spec (n0 n1 : Int) (z : Sz n0 n1) (s : St) (k : Nat) (h : Inv n0 n1 s k)
    (ws : List Bool) (w : Bool) (lW : Bool) (hl : s.lW = lW) :
    let prevW := (lW :: ws).getLast (by simp)
    let sN := runFrom.go n0 n1 s (k + 1) (ws ++ [w])
    (∀ i, returned sN i → sN.buf i = specCell n0 n1 prevW w (k + 1 + ws.length) (i - sN.retLo)) ∧
    sN.retHi - sN.retLo = (if prevW then n1 else n0) / 2 + (if w then n1 else n0) / 2 := by
  induction ws generalizing s k lW with
  | nil =>
    have hn := blockin_next n0 n1 z s k w h
    simp only [List.nil_append, runFrom.go, List.getLast_singleton, List.length_nil, Nat.add_zero]
    subst hl
    exact ⟨hn.1, hn.2.2.2⟩
  | cons a rest ih =>
    have hn := blockin_next n0 n1 z s k a h
    have := ih (blockin n0 n1 s (k + 1) a) (k + 1) hn.2.1 a hn.2.2.1
    simp only [List.cons_append, runFrom.go, List.length_cons] at this ⊢
    have e : k + 1 + (rest.length + 1) = k + 1 + 1 + rest.length := by omega
    rw [e]
    simpa [List.getLast_cons] using this

/-- **C11_local** — restart the decoder at any packet `k0` (so the first packet after the restart
returns nothing), feed any further packets with any window flags: every sample returned after the
last of them is the specification's overlap of the last two packets and nothing else. -/
theorem C11_local (n0 n1 : Int) (z : Sz n0 n1) (k0 : Nat) (w0 : Bool) (ws : List Bool) (w : Bool) :
    let sN := runFrom n0 n1 k0 (w0 :: ws ++ [w])
    let prevW := (w0 :: ws).getLast (by simp)
    let k := k0 + 1 + ws.length
    (∀ i, returned sN i → sN.buf i = specCell n0 n1 prevW w k (i - sN.retLo)) ∧
    sN.retHi - sN.retLo = (if prevW then n1 else n0) / 2 + (if w then n1 else n0) / 2 := by
  have hf := blockin_first n0 n1 z k0 w0
  have := go_spec n0 n1 z (blockin n0 n1 (restart n1) k0 w0) k0 hf.2.1 ws w w0 hf.2.2
  simpa [runFrom, runFrom.go] using this

/-- **C11_first_silent** — the first packet after a restart hands out no sample at all (so nothing
stale can escape through it). -/
theorem C11_first_silent (n0 n1 : Int) (z : Sz n0 n1) (k0 : Nat) (w0 : Bool) :
    ∀ i, ¬ returned (runFrom n0 n1 k0 [w0]) i := by
  have hf := blockin_first n0 n1 z k0 w0
  simpa [runFrom, runFrom.go] using hf.1

/-- **C11_recover** — two decodes of the same stream, one from the beginning (`k0 = 0`) and one that was
disturbed and effectively restarted at packet `j` (lost / rejected / dropped packets before it):
for every packet `k ≥ j+1` both return, sample for sample, the same expression over the packets'
inverse-transform outputs — so with the same packets the audio is bit-identical from the second
packet after the disturbance on. The flags are those of the stream: `W m` for packet `m`. -/
theorem C11_recover (n0 n1 : Int) (z : Sz n0 n1) (W : Nat → Bool) (j len : Nat) :
    let flagsFrom (a : Nat) (n : Nat) : List Bool := (List.range n).map (fun t => W (a + t))
    let clean := runFrom n0 n1 0 (flagsFrom 0 (j + len + 2))
    let dist := runFrom n0 n1 j (flagsFrom j (len + 2))
    clean.retHi - clean.retLo = dist.retHi - dist.retLo ∧
    ∀ r, 0 ≤ r → r < dist.retHi - dist.retLo → clean.buf (clean.retLo + r) = dist.buf (dist.retLo + r) := by
  intro flagsFrom clean dist
  -- write both flag lists as  first :: middle ++ [last]
  have split : ∀ a n, flagsFrom a (n + 2) = W a :: (List.range n).map (fun t => W (a + 1 + t)) ++ [W (a + n + 1)] := by
    intro a n
    simp only [flagsFrom]
    rw [List.range_succ, List.map_append, List.range_succ_eq_map]
    simp [Nat.add_assoc, Nat.add_comm, Nat.add_left_comm]
  have hc := C11_local n0 n1 z 0 (W 0) ((List.range (j + len)).map (fun t => W (0 + 1 + t))) (W (0 + (j + len) + 1))
  have hd := C11_local n0 n1 z j (W j) ((List.range len).map (fun t => W (j + 1 + t))) (W (j + len + 1))
  have ec : clean = runFrom n0 n1 0 (W 0 :: (List.range (j + len)).map (fun t => W (0 + 1 + t)) ++ [W (0 + (j + len) + 1)]) := by
    simp only [clean]; rw [split 0 (j + len)]
  have ed : dist = runFrom n0 n1 j (W j :: (List.range len).map (fun t => W (j + 1 + t)) ++ [W (j + len + 1)]) := by
    simp only [dist]; rw [split j len]
  rw [ec, ed]
  simp only [List.length_map, List.length_range] at hc hd
  -- the previous-window flag is the flag of packet j+len in both runs
  have lastc : (W 0 :: (List.range (j + len)).map (fun t => W (0 + 1 + t))).getLast (by simp) = W (j + len) := by
    cases hjl : j + len with
    | zero => simp
    | succ m => simp [List.range_succ, List.getLast_cons]; congr 1; omega
  have lastd : (W j :: (List.range len).map (fun t => W (j + 1 + t))).getLast (by simp) = W (j + len) := by
    cases len with
    | zero => simp
    | succ m => simp [List.range_succ, List.getLast_cons]; congr 1; omega
  rw [lastc] at hc
  rw [lastd] at hd
  have e1 : 0 + (j + len) + 1 = j + len + 1 := by omega
  have e2 : 0 + 1 + (j + len) = j + 1 + len := by omega
  rw [e1, e2] at hc
  rw [e1]
  generalize runFrom n0 n1 0 (W 0 :: List.map (fun t => W (0 + 1 + t)) (List.range (j + len)) ++ [W (j + len + 1)]) = sc at *
  generalize runFrom n0 n1 j (W j :: List.map (fun t => W (j + 1 + t)) (List.range len) ++ [W (j + len + 1)]) = sd at *
  refine ⟨by rw [hc.2, hd.2], fun r hr0 hr1 => ?_⟩
  have hc2 := hc.2
  have hd2 := hd.2
  have a := hc.1 (sc.retLo + r) ⟨by omega, by omega⟩
  have b := hd.1 (sd.retLo + r) ⟨by omega, by omega⟩
  rw [a, b]
  congr 1 <;> omega

/-- **C11_window** — the samples returned after packet `k` mention only packets `k-1` and `k`:
corrupting packet `j` can change only what is returned after packets `j` and `j+1`, i.e. the samples
under packet `j`'s window. -/
theorem C11_window (n0 n1 : Int) (lW W : Bool) (k : Nat) (r : Int) :
    LocalTo k (specCell n0 n1 lW W k r) := by
  intro s hs
  unfold specCell at hs
  cases lW <;> cases W <;> simp only [Bool.false_eq_true, if_false, if_true] at hs
  all_goals (
    repeat' split at hs
    all_goals (
      simp only [List.mem_cons, List.mem_singleton, List.not_mem_nil, or_false] at hs
      rcases hs with rfl | rfl
      all_goals (first
        | (left; exact ⟨_, rfl⟩)
        | (by_cases hk : 0 < k
           · right; exact ⟨hk, _, rfl⟩
           · left; have : k = 0 := by omega
             subst this; exact ⟨_, rfl⟩))))

/-- non-vacuity: 64/2048-sample blocks (half sizes 32 and 1024) satisfy the size hypothesis -/
example : Sz 32 1024 := ⟨by decide, by decide, by decide, by decide⟩

end Vorbis.Props.C11
