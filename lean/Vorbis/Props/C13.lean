import Vorbis.File.Model
import Vorbis.Props.C12
namespace Vorbis.Props.C13
open Vorbis Vorbis.File Vorbis.Props.C07
set_option linter.unusedSimpArgs false

/-- `ov_clear` runs the close callback exactly once when a data source is attached, never otherwise,
    and leaves a handle on which a second `ov_clear` does nothing -/
theorem C13_clear_closes_once (s : VF) :
    (clear.run s).2.closes = (if s.source then s.closes + 1 else s.closes) ∧
    (clear.run s).2.source = false ∧
    (clear.run (clear.run s).2).2.closes = (clear.run s).2.closes := by
  simp [clear, StateT.run, bind, StateT.bind, get, getThe, MonadStateOf.get, StateT.get, set, StateT.set, pure, StateT.pure]

/-- a failed `ov_open1` (`ov_test_callbacks`, first half of `ov_open_callbacks`) detaches the data source
    without closing it: the caller still owns it -/
theorem C13_failed_open1_keeps_source (ph : Phys) (seekable : Bool) (s : VF) (h : ((open1 ph seekable).run s).1.1 < 0) :
    ((open1 ph seekable).run s).2.source = false ∧ ((open1 ph seekable).run s).2.closes = s.closes := by
  unfold open1 at h ⊢
  simp only [StateT.run, bind, StateT.bind, get, getThe, MonadStateOf.get, StateT.get, set, StateT.set, pure, StateT.pure] at h ⊢
  generalize hfh : fetchHeaders ph none _ = r at h ⊢
  obtain ⟨⟨rc, bos⟩, s'⟩ := r
  by_cases hrc : rc < 0
  · simp only [hrc, if_true, StateT.bind, StateT.set, StateT.pure]
    exact ⟨rfl, rfl⟩
  · exfalso
    simp only [hrc, if_false, StateT.bind, StateT.pure, modify, modifyGet, MonadStateOf.modifyGet, StateT.modifyGet] at h
    have h' : ((0 : Int) < 0) := h
    omega

/-- **only `ov_clear` closes**: whatever sequence of reads, sample seeks, page seeks, raw seeks and time seeks, plain or lapped (failing ones included) is issued on
    an opened seekable handle, the close callback has not run and the data source is still attached; `ov_clear` then closes it exactly
    once -/
theorem C13_only_clear_closes (ph : Phys) (s t : VF) (hk : s.seekable = true) (hr : s.ready = OPENED)
    (h : Proofs.FileInv.Reach ph s t) :
    t.closes = s.closes ∧ t.source = s.source ∧ (clear.run t).2.closes = (if s.source then s.closes + 1 else s.closes) := by
  obtain ⟨_, same, _⟩ := C12.C12_consistency_is_invariant ph s t hk hr h
  refine ⟨same.closes.symm, same.source.symm, ?_⟩
  rw [(C13_clear_closes_once t).1, ← same.closes, ← same.source]

end Vorbis.Props.C13
