import Vorbis.File.Model
/-
C03 — termination of the page searches.  Every loop of the model carries fuel and reports the
sentinel `FUEL` when it runs out; the theorems below show that the backward page search — the loop
that did not terminate before repair F6 — never does, for every page table whose pages have positive
length: the inner forward scan consumes a page per round, the outer loop moves its window down a
chunk per round and gives up at offset 0.
-/
namespace Vorbis.Props.C03
open Vorbis Vorbis.File Vorbis.Block
set_option linter.unusedSimpArgs false

/-- pages that start at or after a cursor -/
def ahead (ph : Phys) (off : Int) : Nat := (ph.pages.toList.filter (fun p => decide (p.off ≥ off))).length

theorem filter_len_le {α : Type} (l : List α) (P Q : α → Bool) (hPQ : ∀ x, P x = true → Q x = true) :
    (l.filter P).length ≤ (l.filter Q).length := by
  induction l with
  | nil => simp
  | cons z zs ih =>
      simp only [List.filter_cons]
      by_cases hz : P z = true
      · simp only [hz, hPQ z hz, if_true, List.length_cons]; omega
      · by_cases hq : Q z = true
        · simp only [hz, hq, if_true, if_false, List.length_cons, Bool.false_eq_true]; omega
        · simp only [hz, hq, if_false, Bool.false_eq_true]; exact ih

theorem filter_len_lt {α : Type} (l : List α) (P Q : α → Bool) (hPQ : ∀ x, P x = true → Q x = true)
    (x : α) (hx : x ∈ l) (hq : Q x = true) (hp : P x = false) : (l.filter P).length < (l.filter Q).length := by
  induction l with
  | nil => cases hx
  | cons y ys ih =>
      simp only [List.filter_cons]
      rcases List.mem_cons.mp hx with h | h
      · subst h
        have hle := filter_len_le ys P Q hPQ
        simp only [hp, hq, if_true, List.length_cons, Bool.false_eq_true, if_false]
        omega
      · have := ih h
        by_cases hy : P y = true
        · simp only [hy, hPQ y hy, if_true, List.length_cons]; omega
        · by_cases hqy : Q y = true
          · simp only [hy, hqy, if_true, if_false, List.length_cons, Bool.false_eq_true]; omega
          · simp only [hy, hqy, if_false, Bool.false_eq_true]; exact this

theorem ahead_le (ph : Phys) (off : Int) : ahead ph off ≤ ph.pages.size := by
  unfold ahead
  have := List.length_filter_le (fun p : Page => decide (p.off ≥ off)) ph.pages.toList
  simpa using this

/-- a successful page fetch consumes a page: fewer pages lie ahead of the new cursor -/
theorem nextPage_progress (ph : Phys) (hlen : ∀ p ∈ ph.pages, 0 < p.len) (c : Cur) (boundary : Int)
    (h : (nextPage ph c boundary).1 ≥ 0) : ahead ph (nextPage ph c boundary).2.2.off < ahead ph c.off := by
  unfold nextPage at h ⊢
  simp only [] at h ⊢
  cases hf : ph.pages.find? (fun p => decide (p.off ≥ c.off ∧ p.off < stallAt ph c.off)) with
  | none =>
      simp only [hf] at h
      exfalso
      by_cases h0 : boundary = 0
      · simp [h0, OV_FALSE, Generated.OV_FALSE] at h
      · simp only [h0, if_false] at h
        split at h <;> simp [OV_FALSE, OV_EOF, Generated.OV_FALSE, Generated.OV_EOF] at h
  | some p =>
      simp only [hf] at h ⊢
      have hmem : p ∈ ph.pages := Array.mem_of_find?_eq_some hf
      have hge : p.off ≥ c.off := by have := Array.find?_some hf; simp at this; omega
      have hl := hlen p hmem
      by_cases h1 : boundary > 0 ∧ p.off ≥ c.off + boundary
      · simp [h1, OV_FALSE, Generated.OV_FALSE] at h
      · simp only [h1, if_false] at h ⊢
        by_cases h2 : boundary = 0 ∧ p.off + p.len > c.fill
        · simp [h2, OV_FALSE, Generated.OV_FALSE] at h
        · simp only [h2, if_false]
          unfold ahead
          apply filter_len_lt _ _ _ _ p (by simpa using hmem)
          · simp; omega
          · simp; omega
          · intro x hx; simp at hx ⊢; omega

theorem prevScan_fuel (ph : Phys) (hlen : ∀ p ∈ ph.pages, 0 < p.len) (end_ : Int) (serials : List Int) (want : Int) :
    ∀ (fuel : Nat) (c : Cur) (o pf rs rg pg : Int), ahead ph c.off < fuel → o ≠ FUEL →
      (prevScan ph end_ serials want fuel c o pf rs rg pg).1 ≠ FUEL := by
  intro fuel
  induction fuel with
  | zero => intro c o pf rs rg pg h; omega
  | succ f ih =>
      intro c o pf rs rg pg h ho
      unfold prevScan
      by_cases hc : c.off < end_
      · simp only [hc, not_true_eq_false, if_false]
        generalize hn : nextPage ph c (end_ - c.off) = r
        obtain ⟨ret, page, c1⟩ := r
        simp only []
        by_cases hr : ret < 0
        · simp only [hr, if_true]; exact ho
        · simp only [hr, if_false]
          have hp := nextPage_progress ph hlen c (end_ - c.off) (by rw [hn]; simp; omega)
          rw [hn] at hp
          simp only [] at hp
          apply ih
          · omega
          · intro hf; unfold FUEL at hf; omega
      · simp only [hc, not_false_eq_true, if_true]; exact ho

/-- with `pages.size+1` rounds the forward scan inside a backward search never runs out of fuel -/
theorem prevScan_terminates (ph : Phys) (hlen : ∀ p ∈ ph.pages, 0 < p.len) (end_ : Int) (serials : List Int) (want : Int)
    (c : Cur) (pf rs rg pg : Int) :
    (prevScan ph end_ serials want (ph.pages.size + 1) c (-1) pf rs rg pg).1 ≠ FUEL := by
  apply prevScan_fuel ph hlen
  · have := ahead_le ph c.off; omega
  · decide


theorem chunk_pos : (0 : Int) < CHUNKSIZE := by decide

/-- the outer loop of the backward page search makes progress: its window start moves down a chunk per round
    and the search gives up at the start of the file (the F6 guard), so `b/CHUNKSIZE+2` rounds always suffice -/
theorem prevPageSerial_fuel (ph : Phys) (begin_ : Int) (serials : List Int) (want gran0 : Int)
    (hscan : ∀ c pf rs rg pg, (prevScan ph begin_ serials want (ph.pages.size + 1) c (-1) pf rs rg pg).1 ≠ FUEL) :
    ∀ (fuel : Nat) (b pg : Int), 0 ≤ b → b / CHUNKSIZE + 2 ≤ fuel →
      (prevPageSerial ph begin_ serials want gran0 fuel b pg).1 ≠ FUEL := by
  intro fuel
  induction fuel with
  | zero =>
      intro b pg hb hf
      have : (0 : Int) ≤ b / CHUNKSIZE := Int.ediv_nonneg hb (Int.le_of_lt chunk_pos)
      omega
  | succ f ih =>
      intro b pg hb hf
      unfold prevPageSerial
      simp only []
      generalize hsc : prevScan ph begin_ serials want (ph.pages.size + 1) (seekCur (if b - CHUNKSIZE < 0 then 0 else b - CHUNKSIZE)) (-1) (-1) (-1) (-1) pg = r
      obtain ⟨o, pf, rs, rg, pg1, c⟩ := r
      have ho : o ≠ FUEL := by
        have := hscan (seekCur (if b - CHUNKSIZE < 0 then 0 else b - CHUNKSIZE)) (-1) (-1) (-1) pg
        rw [hsc] at this; exact this
      simp only [ho, if_false]
      by_cases h1 : o = -1
      · simp only [h1, if_true]
        by_cases h0 : (if b - CHUNKSIZE < 0 then 0 else b - CHUNKSIZE) = 0
        · simp only [h0, if_true]
          decide
        · simp only [h0, if_false]
          have hlt : ¬ (b - CHUNKSIZE < 0) := by
            intro hh; simp [hh] at h0
          simp only [hlt, if_false] at h0 ⊢
          have hstep : (b - CHUNKSIZE) / CHUNKSIZE = b / CHUNKSIZE - 1 := by
            have h := Int.add_mul_ediv_right b (-1) (Int.ne_of_gt chunk_pos)
            have e : b + -1 * CHUNKSIZE = b - CHUNKSIZE := by omega
            rw [e] at h
            omega
          apply ih
          · omega
          · rw [hstep]; omega
      · simp only [h1, if_false]
        by_cases hp : pf ≥ 0
        · simp only [hp, if_true]
          intro hh; unfold FUEL at hh; omega
        · simp only [hp, if_false]
          exact ho


/-- **C03_backward_search_terminates** — `_get_prev_page_serial` returns (a page offset or an error code,
    never the out-of-fuel sentinel) for every page table with positive page lengths, every search end
    `begin_ ≥ 0`, every serial list -/
theorem C03_backward_search_terminates (ph : Phys) (hlen : ∀ p ∈ ph.pages, 0 < p.len) (begin_ : Int) (hb : 0 ≤ begin_)
    (serials : List Int) (want gran0 pg : Int) :
    (prevPageSerial ph begin_ serials want gran0 (backFuel begin_) begin_ pg).1 ≠ FUEL := by
  apply prevPageSerial_fuel ph begin_ serials want gran0
  · intro c pf rs rg pg'
    exact prevScan_terminates ph hlen begin_ serials want c pf rs rg pg'
  · exact hb
  · unfold backFuel
    have : (0 : Int) ≤ begin_ / CHUNKSIZE := Int.ediv_nonneg hb (Int.le_of_lt chunk_pos)
    omega

/-- a successful page fetch always moves the cursor past the page it returns -/
theorem C03_fetch_advances (ph : Phys) (hlen : ∀ p ∈ ph.pages, 0 < p.len) (c : Cur) (boundary : Int)
    (h : (nextPage ph c boundary).1 ≥ 0) : ahead ph (nextPage ph c boundary).2.2.off < ahead ph c.off :=
  nextPage_progress ph hlen c boundary h

/-- non-vacuity: a two-page table, search from the end -/
example : (prevPageSerial { size := 100, pages := #[{ off := 0, len := 40, hlen := 27, serial := 7, pageno := 0, gran := 0, bos := true, eos := false, cont := false, pk := [] },
      { off := 40, len := 60, hlen := 27, serial := 7, pageno := 1, gran := 64, bos := false, eos := true, cont := false, pk := [] }], infos := [] }
    100 [7] 7 (-1) (backFuel 100) 100 (-1)).1 = 40 := by decide

end Vorbis.Props.C03
