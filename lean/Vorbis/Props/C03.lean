import Vorbis.File.Model
/-
C03 — termination of the page searches.  Every loop of the model carries fuel and reports the
sentinel `FUEL` when it runs out; the theorems below show that the backward page search — the loop
that did not terminate before repair F6 — never does, for every page table whose pages have positive
length: the inner forward scan consumes a page per round, the outer loop moves its window down a
chunk per round and gives up at offset 0.
-/
namespace Vorbis.Props.C03
open Vorbis Vorbis.File Vorbis.Block
set_option linter.unusedSimpArgs false

/-- pages that start at or after a cursor -/
def ahead (ph : Phys) (off : Int) : Nat := (ph.pages.toList.filter (fun p => decide (p.off ≥ off))).length

theorem filter_len_le {α : Type} (l : List α) (P Q : α → Bool) (hPQ : ∀ x, P x = true → Q x = true) :
    (l.filter P).length ≤ (l.filter Q).length := by
  induction l with
  | nil => simp
  | cons z zs ih =>
      simp only [List.filter_cons]
      by_cases hz : P z = true
      · simp only [hz, hPQ z hz, if_true, List.length_cons]; omega
      · by_cases hq : Q z = true
        · simp only [hz, hq, if_true, if_false, List.length_cons, Bool.false_eq_true]; omega
        · simp only [hz, hq, if_false, Bool.false_eq_true]; exact ih

theorem filter_len_lt {α : Type} (l : List α) (P Q : α → Bool) (hPQ : ∀ x, P x = true → Q x = true)
    (x : α) (hx : x ∈ l) (hq : Q x = true) (hp : P x = false) : (l.filter P).length < (l.filter Q).length := by
  induction l with
  | nil => cases hx
  | cons y ys ih =>
      simp only [List.filter_cons]
      rcases List.mem_cons.mp hx with h | h
      · subst h
        have hle := filter_len_le ys P Q hPQ
        simp only [hp, hq, if_true, List.length_cons, Bool.false_eq_true, if_false]
        omega
      · have := ih h
        by_cases hy : P y = true
        · simp only [hy, hPQ y hy, if_true, List.length_cons]; omega
        · by_cases hqy : Q y = true
          · simp only [hy, hqy, if_true, if_false, List.length_cons, Bool.false_eq_true]; omega
          · simp only [hy, hqy, if_false, Bool.false_eq_true]; exact this

theorem ahead_le (ph : Phys) (off : Int) : ahead ph off ≤ ph.pages.size := by
  unfold ahead
  have := List.length_filter_le (fun p : Page => decide (p.off ≥ off)) ph.pages.toList
  simpa using this

/-- a successful page fetch consumes a page: fewer pages lie ahead of the new cursor -/
theorem nextPage_progress (ph : Phys) (hlen : ∀ p ∈ ph.pages, 0 < p.len) (c : Cur) (boundary : Int)
    (h : (nextPage ph c boundary).1 ≥ 0) : ahead ph (nextPage ph c boundary).2.2.off < ahead ph c.off := by
  unfold nextPage at h ⊢
  simp only [] at h ⊢
  cases hf : ph.pages.find? (fun p => decide (p.off ≥ c.off ∧ p.off < stallAt ph c.off)) with
  | none =>
      simp only [hf] at h
      exfalso
      by_cases h0 : boundary = 0
      · simp [h0, OV_FALSE, Generated.OV_FALSE] at h
      · simp only [h0, if_false] at h
        split at h <;> simp [OV_FALSE, OV_EOF, Generated.OV_FALSE, Generated.OV_EOF] at h
  | some p =>
      simp only [hf] at h ⊢
      have hmem : p ∈ ph.pages := Array.mem_of_find?_eq_some hf
      have hge : p.off ≥ c.off := by have := Array.find?_some hf; simp at this; omega
      have hl := hlen p hmem
      by_cases h1 : boundary > 0 ∧ p.off ≥ c.off + boundary
      · simp [h1, OV_FALSE, Generated.OV_FALSE] at h
      · simp only [h1, if_false] at h ⊢
        by_cases h2 : boundary = 0 ∧ p.off + p.len > c.fill
        · simp [h2, OV_FALSE, Generated.OV_FALSE] at h
        · simp only [h2, if_false]
          unfold ahead
          apply filter_len_lt _ _ _ _ p (by simpa using hmem)
          · simp; omega
          · simp; omega
          · intro x hx; simp at hx ⊢; omega

theorem prevScan_fuel (ph : Phys) (hlen : ∀ p ∈ ph.pages, 0 < p.len) (end_ : Int) (serials : List Int) (want : Int) :
    ∀ (fuel : Nat) (c : Cur) (o pf rs rg pg : Int), ahead ph c.off < fuel → o ≠ FUEL →
      (prevScan ph end_ serials want fuel c o pf rs rg pg).1 ≠ FUEL := by
  intro fuel
  induction fuel with
  | zero => intro c o pf rs rg pg h; omega
  | succ f ih =>
      intro c o pf rs rg pg h ho
      unfold prevScan
      by_cases hc : c.off < end_
      · simp only [hc, not_true_eq_false, if_false]
        generalize hn : nextPage ph c (end_ - c.off) = r
        obtain ⟨ret, page, c1⟩ := r
        simp only []
        by_cases hr : ret < 0
        · simp only [hr, if_true]; exact ho
        · simp only [hr, if_false]
          have hp := nextPage_progress ph hlen c (end_ - c.off) (by rw [hn]; simp; omega)
          rw [hn] at hp
          simp only [] at hp
          apply ih
          · omega
          · intro hf; unfold FUEL at hf; omega
      · simp only [hc, not_false_eq_true, if_true]; exact ho

/-- with `pages.size+1` rounds the forward scan inside a backward search never runs out of fuel -/
theorem prevScan_terminates (ph : Phys) (hlen : ∀ p ∈ ph.pages, 0 < p.len) (end_ : Int) (serials : List Int) (want : Int)
    (c : Cur) (pf rs rg pg : Int) :
    (prevScan ph end_ serials want (ph.pages.size + 1) c (-1) pf rs rg pg).1 ≠ FUEL := by
  apply prevScan_fuel ph hlen
  · have := ahead_le ph c.off; omega
  · decide


theorem chunk_pos : (0 : Int) < CHUNKSIZE := by decide

/-- the outer loop of the backward page search makes progress: its window start moves down a chunk per round
    and the search gives up at the start of the file (the F6 guard), so `b/CHUNKSIZE+2` rounds always suffice -/
theorem prevPageSerial_fuel (ph : Phys) (begin_ : Int) (serials : List Int) (want gran0 : Int)
    (hscan : ∀ c pf rs rg pg, (prevScan ph begin_ serials want (ph.pages.size + 1) c (-1) pf rs rg pg).1 ≠ FUEL) :
    ∀ (fuel : Nat) (b pg : Int), 0 ≤ b → b / CHUNKSIZE + 2 ≤ fuel →
      (prevPageSerial ph begin_ serials want gran0 fuel b pg).1 ≠ FUEL := by
  intro fuel
  induction fuel with
  | zero =>
      intro b pg hb hf
      have : (0 : Int) ≤ b / CHUNKSIZE := Int.ediv_nonneg hb (Int.le_of_lt chunk_pos)
      omega
  | succ f ih =>
      intro b pg hb hf
      unfold prevPageSerial
      simp only []
      generalize hsc : prevScan ph begin_ serials want (ph.pages.size + 1) (seekCur (if b - CHUNKSIZE < 0 then 0 else b - CHUNKSIZE)) (-1) (-1) (-1) (-1) pg = r
      obtain ⟨o, pf, rs, rg, pg1, c⟩ := r
      have ho : o ≠ FUEL := by
        have := hscan (seekCur (if b - CHUNKSIZE < 0 then 0 else b - CHUNKSIZE)) (-1) (-1) (-1) pg
        rw [hsc] at this; exact this
      simp only [ho, if_false]
      by_cases h1 : o = -1
      · simp only [h1, if_true]
        by_cases h0 : (if b - CHUNKSIZE < 0 then 0 else b - CHUNKSIZE) = 0
        · simp only [h0, if_true]
          decide
        · simp only [h0, if_false]
          have hlt : ¬ (b - CHUNKSIZE < 0) := by
            intro hh; simp [hh] at h0
          simp only [hlt, if_false] at h0 ⊢
          have hstep : (b - CHUNKSIZE) / CHUNKSIZE = b / CHUNKSIZE - 1 := by
            have h := Int.add_mul_ediv_right b (-1) (Int.ne_of_gt chunk_pos)
            have e : b + -1 * CHUNKSIZE = b - CHUNKSIZE := by omega
            rw [e] at h
            omega
          apply ih
          · omega
          · rw [hstep]; omega
      · simp only [h1, if_false]
        by_cases hp : pf ≥ 0
        · simp only [hp, if_true]
          intro hh; unfold FUEL at hh; omega
        · simp only [hp, if_false]
          exact ho


/-- **C03_backward_search_terminates** — `_get_prev_page_serial` returns (a page offset or an error code,
    never the out-of-fuel sentinel) for every page table with positive page lengths, every search end
    `begin_ ≥ 0`, every serial list -/
theorem C03_backward_search_terminates (ph : Phys) (hlen : ∀ p ∈ ph.pages, 0 < p.len) (begin_ : Int) (hb : 0 ≤ begin_)
    (serials : List Int) (want gran0 pg : Int) :
    (prevPageSerial ph begin_ serials want gran0 (backFuel begin_) begin_ pg).1 ≠ FUEL := by
  apply prevPageSerial_fuel ph begin_ serials want gran0
  · intro c pf rs rg pg'
    exact prevScan_terminates ph hlen begin_ serials want c pf rs rg pg'
  · exact hb
  · unfold backFuel
    have : (0 : Int) ≤ begin_ / CHUNKSIZE := Int.ediv_nonneg hb (Int.le_of_lt chunk_pos)
    omega

/-- a successful page fetch always moves the cursor past the page it returns -/
theorem C03_fetch_advances (ph : Phys) (hlen : ∀ p ∈ ph.pages, 0 < p.len) (c : Cur) (boundary : Int)
    (h : (nextPage ph c boundary).1 ≥ 0) : ahead ph (nextPage ph c boundary).2.2.off < ahead ph c.off :=
  nextPage_progress ph hlen c boundary h

/-- non-vacuity: a two-page table, search from the end -/
example : (prevPageSerial { size := 100, pages := #[{ off := 0, len := 40, hlen := 27, serial := 7, pageno := 0, gran := 0, bos := true, eos := false, cont := false, pk := [] },
      { off := 40, len := 60, hlen := 27, serial := 7, pageno := 1, gran := 64, bos := false, eos := true, cont := false, pk := [] }], infos := [] }
    100 [7] 7 (-1) (backFuel 100) 100 (-1)).1 = 40 := by decide

theorem run_get_bind {β : Type} (k : VF → M β) (s : VF) : ((get >>= k).run s) = (k s).run s := rfl
theorem run_set_bind {β : Type} (s' : VF) (k : PUnit → M β) (s : VF) : ((set s' >>= k).run s) = (k ⟨⟩).run s' := rfl
theorem run_modify_bind {β : Type} (f : VF → VF) (k : PUnit → M β) (s : VF) : ((modify f >>= k).run s) = (k ⟨⟩).run (f s) := rfl
theorem run_pure {β : Type} (a : β) (s : VF) : ((pure a : M β).run s) = (a, s) := rfl

theorem packetout_shorter (o : OStream) (h : o.packetout.1 ≠ 0) : o.packetout.2.2.2.q.length < o.q.length := by
  unfold OStream.packetout at h ⊢
  by_cases hd : o.dead = true
  · simp [hd] at h
  · simp only [hd, Bool.false_eq_true, if_false] at h ⊢
    cases hq : o.q with
    | nil => simp [hq] at h
    | cons p rest =>
        simp only [hq]
        by_cases hh : p.hole = true <;> simp [hh]

/-- the packet loop of `_fetch_and_process_packet` never runs out of the fuel the model gives it (one more than the packets queued) -/
theorem fpPackets_fuel : ∀ (f : Nat) (s : VF), s.os.q.length < f → ((fpPackets f).run s).1 ≠ some FUEL := by
  intro f
  induction f with
  | zero => intro s h; omega
  | succ f ih =>
      intro s h
      unfold fpPackets
      rw [run_get_bind]
      simp only []
      by_cases h1 : s.os.packetout.1 = -1
      · rw [if_pos h1, run_set_bind, run_pure]
        simp [OV_HOLE, Generated.OV_HOLE, FUEL]
      · rw [if_neg h1]
        by_cases h2 : s.os.packetout.1 > 0
        · rw [if_pos h2, run_set_bind]
          have hl := packetout_shorter s.os (by omega)
          split
          · split
            · rw [run_pure]; simp [OV_EFAULT, Generated.OV_EFAULT, FUEL]
            · rw [run_modify_bind]
              split
              · rw [run_modify_bind, run_pure]; simp [FUEL]
              · rw [run_pure]; simp [FUEL]
          · apply ih
            show s.os.packetout.2.2.2.q.length < f
            omega
        · rw [if_neg h2, run_pure]; simp

theorem run_getNextPage (ph : Phys) (b : Int) (s : VF) :
    (getNextPage ph b).run s = (((nextPage ph s.cur b).1, (nextPage ph s.cur b).2.1),
      { s with offset := (nextPage ph s.cur b).2.2.off, fill := (nextPage ph s.cur b).2.2.fill }) := rfl

theorem run_bind_eq {α β : Type} (m : M α) (k : α → M β) (s : VF) : ((m >>= k).run s) = (k (m.run s).1).run (m.run s).2 := by
  show (StateT.bind m k) s = (k (m s).1) (m s).2
  unfold StateT.bind
  simp only [bind]
  cases hm : m s
  rfl

/-- the page loop never runs out of fuel: every round consumes a page -/
theorem fpPage_fuel (ph : Phys) (hlen : ∀ p ∈ ph.pages, 0 < p.len) (readp spanp : Bool) :
    ∀ (f : Nat) (s : VF), ahead ph s.offset < f → ((fpPage ph readp spanp f).run s).1.1 ≠ FUEL := by
  intro f
  induction f with
  | zero => intro s h; omega
  | succ f ih =>
      intro s h
      unfold fpPage
      by_cases hr : (!readp) = true
      · rw [if_pos hr, run_pure]; simp [FUEL]
      · rw [if_neg hr, run_bind_eq, run_getNextPage]
        simp only []
        by_cases hneg : (nextPage ph s.cur (-1)).1 < 0
        · rw [if_pos hneg, run_pure]; simp [OV_EOF, Generated.OV_EOF, FUEL]
        · rw [if_neg hneg, run_get_bind]
          simp only []
          have hp := nextPage_progress ph hlen s.cur (-1) (by omega)
          split
          · split
            · split
              · rw [run_pure]; simp [OV_EOF, Generated.OV_EOF, FUEL]
              · rw [run_bind_eq]
                split <;> (first | (rw [run_modify_bind, run_pure]; simp [FUEL]) | (rw [run_pure]; simp [FUEL]))
            · apply ih
              show ahead ph (nextPage ph s.cur (-1)).2.2.off < f
              have : s.cur.off = s.offset := rfl
              rw [this] at hp
              omega
          · rw [run_pure]; simp [FUEL]

theorem fpPackets_offset : ∀ (f : Nat) (s : VF), ((fpPackets f).run s).2.offset = s.offset := by
  intro f
  induction f with
  | zero => intro s; rfl
  | succ f ih =>
      intro s
      unfold fpPackets
      rw [run_get_bind]
      simp only []
      split
      · rfl
      · split
        · rw [run_set_bind]
          split
          · split
            · rfl
            · rw [run_modify_bind]
              split
              · rfl
              · rfl
          · rw [ih]
        · rfl

theorem makeDecodeReady_offset (s : VF) : (makeDecodeReady.run s).2.offset = s.offset := by
  unfold makeDecodeReady
  rw [run_get_bind]
  split
  · rfl
  · split <;> rfl

/-- the page loop only moves forward, and a page handed on has been consumed -/
theorem fpPage_progress (ph : Phys) (hlen : ∀ p ∈ ph.pages, 0 < p.len) (readp spanp : Bool) :
    ∀ (f : Nat) (s : VF),
      (((fpPage ph readp spanp f).run s).1.1 = 0 ∧ ((fpPage ph readp spanp f).run s).1.2.2 = false →
        ahead ph ((fpPage ph readp spanp f).run s).2.offset < ahead ph s.offset) := by
  intro f
  induction f with
  | zero => intro s h; exact absurd (show FUEL = (0:Int) from h.1) (by decide)
  | succ f ih =>
      intro s
      unfold fpPage
      by_cases hr : (!readp) = true
      · rw [if_pos hr, run_pure]; intro h; exact absurd (show true = false from h.2) (by decide)
      · rw [if_neg hr, run_bind_eq, run_getNextPage]
        simp only []
        by_cases hneg : (nextPage ph s.cur (-1)).1 < 0
        · rw [if_pos hneg, run_pure]; intro h; exact absurd (show true = false from h.2) (by decide)
        · rw [if_neg hneg, run_get_bind]
          simp only []
          have hp := nextPage_progress ph hlen s.cur (-1) (by omega)
          have hcur : s.cur.off = s.offset := rfl
          rw [hcur] at hp
          split
          · split
            · split
              · rw [run_pure]; intro h; exact absurd (show true = false from h.2) (by decide)
              · rw [run_bind_eq]
                split
                · rw [run_modify_bind, run_pure]; intro _; exact hp
                · rw [run_pure]; intro _; exact hp
            · intro h
              have := ih _ h
              have e : ahead ph ({ s with offset := (nextPage ph s.cur (-1)).2.2.off, fill := (nextPage ph s.cur (-1)).2.2.fill } : VF).offset
                  = ahead ph (nextPage ph s.cur (-1)).2.2.off := rfl
              omega
          · rw [run_pure]; intro _; exact hp

theorem makeDecodeReady_notfuel (s : VF) : (makeDecodeReady.run s).1 ≠ FUEL := by
  unfold makeDecodeReady
  rw [run_get_bind]
  split
  · rw [run_pure]; show (0 : Int) ≠ FUEL; decide
  · split
    · rw [run_pure]; show OV_EFAULT ≠ FUEL; decide
    · rw [run_set_bind, run_pure]; show (0 : Int) ≠ FUEL; decide

theorem makeDecodeReady_seekable2 (s : VF) : (makeDecodeReady.run s).2.seekable = s.seekable := by
  unfold makeDecodeReady
  rw [run_get_bind]
  split
  · rfl
  · split <;> rfl

theorem fpPackets_seekable : ∀ (f : Nat) (s : VF), ((fpPackets f).run s).2.seekable = s.seekable := by
  intro f
  induction f with
  | zero => intro s; rfl
  | succ f ih =>
      intro s
      unfold fpPackets
      rw [run_get_bind]
      simp only []
      split
      · rfl
      · split
        · rw [run_set_bind]
          split
          · split
            · rfl
            · rw [run_modify_bind]
              split
              · rfl
              · rfl
          · rw [ih]
        · rfl

theorem fpPage_seekable (ph : Phys) (readp spanp : Bool) : ∀ (f : Nat) (s : VF), ((fpPage ph readp spanp f).run s).2.seekable = s.seekable := by
  intro f
  induction f with
  | zero => intro s; rfl
  | succ f ih =>
      intro s
      unfold fpPage
      split
      · rfl
      · rw [run_bind_eq, run_getNextPage]
        simp only []
        split
        · rfl
        · rw [run_get_bind]
          simp only []
          split
          · split
            · split
              · rfl
              · rw [run_bind_eq]
                split
                · rfl
                · rfl
            · rw [ih]
          · rfl

/-- **`_fetch_and_process_packet` terminates** on a seekable handle for every page table with positive page lengths: with one round of
    fuel per page still ahead of the cursor (the model gives it `2*pages + packets + 16`) the out-of-fuel sentinel is never returned -/
theorem fetchAndProcess_fuel (ph : Phys) (hlen : ∀ p ∈ ph.pages, 0 < p.len) (readp spanp : Bool) :
    ∀ (fuel : Nat) (s : VF), s.seekable = true → ahead ph s.offset < fuel → ((fetchAndProcess ph readp spanp fuel).run s).1 ≠ FUEL := by
  intro fuel
  induction fuel with
  | zero => intro s _ h; omega
  | succ fuel ih =>
      intro s hk h
      unfold fetchAndProcess
      rw [run_get_bind, run_bind_eq]
      -- the decoder set-up step
      generalize hm : (if s.ready = STREAMSET then makeDecodeReady else (pure 0 : M Int)).run s = r0
      have hr0 : r0.1 ≠ FUEL ∧ r0.2.offset = s.offset ∧ r0.2.seekable = true := by
        rw [← hm]
        split
        · exact ⟨makeDecodeReady_notfuel s, makeDecodeReady_offset s, by rw [makeDecodeReady_seekable2]; exact hk⟩
        · exact ⟨by rw [run_pure]; show (0 : Int) ≠ FUEL; decide, rfl, hk⟩
      obtain ⟨r0v, s1⟩ := r0
      simp only [] at hr0 ⊢
      split
      · rw [run_pure]; exact hr0.1
      · rw [run_get_bind, run_bind_eq]
        generalize hp : (if s1.ready = INITSET then fpPackets (s1.os.q.length + 1) else (pure none : M (Option Int))).run s1 = pr
        have hpr : pr.1 ≠ some FUEL ∧ pr.2.offset = s1.offset ∧ pr.2.seekable = true := by
          rw [← hp]
          split
          · exact ⟨fpPackets_fuel _ s1 (by omega), fpPackets_offset _ s1, by rw [fpPackets_seekable]; exact hr0.2.2⟩
          · exact ⟨by rw [run_pure]; simp, rfl, hr0.2.2⟩
        obtain ⟨prv, s2⟩ := pr
        simp only [] at hpr ⊢
        cases prv with
        | some r =>
            simp only []
            rw [run_pure]
            intro hh
            exact hpr.1 (congrArg some hh)
        | none =>
            simp only []
            unfold fpPageStep
            rw [run_get_bind]
            split
            · rw [run_pure]; show OV_EFAULT ≠ FUEL; decide
            · rw [run_bind_eq]
              have hf := fpPage_fuel ph hlen readp spanp (ph.pages.size + 1) s2 (by have := ahead_le ph s2.offset; omega)
              have hg := fpPage_progress ph hlen readp spanp (ph.pages.size + 1) s2
              have hsk := fpPage_seekable ph readp spanp (ph.pages.size + 1) s2
              generalize (fpPage ph readp spanp (ph.pages.size + 1)).run s2 = pg at hf hg hsk
              obtain ⟨⟨rc, og, stop⟩, s3⟩ := pg
              simp only [] at hf hg hsk ⊢
              split
              · rw [run_pure]; exact hf
              · rename_i hcont
                have hrc : rc = 0 ∧ stop = false := by
                  constructor
                  · by_cases e : rc = 0
                    · exact e
                    · exact absurd (Or.inr e) hcont
                  · cases stop
                    · rfl
                    · exact absurd (Or.inl rfl) hcont
                have hlt := hg hrc
                have hk3 : s3.seekable = true := by rw [hsk]; exact hpr.2.2
                have ha3 : ahead ph s3.offset < fuel := by
                  have e1 : s2.offset = s.offset := by rw [hpr.2.1, hr0.2.1]
                  rw [e1] at hlt; omega
                unfold fpAfterPage
                rw [run_get_bind]
                simp only []
                by_cases hc : s3.ready ≠ INITSET ∧ s3.ready < STREAMSET
                · rw [if_pos hc, if_pos hk3]
                  cases hl : linkOf s3 og.serial with
                  | none => exact ih s3 hk3 ha3
                  | some link =>
                      simp only []
                      rw [run_modify_bind]
                      exact ih _ hk3 ha3
                · rw [if_neg hc, run_modify_bind]
                  exact ih _ hk3 ha3

/-- **C03_fetch_and_process_terminates** — with the fuel the model actually gives it (`Phys.work`) `_fetch_and_process_packet` returns
    a packet, end of file or an error for every seekable handle state and every page table with positive page lengths — never the
    out-of-fuel sentinel -/
theorem C03_fetch_and_process_terminates (ph : Phys) (hlen : ∀ p ∈ ph.pages, 0 < p.len) (readp spanp : Bool) (s : VF)
    (hk : s.seekable = true) : ((fetchAndProcess ph readp spanp (fpFuel ph)).run s).1 ≠ FUEL := by
  apply fetchAndProcess_fuel ph hlen readp spanp _ s hk
  have := ahead_le ph s.offset
  unfold fpFuel Phys.work
  omega

/-- the two inner loops under their property names -/
theorem C03_packet_loop_terminates (s : VF) : ((fpPackets (s.os.q.length + 1)).run s).1 ≠ some FUEL :=
  fpPackets_fuel _ s (by omega)

theorem C03_page_loop_terminates (ph : Phys) (hlen : ∀ p ∈ ph.pages, 0 < p.len) (readp spanp : Bool) (s : VF) :
    ((fpPage ph readp spanp (ph.pages.size + 1)).run s).1.1 ≠ FUEL :=
  fpPage_fuel ph hlen readp spanp _ s (by have := ahead_le ph s.offset; omega)

end Vorbis.Props.C03
