import Vorbis.Header
import Vorbis.Proofs.Enc
import Vorbis.Proofs.Comment
/-!
# C05 — encoder output is a valid stream that the decoder consumes bit-for-bit

Proved here: the identification header round trip at the byte level (`C05_ident`), the comment
header round trip (`C05_comment`, from C16), and that the window flags the encoder writes agree with
the block sizes of the neighbouring packets (`C05_flags`, on the analysis bookkeeping model of C04).
The set-up header packer and the float-driven choice of floor posts and residue entries are not
modelled: those parts are decided per generated configuration by the check (C decoder and Lean
parser must accept and agree), which is testing and is labelled so.
-/
namespace Vorbis.Props.C05
open Vorbis Vorbis.Block

/-- `_vorbis_pack_info` as bytes: everything in it is byte aligned -/
def packIdent (channels rate : Nat) (brU brN brL : Nat) (b0 b1 : Nat) : Bytes :=
  Comment.preamble 1 ++ le32 0 ++ [UInt8.ofNat channels] ++ le32 rate ++ le32 brU ++ le32 brN ++ le32 brL ++
    [UInt8.ofNat (b0 + 16 * b1), 1]

/-- byte-level reading of the identification header (what `_vorbis_unpack_info` reads at byte
    boundaries): version, channels, rate, three bitrates, the two block-size exponents, framing -/
def unpackIdent (pkt : Bytes) : Option (Nat × Nat × Nat × Nat × Nat × Nat × Nat) :=
  match takeN 7 pkt with
  | some (pre, body) =>
      if pre ≠ Comment.preamble 1 then none else
      match readLe32 body with
      | some (ver, r1) =>
          if ver ≠ 0 then none else
          match r1 with
          | ch :: r2 =>
              match readLe32 r2 with
              | some (rate, r3) =>
                  match readLe32 r3 with
                  | some (bu, r4) =>
                      match readLe32 r4 with
                      | some (bn, r5) =>
                          match readLe32 r5 with
                          | some (bl, bsb :: fr :: _) =>
                              let b0 := bsb.toNat % 16
                              let b1 := bsb.toNat / 16
                              if rate < 1 ∨ ch.toNat < 1 ∨ 2 ^ b0 < 64 ∨ 2 ^ b1 < 2 ^ b0 ∨ 2 ^ b1 > 8192 ∨ fr.toNat % 2 ≠ 1 then none
                              else some (ch.toNat, rate, bu, bn, bl, b0, b1)
                          | _ => none
                      | none => none
                  | none => none
              | none => none
          | [] => none
      | none => none
  | none => none

/-- **C05_ident** — for every channel count 1..255, every rate 1..2^32-1, every bitrate triple and
every legal block-size pair, the identification header the encoder writes reads back with exactly
the same fields (channels, rate, bitrates, block sizes) and is accepted. -/
theorem C05_ident (channels rate brU brN brL b0 b1 : Nat)
    (hc : 1 ≤ channels ∧ channels ≤ 255) (hr : 1 ≤ rate ∧ rate < 4294967296)
    (hbu : brU < 4294967296) (hbn : brN < 4294967296) (hbl : brL < 4294967296)
    (hb : 6 ≤ b0 ∧ b0 ≤ b1 ∧ b1 ≤ 13) :
    unpackIdent (packIdent channels rate brU brN brL b0 b1) = some (channels, rate, brU, brN, brL, b0, b1) := by
  have hpre : takeN 7 (packIdent channels rate brU brN brL b0 b1)
      = some (Comment.preamble 1, le32 0 ++ [UInt8.ofNat channels] ++ le32 rate ++ le32 brU ++ le32 brN ++ le32 brL ++
          [UInt8.ofNat (b0 + 16 * b1), 1]) := by
    simp [packIdent, takeN, Comment.preamble]
  have hch : (UInt8.ofNat channels).toNat = channels := by
    simp only [UInt8.toNat_ofNat']; omega
  have hbs : (UInt8.ofNat (b0 + 16 * b1)).toNat = b0 + 16 * b1 := by
    simp only [UInt8.toNat_ofNat']; omega
  have h0 : (b0 + 16 * b1) % 16 = b0 := by omega
  have h1 : (b0 + 16 * b1) / 16 = b1 := by omega
  have p0 : (64 : Nat) ≤ 2 ^ b0 := by
    have : (2:Nat) ^ 6 ≤ 2 ^ b0 := Nat.pow_le_pow_right (by decide) hb.1
    simpa using this
  have p1 : (2 : Nat) ^ b0 ≤ 2 ^ b1 := Nat.pow_le_pow_right (by decide) hb.2.1
  have p2 : (2 : Nat) ^ b1 ≤ 8192 := by
    have : (2:Nat) ^ b1 ≤ 2 ^ 13 := Nat.pow_le_pow_right (by decide) hb.2.2
    simpa using this
  have hone : (1 : UInt8).toNat % 2 = 1 := by decide
  have e0 : ∀ rest, readLe32 (le32 0 ++ rest) = some (0, rest) := fun rest => readLe32_le32 0 (by decide) rest
  have e1 : ∀ rest, readLe32 (le32 rate ++ rest) = some (rate, rest) := fun rest => readLe32_le32 rate hr.2 rest
  have e2 : ∀ rest, readLe32 (le32 brU ++ rest) = some (brU, rest) := fun rest => readLe32_le32 brU hbu rest
  have e3 : ∀ rest, readLe32 (le32 brN ++ rest) = some (brN, rest) := fun rest => readLe32_le32 brN hbn rest
  have e4 : ∀ rest, readLe32 (le32 brL ++ rest) = some (brL, rest) := fun rest => readLe32_le32 brL hbl rest
  have hcond : ¬ (rate < 1 ∨ channels < 1 ∨ 2 ^ b0 < 64 ∨ 2 ^ b1 < 2 ^ b0 ∨ 2 ^ b1 > 8192 ∨ ¬ (1 : UInt8).toNat % 2 = 1) := by
    rw [hone]; omega
  unfold unpackIdent
  rw [hpre]
  simp only [ne_eq, not_true_eq_false, if_false, List.append_assoc, List.singleton_append, List.cons_append,
    List.nil_append, e0, e1, e2, e3, e4, hch, hbs, h0, h1, hcond]

/-- **C05_comment** — the comment header the encoder writes is accepted by the decoder with the
same content (this is C16_headerin). -/
theorem C05_comment (vendor : Bytes) (cs : List Bytes)
    (h : vendor.length < 2147483648 ∧ cs.length < 2147483648 ∧ ∀ c ∈ cs, c.length < 2147483648) :
    Comment.unpack (Comment.pack vendor cs) = some (vendor, cs) := by
  obtain ⟨hv, hn, hc⟩ := h
  have hpre : takeN 7 (Comment.pack vendor cs)
      = some (Comment.preamble 3, le32 vendor.length ++ vendor ++ le32 cs.length ++ Comment.packEntries cs ++ [1]) := by
    simp [Comment.pack, takeN, Comment.preamble]
  have hlen : (Comment.pack vendor cs).length
      = 7 + 4 + vendor.length + 4 + (Comment.packEntries cs).length + 1 := by
    simp [Comment.pack, Comment.preamble, le32_length]; omega
  unfold Comment.unpack
  rw [hpre]
  simp only [if_true]
  unfold Comment.unpackBody
  simp only [List.append_assoc]
  rw [readLe32_le32 _ (by omega)]
  simp only [Option.bind_eq_bind, Option.bind_some]
  rw [if_neg (by omega), if_neg (by rw [hlen]; omega)]
  rw [takeN_append]
  simp only [Option.bind_some]
  rw [readLe32_le32 _ (by omega)]
  simp only [Option.bind_some]
  have hge := Comment.packEntries_length_ge cs
  rw [if_neg (by omega), if_neg (by simp; omega)]
  rw [Comment.unpackEntries_pack cs [1] hc]
  simp

/-- **C05_flags** — two consecutive blocks handed out by the encoder (nothing but buffer/wrote calls,
which do not touch the window state, in between): the second block's "previous window" flag is the
first block's size flag, and the first block's "next window" flag is the second block's size flag.
So every long packet's two window flags agree with the block sizes of its neighbours. -/
theorem C05_flags (z : Sizes) (s : SzOk z) (e : Enc) (bp bp2 : Int) (e1 e1' e2 : Enc) (p q : Pkt)
    (hcW : e.cW = z.bs1 / 2)
    (h1 : e.blockout z bp = (e1, some p)) (hp : p.eos = false)
    (hsame : e1'.lW = e1.lW ∧ e1'.W = e1.W ∧ e1'.cW = e1.cW)      -- buffer / wrote in between
    (h2 : e1'.blockout z bp2 = (e2, some q)) :
    q.lW = p.W ∧ p.nW = q.W := by
  have a := blockout_windows z s e bp hcW e1 p h1
  obtain ⟨_, _, hmove⟩ := a
  obtain ⟨m1, m2, m3⟩ := hmove hp
  have b := blockout_windows z s e1' bp2 (by rw [hsame.2.2, m3]) e2 q h2
  exact ⟨by rw [b.1, hsame.1, m1], by rw [b.2.1, hsame.2.1, m2]⟩

/-- buffer and wrote leave the window state alone (the `hsame` premise above) -/
theorem C05_flags_untouched (z : Sizes) (e : Enc) (n : Int) :
    ((e.buffer n).lW = e.lW ∧ (e.buffer n).W = e.W ∧ (e.buffer n).cW = e.cW) ∧
    ((e.wrote z n).1.lW = e.lW ∧ (e.wrote z n).1.W = e.W ∧ (e.wrote z n).1.cW = e.cW) := by
  constructor
  · unfold Enc.buffer; split <;> exact ⟨rfl, rfl, rfl⟩
  · unfold Enc.wrote Enc.buffer
    simp only []
    repeat' split
    all_goals (first | exact ⟨rfl, rfl, rfl⟩ | (simp only []; repeat' split) <;> exact ⟨rfl, rfl, rfl⟩)

end Vorbis.Props.C05
