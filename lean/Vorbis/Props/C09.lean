import Vorbis.File.Model
namespace Vorbis.Props.C09
open Vorbis Vorbis.File

theorem foldl_map_eq (l : List Nat) (f g : Nat → Int) (a : Int) (h : ∀ i ∈ l, g i = f i) :
    l.foldl (fun a i => a + f i) a = (l.map g).foldl (· + ·) a := by
  induction l generalizing a with
  | nil => rfl
  | cons x xs ih =>
      simp only [List.foldl_cons, List.map_cons]
      rw [h x (List.mem_cons_self)]
      exact ih _ (fun i hi => h i (List.mem_cons_of_mem _ hi))

theorem pcmTotal_link (vf : VF) (h : vf.ready ≥ OPENED) (hs : vf.seekable = true) (i : Nat) (hi : i < vf.links) :
    pcmTotal vf (i : Int) = vf.pcmlengths[i * 2 + 1]! := by
  have h1 : ¬ (vf.ready < OPENED) := by omega
  have e1 : ¬ ((i : Int) ≥ (vf.links : Int)) := by omega
  have e2 : ¬ ((i : Int) < 0) := by omega
  unfold pcmTotal
  simp only [h1, hs, if_false, Bool.not_true, Bool.false_eq_true, false_or, e1, e2, Int.toNat_natCast]

/-- the overall length is the sum of the per-link lengths (what `ov_pcm_total(vf,-1)` adds up) -/
theorem C09_total_is_sum (vf : VF) (h : vf.ready ≥ OPENED) (hs : vf.seekable = true) :
    pcmTotal vf (-1) = ((List.range vf.links).map (fun i => pcmTotal vf (i : Nat))).foldl (· + ·) 0 := by
  have h1 : ¬ (vf.ready < OPENED) := by omega
  have hneg : ¬ ((-1 : Int) ≥ (vf.links : Int)) := by omega
  have hlt : ((-1 : Int) < 0) := by omega
  have e : pcmTotal vf (-1) = sumLen vf.pcmlengths vf.links := by
    unfold pcmTotal
    simp only [h1, hs, if_false, Bool.not_true, Bool.false_eq_true, false_or, hneg, hlt, if_true]
  rw [e]
  unfold sumLen
  exact foldl_map_eq _ _ _ 0 (fun i hi => pcmTotal_link vf h hs i (List.mem_range.mp hi))

end Vorbis.Props.C09
