import Vorbis.File.Model
import Vorbis.Proofs.Open
namespace Vorbis.Props.C09
open Vorbis Vorbis.File

theorem foldl_map_eq (l : List Nat) (f g : Nat → Int) (a : Int) (h : ∀ i ∈ l, g i = f i) :
    l.foldl (fun a i => a + f i) a = (l.map g).foldl (· + ·) a := by
  induction l generalizing a with
  | nil => rfl
  | cons x xs ih =>
      simp only [List.foldl_cons, List.map_cons]
      rw [h x (List.mem_cons_self)]
      exact ih _ (fun i hi => h i (List.mem_cons_of_mem _ hi))

theorem pcmTotal_link (vf : VF) (h : vf.ready ≥ OPENED) (hs : vf.seekable = true) (i : Nat) (hi : i < vf.links) :
    pcmTotal vf (i : Int) = vf.pcmlengths[i * 2 + 1]! := by
  have h1 : ¬ (vf.ready < OPENED) := by omega
  have e1 : ¬ ((i : Int) ≥ (vf.links : Int)) := by omega
  have e2 : ¬ ((i : Int) < 0) := by omega
  unfold pcmTotal
  simp only [h1, hs, if_false, Bool.not_true, Bool.false_eq_true, false_or, e1, e2, Int.toNat_natCast]

/-- the overall length is the sum of the per-link lengths (what `ov_pcm_total(vf,-1)` adds up) -/
theorem C09_total_is_sum (vf : VF) (h : vf.ready ≥ OPENED) (hs : vf.seekable = true) :
    pcmTotal vf (-1) = ((List.range vf.links).map (fun i => pcmTotal vf (i : Nat))).foldl (· + ·) 0 := by
  have h1 : ¬ (vf.ready < OPENED) := by omega
  have hneg : ¬ ((-1 : Int) ≥ (vf.links : Int)) := by omega
  have hlt : ((-1 : Int) < 0) := by omega
  have e : pcmTotal vf (-1) = sumLen vf.pcmlengths vf.links := by
    unfold pcmTotal
    simp only [h1, hs, if_false, Bool.not_true, Bool.false_eq_true, false_or, hneg, hlt, if_true]
  rw [e]
  unfold sumLen
  exact foldl_map_eq _ _ _ 0 (fun i hi => pcmTotal_link vf h hs i (List.mem_range.mp hi))

theorem find_range_first (n i : Nat) (P : Nat → Bool) (hi : i < n) (hp : P i = true) (hmin : ∀ j, j < i → P j = false) :
    (List.range n).find? P = some i := by
  induction n with
  | zero => omega
  | succ m ih =>
      rw [List.range_succ, List.find?_append]
      by_cases him : i < m
      · rw [ih him]; rfl
      · have : i = m := by omega
        subst this
        have hnone : (List.range i).find? P = none := by
          rw [List.find?_eq_none]
          intro x hx
          have := hmin x (List.mem_range.mp hx)
          simp [this]
        rw [hnone]
        simp [hp]

/-- every page is attributed to the right link: with distinct serial numbers in the link table, the serial number of link `i` is
    looked up as link `i` (what `_fetch_and_process_packet` does at a link boundary to find set-up, channel count and length) -/
theorem C09_serial_finds_its_link (vf : VF) (i : Nat) (hi : i < vf.links)
    (hd : ∀ j, j < i → vf.serialnos[j]! ≠ vf.serialnos[i]!) : linkOf vf vf.serialnos[i]! = some i := by
  unfold linkOf
  apply find_range_first _ _ _ hi
  · simp
  · intro j hj; simpa using hd j hj

/-- and a serial number that is in no link is in none -/
theorem C09_foreign_serial_is_ignored (vf : VF) (s : Int) (h : ∀ j, j < vf.links → vf.serialnos[j]! ≠ s) : linkOf vf s = none := by
  unfold linkOf
  rw [List.find?_eq_none]
  intro x hx
  simpa using h x (List.mem_range.mp hx)

example : linkOf { links := 3, serialnos := #[11, 22, 33] } 22 = some 1 ∧ linkOf { links := 3, serialnos := #[11, 22, 33] } 44 = none := by decide

theorem sumLen_succ (pl : Array Int) (n : Nat) : sumLen pl (n + 1) = sumLen pl n + pl[n * 2 + 1]! := by
  unfold sumLen
  rw [List.range_succ, List.foldl_append]
  rfl

/-- with non-negative link lengths no link's samples are lost from the total -/
theorem link_le_total (pl : Array Int) : ∀ n, (∀ i, i < n → 0 ≤ pl[2 * i + 1]!) →
    0 ≤ sumLen pl n ∧ ∀ i, i < n → pl[2 * i + 1]! ≤ sumLen pl n := by
  intro n
  induction n with
  | zero => intro _; exact ⟨by unfold sumLen; simp, fun i hi => by omega⟩
  | succ k ih =>
      intro h
      obtain ⟨h0, hi⟩ := ih (fun i hi => h i (by omega))
      have hk : 0 ≤ pl[k * 2 + 1]! := by have := h k (by omega); rwa [Nat.mul_comm] at this
      rw [sumLen_succ]
      refine ⟨by omega, fun i hik => ?_⟩
      by_cases e : i = k
      · subst e
        have : pl[2 * i + 1]! = pl[i * 2 + 1]! := by rw [Nat.mul_comm]
        omega
      · have := hi i (by omega)
        omega

open Vorbis.Proofs.Open in
/-- **C09_open_accounts_for_every_link** — whatever the bytes of the file are: when the open-time scan of a seekable source
(`_open_seekable2` with `_bisect_forward_serialno`, any number of links, any nesting depth of the bisection) reports success, every
table of the handle has exactly one entry per link (`offsets` one more), every link length is non-negative, the first link starts at
byte 0, the end of the last link is the offset of a page that is really in the file (the backward page search reports nothing
else: `prevPageSerial_sound`), and the final positioning seek has not disturbed any of it. -/
theorem C09_open_accounts_for_every_link (ph : Phys) (bos : List Int) (s : VF) (hk : s.seekable = true)
    (h : ((open2 ph bos).run s).1 = 0) :
    let t := ((open2 ph bos).run s).2
    0 < t.links ∧ t.offsets.size = t.links + 1 ∧ t.dataoffsets.size = t.links ∧ t.serialnos.size = t.links ∧
    t.pcmlengths.size = 2 * t.links ∧ t.infos.size = t.links ∧ (∀ i, i < t.links → 0 ≤ t.pcmlengths[2 * i + 1]!) ∧
    t.offsets[0]! = 0 ∧ 0 ≤ t.offsets[t.links]! ∧ ∃ p, p ∈ ph.pages ∧ p.off = t.offsets[t.links]! := by
  obtain ⟨n, hn, sh, hl, h0, he, hp⟩ := open2_post ph bos s hk h
  intro t
  have el : t.links = n := sh.links
  rw [el]
  exact ⟨hn, sh.offs, sh.doffs, sh.sers, sh.pls, sh.infos, hl, h0, he, hp⟩

open Vorbis.Proofs.Open in
/-- **C09_every_link_counts_towards_the_total** — after a successful open the overall length (what `ov_pcm_total(vf,-1)` adds up) is at
least the length of every single link: no link's samples cancel against another's. -/
theorem C09_every_link_counts_towards_the_total (ph : Phys) (bos : List Int) (s : VF) (hk : s.seekable = true)
    (h : ((open2 ph bos).run s).1 = 0) :
    let t := ((open2 ph bos).run s).2
    ∀ i, i < t.links → t.pcmlengths[2 * i + 1]! ≤ sumLen t.pcmlengths t.links := by
  intro t
  exact (link_le_total t.pcmlengths t.links (C09_open_accounts_for_every_link ph bos s hk h).2.2.2.2.2.2.1).2

/-- non-vacuity: the five-page example file opens (both stages) with return code 0: one link of 288 samples after an initial offset of 32 -/
example : ((open1 Vorbis.Props.C07.exPhys true).run {}).1.1 = 0 ∧
    ((open2 Vorbis.Props.C07.exPhys [7]).run ((open1 Vorbis.Props.C07.exPhys true).run {}).2).1 = 0 ∧
    ((open2 Vorbis.Props.C07.exPhys [7]).run ((open1 Vorbis.Props.C07.exPhys true).run {}).2).2.tab.pcmlengths = #[32, 288] := by
  decide +kernel

end Vorbis.Props.C09
