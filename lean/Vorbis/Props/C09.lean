import Vorbis.File.Model
namespace Vorbis.Props.C09
open Vorbis Vorbis.File

theorem foldl_map_eq (l : List Nat) (f g : Nat → Int) (a : Int) (h : ∀ i ∈ l, g i = f i) :
    l.foldl (fun a i => a + f i) a = (l.map g).foldl (· + ·) a := by
  induction l generalizing a with
  | nil => rfl
  | cons x xs ih =>
      simp only [List.foldl_cons, List.map_cons]
      rw [h x (List.mem_cons_self)]
      exact ih _ (fun i hi => h i (List.mem_cons_of_mem _ hi))

theorem pcmTotal_link (vf : VF) (h : vf.ready ≥ OPENED) (hs : vf.seekable = true) (i : Nat) (hi : i < vf.links) :
    pcmTotal vf (i : Int) = vf.pcmlengths[i * 2 + 1]! := by
  have h1 : ¬ (vf.ready < OPENED) := by omega
  have e1 : ¬ ((i : Int) ≥ (vf.links : Int)) := by omega
  have e2 : ¬ ((i : Int) < 0) := by omega
  unfold pcmTotal
  simp only [h1, hs, if_false, Bool.not_true, Bool.false_eq_true, false_or, e1, e2, Int.toNat_natCast]

/-- the overall length is the sum of the per-link lengths (what `ov_pcm_total(vf,-1)` adds up) -/
theorem C09_total_is_sum (vf : VF) (h : vf.ready ≥ OPENED) (hs : vf.seekable = true) :
    pcmTotal vf (-1) = ((List.range vf.links).map (fun i => pcmTotal vf (i : Nat))).foldl (· + ·) 0 := by
  have h1 : ¬ (vf.ready < OPENED) := by omega
  have hneg : ¬ ((-1 : Int) ≥ (vf.links : Int)) := by omega
  have hlt : ((-1 : Int) < 0) := by omega
  have e : pcmTotal vf (-1) = sumLen vf.pcmlengths vf.links := by
    unfold pcmTotal
    simp only [h1, hs, if_false, Bool.not_true, Bool.false_eq_true, false_or, hneg, hlt, if_true]
  rw [e]
  unfold sumLen
  exact foldl_map_eq _ _ _ 0 (fun i hi => pcmTotal_link vf h hs i (List.mem_range.mp hi))

theorem find_range_first (n i : Nat) (P : Nat → Bool) (hi : i < n) (hp : P i = true) (hmin : ∀ j, j < i → P j = false) :
    (List.range n).find? P = some i := by
  induction n with
  | zero => omega
  | succ m ih =>
      rw [List.range_succ, List.find?_append]
      by_cases him : i < m
      · rw [ih him]; rfl
      · have : i = m := by omega
        subst this
        have hnone : (List.range i).find? P = none := by
          rw [List.find?_eq_none]
          intro x hx
          have := hmin x (List.mem_range.mp hx)
          simp [this]
        rw [hnone]
        simp [hp]

/-- every page is attributed to the right link: with distinct serial numbers in the link table, the serial number of link `i` is
    looked up as link `i` (what `_fetch_and_process_packet` does at a link boundary to find set-up, channel count and length) -/
theorem C09_serial_finds_its_link (vf : VF) (i : Nat) (hi : i < vf.links)
    (hd : ∀ j, j < i → vf.serialnos[j]! ≠ vf.serialnos[i]!) : linkOf vf vf.serialnos[i]! = some i := by
  unfold linkOf
  apply find_range_first _ _ _ hi
  · simp
  · intro j hj; simpa using hd j hj

/-- and a serial number that is in no link is in none -/
theorem C09_foreign_serial_is_ignored (vf : VF) (s : Int) (h : ∀ j, j < vf.links → vf.serialnos[j]! ≠ s) : linkOf vf s = none := by
  unfold linkOf
  rw [List.find?_eq_none]
  intro x hx
  simpa using h x (List.mem_range.mp hx)

example : linkOf { links := 3, serialnos := #[11, 22, 33] } 22 = some 1 ∧ linkOf { links := 3, serialnos := #[11, 22, 33] } 44 = none := by decide

end Vorbis.Props.C09
