import Vorbis.Generated.Symbols
/-!
# C18 — independent codec instances do not interfere; results are reproducible

What a theorem can carry here is the *static* part: the objects compiled from the current tree have
no shared mutable state and call nothing that has hidden process-wide state. The lists are
regenerated from the compiled objects (`objdump`, `nm`) and the preprocessed sources on every run
(`tools/extract_more.py`), so a new static buffer, a new global, or a new call to `rand`/`strtok`/
`setlocale`/`exit` makes one of these kernel-checked obligations fail.
Thread interleavings and uninitialised-memory reads of the real C are explored by the differential
runs of the check (testing), not by these theorems.
-/
namespace Vorbis.Props.C18
open Vorbis.Generated

/-- pointer tables that land in `.data.rel.local` only because they need relocation -/
def allowWritable : List String :=
  ["_floor_mapping_8", "_floor_mapping_11", "_floor_mapping_16", "_floor_mapping_44"]

/-- constants written as non-const statics -/
def allowStatics : List (String × String) :=
  [("smallft.c", "ntryh"), ("smallft.c", "tpi"), ("smallft.c", "hsqt2"), ("smallft.c", "taur"),
   ("smallft.c", "taui"), ("smallft.c", "sqrt2"), ("psy.c", "FLOOR1_fromdB_LOOKUP")]

/-- libc/libm entry points without hidden shared state (allocation, memory, strings, math, sorting,
    and the stdio calls behind vorbisfile's default callbacks) -/
def allowImports : List String :=
  ["malloc", "calloc", "realloc", "free", "memcpy", "memmove", "memset", "memcmp", "strlen", "strcpy",
   "strcat", "qsort", "sin", "cos", "sincos", "atan", "acos", "exp", "log", "pow", "sqrt", "floor", "ceil",
   "ldexp", "rint", "fabs", "fopen", "fclose", "fread", "fseek", "fseeko", "ftell", "__errno_location",
   "sinf", "cosf", "sqrtf", "floorf", "rintf", "logf", "expf", "powf", "atanf", "exit",
   "__stack_chk_fail", "__memcpy_chk", "__memset_chk", "__memmove_chk", "__strcpy_chk", "__strcat_chk"]

/-- **C18_no_mutable_globals** — nothing in the library objects lives in a writable section except
four pointer tables, and no statement stores to those. -/
theorem C18_no_mutable_globals :
    (∀ t ∈ writableSymbols, t.2.2 ∈ allowWritable) ∧ writableStores = [] := by
  decide

/-- **C18_statics_never_stored** — every non-const `static` object in the sources is one of seven
numeric constants, and no statement stores to any of them: there is no static scratch buffer,
counter or cache shared between instances. -/
theorem C18_statics_never_stored :
    (∀ t ∈ sourceStatics, t ∈ allowStatics) ∧ staticStores = [] := by
  decide

/-- **C18_imports_stateless** — the library calls nothing with hidden process-wide state (no
`rand`, `strtok`, `setlocale`, `localtime`, `getenv`, `signal`, `abort`), and `exit` is referenced
only from `floor1.o` (the unreachable branch of the encoder's `floor1_fit`), never from the decoder. -/
theorem C18_imports_stateless :
    (∀ t ∈ importedSymbols, t.2 ∈ allowImports) ∧ (∀ t ∈ importedSymbols, t.2 = "exit" → t.1 = "floor1.o") := by
  decide

/-- **C18_errno_is_set_before_it_is_read** — the thread's `errno` is the one piece of ambient state
the library looks at (to tell a read error from end of data). Every function that mentions it
assigns it before its first other use, so what an unrelated earlier call on the thread left there
cannot reach a decision (today the only such function is vorbisfile's `_get_data`). Textual order of
the accesses in the function body, regenerated from the sources on every run. -/
theorem C18_errno_is_set_before_it_is_read :
    ∀ t ∈ errnoUses, t.2.2.toList.head? = some 'W' := by
  decide

example : errnoUses ≠ [] := by decide

end Vorbis.Props.C18
