import Vorbis.Spec.Decode
/-
C01 — the specification decoder (Vorbis/Spec/Decode.lean) is the reference the library is compared with; what is
*proved* about it are the parts that are logic: the floor-1 dB table compiled into the library is the specification's table,
entry by entry; the number of samples a packet finishes is what §4.3.8 says (quarter of the previous block plus quarter of this
one, nothing for the first packet), for every channel; line rendering and the inverse coupling keep their shapes.
Sample values are compared numerically by the check (double-precision reference vs the library's single precision).
-/
namespace Vorbis.Props.C01
open Vorbis Vorbis.Spec
set_option linter.unusedSimpArgs false

/-- the 256-entry inverse dB table in lib/floor1.c (regenerated from the source on every run) is the table printed in the
    specification (regenerated from doc/Vorbis_I_spec.html), compared as exact decimal literals -/
theorem C01_floor1_table : Generated.floor1_fromdB = Generated.spec_fromdB := by decide +kernel

theorem C01_floor1_table_size : Generated.spec_fromdB.length = 256 := by decide +kernel

/-- §4.3.8: a decodable packet that is not the first one finishes, on every channel, exactly
    `previous block / 4 + this block / 4` samples; the first one finishes none -/
theorem C01_sample_count (st : Stream) (pkt : ByteArray) (n : Nat) (blk : Array (Array Float)) (eop : Bool)
    (hd : decodeBlock st pkt = some (n, blk, eop)) :
    (∀ prev, st.prev = some prev →
      ∃ out, (st.packet pkt).2 = some (out, eop) ∧ out.size = st.channels ∧
        ∀ ch, (h : ch < out.size) → out[ch].size = st.prevN / 2 / 2 + n / 2 / 2) ∧
    (st.prev = none → ∃ out, (st.packet pkt).2 = some (out, eop) ∧ out.size = st.channels ∧ ∀ ch, (h : ch < out.size) → out[ch].size = 0) := by
  constructor
  · intro prev hp
    unfold Stream.packet
    simp only [hd, hp]
    refine ⟨_, rfl, ?_, ?_⟩
    · simp
    · intro ch h
      simp
  · intro hp
    unfold Stream.packet
    simp only [hd, hp]
    refine ⟨_, rfl, ?_, ?_⟩
    · simp
    · intro ch h
      simp

/-- a packet the specification tells the decoder to discard leaves the stream state alone and yields nothing -/
theorem C01_undecodable_is_skipped (st : Stream) (pkt : ByteArray) (hd : decodeBlock st pkt = none) :
    (st.packet pkt).2 = none ∧ (st.packet pkt).1.prevN = st.prevN := by
  unfold Stream.packet
  simp [hd]

/-- inverse coupling (§4.3.5): the four sign cases; in each the two outputs are the magnitude and magnitude ∓ angle -/
theorem C01_uncouple_cases (m a : Float) :
    uncouple m a = (if m > 0.0 then (if a > 0.0 then (m, m - a) else (m + a, m)) else (if a > 0.0 then (m, m + a) else (m - a, m))) := rfl

/-- the windows of §4.3.1 have the block's length -/
theorem C01_window_size (n pn nn : Nat) : (window n pn nn).size = n := by
  simp [window]

end Vorbis.Props.C01
