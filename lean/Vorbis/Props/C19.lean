import Vorbis.File.Model
import Vorbis.Props.C12
namespace Vorbis.Props.C19
open Vorbis Vorbis.File Vorbis.Block Vorbis.Props.C07

/-- `_ov_splice` on one channel: the first `n` samples become `d*w² + s*(1-w²)`, the rest is left alone.
    Samples and window are kept abstract (any commutative-ring-like `α` with the three operations). -/
def splice {α : Type} (mul add : α → α → α) (one_sub : α → α) (n : Nat) (w s d : List α) : List α :=
  d.zipIdx.map fun (x, i) =>
    if i < n then
      match w[i]?, s[i]? with
      | some wi, some si => add (mul x (mul wi wi)) (mul si (one_sub (mul wi wi)))
      | _, _ => x
    else x

/-- cross-lapping alters only the first `n` samples of the primed audio -/
theorem C19_splice_touches_only_lap_region {α : Type} (mul add : α → α → α) (one_sub : α → α) (n : Nat) (w s d : List α)
    (i : Nat) (hi : n ≤ i) : (splice mul add one_sub n w s d)[i]? = d[i]? := by
  unfold splice
  simp only [List.getElem?_map, List.getElem?_zipIdx]
  cases h : d[i]? with
  | none => simp
  | some x =>
      have : ¬ (0 + i < n) := by omega
      simp [this]
      intro h2
      omega

/-- and it keeps the length -/
theorem C19_splice_length {α : Type} (mul add : α → α → α) (one_sub : α → α) (n : Nat) (w s d : List α) :
    (splice mul add one_sub n w s d).length = d.length := by
  simp [splice]

/-- a lapped seek whose argument the plain seek would refuse is refused before any audio is consumed:
    the handle is exactly as it was -/
theorem C19_lap_guard_rejects_unchanged (inRange : VF → Bool) (body : M Int) (s : VF)
    (hr : s.ready ≥ OPENED) (hs : s.seekable = true) (hbad : inRange s = false) :
    (lapGuard inRange body).run s = (OV_EINVAL, s) := by
  have h1 : ¬ (s.ready < OPENED) := by omega
  simp [lapGuard, StateT.run, bind, StateT.bind, get, getThe, MonadStateOf.get, StateT.get, pure, StateT.pure, h1, hs, hbad]

/-- lapout is idempotent on the handle: a second call before the next block changes nothing
    (unless nothing had been decoded at all, when both calls do nothing to the buffer) -/
theorem C19_lapout_idempotent (s : VF) :
    lapoutVF (lapoutVF s) = lapoutVF s ∨ (lapoutVF s).lapped = false := by
  by_cases h : (lapoutVF s).lapped = true
  · left
    generalize lapoutVF s = t at h
    unfold lapoutVF
    simp [h]
  · right
    simpa using h

/-- **the seek inside a lapped seek is the plain seek**: after any history of reads and seeks, collecting the lapping samples at the
    old position (which decodes ahead and consumes audio) leaves a handle on which the sample seek produces exactly the state and
    return value it produces without the collecting — position, link, packet queue, decoder.  What a lapped seek adds is therefore
    confined to what follows the seek: priming and the splice (`C19_splice_touches_only_lap_region`) -/
theorem C19_inner_seek_is_the_plain_seek (ph : Phys) (s0 s : VF) (hk : s0.seekable = true) (hr : s0.ready = OPENED)
    (h : Proofs.FileInv.Reach ph s0 s) (pos : Int) (hp : 0 ≤ pos ∧ pos ≤ sumAll s0.tab)
    (link : Nat) (cur : Cur) (os : OStream) (po : Int) (hplan : planSeekPage ph s0.tab pos = .land link cur os po) :
    (pcmSeek ph (rawSeek ph) pos).run ((lapPrefix ph).run s).2 = (pcmSeek ph (rawSeek ph) pos).run s := by
  have hJ := Proofs.FileInv.reach_inv (Proofs.FileInv.jOps s0) ph s0 s h ⟨Proofs.FileInv.sinv_of_opened s0 hk hr, sameFile_refl s0⟩
  have hJ' := Proofs.FileInv.pres_lapPrefix (Proofs.FileInv.jOps s0) ph s hJ
  have hab : SameFile ((lapPrefix ph).run s).2 s := sameFile_trans (sameFile_symm hJ'.2) hJ.2
  have hsk : ((lapPrefix ph).run s).2.seekable = true := hJ'.1.1
  have etab : ((lapPrefix ph).run s).2.tab = s0.tab := hJ'.2.tab.symm
  exact C07_seek_history_independent ph _ pos _ s hab hJ'.1.2.2 hJ.1.2.2 hsk hJ'.1.2.1 hJ.1.2.1 (by rw [etab]; exact hp) link cur os po (by rw [etab]; exact hplan)

/-- non-vacuity on the five-page example file: freshly opened handle, sample seek to 200 -/
example : (pcmSeek C07.exPhys (rawSeek C07.exPhys) 200).run ((lapPrefix C07.exPhys).run C07.exFresh).2 =
    (pcmSeek C07.exPhys (rawSeek C07.exPhys) 200).run C07.exFresh := by
  obtain ⟨l, c, o, po, h⟩ := C07.isLand_iff _ (show C07.SeekPlan.isLand (planSeekPage C07.exPhys C07.exFresh.tab 200) = true by decide +kernel)
  exact C19_inner_seek_is_the_plain_seek C07.exPhys C07.exFresh C07.exFresh rfl (by decide) .refl 200 (by decide +kernel) l c o po h

end Vorbis.Props.C19
