import Vorbis.File.Model
namespace Vorbis.Props.C19
open Vorbis Vorbis.File Vorbis.Block

/-- `_ov_splice` on one channel: the first `n` samples become `d*w² + s*(1-w²)`, the rest is left alone.
    Samples and window are kept abstract (any commutative-ring-like `α` with the three operations). -/
def splice {α : Type} (mul add : α → α → α) (one_sub : α → α) (n : Nat) (w s d : List α) : List α :=
  d.zipIdx.map fun (x, i) =>
    if i < n then
      match w[i]?, s[i]? with
      | some wi, some si => add (mul x (mul wi wi)) (mul si (one_sub (mul wi wi)))
      | _, _ => x
    else x

/-- cross-lapping alters only the first `n` samples of the primed audio -/
theorem C19_splice_touches_only_lap_region {α : Type} (mul add : α → α → α) (one_sub : α → α) (n : Nat) (w s d : List α)
    (i : Nat) (hi : n ≤ i) : (splice mul add one_sub n w s d)[i]? = d[i]? := by
  unfold splice
  simp only [List.getElem?_map, List.getElem?_zipIdx]
  cases h : d[i]? with
  | none => simp
  | some x =>
      have : ¬ (0 + i < n) := by omega
      simp [this]
      intro h2
      omega

/-- and it keeps the length -/
theorem C19_splice_length {α : Type} (mul add : α → α → α) (one_sub : α → α) (n : Nat) (w s d : List α) :
    (splice mul add one_sub n w s d).length = d.length := by
  simp [splice]

/-- a lapped seek whose argument the plain seek would refuse is refused before any audio is consumed:
    the handle is exactly as it was -/
theorem C19_lap_guard_rejects_unchanged (inRange : VF → Bool) (body : M Int) (s : VF)
    (hr : s.ready ≥ OPENED) (hs : s.seekable = true) (hbad : inRange s = false) :
    (lapGuard inRange body).run s = (OV_EINVAL, s) := by
  have h1 : ¬ (s.ready < OPENED) := by omega
  simp [lapGuard, StateT.run, bind, StateT.bind, get, getThe, MonadStateOf.get, StateT.get, pure, StateT.pure, h1, hs, hbad]

/-- lapout is idempotent on the handle: a second call before the next block changes nothing
    (unless nothing had been decoded at all, when both calls do nothing to the buffer) -/
theorem C19_lapout_idempotent (s : VF) :
    lapoutVF (lapoutVF s) = lapoutVF s ∨ (lapoutVF s).lapped = false := by
  by_cases h : (lapoutVF s).lapped = true
  · left
    generalize lapoutVF s = t at h
    unfold lapoutVF
    simp [h]
  · right
    simpa using h

end Vorbis.Props.C19
