/-
Model of the hard-limit part of `vorbis_bitrate_addblock` (lib/bitrate.c, "enforce min", "enforce max",
boundary check / truncate / pad, reservoir update).

The average-bitrate floater (double arithmetic) is an *oracle parameter*: it only chooses the
starting blob `c0 ∈ [0,14]`; every theorem quantifies over all `c0` and all blob sizes.
Blob sizes are bytes (`oggpack_bytes(vbi->packetblob[i])`), targets and the reservoir are bits.
-/
namespace Vorbis.Bitrate

structure Cfg where
  minb : Int      -- bm->min_bitsper
  maxb : Int      -- bm->max_bitsper
  spl  : Int      -- bm->short_per_long
  RB   : Int      -- bi->reservoir_bits
  desired : Int   -- (long)(bi->reservoir_bits*bi->reservoir_bias)
  deriving Repr

/-- `rint(num/den)` for `den > 0` in the default rounding mode (nearest, ties to even) -/
def rintDiv (num den : Int) : Int :=
  let q := num / den
  let r := num % den
  if 2 * r < den then q else if 2 * r > den then q + 1 else if q % 2 = 0 then q else q + 1

/-- `vorbis_bitrate_init`: the per-half-short-block budgets, the long/short ratio and the initial reservoir fill, from the configured
    rates (bit/s), the sample rate and the block sizes -/
def Cfg.ofRates (minRate maxRate rate bs0 bs1 RB desired : Int) : Cfg :=
  { minb := rintDiv (minRate * (bs0 / 2)) rate, maxb := rintDiv (maxRate * (bs0 / 2)) rate, spl := bs1 / bs0, RB := RB, desired := desired }

def PACKETBLOBS : Nat := 15

def minT (c : Cfg) (W : Bool) : Int := if W then c.minb * c.spl else c.minb
def maxT (c : Cfg) (W : Bool) : Int := if W then c.maxb * c.spl else c.maxb

/-- "do we need to force the bitrate up?" loop -/
def minLoop (b : Nat → Nat) (R mt : Int) (choice : Nat) (this : Int) : Nat × Int :=
  if R - (mt - this) < 0 then
    if choice + 1 ≥ PACKETBLOBS then (choice + 1, this)
    else minLoop b R mt (choice + 1) (8 * (b (choice + 1) : Int))
  else (choice, this)
termination_by PACKETBLOBS - choice
decreasing_by simp only [PACKETBLOBS] at *; omega

/-- "do we need to force the bitrate down?" loop; `none` is `choice<0` -/
def maxLoop (b : Nat → Nat) (R mt RB : Int) : (choice : Nat) → (this : Int) → Option Nat × Int
  | 0, this => if R + (this - mt) > RB then (none, this) else (some 0, this)
  | c + 1, this => if R + (this - mt) > RB then maxLoop b R mt RB c (8 * (b c : Int)) else (some (c + 1), this)

/-- final packet size in bits and the blob it came from -/
def select (c : Cfg) (R : Int) (W : Bool) (b : Nat → Nat) (c0 : Nat) : Nat × Int :=
  let mn := minT c W
  let mx := maxT c W
  let t0 : Int := 8 * (b c0 : Int)
  let (c1, t1) := if c.minb > 0 ∧ t0 < mn then minLoop b R mn c0 t0 else (c0, t0)
  let (c2, t2) := if c.maxb > 0 ∧ t1 > mx then maxLoop b R mx c.RB c1 t1 else (some c1, t1)
  match c2 with
  | none =>
      let maxsize := Int.tdiv (mx + (c.RB - R)) 8
      if (b 0 : Int) > maxsize then (0, 8 * maxsize) else (0, t2)
  | some ch =>
      let ch' := if ch ≥ PACKETBLOBS then PACKETBLOBS - 1 else ch
      let minsize := Int.tdiv (mn - R + 7) 8
      let bytes : Int := if minsize > (b ch' : Int) then minsize else (b ch' : Int)
      (ch', 8 * bytes)

/-- "min and max reservoir" update -/
def update (c : Cfg) (R : Int) (W : Bool) (this : Int) : Int :=
  let mn := minT c W
  let mx := maxT c W
  if c.minb > 0 ∨ c.maxb > 0 then
    if mx > 0 ∧ this > mx then R + (this - mx)
    else if mn > 0 ∧ this < mn then R + (this - mn)
    else if R > c.desired then
      if mx > 0 then (if R + (this - mx) < c.desired then c.desired else R + (this - mx))
      else c.desired
    else
      if mn > 0 then (if R + (this - mn) > c.desired then c.desired else R + (this - mn))
      else c.desired
  else R

/-- one managed block: new reservoir, emitted bits, chosen blob -/
def addblock (c : Cfg) (R : Int) (W : Bool) (b : Nat → Nat) (c0 : Nat) : Int × Int × Nat :=
  let (ch, bits) := select c R W b c0
  (update c R W bits, bits, ch)

/-- one input block as the analysis stage hands it to the rate manager -/
structure Block where
  W : Bool
  b : Nat → Nat
  c0 : Nat

/-- run over a whole sequence; returns final reservoir and the list of (W, bits) -/
def run (c : Cfg) : Int → List Block → Int × List (Bool × Int)
  | R, [] => (R, [])
  | R, blk :: rest =>
      let (R', bits, _) := addblock c R blk.W blk.b blk.c0
      let (Rf, out) := run c R' rest
      (Rf, (blk.W, bits) :: out)

end Vorbis.Bitrate
