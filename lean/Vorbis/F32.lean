/-
Exact IEEE-754 round-to-nearest-even of a rational to a binary format with `p` significand bits
(p = 24: single, p = 53: double), for the normal range. Used to follow the few float operations that
decide an array index in the encoder set-up (`get_setup_template`).
A rational is `num / den` with `den > 0`.
-/
namespace Vorbis.F32

abbrev Rat' := Int × Nat

/-- round-half-even of `a / b` (`b > 0`) to an integer -/
def rneDiv (a : Int) (b : Nat) : Int :=
  let q := a / (b : Int)
  let r := a % (b : Int)
  if 2 * r < b then q else if 2 * r > b then q + 1 else if q % 2 = 0 then q else q + 1

/-- floor(log2(n/d)) for n, d > 0 -/
def ilog2Rat (n d : Nat) : Int :=
  let e : Int := (Nat.log2 n : Int) - (Nat.log2 d : Int)
  -- 2^e ≤ n/d < 2^(e+1) up to an adjustment of one
  let ge (e : Int) : Bool := if e ≥ 0 then decide (d * 2 ^ e.toNat ≤ n) else decide (d ≤ n * 2 ^ (-e).toNat)
  if ge e then (if ge (e + 1) then e + 1 else e) else e - 1

/-- nearest value with `p` significand bits (ties to even); 0 stays 0 -/
def roundP (p : Nat) (x : Rat') : Rat' :=
  let (num, den) := x
  if num = 0 ∨ den = 0 then (0, 1)
  else
    let neg := decide (num < 0)
    let n := num.natAbs
    let e := ilog2Rat n den
    let k : Int := (p : Int) - 1 - e          -- scale so that the significand is an integer in [2^(p-1), 2^p]
    let m : Int := if k ≥ 0 then rneDiv ((n : Int) * 2 ^ k.toNat) den else rneDiv n (den * 2 ^ (-k).toNat)
    let r : Rat' := if k ≥ 0 then (m, 2 ^ k.toNat) else (m * 2 ^ (-k).toNat, 1)
    if neg then (-r.1, r.2) else r

def r32 := roundP 24
def r64 := roundP 53

def sub (a b : Rat') : Rat' := (a.1 * b.2 - b.1 * a.2, a.2 * b.2)
def add (a b : Rat') : Rat' := (a.1 * b.2 + b.1 * a.2, a.2 * b.2)
def div (a b : Rat') : Rat' :=       -- b ≠ 0
  if b.1 > 0 then (a.1 * b.2, a.2 * b.1.toNat) else (-(a.1 * b.2), a.2 * (-b.1).toNat)
def floorR (a : Rat') : Int := a.1 / (a.2 : Int)
def lt (a b : Rat') : Bool := decide (a.1 * b.2 < b.1 * a.2)

end Vorbis.F32
