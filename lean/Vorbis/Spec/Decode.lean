import Vorbis.Setup
import Vorbis.Generated.Floor1Table
/-
The Vorbis I audio-packet decode procedure written from the *specification* (doc/Vorbis_I_spec.html §3.2 codebooks,
§4.3 audio packet decode, §6 floor 0, §7 floor 1, §8 residues, §9 helper functions), not from lib/*.c:
Huffman decision trees instead of the library's packed tables, direct-form inverse MDCT, the floor curves and windows from
their defining formulas.  Integer layers (codeword decode, floor-1 Y values and line rendering, residue partition walk,
coupling case analysis) are exact; the sample arithmetic is done in double precision (`Float`), so the comparison with the
library (single precision, reordered sums) carries a tolerance.  Set-up parsing is shared with C02 (`Vorbis/Setup.lean`).
-/
namespace Vorbis.Spec
open Vorbis Vorbis.Setup

deriving instance Inhabited for Setup.Mode, Setup.Residue, Setup.Mapping, Setup.Floor1, Setup.Floor0
instance : Inhabited Setup.Floor := ⟨.f1 default⟩

/-- reading inside an audio packet: `none` = end of packet (every decode step has its own rule for it) -/
abbrev R := OptionT (StateM Reader)

/-- failure keeps the cursor where it got to (and a read past the end leaves the reader dead), as in the bit packer -/
def bits (n : Nat) : R Nat := OptionT.mk fun r =>
  let (v, r') := r.read n
  if v < 0 then (none, r') else (some v.toNat, r')

/-- run `p`, turning its failure into `none` without losing the cursor -/
def attempt {α} (p : R α) : R (Option α) := OptionT.lift p.run

/-! ### §3.2.1 Huffman decision tree -/

inductive Tree
  | empty
  | leaf (e : Nat)
  | node (l r : Tree) (full : Bool)
  deriving Inhabited

def Tree.isFull : Tree → Bool
  | .empty => false
  | .leaf _ => true
  | .node _ _ f => f

/-- put entry `e` at the leftmost free position of depth `d`; `none` if the tree has no room (over-specified) -/
def Tree.insert (e : Nat) : Nat → Tree → Option Tree
  | 0, .empty => some (.leaf e)
  | 0, _ => none
  | _ + 1, .leaf _ => none
  | d + 1, .empty =>
      match Tree.insert e d .empty with
      | some l => some (.node l .empty false)
      | none => none
  | d + 1, .node l r _ =>
      if !l.isFull then
        match Tree.insert e d l with
        | some l' => some (.node l' r (l'.isFull && r.isFull))
        | none =>
            match Tree.insert e d r with
            | some r' => some (.node l r' (l.isFull && r'.isFull))
            | none => none
      else if !r.isFull then
        match Tree.insert e d r with
        | some r' => some (.node l r' (l.isFull && r'.isFull))
        | none => none
      else none

def buildTree (lengths : Array Nat) : Tree :=
  (lengths.toList.zipIdx).foldl (fun t (len, e) => if len = 0 then t else (t.insert e len).getD t) .empty

/-- read one codeword: a 0 bit goes left.  A book with a single used entry reads one bit and yields that entry -/
def decodeWord (t : Tree) (single : Option Nat) : R Nat :=
  match single with
  | some e => do let _ ← bits 1; pure e
  | none =>
      let rec go (fuel : Nat) (t : Tree) : R Nat :=
        match fuel, t with
        | _, .leaf e => pure e
        | 0, _ => failure
        | _, .empty => failure
        | f + 1, .node l r _ => do
            let b ← bits 1
            go f (if b = 0 then l else r)
      go 33 t

structure CB where
  book : Book
  tree : Tree
  single : Option Nat
  deriving Inhabited

def mkCB (b : Book) : CB :=
  let used := (b.lengthlist.toList.zipIdx).filter (fun p => p.1 > 0)
  { book := b, tree := buildTree b.lengthlist,
    single := match used with | [(_, e)] => some e | _ => none }

/-! ### §9.2.2 float32_unpack, §3.2.1 VQ lookup tables -/

def float32Unpack (x : Int) : Float :=
  let x := x % 4294967296
  let mant := x % 2097152
  let sign := x / 2147483648
  let expo := (x % 2147483648) / 2097152
  let m : Float := if sign ≠ 0 then -(Float.ofInt mant) else Float.ofInt mant
  m * Float.exp2 (Float.ofInt (expo - 788))

/-- value vector of entry `e` (lookup types 1 and 2) -/
def vqVector (b : Book) (e : Nat) : Array Float :=
  let minv := float32Unpack b.q_min
  let delta := float32Unpack b.q_delta
  let dim := b.dim.toNat
  if b.maptype = 1 then
    let vals := b.quantlist.size
    let (out, _, _) := (List.range dim).foldl (fun (st : Array Float × Float × Nat) _ =>
      let (acc, last, div) := st
      let off := (e / div) % vals
      let v := Float.ofInt b.quantlist[off]! * delta + minv + last
      (acc.push v, (if b.q_sequencep ≠ 0 then v else last), div * vals)) (#[], 0.0, 1)
    out
  else
    let (out, _) := (List.range dim).foldl (fun (st : Array Float × Float) i =>
      let (acc, last) := st
      let v := Float.ofInt b.quantlist[e * dim + i]! * delta + minv + last
      (acc.push v, (if b.q_sequencep ≠ 0 then v else last))) (#[], 0.0)
    out

def decodeVector (c : CB) : R (Array Float) := do
  let e ← decodeWord c.tree c.single
  pure (vqVector c.book e)

/-! ### §7 floor 1 -/

def lowNeighbor (xs : Array Int) (x : Nat) : Nat :=
  (List.range x).foldl (fun best n => if xs[n]! < xs[x]! ∧ (xs[n]! > xs[best]! ∨ ¬ (xs[best]! < xs[x]!)) then n else best) 0

def highNeighbor (xs : Array Int) (x : Nat) : Nat :=
  (List.range x).foldl (fun best n => if xs[n]! > xs[x]! ∧ (xs[n]! < xs[best]! ∨ ¬ (xs[best]! > xs[x]!)) then n else best) 1

def renderPoint (x0 y0 x1 y1 x : Int) : Int :=
  let dy := y1 - y0
  let adx := x1 - x0
  let ady := if dy < 0 then -dy else dy
  let err := ady * (x - x0)
  let off := err / adx
  if dy < 0 then y0 - off else y0 + off

/-- §9.2.7 render_line: integer Bresenham-like line into `v`, positions `x0 ≤ x < x1` below `n` -/
def renderLine (n : Nat) (x0 y0 x1 y1 : Int) (v : Array Int) : Array Int :=
  let dy := y1 - y0
  let adx := x1 - x0
  let base := Int.tdiv dy adx
  let sy : Int := if dy < 0 then base - 1 else base + 1
  let ady := (if dy < 0 then -dy else dy) - (if base < 0 then -base else base) * adx
  let v0 := if 0 ≤ x0 ∧ x0 < n then v.set! x0.toNat y0 else v
  let (v1, _, _) := (List.range (x1 - x0 - 1).toNat).foldl (fun (st : Array Int × Int × Int) (i : Nat) =>
    let (v, y, err) := st
    let x := x0 + 1 + (i : Int)
    let err1 := err + ady
    let (err2, y1') := if err1 ≥ adx then (err1 - adx, y + sy) else (err1, y + base)
    ((if 0 ≤ x ∧ x < n then v.set! x.toNat y1' else v), y1', err2)) (v0, y0, 0)
  v1

def fromdB (i : Int) : Float :=
  match Generated.spec_fromdB[i.toNat]? with
  | some (m, e) => Float.ofNat m * Float.exp (Float.ofInt e * Float.log 10.0)
  | none => 0.0

/-- §7.2.3 packet decode: the Y values, or `none` = "unused" (also on end of packet) -/
def floor1Decode (books : Array CB) (f : Floor1) : R (Option (Array Int)) := do
  let body : R (Array Int) := do
    let range : Nat := [256, 128, 86, 64][(f.mult - 1).toNat]!
    let y0 ← bits (ilogNat (range - 1))
    let y1 ← bits (ilogNat (range - 1))
    let mut ys : Array Int := #[(y0 : Int), (y1 : Int)]
    for cI in f.partitionclass do
      let c := cI.toNat
      let cdim := f.class_dim[c]!.toNat
      let cbits := f.class_subs[c]!.toNat
      let csub := 2 ^ cbits - 1
      let mut cval : Nat := 0
      if cbits > 0 then
        cval ← decodeWord books[f.class_book[c]!.toNat]!.tree books[f.class_book[c]!.toNat]!.single
      for _ in [0:cdim] do
        let book := f.class_subbook[c]![cval % (csub + 1)]!
        cval := cval / 2 ^ cbits
        if book ≥ 0 then
          let v ← decodeWord books[book.toNat]!.tree books[book.toNat]!.single
          ys := ys.push (v : Int)
        else ys := ys.push 0
    pure ys
  match ← attempt (bits 1) with
  | none => pure none
  | some 0 => pure none
  | some _ => attempt body        -- end of packet inside the floor: the channel is unused this frame

/-- Y values outside the table (possible only in streams no encoder writes; the specification leaves them undefined)
    are clamped the way the reference decoder does, before the line is drawn -/
def clamp255 (y : Int) : Int := if y < 0 then 0 else if y > 255 then 255 else y

/-- §7.2.4 curve computation: amplitude synthesis then line rendering; result is the linear floor for `n` bins -/
def floor1Curve (f : Floor1) (ys : Array Int) (n : Nat) : Array Float :=
  let xs := f.postlist
  let cnt := xs.size
  let range : Int := [256, 128, 86, 64][(f.mult - 1).toNat]!
  -- step 1
  let init : Array Int × Array Bool := (#[ys[0]!, ys[1]!], #[true, true])
  let (fy, flags) := (List.range (cnt - 2)).foldl (fun (st : Array Int × Array Bool) k =>
    let i := k + 2
    let (fy, fl) := st
    let lo := lowNeighbor xs i
    let hi := highNeighbor xs i
    let predicted := renderPoint xs[lo]! fy[lo]! xs[hi]! fy[hi]! xs[i]!
    let v := ys[i]!
    let highroom := range - predicted
    let lowroom := predicted
    let room := if highroom < lowroom then highroom * 2 else lowroom * 2
    if v ≠ 0 then
      let fl1 := (fl.set! lo true).set! hi true
      let fyv :=
        if v ≥ room then (if highroom > lowroom then v - lowroom + predicted else predicted - v + highroom - 1)
        else if v % 2 = 1 then predicted - (v + 1) / 2 else predicted + v / 2
      -- in a stream an encoder writes 0 ≤ fyv < range; outside that the specification is silent and the reference keeps 15 bits
      (fy.push (fyv % 32768), fl1.push true)
    else (fy.push predicted, fl.push false)) init
  -- step 2
  let order := (List.range cnt).toArray.qsort (fun a b => xs[a]! < xs[b]!)
  let floor0 : Array Int := Array.replicate n 0
  let (fl2, hx, hy) := (List.range (cnt - 1)).foldl (fun (st : Array Int × Int × Int) k =>
    let (v, hx, hy) := st
    let i := order[k + 1]!
    if flags[i]! then
      let ly := hy
      let lx := hx
      let hy' := clamp255 (fy[i]! * f.mult)
      let hx' := xs[i]!
      (renderLine n lx ly hx' hy' v, hx', hy')
    else (v, hx, hy)) (floor0, 0, clamp255 (fy[order[0]!]! * f.mult))
  let fl3 := if hx < n then (List.range (n - hx.toNat)).foldl (fun v k => v.set! (hx.toNat + k) hy) fl2 else fl2
  fl3.map (fun y => fromdB (if y < 0 then 0 else if y > 255 then 255 else y))

/-! ### §6 floor 0 -/

def pi : Float := 3.14159265358979323846
def bark (x : Float) : Float := 13.1 * Float.atan (0.00074 * x) + 2.24 * Float.atan (0.0000000185 * x * x) + 0.0001 * x

def bark32 (x : Float32) : Float :=
  (13.1 : Float32).toFloat * Float.atan ((0.00074 : Float32) * x).toFloat +
  (2.24 : Float32).toFloat * Float.atan (x * x * (1.85e-8 : Float32)).toFloat + ((1e-4 : Float32) * x).toFloat

/-- §6.2.2: amplitude and LSP coefficients, or `none` = unused -/
def floor0Decode (books : Array CB) (f : Floor0) : R (Option (Nat × Array Float)) := do
  let body : R (Array Float) := do
    let bn ← bits (ilogNat f.books.size)
    if bn ≥ f.books.size then failure
    let cb := books[f.books[bn]!.toNat]!
    let mut coeff : Array Float := #[]
    let mut last : Float := 0.0
    let order := f.order.toNat
    while coeff.size < order do
      let v ← decodeVector cb
      let tmp := v.map (· + last)
      last := tmp[tmp.size - 1]!
      coeff := coeff ++ tmp
      if tmp.size = 0 then failure
    pure (coeff.extract 0 order)
  match ← attempt (bits f.ampbits.toNat) with
  | none => pure none
  | some 0 => pure none
  | some amp =>
      match ← attempt body with
      | none => pure none
      | some c => pure (some (amp, c))

/-- §6.2.3 curve computation -/
def floor0Curve (f : Floor0) (amp : Nat) (coeff : Array Float) (n : Nat) : Array Float :=
  let order := f.order.toNat
  let bm := f.barkmap
  -- the bin a spectral line belongs to is an integer decided by a floating-point expression; at a bin edge single and double
  -- precision can disagree, so this one expression is evaluated with the reference's operand precisions (float products,
  -- double atan/sum), which is within the rounding latitude the specification's real-valued formula leaves
  let half : Float32 := Float32.ofInt f.rate / 2
  let scale : Float32 := (Float.ofInt bm / bark32 half).toFloat32
  let mapOf (i : Nat) : Int :=
    let foo := (bark32 (half / Float32.ofNat n * Float32.ofNat i) * scale.toFloat).floor.toInt64.toInt
    if foo < bm - 1 then foo else bm - 1
  let ampMax : Float := Float.ofNat (2 ^ f.ampbits.toNat - 1)
  let valueAt (m : Int) : Float :=
    let w := pi * Float.ofInt m / Float.ofInt bm
    let cw := Float.cos w
    let (p, q) :=
      if order % 2 = 1 then
        let p := (List.range ((order - 1) / 2)).foldl (fun a j => a * 4.0 * (Float.cos coeff[2 * j + 1]! - cw) * (Float.cos coeff[2 * j + 1]! - cw)) (1.0 - cw * cw)
        let q := (List.range ((order + 1) / 2)).foldl (fun a j => a * 4.0 * (Float.cos coeff[2 * j]! - cw) * (Float.cos coeff[2 * j]! - cw)) 0.25
        (p, q)
      else
        let p := (List.range (order / 2)).foldl (fun a j => a * 4.0 * (Float.cos coeff[2 * j + 1]! - cw) * (Float.cos coeff[2 * j + 1]! - cw)) ((1.0 - cw) / 2.0)
        let q := (List.range (order / 2)).foldl (fun a j => a * 4.0 * (Float.cos coeff[2 * j]! - cw) * (Float.cos coeff[2 * j]! - cw)) ((1.0 + cw) / 2.0)
        (p, q)
    Float.exp (0.11512925 * (Float.ofNat amp * Float.ofInt f.ampdB / (ampMax * Float.sqrt (p + q)) - Float.ofInt f.ampdB))
  (List.range n).toArray.map (fun i => valueAt (mapOf i))

/-! ### §8 residues -/

/-- decode `nvec` vectors of `len` values (types 0 and 1); `skip[j]` = do not decode.  End of packet keeps what was decoded -/
def residue01 (books : Array CB) (rs : Residue) (len : Nat) (skip : Array Bool) : R (Array (Array Float)) := OptionT.mk fun r0 =>
  let nvec := skip.size
  let psize := (rs.grouping).toNat
  let nclass := rs.partitions.toNat
  let cb := books[rs.groupbook.toNat]!
  let cw := cb.book.dim.toNat
  let lb := if rs.begin < len then rs.begin.toNat else len
  let le := if rs.end_ < len then rs.end_.toNat else len
  let nread := le - lb
  let pcount := nread / psize
  -- the flattened book list: stage s of class c is present iff bit s of secondstages[c]
  let bookOf (c s : Nat) : Option Nat :=
    if (rs.secondstages[c]!.toNat / 2 ^ s) % 2 = 1 then
      let before := (List.range c).foldl (fun a k => a + icount rs.secondstages[k]!.toNat) 0 +
                    (List.range s).foldl (fun a t => a + (rs.secondstages[c]!.toNat / 2 ^ t) % 2) 0
      some rs.booklist[before]!.toNat
    else none
  let vecs0 : Array (Array Float) := Array.replicate nvec (Array.replicate len 0.0)
  if skip.all id ∨ pcount = 0 ∨ cw = 0 then (some vecs0, r0)
  else Id.run do
    let mut vecs := vecs0
    let mut cls : Array (Array Nat) := Array.replicate nvec (Array.replicate (pcount + cw) 0)
    let mut r := r0
    let mut stop := false
    for pass in [0:8] do
      let mut pc := 0
      while pc < pcount ∧ !stop do
        if pass = 0 then
          for j in [0:nvec] do
            if !skip[j]! ∧ !stop then
              match (decodeWord cb.tree cb.single).run r with
              | (none, r') =>
                  r := r'
                  stop := true
              | (some t, r') =>
                  r := r'
                  -- a class word that encodes more digits than there are classes^cw combinations: the specification is
                  -- silent, the reference decoder treats it like end of packet; so does this model
                  if t ≥ nclass ^ cw then
                    stop := true
                  let mut temp := t
                  for ii in [0:cw] do
                    let i := cw - 1 - ii
                    cls := cls.set! j (cls[j]!.set! (i + pc) (temp % nclass))
                    temp := temp / nclass
        let mut i := 0
        while i < cw ∧ pc < pcount ∧ !stop do
          for j in [0:nvec] do
            if !skip[j]! ∧ !stop then
              match bookOf cls[j]![pc]! pass with
              | none => pure ()
              | some bk =>
                  let vb := books[bk]!
                  let d := vb.book.dim.toNat
                  let off := lb + pc * psize
                  if rs.type = 0 then
                    let step := psize / d
                    for k in [0:step] do
                      if !stop then
                        match (decodeVector vb).run r with
                        | (none, r') =>
                            r := r'
                            stop := true
                        | (some v, r') =>
                            r := r'
                            for t in [0:d] do
                              let idx := off + k + t * step
                              vecs := vecs.set! j (vecs[j]!.set! idx (vecs[j]![idx]! + v[t]!))
                  else
                    let mut k := 0
                    while k < psize ∧ !stop do
                      match (decodeVector vb).run r with
                      | (none, r') =>
                          r := r'
                          stop := true
                      | (some v, r') =>
                          r := r'
                          for t in [0:d] do
                            if k + t < psize then
                              let idx := off + k + t
                              vecs := vecs.set! j (vecs[j]!.set! idx (vecs[j]![idx]! + v[t]!))
                          k := k + d
          pc := pc + 1
          i := i + 1
    return (some vecs, r)

/-- §8.6.5 residue 2: one interleaved vector -/
def residueDecode (books : Array CB) (rs : Residue) (n2 : Nat) (skip : Array Bool) : R (Array (Array Float)) := do
  let ch := skip.size
  if rs.type = 2 then
    if skip.all id then pure (Array.replicate ch (Array.replicate n2 0.0))
    else
      let v ← residue01 books { rs with type := 1 } (n2 * ch) #[false]
      let flat := v[0]!
      pure ((List.range ch).toArray.map fun j => (List.range n2).toArray.map fun i => flat[i * ch + j]!)
  else residue01 books rs n2 skip

/-! ### §4.3.5 inverse coupling, §4.3.7 inverse MDCT, §4.3.1 window -/

def uncouple (m a : Float) : Float × Float :=
  if m > 0.0 then (if a > 0.0 then (m, m - a) else (m + a, m))
  else (if a > 0.0 then (m, m + a) else (m - a, m))

/-- direct-form inverse MDCT of `n/2` coefficients to `n` samples (the library's scaling: no 2/N factor) -/
def imdct (x : Array Float) : Array Float :=
  let n2 := x.size
  let n := 2 * n2
  (List.range n).toArray.map fun i =>
    (List.range n2).foldl (fun acc k =>
      acc + x[k]! * Float.cos (pi / Float.ofNat n2 * (Float.ofNat i + 0.5 + Float.ofNat n2 / 2.0) * (Float.ofNat k + 0.5))) 0.0

def vwin (i n : Nat) : Float :=
  let s := Float.sin ((Float.ofNat i + 0.5) / Float.ofNat n * pi / 2.0)
  Float.sin (pi / 2.0 * s * s)

/-- §4.3.1: window of a block of size `n` with neighbours' sizes `pn` (previous) and `nn` (next) -/
def window (n pn nn : Nat) : Array Float :=
  let lstart := n / 4 - pn / 4
  let lend := lstart + pn / 2
  let rstart := n * 3 / 4 - nn / 4
  let rend := rstart + nn / 2
  (List.range n).toArray.map fun i =>
    if i < lstart then 0.0
    else if i < lend then vwin (i - lstart) (pn / 2)
    else if i < rstart then 1.0
    else if i < rend then vwin (rend - 1 - i) (nn / 2)
    else 0.0

end Vorbis.Spec

namespace Vorbis.Spec
open Vorbis Vorbis.Setup

structure Stream where
  channels : Nat
  bs0 : Nat
  bs1 : Nat
  setup : Setup
  cbs : Array CB
  prev : Option (Array (Array Float))      -- windowed right half of the previous block, per channel
  prevN : Nat := 0

def Stream.init (channels bs0 bs1 : Nat) (s : Setup) : Stream :=
  { channels := channels, bs0 := bs0, bs1 := bs1, setup := s, cbs := s.books.map mkCB, prev := none }

structure Stages where
  mode : Nat
  long : Bool
  pf : Nat
  nf : Nat
  n : Nat
  used : Array Bool                  -- floor present, per channel
  ftype : Array Nat
  fpos : Array Nat                   -- bit position after each channel's floor
  res : Array (Array Float)          -- residue vectors as decoded
  spec : Array (Array Float)         -- after inverse coupling and the floor
  block : Array (Array Float)        -- windowed time-domain block
  eop : Bool                         -- the packet ended before decode did (a truncated, not a complete, packet)

/-- §4.3.2–4.3.7 for one packet, stage by stage; `none` = packet to be discarded -/
def decodeStages (st : Stream) (pkt : ByteArray) (withTime : Bool := true) : Option Stages := do
  let s := st.setup
  let prog : R Stages := do
    let t ← bits 1
    if t ≠ 0 then failure
    let modeN ← bits (ilogNat (s.modes.size - 1))
    if modeN ≥ s.modes.size then failure
    let mode := s.modes[modeN]!
    let long := mode.blockflag ≠ 0
    let n := if long then st.bs1 else st.bs0
    let (pf, nf) ← (if long then do let a ← bits 1; let b ← bits 1; pure (a, b) else pure (0, 0))
    let pn := if long then (if pf ≠ 0 then st.bs1 else st.bs0) else st.bs0
    let nn := if long then (if nf ≠ 0 then st.bs1 else st.bs0) else st.bs0
    let map := s.maps[mode.mapping.toNat]!
    let n2 := n / 2
    -- floors
    let mut floors : Array (Option (Array Float)) := #[]
    let mut ftype : Array Nat := #[]
    let mut fpos : Array Nat := #[]
    for ch in [0:st.channels] do
      let sub := if map.submaps > 1 then map.chmuxlist[ch]!.toNat else 0
      match s.floors[map.floorsubmap[sub]!.toNat]! with
      | .f1 f =>
          let ys ← floor1Decode st.cbs f
          floors := floors.push (ys.map fun y => floor1Curve f y n2)
          ftype := ftype.push 1
          fpos := fpos.push (let rr := (← (OptionT.lift get : R Reader)); if rr.dead then 8 * rr.data.size + 1 else rr.pos)
      | .f0 f =>
          let d ← floor0Decode st.cbs f
          floors := floors.push (d.map fun (amp, c) => floor0Curve f amp c n2)
          ftype := ftype.push 0
          fpos := fpos.push (let rr := (← (OptionT.lift get : R Reader)); if rr.dead then 8 * rr.data.size + 1 else rr.pos)
    -- nonzero vector propagate
    let mut nores : Array Bool := floors.map (·.isNone)
    for (m, a) in map.coupling do
      if !(nores[m.toNat]! ∧ nores[a.toNat]!) then
        nores := (nores.set! m.toNat false).set! a.toNat false
    -- residues, submap by submap
    let mut res : Array (Array Float) := Array.replicate st.channels (Array.replicate n2 0.0)
    for i in [0:map.submaps.toNat] do
      let chans := (List.range st.channels).filter fun ch => (if map.submaps > 1 then map.chmuxlist[ch]!.toNat else 0) = i
      let skip := (chans.map fun ch => nores[ch]!).toArray
      let rs := s.residues[map.residuesubmap[i]!.toNat]!
      let v := (← attempt (residueDecode st.cbs rs n2 skip)).getD (Array.replicate skip.size (Array.replicate n2 0.0))
      for (ch, k) in chans.zipIdx do
        res := res.set! ch v[k]!
    let res0 := res
    -- inverse coupling, last step first
    for (m, a) in map.coupling.reverse do
      let mv := res[m.toNat]!
      let av := res[a.toNat]!
      let pairs := (List.range n2).toArray.map fun i => uncouple mv[i]! av[i]!
      res := (res.set! m.toNat (pairs.map (·.1))).set! a.toNat (pairs.map (·.2))
    -- dot product, inverse MDCT, window
    let w := window n pn nn
    let mut out : Array (Array Float) := #[]
    let mut specs : Array (Array Float) := #[]
    for ch in [0:st.channels] do
      let spec : Array Float := match floors[ch]! with
        | some fl => (List.range n2).toArray.map fun i => fl[i]! * res[ch]![i]!
        | none => Array.replicate n2 0.0
      specs := specs.push spec
      if withTime then
        let td := imdct spec
        out := out.push ((List.range n).toArray.map fun i => td[i]! * w[i]!)
    let rEnd ← (OptionT.lift get : R Reader)
    pure { mode := modeN, long := long, pf := pf, nf := nf, n := n, used := floors.map (·.isSome), ftype := ftype, fpos := fpos,
           res := res0, spec := specs, block := out, eop := rEnd.dead }
  (prog.run (Reader.init pkt)).1

def decodeBlock (st : Stream) (pkt : ByteArray) : Option (Nat × Array (Array Float) × Bool) :=
  (decodeStages st pkt).map fun g => (g.n, g.block, g.eop)

/-- §4.3.8 overlap-add: the samples this packet finishes (none for the first packet) and the new state -/
def Stream.packet (st : Stream) (pkt : ByteArray) : Stream × Option (Array (Array Float) × Bool) :=
  match decodeBlock st pkt with
  | none => (st, none)
  | some (n, blk, eop) =>
      let c := n / 2
      let right := blk.map fun v => v.extract c n
      let st' := { st with prev := some right, prevN := n }
      match st.prev with
      | none => (st', some (Array.replicate st.channels #[], eop))
      | some prev =>
          let p := st.prevN / 2
          let len := p / 2 + c / 2
          let out := (List.range st.channels).toArray.map fun ch =>
            let pv := prev[ch]!
            let cv := blk[ch]!
            (List.range len).toArray.map fun i =>
              if p ≥ c then
                -- long (or equal) into short (or equal)
                let off := p / 2 - c / 2
                if i < off then pv[i]! else pv[i]! + cv[i - off]!
              else
                let off := c / 2 - p / 2
                if i < p then pv[i]! + cv[off + i]! else cv[off + i]!
          (st', some (out, eop))

end Vorbis.Spec
