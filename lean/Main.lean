import Vorbis.Driver.C16
import Vorbis.Driver.C17
import Vorbis.Driver.C14
import Vorbis.Driver.C04
import Vorbis.Driver.C02
import Vorbis.Driver.C15
import Vorbis.Driver.C11
import Vorbis.Driver.C07
import Vorbis.Driver.C01
/-- `vdriver <stream>`: the executable model, one line in / canonical lines out (DESIGN §3.2). -/
def main (args : List String) : IO UInt32 := do
  match args with
  | ["c16"] => Vorbis.Driver.C16.main; return 0
  | ["c17"] => Vorbis.Driver.C17.main; return 0
  | ["c14"] => Vorbis.Driver.C14.main; return 0
  | ["c04"] => Vorbis.Driver.C04.main; return 0
  | ["c02"] => Vorbis.Driver.C02.main; return 0
  | ["c15"] => Vorbis.Driver.C15.main; return 0
  | ["c11"] => Vorbis.Driver.C11.main; return 0
  | ["c07"] => Vorbis.Driver.C07.main; return 0
  | ["c01"] => Vorbis.Driver.C01.main; return 0
  | _ => IO.eprintln "usage: vdriver <stream>"; return 2
