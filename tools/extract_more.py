"""Generators that need a compiler: static facts about the objects built from the current tree."""
import os, re, subprocess, sys

HERE = os.path.dirname(os.path.abspath(__file__))


def lean_str_list(xs):
    return "[" + ", ".join('"%s"' % x for x in xs) + "]"


def gen_symbols(write_if_changed, GEN, REPO):
    sys.path.insert(0, HERE)
    import vlib
    libd = vlib.build_lib("plain")
    writable, imports = [], []
    defined = set()
    per_obj_undef = {}
    for name in vlib.LIB_SRCS:
        o = os.path.join(libd, name + ".o")
        out = subprocess.run(["objdump", "-t", o], stdout=subprocess.PIPE, text=True).stdout
        for line in out.splitlines():
            m = re.match(r"^[0-9a-f]+\s.{7}\s(\S+)\s+[0-9a-f]+\s+(\S+)$", line)
            if not m:
                continue
            sec, sym = m.group(1), m.group(2)
            if sym.startswith(".") or sec in ("*UND*", "*ABS*"):
                continue
            defined.add(sym)
            if (re.match(r"^\.(data|bss|tbss|tdata)", sec) or sec == "*COM*") and not sec.startswith(".data.rel.ro"):
                writable.append((name + ".o", sec, sym))
        und = subprocess.run(["nm", "-u", o], stdout=subprocess.PIPE, text=True).stdout
        per_obj_undef[name] = set(l.split()[-1] for l in und.splitlines() if l.strip())
    for obj, syms in sorted(per_obj_undef.items()):
        for s in sorted(syms):
            if s not in defined and not s.startswith("ogg") and s != "_GLOBAL_OFFSET_TABLE_":
                imports.append((obj + ".o", s))
    # source level: non-const statics and stores to them (after preprocessing, so #if 0 regions are gone)
    statics, stores = [], []
    for name in vlib.LIB_SRCS:
        src = os.path.join(REPO, "lib", name + ".c")
        pre = subprocess.run(["gcc", "-E", "-P", "-D" + vlib.GUARD, "-I" + os.path.join(REPO, "include"), "-I" + os.path.join(REPO, "lib"), src],
                             stdout=subprocess.PIPE, stderr=subprocess.DEVNULL, text=True).stdout
        # keep only the part after the last system-header material: crude but effective — our own
        # declarations are the ones that also appear in the unpreprocessed file
        raw = open(src, encoding="latin-1").read()
        for m in re.finditer(r"(?m)^\s*static\s+(?!const\b)(?!inline\b)(?!__inline)([A-Za-z_][\w\s\*]*?)\b([A-Za-z_]\w*)\s*(\[[^\]]*\])*\s*(=|;)", pre):
            ty, var = m.group(1).strip(), m.group(2)
            if "const" in ty.split():
                continue
            if not re.search(r"\bstatic\b[^;(]*\b%s\b" % re.escape(var), raw):
                continue
            statics.append((name + ".c", var))
            body = pre
            for w in re.finditer(r"(?<![\w.>])%s\s*(\[[^\]]*\]\s*)*(=(?!=)|\+=|-=|\*=|/=|\+\+|--|\|=|&=)" % re.escape(var), body):
                # skip the initialiser of the declaration itself
                start = body.rfind("\n", 0, w.start()) + 1
                if re.match(r"\s*static\b", body[start:w.start()]):
                    continue
                stores.append((name + ".c", var))
    # stores to the symbols that live in writable sections
    wstores = []
    for name in vlib.LIB_SRCS:
        src = os.path.join(REPO, "lib", name + ".c")
        pre = subprocess.run(["gcc", "-E", "-P", "-D" + vlib.GUARD, "-I" + os.path.join(REPO, "include"), "-I" + os.path.join(REPO, "lib"), src],
                             stdout=subprocess.PIPE, stderr=subprocess.DEVNULL, text=True).stdout
        for _, _, sym in writable:
            for w in re.finditer(r"(?<![\w.>])%s\s*(\[[^\]]*\]\s*)*(=(?!=)|\+=|-=|\*=|/=|\+\+|--|\|=|&=)" % re.escape(sym), pre):
                start = pre.rfind("\n", 0, w.start()) + 1
                if re.match(r"\s*static\b", pre[start:w.start()]):
                    continue
                wstores.append((name + ".c", sym))
    # ambient per-thread state: every function that looks at errno, with its accesses in textual order (W: assignment, R: anything else)
    errno_uses = []
    for name in vlib.LIB_SRCS:
        raw = open(os.path.join(REPO, "lib", name + ".c"), encoding="latin-1").read()
        raw = re.sub(r"/\*.*?\*/", " ", raw, flags=re.S)
        raw = re.sub(r"(?m)^\s*#.*$", "", raw)
        depth, start, head_from = 0, None, 0
        for i, c in enumerate(raw):
            if c == "{":
                if depth == 0:
                    start = i
                    head = raw[head_from:i]
                depth += 1
            elif c == "}":
                depth -= 1
                if depth == 0 and start is not None:
                    body = raw[start:i]
                    m = re.findall(r"([A-Za-z_]\w*)\s*\([^()]*(?:\([^()]*\)[^()]*)*\)\s*$", head.strip())
                    acc = "".join("W" if re.match(r"\s*=(?!=)", body[w.end():]) else "R" for w in re.finditer(r"(?<![\w.>])errno\b", body))
                    if acc and m:
                        errno_uses.append((name + ".c", m[-1], acc))
                    head_from = i + 1
            elif c == ";" and depth == 0:
                head_from = i + 1
    out = ["/- GENERATED by tools/extract_more.py from the objects compiled from /repo (gcc -O2) and the",
           "   preprocessed sources — do not edit. -/", "namespace Vorbis.Generated", "",
           "/-- (object, section, symbol) of every symbol placed in a writable section -/",
           "def writableSymbols : List (String × String × String) := [" +
           ", ".join('("%s", "%s", "%s")' % t for t in writable) + "]", "",
           "/-- (object, symbol) of every symbol imported from outside libvorbis and libogg -/",
           "def importedSymbols : List (String × String) := [" + ", ".join('("%s", "%s")' % t for t in imports) + "]", "",
           "/-- (file, name) of every non-const `static` object in the library sources -/",
           "def sourceStatics : List (String × String) := [" + ", ".join('("%s", "%s")' % t for t in statics) + "]", "",
           "/-- (file, name) for every store to one of those statics outside its initialiser -/",
           "def staticStores : List (String × String) := [" + ", ".join('("%s", "%s")' % t for t in stores) + "]", "",
           "/-- (file, symbol) for every store to a symbol of a writable section outside its initialiser -/",
           "def writableStores : List (String × String) := [" + ", ".join('("%s", "%s")' % t for t in wstores) + "]", "",
           "/-- (file, function, accesses) for every function that mentions `errno`: its accesses in textual order, W = assignment, R = any other use -/",
           "def errnoUses : List (String × String × String) := [" + ", ".join('("%s", "%s", "%s")' % t for t in errno_uses) + "]", "",
           "end Vorbis.Generated", ""]
    return write_if_changed(os.path.join(GEN, "Symbols.lean"), "\n".join(out))


def run(write_if_changed, GEN, REPO):
    changed = []
    if gen_symbols(write_if_changed, GEN, REPO):
        changed.append("gen_symbols")
    return changed


# ---------------------------------------------------------------------------------------------
# encoder set-up templates (C15)

def _split_top(body):
    out, depth, cur = [], 0, ""
    for ch in body:
        if ch == "{":
            depth += 1
        elif ch == "}":
            depth -= 1
        if ch == "," and depth == 0:
            out.append(cur.strip())
            cur = ""
        else:
            cur += ch
    if cur.strip():
        out.append(cur.strip())
    return out


def _braced(src, start):
    """src[start] == '{' -> text inside the matching braces"""
    depth = 0
    for i in range(start, len(src)):
        if src[i] == "{":
            depth += 1
        elif src[i] == "}":
            depth -= 1
            if depth == 0:
                return src[start + 1:i]
    raise ValueError("unbalanced braces")


def gen_templates(write_if_changed, GEN, REPO):
    import glob
    sys.path.insert(0, HERE)
    import vlib
    os.makedirs(os.path.join(vlib.BUILD, "gen"), exist_ok=True)
    exe = os.path.join(vlib.BUILD, "gen", "dump_templates")
    p = subprocess.run(["gcc", "-w", "-I" + os.path.join(REPO, "include"), "-I" + os.path.join(REPO, "lib"),
                        os.path.join(HERE, "gen", "dump_templates.c"), "-o", exe, "-lm"], stdout=subprocess.PIPE, stderr=subprocess.PIPE, text=True)
    if p.returncode != 0:
        raise SystemExit("extract: dump_templates.c does not compile against the current tree:\n" + p.stderr[-2000:])
    rows = []
    for line in subprocess.run([exe], stdout=subprocess.PIPE, text=True).stdout.splitlines():
        t = line.split()
        kv = dict(x.split("=", 1) for x in t[2:])

        def ratlist(s):
            if s == "none":
                return None
            out = []
            for h in s.split(","):
                n, d = float.fromhex(h).as_integer_ratio()
                out.append((n, d))
            return out
        rows.append((int(t[1]), int(kv["mappings"]), int(kv["coupling"]), int(kv["srmin"]), int(kv["srmax"]), ratlist(kv["rate"]), ratlist(kv["quality"])))
    # textual part: array lengths and which template field points at which array
    text = ""
    for f in sorted(glob.glob(os.path.join(REPO, "lib", "modes", "*.h"))) + [os.path.join(REPO, "lib", "vorbisenc.c")]:
        text += re.sub(r"/\*.*?\*/", " ", open(f, encoding="latin-1").read(), flags=re.S) + "\n"
    arrays = {}
    for m in re.finditer(r"static\s+const\s+[\w\s\*]+?\b(\w+)\s*((?:\[[^\]]*\])+)\s*=\s*\{", text):
        name, dims = m.group(1), m.group(2)
        first = re.match(r"\[\s*(\d*)\s*\]", dims).group(1)
        body = _braced(text, m.end() - 1)
        n = int(first) if first else len(_split_top(body))
        arrays[name] = (n, body)
    fields = ["mappings", "rate_mapping", "quality_mapping", "coupling", "srmin", "srmax", "blocksize_short", "blocksize_long",
              "psy_tone_masteratt", "psy_tone_0dB", "psy_tone_dBsuppress", "psy_tone_adj_impulse", "psy_tone_adj_long", "psy_tone_adj_other",
              "psy_noiseguards", "psy_noise_bias_impulse", "psy_noise_bias_padding", "psy_noise_bias_trans", "psy_noise_bias_long",
              "psy_noise_dBsuppress", "psy_noise_compand", "psy_noise_compand_short_mapping", "psy_noise_compand_long_mapping",
              "psy_noise_normal_start", "psy_noise_normal_partition", "psy_noise_normal_thresh", "psy_ath_float", "psy_ath_abs", "psy_lowpass",
              "global_params", "global_mapping", "stereo_modes", "floor_books", "floor_params", "floor_mappings", "floor_mapping_list", "maps"]
    plus1 = {"rate_mapping", "quality_mapping", "psy_tone_masteratt", "psy_tone_0dB", "psy_tone_dBsuppress", "psy_tone_adj_impulse",
             "psy_tone_adj_long", "psy_tone_adj_other", "psy_noise_bias_impulse", "psy_noise_bias_padding", "psy_noise_bias_trans",
             "psy_noise_bias_long", "psy_noise_dBsuppress", "psy_noise_compand_short_mapping", "psy_noise_compand_long_mapping",
             "psy_ath_float", "psy_ath_abs", "psy_lowpass", "global_mapping", "stereo_modes"}
    exact = {"blocksize_short", "blocksize_long", "psy_noise_normal_thresh"}
    uses = []
    for m in re.finditer(r"static\s+const\s+ve_setup_data_template\s+(\w+)\s*=\s*\{", text):
        tname = m.group(1)
        items = _split_top(_braced(text, m.end() - 1))
        if len(items) != len(fields):
            raise SystemExit("extract: template %s has %d initialisers, expected %d" % (tname, len(items), len(fields)))
        d = dict(zip(fields, items))
        mp = int(d["mappings"])

        def use(field, arr, need):
            arr = arr.strip()
            if arr in ("NULL", "0"):
                return
            if arr not in arrays:
                raise SystemExit("extract: array %s (field %s of %s) not found" % (arr, field, tname))
            uses.append((tname, field, arr, arrays[arr][0], need))
        for f in sorted(plus1):
            use(f, d[f], mp + 1)
        for f in sorted(exact):
            use(f, d[f], mp)
        for f in ("psy_noise_normal_start", "psy_noise_normal_partition"):
            for a in _split_top(d[f].strip()[1:-1]):
                use(f, a, mp)
        fl = d["floor_mapping_list"].strip()
        if fl in arrays:
            for a in _split_top(arrays[fl][1]):
                use("floor_mapping_list", a, mp)

    def rl(l):
        if l is None:
            return "none"
        return "some [" + ", ".join("(%d, %d)" % (n, dd) for n, dd in l) + "]"
    out = ["/- GENERATED by tools/extract_more.py: the encoder set-up templates of lib/vorbisenc.c / lib/modes/*.h.",
           "   The numeric part is printed by a C program compiled against the current tree (doubles as exact",
           "   rationals num/den); the array lengths are parsed from the source text. Do not edit. -/",
           "namespace Vorbis.Generated", "",
           "structure TemplateRow where", "  idx : Nat", "  mappings : Nat", "  coupling : Int", "  srmin : Int", "  srmax : Int",
           "  rate : Option (List (Int × Nat))", "  quality : Option (List (Int × Nat))", "",
           "def templates : List TemplateRow := ["]
    out.append(",\n".join("  { idx := %d, mappings := %d, coupling := %s, srmin := %d, srmax := %d, rate := %s, quality := %s }" %
                          (i, mp, "(%d)" % cp if cp < 0 else str(cp), a, b, rl(r), rl(q)) for i, mp, cp, a, b, r, q in rows))
    out += ["]", "", "/-- (template, field, array, declared length, length the set-up code needs) -/",
            "def tableUses : List (String × String × String × Nat × Nat) := ["]
    out.append(",\n".join('  ("%s", "%s", "%s", %d, %d)' % u for u in uses))
    out += ["]", "", "end Vorbis.Generated", ""]
    return write_if_changed(os.path.join(GEN, "Templates.lean"), "\n".join(out))


_run_symbols_only = run


def run(write_if_changed, GEN, REPO):
    changed = _run_symbols_only(write_if_changed, GEN, REPO)
    if gen_templates(write_if_changed, GEN, REPO):
        changed.append("gen_templates")
    return changed
