#!/usr/bin/env python3
"""MANIFEST.setup_cmd: build the framework from files on disk only (offline)."""
import os, sys
HERE = os.path.dirname(os.path.abspath(__file__))
sys.path.insert(0, HERE)
import vlib

ok, out = vlib.lean_build(["Vorbis"])
if not ok:
    print(out[-6000:])
    sys.exit(1)
for v in ("san",):
    vlib.build_harness(v)
print("setup ok")
