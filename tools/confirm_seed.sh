#!/bin/bash
# usage: confirm_seed.sh <worktree> <seed-id> <property>
# confirms: demo passes on /repo (clean), fails on the worktree, test suite passes on the worktree;
# then stores patch+demo under /verif/seeded/<seed-id>/
WT=$1; ID=$2; PROP=$3
OUT=/verif/seeded/$ID
cd $WT/out || exit 2
bash run_demo.sh /repo >/tmp/confirm_$ID.clean.log 2>&1; C=$?
bash run_demo.sh $WT >/tmp/confirm_$ID.mut.log 2>&1; M=$?
rm -rf $WT/_b
( cmake -G Ninja -S $WT -B $WT/_b -DBUILD_TESTING=ON >/dev/null && cmake --build $WT/_b >/dev/null && ctest --test-dir $WT/_b -j8 --timeout 900 ) >/tmp/confirm_$ID.ctest.log 2>&1; T=$?
rm -rf $WT/_b
echo "demo clean rc=$C  demo mutated rc=$M  ctest rc=$T"
if [ $C -eq 0 ] && [ $M -ne 0 ] && [ $T -eq 0 ]; then
  mkdir -p $OUT
  cp patch.diff demo.c run_demo.sh $OUT/ 2>/dev/null
  cp notes.md $OUT/notes.md 2>/dev/null
  echo "CONFIRMED $ID"
else
  echo "NOT CONFIRMED $ID"; tail -5 /tmp/confirm_$ID.*.log
fi
