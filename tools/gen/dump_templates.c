/* compiled by tools/extract_more.py against the current tree: prints the encoder set-up templates */
#include "vorbisenc.c"
#include <stdio.h>
void vorbis_info_clear(vorbis_info *vi){(void)vi;}
int main(void){
  int i,j;
  for(i=0;setup_list[i];i++){
    const ve_setup_data_template *t=setup_list[i];
    printf("template %d mappings=%d coupling=%d srmin=%ld srmax=%ld rate=",i,t->mappings,t->coupling_restriction,
           t->samplerate_min_restriction,t->samplerate_max_restriction);
    if(t->rate_mapping) for(j=0;j<=t->mappings;j++)printf("%s%a",j?",":"",t->rate_mapping[j]); else printf("none");
    printf(" quality=");
    if(t->quality_mapping) for(j=0;j<=t->mappings;j++)printf("%s%a",j?",":"",t->quality_mapping[j]); else printf("none");
    printf("\n");
  }
  return 0;
}
