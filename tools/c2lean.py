#!/usr/bin/env python3
"""G2 — translator of C *function bodies* (integer subset) into Lean, via clang's typed AST.

For every function listed in FUNCS the current source in /repo is parsed with
`clang -fsyntax-only -Xclang -ast-dump=json`, and its body is re-emitted as a shallow embedding over
the combinators of lean/Vorbis/CSem.lean:

  * parameters and locals of integer type, and scalar members read through a pointer parameter
    (`b->entries` -> field `b_entries`), become fields (all `Int`) of a generated structure `St`;
  * statements become `Stmt St`; `while`/`for` become `CSem.loop` with fuel; `break`/`continue`/`return`
    are control outcomes; side effects inside a loop condition (`while(++x<n)`) go to the loop's `pre`;
  * an integer variable assigned from floating point (`vals=floor(pow(..))`) is *havoc*: its value is a
    fresh parameter `fp_<var>` of the generated function, so theorems quantify over every float result;
  * statements of floating type (`d[x]*=TABLE[y]`) are not evaluated; every array subscript in them is
    recorded in the trace field `tr` as (array identifier, index) — enough to state index safety.

Anything outside this subset makes the translator fail loudly (the check then reports that the
generated model could not be produced).  Output: lean/Vorbis/Generated/Funcs.lean, rewritten only when
its content changes.
"""
import json, os, re, subprocess, sys

REPO = os.environ.get("VERIF_REPO", "/repo")
HERE = os.path.dirname(os.path.abspath(__file__))
VERIF = os.path.dirname(HERE)
GEN = os.path.join(VERIF, "lean", "Vorbis", "Generated")

# (source file, C function, Lean namespace)
FUNCS = [
    ("lib/sharedbook.c", "ov_ilog", "ov_ilog"),
    ("lib/sharedbook.c", "_book_maptype1_quantvals", "book_maptype1_quantvals"),
    ("lib/res0.c", "icount", "icount"),
    ("lib/floor1.c", "render_point", "render_point"),
    ("lib/floor1.c", "render_line", "render_line"),
]

INT_TYPES = re.compile(r"^(const )?(unsigned |signed )?(int|long|long long|short|char|ogg_int64_t|ogg_uint32_t|ogg_int32_t|ogg_int16_t|ogg_uint16_t|unsigned|size_t)( int)?$")
FLOAT_TYPES = re.compile(r"^(const )?(float|double)$")


class Unsupported(Exception):
    pass


def clang_ast(path, fn):
    cmd = ["clang-14", "-I%s/include" % REPO, "-I%s/lib" % REPO, "-fsyntax-only", "-w", "-Xclang", "-ast-dump=json",
           "-Xclang", "-ast-dump-filter=%s" % fn, os.path.join(REPO, path)]
    p = subprocess.run(cmd, stdout=subprocess.PIPE, stderr=subprocess.PIPE, text=True)
    if p.returncode != 0:
        raise Unsupported("clang failed on %s: %s" % (path, p.stderr[-400:]))
    s = p.stdout
    dec = json.JSONDecoder()
    i = 0
    best = None
    while i < len(s):
        while i < len(s) and s[i] in " \n\r\t":
            i += 1
        if i >= len(s):
            break
        if s[i] != "{":
            i = s.index("\n", i) + 1 if "\n" in s[i:] else len(s)
            continue
        d, i = dec.raw_decode(s, i)
        if d.get("kind") == "FunctionDecl" and d.get("name") == fn and any(c.get("kind") == "CompoundStmt" for c in d.get("inner", [])):
            best = d
    if best is None:
        raise Unsupported("function %s with a body not found in %s" % (fn, path))
    return best


def qt(n):
    return n.get("type", {}).get("qualType", "")


def is_int(n):
    return bool(INT_TYPES.match(qt(n)))


def is_float(n):
    return bool(FLOAT_TYPES.match(qt(n)))


def strip(n):
    """drop parentheses and value-preserving implicit casts"""
    while True:
        k = n.get("kind")
        if k == "ParenExpr":
            n = n["inner"][0]
        elif k in ("ImplicitCastExpr", "CStyleCastExpr") and n.get("castKind") in (
                "LValueToRValue", "IntegralCast", "NoOp", "ArrayToPointerDecay", "FunctionToPointerDecay", "IntegralToBoolean"):
            n = n["inner"][0]
        else:
            return n


def has_float(n):
    if n.get("castKind") in ("FloatingToIntegral", "IntegralToFloating", "FloatingCast"):
        return True
    if is_float(n):
        return True
    return any(has_float(c) for c in n.get("inner", []) if isinstance(c, dict))


class Fn:
    def __init__(self, path, cname, lname):
        self.path, self.cname, self.lname = path, cname, lname
        self.ast = clang_ast(path, cname)
        self.params = []      # input fields in order
        self.fields = []      # all fields in order
        self.ctype = {}
        self.loops = []       # (name, pre, cond, bodyname, post)
        self.defs = []        # emitted Lean defs
        self.nloop = 0
        self.havoc = []
        self.arrays = set()
        for c in self.ast.get("inner", []):
            if c.get("kind") == "ParmVarDecl":
                if is_int(c):
                    self.add_field(c["name"], qt(c), param=True)
                else:
                    self.ctype[c["name"]] = qt(c)   # pointer parameter: array / struct base
        body = [c for c in self.ast["inner"] if c.get("kind") == "CompoundStmt"][0]
        self.body = self.stmt(body)

    def add_field(self, name, ty, param=False):
        if name in self.ctype and name in self.fields:
            return
        self.ctype[name] = ty
        self.fields.append(name)
        if param:
            self.params.append(name)

    # ---------- expressions ----------
    def lval(self, n):
        n = strip(n)
        k = n.get("kind")
        if k == "DeclRefExpr":
            name = n["referencedDecl"]["name"]
            if name not in self.fields:
                raise Unsupported("%s: reference to non-integer or global object '%s'" % (self.cname, name))
            return name
        if k == "MemberExpr":
            base = strip(n["inner"][0])
            if base.get("kind") == "DeclRefExpr" and n.get("isArrow"):
                name = base["referencedDecl"]["name"] + "_" + n["name"]
                if name not in self.fields:
                    if not is_int(n):
                        raise Unsupported("%s: member %s of type %s" % (self.cname, name, qt(n)))
                    self.add_field(name, qt(n), param=True)
                return name
        raise Unsupported("%s: unsupported l-value %s" % (self.cname, k))

    def E(self, n):
        """integer-valued expression over state `s` (no side effects allowed here)"""
        n = strip(n)
        k = n.get("kind")
        if k == "IntegerLiteral":
            return "(%s : Int)" % n["value"]
        if k in ("DeclRefExpr", "MemberExpr"):
            return "s.%s" % self.lval(n)
        if k == "UnaryOperator":
            op = n["opcode"]
            if op == "-":
                return "(- %s)" % self.E(n["inner"][0])
            if op == "+":
                return self.E(n["inner"][0])
            if op == "!":
                return "(b2i (! %s))" % self.B(n["inner"][0])
            raise Unsupported("%s: unary %s inside an expression" % (self.cname, op))
        if k == "BinaryOperator":
            op = n["opcode"]
            a, b = n["inner"]
            if op in ("+", "-", "*"):
                return "(%s %s %s)" % (self.E(a), op, self.E(b))
            if op == "/":
                return "(Int.tdiv %s %s)" % (self.E(a), self.E(b))
            if op == "%":
                return "(Int.tmod %s %s)" % (self.E(a), self.E(b))
            if op == ">>":
                return "(shr %s %s)" % (self.E(a), self.E(b))
            if op == "<<":
                return "(shl %s %s)" % (self.E(a), self.E(b))
            if op == "&":
                return "(land %s %s)" % (self.E(a), self.E(b))
            if op == "|":
                return "(lor %s %s)" % (self.E(a), self.E(b))
            if op in ("<", ">", "<=", ">=", "==", "!=", "&&", "||"):
                return "(b2i %s)" % self.B(n)
            raise Unsupported("%s: binary %s" % (self.cname, op))
        if k == "ConditionalOperator":
            c, a, b = n["inner"]
            return "(if %s then %s else %s)" % (self.B(c), self.E(a), self.E(b))
        if k == "CallExpr":
            callee = strip(n["inner"][0])
            name = callee.get("referencedDecl", {}).get("name")
            if name in ("abs", "labs"):
                return "(cabs %s)" % self.E(n["inner"][1])
            raise Unsupported("%s: call to %s" % (self.cname, name))
        raise Unsupported("%s: expression kind %s" % (self.cname, k))

    def B(self, n):
        n = strip(n)
        k = n.get("kind")
        if k == "BinaryOperator":
            op = n["opcode"]
            a, b = n["inner"]
            m = {"<": "<", ">": ">", "<=": "≤", ">=": "≥", "==": "=", "!=": "≠"}
            if op in m:
                return "(decide (%s %s %s))" % (self.E(a), m[op], self.E(b))
            if op == "&&":
                return "(%s && %s)" % (self.B(a), self.B(b))
            if op == "||":
                return "(%s || %s)" % (self.B(a), self.B(b))
        if k == "UnaryOperator" and n["opcode"] == "!":
            return "(! %s)" % self.B(n["inner"][0])
        if k == "IntegerLiteral":
            return "true" if int(n["value"]) != 0 else "false"
        return "(truth %s)" % self.E(n)

    # ---------- conditions with side effects ----------
    def cond(self, n):
        """returns (pre updates [(field, expr)], Bool expr) — prefix ++/-- hoisted into pre"""
        pre = []

        def hoist(m):
            m2 = strip(m)
            if m2.get("kind") == "UnaryOperator" and m2["opcode"] in ("++", "--"):
                if m2.get("isPostfix"):
                    raise Unsupported("%s: postfix %s inside a condition" % (self.cname, m2["opcode"]))
                f = self.lval(m2["inner"][0])
                pre.append((f, "s.%s %s 1" % (f, "+" if m2["opcode"] == "++" else "-")))
                # replace by plain reference
                ref = m2["inner"][0]
                m.clear()
                m.update(ref)
                return
            for c in m.get("inner", []):
                if isinstance(c, dict):
                    hoist(c)
        n = json.loads(json.dumps(n))
        hoist(n)
        return pre, self.B(n)

    # ---------- statements ----------
    def upd(self, f, e):
        return "(act fun s => { s with %s := %s })" % (f, e)

    def trace(self, n):
        """record every array subscript of a floating-point statement"""
        accs = []

        def walk(m):
            m = strip(m)
            if m.get("kind") == "ArraySubscriptExpr":
                base = strip(m["inner"][0])
                if base.get("kind") != "DeclRefExpr":
                    raise Unsupported("%s: subscript of a computed pointer" % self.cname)
                arr = base["referencedDecl"]["name"]
                self.arrays.add(arr)
                accs.append((arr, self.E(m["inner"][1])))
                return
            for c in m.get("inner", []):
                if isinstance(c, dict):
                    walk(c)
        # right-hand side is read before the left-hand side is written
        inner = n.get("inner", [])
        for c in reversed(inner):
            walk(c)
        if not accs:
            raise Unsupported("%s: floating-point statement without array operands" % self.cname)
        e = "s.tr"
        for arr, idx in accs:
            e = '(⟨"%s", %s⟩ :: %s)' % (arr, idx, e)
        return self.upd("tr", e)

    def seqs(self, xs):
        xs = [x for x in xs if x != "skip"]
        if not xs:
            return "skip"
        out = xs[-1]
        for x in reversed(xs[:-1]):
            out = "(seq %s\n    %s)" % (x, out)
        return out

    def stmt(self, n):
        k = n.get("kind")
        if k is None or k == "NullStmt":
            return "skip"
        if k == "CompoundStmt":
            return self.seqs([self.stmt(c) for c in n.get("inner", [])])
        if k == "DeclStmt":
            out = []
            for v in n.get("inner", []):
                if v.get("kind") != "VarDecl":
                    raise Unsupported("%s: declaration %s" % (self.cname, v.get("kind")))
                if not is_int(v):
                    raise Unsupported("%s: local %s of type %s" % (self.cname, v["name"], qt(v)))
                self.add_field(v["name"], qt(v))
                if v.get("inner"):
                    out.append(self.assign_to(v["name"], v["inner"][0]))
            return self.seqs(out)
        if k in ("ParenExpr", "ImplicitCastExpr", "CStyleCastExpr"):
            return self.stmt(strip(n) if strip(n) is not n else n["inner"][0])
        if k == "BinaryOperator" and n["opcode"] == "=":
            lhs, rhs = n["inner"]
            if is_float(strip(lhs)) or (not is_int(strip(lhs)) and has_float(lhs)):
                return self.trace(n)
            return self.assign_to(self.lval(lhs), rhs)
        if k == "BinaryOperator" and n["opcode"] == ",":
            return self.seqs([self.stmt(c) for c in n["inner"]])
        if k == "CompoundAssignOperator":
            lhs, rhs = n["inner"]
            if is_float(n) or is_float(strip(lhs)):
                return self.trace(n)
            f = self.lval(lhs)
            op = n["opcode"][:-1]
            if has_float(rhs):
                raise Unsupported("%s: integer %s= with a floating operand" % (self.cname, op))
            fake = {"kind": "BinaryOperator", "opcode": op, "inner": [lhs, rhs], "type": n.get("type")}
            return self.upd(f, self.E(fake))
        if k == "UnaryOperator" and n["opcode"] in ("++", "--"):
            f = self.lval(n["inner"][0])
            return self.upd(f, "s.%s %s 1" % (f, "+" if n["opcode"] == "++" else "-"))
        if k == "IfStmt":
            inner = n["inner"]
            c = self.B(inner[0])
            a = self.stmt(inner[1])
            b = self.stmt(inner[2]) if len(inner) > 2 else "skip"
            return "(ifS (fun s => %s)\n    %s\n    %s)" % (c, a, b)
        if k == "WhileStmt":
            c, body = n["inner"][-2], n["inner"][-1]
            return self.mkloop(None, c, None, body)
        if k == "ForStmt":
            init, _condvar, c, inc, body = n["inner"]
            return self.mkloop(init, c, inc, body)
        if k == "ReturnStmt":
            if n.get("inner"):
                return "(retS fun s => %s)" % self.E(n["inner"][0])
            return "(retS fun _ => 0)"
        if k == "BreakStmt":
            return "brkS"
        if k == "ContinueStmt":
            return "contS"
        raise Unsupported("%s: statement kind %s" % (self.cname, k))

    def assign_to(self, f, rhs):
        if has_float(rhs):
            h = "fp_%s" % f
            if h in self.fields:
                raise Unsupported("%s: second floating-point assignment to %s" % (self.cname, f))
            self.add_field(h, "(result of a floating-point expression)", param=True)
            self.havoc.append(h)
            return self.upd(f, "s.%s" % h)
        return self.upd(f, self.E(rhs))

    def updates(self, pairs):
        if not pairs:
            return "(fun s => s)"
        e = "s"
        out = "fun s => "
        for f, x in pairs:
            out += "let s := { s with %s := %s }; " % (f, x)
        return "(" + out + "s)"

    def mkloop(self, init, c, inc, body):
        self.nloop += 1
        name = "loop%d" % self.nloop
        pre_s = "skip" if init is None or not init.get("kind") else self.stmt(init)
        if c is None or not c.get("kind"):
            pre, cb = [], "true"
        else:
            pre, cb = self.cond(c)
        b = self.stmt(body)
        if inc is None or not inc.get("kind"):
            post = "(fun s => s)"
        else:
            i = strip(inc)
            if i.get("kind") == "UnaryOperator" and i["opcode"] in ("++", "--"):
                f = self.lval(i["inner"][0])
                post = self.updates([(f, "s.%s %s 1" % (f, "+" if i["opcode"] == "++" else "-"))])
            elif i.get("kind") == "CompoundAssignOperator" or (i.get("kind") == "BinaryOperator" and i["opcode"] == "="):
                st = self.stmt(i)
                m = re.match(r"^\(act (fun s => .*)\)$", st, re.S)
                if not m:
                    raise Unsupported("%s: for-increment" % self.cname)
                post = "(" + m.group(1) + ")"
            else:
                raise Unsupported("%s: for-increment kind %s" % (self.cname, i.get("kind")))
        nested = re.search(r"\bfuel\b", b) is not None   # the body runs inner loops: it needs their fuel
        self.defs.append("def %s_body%s : Stmt St :=\n  %s\n" % (name, " (fuel : Nat)" if nested else "", b))
        self.defs.append("def %s (fuel : Nat) : Stmt St :=\n  loop %s (fun s => %s) %s %s fuel\n" % (
            name, self.updates(pre), cb, ("(%s_body fuel)" % name) if nested else ("%s_body" % name), post))
        return self.seqs([pre_s, "(%s fuel)" % name])

    # ---------- output ----------
    def lean(self):
        o = []
        o.append("/-! ### `%s` (%s) -/" % (self.cname, self.path))
        o.append("namespace %s\n" % self.lname)
        o.append("structure St where")
        for f in self.fields:
            o.append("  %s : Int := 0   -- %s" % (f, self.ctype[f]))
        o.append("  tr : List Acc := []   -- recorded array accesses, latest first")
        o.append("")
        o.extend(self.defs)
        o.append("def body (fuel : Nat) : Stmt St :=\n  %s\n" % self.body)
        ps = " ".join(self.params)
        o.append("def init (%s : Int) : St := { %s }\n" % (ps, ", ".join("%s := %s" % (p, p) for p in self.params)))
        o.append("/-- the whole function: inputs in declaration order%s -/" % (
            ("; " + ", ".join(self.havoc) + " stand for floating-point results") if self.havoc else ""))
        o.append("def run (%s : Int) (fuel : Nat) : Ctl St := body fuel (init %s)\n" % (ps, ps))
        o.append("end %s\n" % self.lname)
        return "\n".join(o)


def generate():
    parts = ["/- GENERATED by tools/c2lean.py from the function bodies in /repo — do not edit. -/",
             "import Vorbis.CSem", "set_option linter.unusedVariables false",
             "namespace Vorbis.Generated.Funcs", "open Vorbis.CSem", ""]
    for path, cname, lname in FUNCS:
        parts.append(Fn(path, cname, lname).lean())
    parts.append("end Vorbis.Generated.Funcs")
    return "\n".join(parts) + "\n"


def run(write_if_changed):
    text = generate()
    return write_if_changed(os.path.join(GEN, "Funcs.lean"), text)


if __name__ == "__main__":
    sys.path.insert(0, HERE)
    from extract import write_if_changed
    try:
        ch = run(write_if_changed)
    except Unsupported as e:
        print("c2lean: UNSUPPORTED:", e)
        sys.exit(3)
    print("c2lean: Funcs.lean", "rewritten" if ch else "unchanged")
