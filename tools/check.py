#!/usr/bin/env python3
"""Entry point of every MANIFEST command:  python3 tools/check.py <Cxx> [--tier quick|thorough] [--replay path]"""
import sys, os, argparse, importlib, json, traceback
HERE = os.path.dirname(os.path.abspath(__file__))
sys.path.insert(0, HERE)
sys.path.insert(0, os.path.dirname(HERE))
import vlib


def main():
    ap = argparse.ArgumentParser()
    ap.add_argument("prop")
    ap.add_argument("--tier", default=os.environ.get("VERIF_TIER", "quick"))
    ap.add_argument("--replay", default=None)
    a = ap.parse_args()
    tier = a.tier if a.tier in ("quick", "thorough") else "quick"
    try:
        seed = int(os.environ.get("VERIF_SEED", "1"))
    except ValueError:
        seed = 1
    mod = importlib.import_module("checks." + a.prop.lower())
    chk = vlib.Check(a.prop, tier, seed, level=getattr(mod, "LEVEL", "proof"))
    try:
        if a.replay:
            mod.replay(chk, json.load(open(a.replay)))
        else:
            mod.run(chk)
    except vlib.BuildError as e:
        # the tree no longer builds the harness: the correspondence cannot be established
        chk.violation("build", "harness/library build failed", {"error": str(e),
                      "broken": "correspondence stream %s (cannot be built against the current tree)" % a.prop.lower()},
                      found_input=False)
    rc = chk.finish()
    sys.exit(rc)


if __name__ == "__main__":
    main()
