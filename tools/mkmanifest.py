#!/usr/bin/env python3
"""writes MANIFEST.json from the table below (kept in one place so it is always valid)"""
import json, os
HERE = os.path.dirname(os.path.abspath(__file__))
VERIF = os.path.dirname(HERE)
ALL = ["C%02d" % i for i in range(1, 21)]

CLAIMED = {
 "C16": dict(cat="proof", ref="§8 C16",
   text="Kernel-checked theorems over the byte-level model of the comment header: round trip for every vendor/comment list (any bytes, empty, NULs), acceptance bound (nothing accepted exceeds the packet), query = n-th ASCII-case-insensitive match, count = number of successful queries. The model is tied to lib/info.c by a differential stream (valid, boundary and malformed packets, add/add_tag, queries).",
   note="Trusted: Lean kernel (axioms propext/Classical.choice/Quot.sound only), extract.py (vendor string, error codes regenerated), the hand-written model as far as the c16 correspondence exercises it, gcc/ASan/libogg. The C's heap behaviour is covered by sanitizer runs only.",
   tech="Lean 4 proof (round-trip + decision logic) over hand model; differential correspondence vs lib/info.c"),
 "C17": dict(cat="proof", ref="§8 C17",
   text="Kernel-checked theorems over an integer model of ov_read's conversion defined on IEEE bit patterns: round-to-nearest-even with error <= 1/2 and monotone, exact in-range behaviour, saturation of huge positive samples to the most positive value (F5 regression), output always within the word's range, bytes decode back to the clipped sample for all 8 formats, interleaving offsets, frame counting (whole frames, <= buffer, maximal, errors for short buffers / non-positive word). Tied to lib/vorbisfile.c + lib/os.h by running ov_read_filter on real streams with injected bit patterns and comparing bytes/return/advance with the model; an independent exact-rational oracle states the property directly.",
   note="Trusted: Lean kernel; the model's reading of cvtsd2si (round-to-nearest-even, MXCSR default) and little-endian host; extract.py; harness; gcc/ASan. NaN inputs: only model/implementation agreement. Channel counts beyond those generated (1..8, 255 in thorough) rest on the theorem + model tie.",
   tech="Lean 4 proof (integer arithmetic on float bit patterns) + differential correspondence vs ov_read_filter"),
 "C14": dict(cat="proof", ref="§8 C14",
   text="Kernel-checked theorems over a faithful model of vorbis_bitrate_addblock's hard-limit logic (min/max loops, truncate, pad, reservoir update) for every block sequence, every 15-blob size vector and every floater choice: reservoir stays in [0, reservoir_bits]; over every contiguous run emitted bits exceed the maximum budgets by at most the reservoir, and fall short of the minimum budgets by at most the reservoir; plus the witness that the side condition (both limits => reservoir >= 7 bits) is necessary. Tied to lib/bitrate.c by replaying every block of direct-mode (synthetic blob vectors through the real vorbis_bitrate_addblock) and real managed encodes through the model: choice, packet bytes and reservoir must agree exactly.",
   note="Budgets are the manager's own quantised per-block targets; drift against the configured rate (F9) and reservoirs < 7 bits with both limits (F12) are genuine, recorded known findings. The average floater (double arithmetic) is an oracle parameter (only rint(avgfloat) enters). Trusted: Lean kernel, harness reading private structs through codec_internal.h.",
   tech="Lean 4 proof (invariant by induction over block sequences) + differential replay of the real rate manager"),
 "C04": dict(cat="proof", ref="§8 C04",
   text="Kernel-checked end to end on the model (C04_main): for all block sizes 4<=bs0<=bs1, every sequence of buffer/wrote/blockout calls in any order and sizes (over-submissions refused), every answer sequence of the envelope search, one end-of-input call and any draining calls: the packets handed out are mids++[last], last carries EOS (the only one) and granule position N = samples accepted, and for every visibility pattern of intermediate granule positions (Ogg paging) the decoder model delivers exactly N samples in total and none from the first packet; N=0 and N smaller than a block included. Plus drain progress (3*bs1 padding always suffices). Encoder and decoder bookkeeping models are replayed call-by-call against the real vorbis_analysis_buffer/wrote/blockout and vorbis_synthesis_blockin (N in {0,1,...,10^6}, all partitions, 24 configurations, 4 paging modes); the predicate Coherent is also evaluated on every real packet trace.",
   note="_ve_envelope_search is an oracle parameter (theorems quantify over all answers). vorbisfile's ov_pcm_total / streaming read totals are checked by the oracle here and modelled under C09/C10. Trusted: Lean kernel, the hand model as far as the call-by-call replay exercises it, harness, extract.py.",
   tech="Lean 4 proof (invariant by induction over API call sequences + induction over packet sequences) + call-by-call differential replay"),
 "C02": dict(cat="proof", ref="§8 C02",
   text="The set-up parser model is proof-carrying: for every byte string, an accepted set-up provably satisfies SetupWF (every book/floor/residue/mapping/mode index below its count, counts within the fixed tables of codec_setup_info whose sizes are regenerated from the source, floor-1 class/post tables within VIF_*, codeword lengths within marker[33], value books have dim>=1, quant list sizes) — C02_setup_wf, C02_table_sizes, C02_floor1_tables, C02_valuebook_has_dim; mode numbers always index inside mode_param[64] (C02_mode_index); every header/packet call returns a documented code (C02_headerin_codes, C02_packet_codes); a refused header never installs a set-up (C02_reject_keeps_state); the dim=0 lattice search diverges (F1 regression, C02_lookup1_dim0_diverges). All model functions are total. Tied to the C by stream c02: type-directed valid set-ups, a boundary stream (every field at 0/max/half/±1, cut at every field), random bytes, header permutations, init twice, random and structured packets, trackonly/restart/halfrate/clear twice — all return codes, the complete parse dump, window flags and sample counts compared with the model, everything under ASan+UBSan. Found and fixed F13 (double init after a failed init -> division by zero).",
   note="PARTIAL where it must be: floor/residue/codebook *packet* decoding, the C's pointer arithmetic, heap and stack use are exercised by sanitizer runs only (testing, not proof); the lattice search correctness for dim>=1 is validated by the dump comparison (quant list sizes), not yet proved. libogg's bit reader is modelled and validated by this stream only. Time/heap budgets: total functions with explicit fuel in the model; measured, not proved, on the C.",
   tech="Lean 4 proof-carrying parser model (facts established by each check are kernel-checked) + differential correspondence under sanitizers"),
 "C18": dict(cat="other", ref="§8 C18",
   text="Partial by nature. Kernel-checked: the objects compiled from the current tree contain no symbol in a writable section other than four never-stored pointer tables, no store to any non-const static, and import nothing with hidden process-wide state (no rand/strtok/setlocale/getenv/abort; exit only from floor1.o's dead encoder branch) — the lists are regenerated by objdump/nm/gcc -E on every run, so a new static buffer or global breaks a theorem. Tested, not proved: groups of 4..16 independent encoders/decoders/vorbisfile handles run concurrently (ASan and plain builds), and alone under heap perturbation (fresh and freed memory filled with junk), must reproduce the solitary runs' byte and sample hashes exactly; thorough adds ThreadSanitizer.",
   note="A theorem cannot exhibit thread interleavings or uninitialised reads of the real C; those parts are differential testing on the schedules this machine produces. The static scan covers the default build configuration (gcc -O2, x86-64).",
   tech="Lean 4 decide over translator-regenerated symbol/static/import tables + differential threaded / heap-perturbed runs"),
 "C15": dict(cat="proof", ref="§8 C15",
   text="Kernel-checked over the template table regenerated from lib/vorbisenc.c + lib/modes/*.h on every run: every array the set-up code indexes with the base setting (is / is+1) is long enough in every shipped template (C15_tables, 468 obligations by decide +kernel), maps have mappings+1 points (C15_maps_sized); for every request (any rational, ±inf, NaN) a chosen template's integer base setting, computed with the C's exact float arithmetic (Vorbis/F32.lean), satisfies is+1 <= mappings (C15_base_in_interval, C15_select_in_bounds — false of the unrepaired code: finding F15); the decision table of the return codes (C15_codes); one-step calls succeed completely (frozen set-up, requested channels/rate, 1..255 channels) or leave the info cleared (C15_clean). Tied to the C by an argument grid dense at every template edge and at every map point ±ulp, channels -1..300, NaN/inf qualities, bitrate triples, RATEMANAGE2 sets and other ctl numbers before/after setup_init: return code, template number, (int)base_setting, flags, channels/rate compared with the model; successful set-ups then run analysis_init, headerout and encode under ASan/UBSan; disagreements on control requests are escalated by a search that replays them in front of stressed managed encodes. Found and fixed F14 (NaN bias/damping accepted) and F15 (float rounding carries the base setting to 'mappings': out-of-bounds table read for quality 0.99999982 at 22.05 kHz — found because the theorem was false by decide).",
   note="The float arithmetic of get_setup_template is modelled exactly on rationals (r32/r64 rounding; normal range only) and compared with the C at every map point ±1..2 ulp; hi->req for VBR is taken from the implementation. psy/envelope/mapping float set-up (F8 class) is covered by sanitizer runs only. ctl requests other than RATEMANAGE2_SET: codes and memory safety only.",
   tech="Lean 4 proof over translator-regenerated template tables (decide +kernel) + decision-logic theorems + differential argument grid under sanitizers"),
 "C05": dict(cat="proof", ref="§8 C05",
   text="PARTIAL. Kernel-checked: the identification header round trip at the byte level for every channels 1..255, rate, bitrate triple and legal block-size pair (C05_ident); the comment header round trip (C05_comment); the window flags of consecutive blocks handed out by the encoder agree with their neighbours' block sizes for every envelope-search answer (C05_flags, C05_flags_untouched, on the analysis bookkeeping model tied call-by-call under C04). Decided per generated configuration (testing, labelled so): all three encoder headers and every audio packet go through the C decoder and through the Lean header/packet-header model (which must accept, with valid Huffman trees, and agree on codes, fields, window flags, sample counts); oracles: header fields equal the encoder's info, flags agree with neighbours, unmanaged packets are consumed to within their last byte, managed packets never run out of bits unless a hard maximum is set, samples finite.",
   note="Not proved: the set-up header packer/unpacker round trip (no packer model) and bit-exact consumption of floor/residue payloads (float-driven choices; observed on the real decoder over 31+ configurations x 9 signal classes x VBR/managed set-ups). Trusted: Lean kernel, harness, the c02 stream as tie for the header parser.",
   tech="Lean 4 proof (byte-level round trips, window-flag invariant) + per-configuration differential validation of headers and packets"),
 "C11": dict(cat="proof", ref="§8 C11",
   text="Kernel-checked on a provenance model of the decoder's overlap-add double buffer (every cell records which sample of which packet went into it; old buffer content is 'stale'): for all block-size pairs, every restart point and every window-flag sequence, each sample returned after packet k is exactly the specification's overlap of packet k-1's tail with packet k's head — a function of the two flags, k and the offset only (C11_local); the first packet after a restart returns nothing (C11_first_silent); a decode disturbed/restarted at packet j returns, from packet j+1 on, the same expressions as the undisturbed decode (C11_recover); the samples after packet k mention only packets k-1 and k (C11_window). The model is tied to lib/block.c bit-exactly: vorbis_synthesis_blockin is driven with marker blocks, and every returned sample is recomputed from the model's cell and the library's own window table with exact single-precision arithmetic (~10^5 cells per quick run, half-rate on/off, restarts). The property itself is then injected on real decodes: one packet dropped/duplicated/truncated/bit-flipped/decode restarted (with and without a fresh vorbis_block), ASan and heap-perturbed builds; outputs before j and from j+2 on must be bit-identical.",
   note="That each packet's inverse-transform output depends on that packet and the set-up only (no hidden state in vorbis_block / look-ups / localstore) cannot be seen by the theorems; it is what the fault-injection part tests (it caught seeded mutant C11-1).",
   tech="Lean 4 proof (provenance invariant by induction over packet sequences) + bit-exact correspondence of the overlap-add + fault enumeration on real decodes"),
}

NA_REASON = "not yet built in this round: model/theorems for this property are not in the tree yet (see DESIGN.md §8 for the plan)"


def main():
    checks = []
    for pid in ALL:
        if pid not in CLAIMED:
            continue
        c = CLAIMED[pid]
        checks.append({
            "property_id": pid,
            "quick_cmd": "python3 tools/check.py %s --tier quick" % pid,
            "thorough_cmd": "python3 tools/check.py %s --tier thorough" % pid,
            "evidence_file": "evidence/%s.json" % pid,
            "replay_cmd_template": "python3 tools/check.py %s --replay {path}" % pid,
            "engine": "lean4+vharn",
            "level_claimed": {"category": c["cat"], "text": c["text"], "design_ref": c["ref"]},
            "level_note": c["note"],
            "technique": c["tech"],
        })
    man = {
        "version": 1,
        "setup_cmd": "python3 tools/setup.py",
        "hooks": {
            "guard": "XIPH_VORBIS_VERIF",
            "enable": "the harness compiles /repo/lib/*.c itself with -DXIPH_VORBIS_VERIF (no source hook is needed: private structs are read through codec_internal.h, allocation is redirected with -Dmalloc=...)",
            "baseline_off_cmd": "rm -rf /tmp/vorbis_baseline && cmake -G Ninja -S /repo -B /tmp/vorbis_baseline -DBUILD_TESTING=ON >/dev/null && cmake --build /tmp/vorbis_baseline >/dev/null && ctest --test-dir /tmp/vorbis_baseline -j8 --timeout 900 --output-junit /tmp/vorbis_baseline/junit.xml; rc=$?; rm -rf /tmp/vorbis_baseline; exit $rc",
            "source_commits": [],
            "add_only": True
        },
        "engines": [
            {"name": "lean4+vharn", "path": "lean/ + harness/ + tools/check.py",
             "serves_properties": sorted(CLAIMED),
             "kind_free_text": "Lean 4 model + kernel-checked theorems; translator tools/extract.py regenerates Vorbis/Generated from /repo; C harness built from /repo and compiled Lean driver run on the same operation lines (correspondence)"}],
        "checks": checks,
        "notes": "fix: commits in /repo (unguarded by rule, see known_findings.json): 2aee97a c41deb8 f06e797 3e38d81 4543ecd 2400ba5 a7c62f7 e447f9b 10c4bad",
        "not_applicable": [{"property_id": p, "reason": NA_REASON} for p in ALL if p not in CLAIMED],
    }
    with open(os.path.join(VERIF, "MANIFEST.json"), "w") as f:
        json.dump(man, f, indent=1)
    print("MANIFEST.json:", len(checks), "checks,", len(man["not_applicable"]), "not_applicable")


if __name__ == "__main__":
    main()
