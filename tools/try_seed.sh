#!/bin/bash
# usage: try_seed.sh <seed-id> <tier> <Cxx> [<Cyy> ...]   apply seeded/<id>/patch.diff to /repo, run the checks, restore /repo
ID=$1; TIER=$2; shift 2
P=/verif/seeded/$ID/patch.diff
git -C /repo diff --quiet || { echo "/repo has local changes"; exit 2; }
git -C /repo apply $P || { echo "patch does not apply"; exit 2; }
for C in "$@"; do
  timeout 3000 python3 /verif/tools/check.py $C --tier $TIER > /tmp/seed_${ID}_$C.log 2>&1; rc=$?
  echo "$ID $C tier=$TIER exit=$rc $(grep -c '^VIOLATION' /tmp/seed_${ID}_$C.log) violation lines"
  grep '^VIOLATION' /tmp/seed_${ID}_$C.log | head -2
done
git -C /repo checkout -- .
