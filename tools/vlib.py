"""Shared machinery of every check: builds (lib objects from /repo, harness, Lean), audit of the
proof side, correspondence runner, evidence and verdict handling.  See DESIGN.md §3."""
import time, os, sys, re, json, time, glob, hashlib, subprocess, fcntl, random, shutil, signal
from concurrent.futures import ThreadPoolExecutor

HERE = os.path.dirname(os.path.abspath(__file__))
VERIF = os.path.dirname(HERE)
REPO = os.environ.get("VERIF_REPO", "/repo")
BUILD = os.path.join(VERIF, ".build")
LEAN = os.path.join(VERIF, "lean")
GUARD = "XIPH_VORBIS_VERIF"
NCPU = os.cpu_count() or 4

LIB_SRCS = ["mdct", "smallft", "block", "envelope", "window", "lsp", "lpc", "analysis", "synthesis",
            "psy", "info", "floor1", "floor0", "res0", "mapping0", "registry", "codebook",
            "sharedbook", "lookup", "bitrate", "vorbisenc", "vorbisfile"]

ALLOWED_AXIOMS = {"propext", "Classical.choice", "Quot.sound"}
FORBIDDEN = re.compile(r"\bsorry\b|\badmit\b|^\s*axiom\s|native_decide|bv_decide|implemented_by|"
                       r"\bunsafe\s|maxHeartbeats\s+0", re.M)

UBSAN = "bounds,integer-divide-by-zero,null,pointer-overflow,object-size,return,unreachable,vla-bound"
VARIANTS = {
    # sanitizer build: ASan + the UBSan classes the properties name (DESIGN §3.4)
    "san": ["-O1", "-g", "-fno-omit-frame-pointer", "-ffp-contract=off", "-fsanitize=address",
            "-fsanitize=" + UBSAN, "-fno-sanitize-recover=all"],
    # plain build: timing / stack / big cases
    "plain": ["-O2", "-g", "-ffp-contract=off"],
    # allocation-counting build: only libvorbis' own allocations are redirected
    "cnt": ["-O1", "-g", "-ffp-contract=off", "-Dmalloc=vf_malloc", "-Dcalloc=vf_calloc",
            "-Drealloc=vf_realloc", "-Dfree=vf_free"],
    # thread sanitizer
    "tsan": ["-O1", "-g", "-ffp-contract=off", "-fsanitize=thread"],
}


def log(*a):
    print("[verif]", *a, file=sys.stderr, flush=True)


def sh(cmd, cwd=None, timeout=None, env=None, input=None, check=False):
    p = subprocess.run(cmd, cwd=cwd, timeout=timeout, env=env, input=input,
                       stdout=subprocess.PIPE, stderr=subprocess.PIPE, text=isinstance(input, str) or input is None)
    if check and p.returncode != 0:
        raise RuntimeError("command failed (%d): %s\n%s\n%s" % (p.returncode, cmd, p.stdout[-4000:], p.stderr[-4000:]))
    return p


class Lock:
    def __init__(self, name):
        os.makedirs(BUILD, exist_ok=True)
        self.path = os.path.join(BUILD, name + ".lock")

    def __enter__(self):
        self.f = open(self.path, "w")
        fcntl.flock(self.f, fcntl.LOCK_EX)
        return self

    def __exit__(self, *a):
        fcntl.flock(self.f, fcntl.LOCK_UN)
        self.f.close()


def _hash_files(paths, extra=""):
    h = hashlib.sha1(extra.encode())
    for p in sorted(paths):
        h.update(p.encode())
        try:
            with open(p, "rb") as f:
                h.update(f.read())
        except OSError:
            h.update(b"<missing>")
    return h.hexdigest()[:16]


def repo_sources():
    pats = ["lib/*.c", "lib/*.h", "lib/modes/*.h", "lib/books/*/*.h", "include/vorbis/*.h"]
    out = []
    for p in pats:
        out += glob.glob(os.path.join(REPO, p))
    return out


def repo_hash():
    return _hash_files(repo_sources())


def build_lib(variant):
    """compile /repo's library sources as they are NOW; cached by content hash"""
    flags = VARIANTS[variant]
    key = _hash_files(repo_sources(), " ".join(flags))
    d = os.path.join(BUILD, "lib-%s-%s" % (variant, key))
    with Lock("lib-" + variant):
        if os.path.exists(os.path.join(d, "ok")):
            return d
        # drop stale caches of this variant
        for old in glob.glob(os.path.join(BUILD, "lib-%s-*" % variant)):
            try:
                if time.time() - os.path.getmtime(old) > 3600:   # another tree may be under check right now
                    shutil.rmtree(old, ignore_errors=True)
            except OSError:
                pass
        os.makedirs(d, exist_ok=True)

        def cc(name):
            cmd = ["gcc", "-c", "-D" + GUARD, "-I" + os.path.join(REPO, "include"),
                   "-I" + os.path.join(REPO, "lib"), "-w"] + flags + \
                  [os.path.join(REPO, "lib", name + ".c"), "-o", os.path.join(d, name + ".o")]
            p = sh(cmd)
            return name, p
        with ThreadPoolExecutor(NCPU) as ex:
            res = list(ex.map(cc, LIB_SRCS))
        bad = [(n, p) for n, p in res if p.returncode != 0]
        if bad:
            n, p = bad[0]
            raise BuildError("library source %s.c does not compile:\n%s" % (n, p.stderr[-3000:]))
        open(os.path.join(d, "ok"), "w").write("ok")
    return d


class BuildError(Exception):
    pass


def build_harness(variant="san"):
    libd = build_lib(variant)
    flags = [f for f in VARIANTS[variant] if not f.startswith("-Dmalloc") and not f.startswith("-Dcalloc")
             and not f.startswith("-Drealloc") and not f.startswith("-Dfree")]
    srcs = sorted(glob.glob(os.path.join(VERIF, "harness", "*.c")) + glob.glob(os.path.join(VERIF, "harness", "*.h")))
    key = _hash_files(srcs, libd + " ".join(flags))
    exe = os.path.join(BUILD, "vharn-%s-%s" % (variant, key))
    with Lock("harness-" + variant):
        if os.path.exists(exe):
            return exe
        for old in glob.glob(os.path.join(BUILD, "vharn-%s-*" % variant)):
            try:
                if time.time() - os.path.getmtime(old) > 3600:   # another tree may be under check right now
                    os.remove(old)
            except OSError:
                pass
        # vorbisenc.c is compiled inside the harness (harness/enc_unit.c includes it) with the library flags
        objs = [os.path.join(libd, n + ".o") for n in LIB_SRCS if n != "vorbisenc"]
        encu = exe + ".enc_unit.o"
        p = sh(["gcc", "-c", "-D" + GUARD, "-I" + os.path.join(REPO, "include"), "-I" + os.path.join(REPO, "lib"), "-w"] +
               VARIANTS[variant] + [os.path.join(VERIF, "harness", "enc_unit.c"), "-o", encu])
        if p.returncode != 0:
            raise BuildError("lib/vorbisenc.c does not compile inside the harness unit:\n" + p.stderr[-3000:])
        cmd = ["gcc", "-D" + GUARD, "-DVARIANT_" + variant.upper(), "-I" + os.path.join(REPO, "include"),
               "-I" + os.path.join(REPO, "lib"), "-I" + os.path.join(VERIF, "harness"), "-w",
               "-Werror=implicit-function-declaration"] + flags + \
              [os.path.join(VERIF, "harness", "vharn.c"), encu] + objs + ["-o", exe + ".tmp", "-logg", "-lm", "-lpthread"]
        p = sh(cmd)
        try:
            os.remove(encu)
        except OSError:
            pass
        if p.returncode != 0:
            raise BuildError("harness does not build against the current tree:\n" + p.stderr[-4000:])
        os.rename(exe + ".tmp", exe)
    return exe


# ----------------------------------------------------------------------------------------------
# Lean side

def lean_build(targets, want_driver=True):
    """regenerate Generated/*.lean from /repo, then lake build. Returns (ok, output)."""
    with Lock("lean"):
        p = sh([sys.executable, os.path.join(HERE, "extract.py")])
        if p.returncode != 0:
            return False, "extract.py failed:\n" + p.stdout + p.stderr
        tg = list(targets) + (["vdriver"] if want_driver else [])
        p = sh(["lake", "build"] + tg, cwd=LEAN, timeout=3600)
        return p.returncode == 0, p.stdout + p.stderr


def driver_path():
    return os.path.join(LEAN, ".lake", "build", "bin", "vdriver")


def theorem_names(prop):
    """property theorems = every `theorem Cxx_*` in Props/<prop>.lean (helper lemmas have other names)"""
    path = os.path.join(LEAN, "Vorbis", "Props", prop + ".lean")
    src = open(path).read()
    names = re.findall(r"^theorem\s+(%s_[A-Za-z0-9_']+)" % prop, src, re.M)
    return names


def strip_lean_comments(s):
    s = re.sub(r"/-.*?-/", " ", s, flags=re.S)
    s = re.sub(r"--[^\n]*", " ", s)
    return s


def forbidden_scan():
    bad = []
    for path in glob.glob(os.path.join(LEAN, "**", "*.lean"), recursive=True):
        if "/.lake/" in path:
            continue
        src = strip_lean_comments(open(path).read())
        for m in FORBIDDEN.finditer(src):
            bad.append("%s: %s" % (os.path.relpath(path, LEAN), m.group(0).strip()))
    return bad


def audit(prop, expected):
    """`#print axioms` on every property theorem. Returns dict name -> (ok, detail)."""
    names = theorem_names(prop)
    res = {}
    for e in expected:
        if e not in names:
            res[e] = (False, "theorem missing from Props/%s.lean" % prop)
    os.makedirs(os.path.join(BUILD, "audit"), exist_ok=True)
    f = os.path.join(BUILD, "audit", prop + ".lean")
    with open(f, "w") as fh:
        fh.write("import Vorbis.Props.%s\n" % prop)
        for n in names:
            fh.write("#print axioms Vorbis.Props.%s.%s\n" % (prop, n))
    p = sh(["lake", "env", "lean", f], cwd=LEAN, timeout=1200)
    out = p.stdout + p.stderr
    for n in names:
        m = re.search(r"'Vorbis\.Props\.%s\.%s' (does not depend on any axioms|depends on axioms: \[([^\]]*)\])"
                      % (prop, re.escape(n)), out)
        if not m:
            res[n] = (False, "no #print axioms answer (does the theorem exist and build?)")
            continue
        axs = set(a.strip() for a in (m.group(2) or "").replace("\n", " ").split(",") if a.strip())
        extra = axs - ALLOWED_AXIOMS
        if extra:
            res[n] = (False, "depends on non-standard axioms: %s" % sorted(extra))
        else:
            res[n] = (True, "axioms: %s" % (sorted(axs) if axs else "none"))
    return res, out


def leanchecker(prop):
    p = sh(["lake", "env", "leanchecker", "Vorbis.Props." + prop], cwd=LEAN, timeout=3600)
    return p.returncode == 0, (p.stdout + p.stderr)[-2000:]


# ----------------------------------------------------------------------------------------------
# running

SAN_ENV = {"ASAN_OPTIONS": "detect_leaks=0:abort_on_error=0:exitcode=99:allocator_may_return_null=1:"
                           "detect_stack_use_after_return=0:max_allocation_size_mb=3000",
           "UBSAN_OPTIONS": "print_stacktrace=1:halt_on_error=1:exitcode=98"}


def run_prog(cmd, text, timeout=600, env_extra=None):
    env = dict(os.environ)
    env.update(SAN_ENV)
    if env_extra:
        env.update(env_extra)
    try:
        p = subprocess.run(cmd, input=text.encode(), stdout=subprocess.PIPE, stderr=subprocess.PIPE,
                           timeout=timeout, env=env)
        return p.returncode, p.stdout.decode("latin-1"), p.stderr.decode("latin-1")
    except subprocess.TimeoutExpired as e:
        return -999, (e.stdout or b"").decode("latin-1"), "TIMEOUT after %ss" % timeout


def split_blocks(ops_lines):
    """ops are grouped in cases; a line starting with 'case ' opens a new case"""
    cases, cur = [], []
    for l in ops_lines:
        if l.startswith("case ") and cur:
            cases.append(cur)
            cur = []
        cur.append(l)
    if cur:
        cases.append(cur)
    return cases


def _run_cases(cmd, chunk, timeout, env_extra=None):
    """run one program over a list of cases; if it dies, attribute the death to the case whose
    '== case' header was the last one printed and carry on with the cases after it"""
    out = []
    i = 0
    while i < len(chunk):
        part = chunk[i:]
        text = "\n".join("\n".join(c) for c in part) + "\n"
        rc, so, se = run_prog(cmd, text, timeout, env_extra)
        blocks = split_outputs(so)
        if rc == 0 and len(blocks) >= len(part):
            out += [(blocks[k], 0, "") for k in range(len(part))]
            break
        # died (or printed too little): blocks[0..k-1] complete, case k is the one that died
        k = max(0, len(blocks) - 1) if rc != 0 else len(blocks)
        for j in range(min(k, len(part))):
            out.append((blocks[j], 0, ""))
        if k < len(part):
            partial = blocks[k] if k < len(blocks) else None
            out.append((partial, rc if rc != 0 else -998, se[-3000:] or "no output for this case"))
        i += k + 1
    return out


def _fan(cmd, cases, timeout, jobs, env_extra=None):
    jobs = jobs or min(NCPU, max(1, len(cases)))
    chunks = [cases[i::jobs] for i in range(jobs)]
    with ThreadPoolExecutor(jobs) as ex:
        parts = list(ex.map(lambda ch: _run_cases(cmd, ch, timeout, env_extra) if ch else [], chunks))
    out = [None] * len(cases)
    for j, part in enumerate(parts):
        for k, r in enumerate(part):
            out[j + k * jobs] = r
    return out


def run_pair(stream, cases, variant="san", timeout=900, jobs=None):
    """Run harness and model on the same cases (list of list of lines). Both programs answer every
    'case' line with a '== case ...' header, which is used to align the outputs.
    Returns list of per-case dicts {ops, c, m, rc_c, rc_m, err_c, err_m}."""
    exe = build_harness(variant)
    drv = driver_path()
    rc_ = _fan([exe, stream], cases, timeout, jobs)
    rm_ = _fan([drv, stream], cases, timeout, jobs)
    res = []
    for c, (bc, rcc, ec), (bm, rcm, em) in zip(cases, rc_, rm_):
        res.append({"ops": c, "c": bc if rcc == 0 else None, "c_partial": bc, "m": bm if rcm == 0 else None,
                    "rc_c": rcc, "rc_m": rcm, "err_c": ec, "err_m": em})
    return res


def split_outputs(text):
    blocks, cur = [], None
    for l in text.splitlines():
        if l.startswith("== case"):
            if cur is not None:
                blocks.append(cur)
            cur = [l]
        elif cur is not None:
            cur.append(l)
    if cur is not None:
        blocks.append(cur)
    return blocks


def run_model_only(stream, cases, timeout=900, jobs=None):
    return run_harness_only(stream, cases, timeout=timeout, jobs=jobs, exe=driver_path(), key="m")


def run_harness_only(stream, cases, variant="san", timeout=900, jobs=None, env_extra=None, exe=None, key="c", wrap=None):
    """wrap: a command prefix (e.g. valgrind with its options) the harness is run under"""
    exe = exe or build_harness(variant)
    r_ = _fan(list(wrap or []) + [exe, stream], cases, timeout, jobs, env_extra)
    return [{"ops": c, key: b if rc == 0 else None, key + "_partial": b, "rc_" + key: rc, "err_" + key: e}
            for c, (b, rc, e) in zip(cases, r_)]


# ----------------------------------------------------------------------------------------------
# verdicts

def load_known():
    p = os.path.join(VERIF, "known_findings.json")
    if not os.path.exists(p):
        return []
    return json.load(open(p))


class Check:
    """one run of one property's check"""

    def __init__(self, prop, tier, seed, level="proof"):
        self.prop, self.tier, self.seed, self.level = prop, tier, seed, level
        self.t0 = time.time()
        self.rng = random.Random((seed << 8) ^ int(prop[1:]))
        self.violations = []      # (signature, replay_path, found_input)
        self.known_hits = []
        self.coverage = {}
        self.assumptions = []
        self.samples = []
        self.evaluations = 0
        self.distinct = set()
        self.replay_n = 0
        self.known = [k for k in load_known() if k.get("property") == prop]

    # -- proof side ---------------------------------------------------------------------------
    def proof_side(self, expected_theorems):
        """build Props/<prop>, audit axioms; returns list of broken obligations (strings)"""
        broken = []
        ok, out = lean_build(["Vorbis.Props." + self.prop])
        self.lean_log = out[-6000:]
        obligations = list(expected_theorems)
        discharged = 0
        details = {}
        if not ok:
            errs = re.findall(r"error: ([^\n]*\n?[^\n]*)", out)
            broken.append("lake build Vorbis.Props.%s failed: %s" % (self.prop, "; ".join(e.strip() for e in errs[:4])))
            for t in obligations:
                details[t] = "not checked (build failed)"
        else:
            res, raw = audit(self.prop, expected_theorems)
            for t in obligations:
                okt, d = res.get(t, (False, "not found"))
                details[t] = d
                if okt:
                    discharged += 1
                else:
                    broken.append("theorem %s: %s" % (t, d))
            extra = [n for n in res if n not in obligations]
            for n in extra:
                okt, d = res[n]
                obligations.append(n)
                details[n] = d
                if okt:
                    discharged += 1
                else:
                    broken.append("theorem %s: %s" % (n, d))
        bad = forbidden_scan()
        if bad:
            broken.append("forbidden construct in Lean sources: " + "; ".join(bad[:5]))
        checker_cmd = "cd lean && python3 ../tools/extract.py && lake build Vorbis.Props.%s && lake env lean <#print axioms of every property theorem>" % self.prop
        if self.tier == "thorough" and ok:
            okc, outc = leanchecker(self.prop)
            checker_cmd += " && lake env leanchecker Vorbis.Props.%s" % self.prop
            self.coverage["leanchecker"] = "ok" if okc else outc
            if not okc:
                broken.append("leanchecker rejected Vorbis.Props.%s: %s" % (self.prop, outc[-300:]))
        self.coverage.update({
            "obligations": len(obligations), "discharged": discharged if not bad else 0,
            "checker_cmd": checker_cmd,
            "theorems": details,
            "trusted_base": [
                "Lean 4.33 kernel" + (" + leanchecker re-check" if self.tier == "thorough" else ""),
                "axioms allowed: propext, Classical.choice, Quot.sound (no native_decide, no bv_decide, no sorry; grep + #print axioms on every run)",
                "tools/extract.py (regenerates Vorbis/Generated from /repo on every run)",
                "hand-written model tied to the C only by the correspondence stream of this check",
                "gcc 12, ASan/UBSan, glibc, libogg 1.3.5 as installed"]})
        return broken

    # -- exploration bookkeeping ---------------------------------------------------------------
    def note_case(self, key, nontrivial=True, sample=None):
        self.evaluations += 1
        if nontrivial:
            self.distinct.add(key)
        if sample is not None and len(self.samples) < 6:
            self.samples.append(sample)

    # -- violations ----------------------------------------------------------------------------
    def replay_path(self):
        d = os.path.join(VERIF, "evidence", "replays")
        os.makedirs(d, exist_ok=True)
        self.replay_n += 1
        return os.path.join(d, "%s-%s-%d-%d.json" % (self.prop, self.tier, self.seed, self.replay_n))

    def violation(self, signature, what, replay, found_input=True):
        """signature: stable string identifying the failing input class / call site"""
        for k in self.known:
            if k.get("status") == "known" and re.search(k["signature"], signature):
                if k["signature"] not in [h[0] for h in self.known_hits]:
                    self.known_hits.append((k["signature"], k["what"]))
                return
        if len(self.violations) >= 8:
            self.violations.append((signature, None, found_input))
            return
        path = self.replay_path()
        obj = {"property": self.prop, "signature": signature, "what": what, "seed": self.seed,
               "tier": self.tier, "failing_input_found": found_input, "replay": replay}
        with open(path, "w") as f:
            json.dump(obj, f, indent=1, default=str)
        self.violations.append((signature, path, found_input))

    def finish(self):
        cov = self.coverage
        cov["evaluations"] = self.evaluations
        cov["distinct_nontrivial"] = len(self.distinct)
        cov.setdefault("rule", "")
        cov["samples"] = self.samples if self.samples else ["(no exploration sample recorded)"]
        ev = {"property_id": self.prop, "tier": self.tier, "seed": self.seed, "level": self.level,
              "coverage": cov, "assumptions": self.assumptions,
              "wall_s": round(time.time() - self.t0, 2), "violations": len(self.violations)}
        os.makedirs(os.path.join(VERIF, "evidence"), exist_ok=True)
        with open(os.path.join(VERIF, "evidence", self.prop + ".json"), "w") as f:
            json.dump(ev, f, indent=1, default=str)
        for sig, what in self.known_hits:
            print("KNOWN-FINDING: property=%s %s" % (self.prop, what))
        seen = set()
        for sig, path, found in self.violations:
            if path is None or path in seen:
                continue
            seen.add(path)
            print("VIOLATION property=%s replay=%s%s" % (self.prop, path, "" if found else " no-failing-input-found"))
        sys.stdout.flush()
        return 1 if self.violations else 0


def first_diff(a, b):
    a = a or []
    b = b or []
    for i in range(max(len(a), len(b))):
        x = a[i] if i < len(a) else "<missing>"
        y = b[i] if i < len(b) else "<missing>"
        if x != y:
            return i, x, y
    return None


def hexs(b):
    return b.hex() if b else "-"
