#!/bin/bash
# usage: seed_round.sh <worktree> <seed-id> <property> [<other checks>...]  — confirm, store, remove the worktree, try the quick checks
WT=$1; ID=$2; PROP=$3; shift 3
bash /verif/tools/confirm_seed.sh $WT $ID $PROP 2>&1 | grep -v "^WARNING" | tail -2
git -C /repo worktree remove --force $WT 2>/dev/null; git -C /repo worktree prune
[ -f /verif/seeded/$ID/patch.diff ] && bash /verif/tools/try_seed_wt.sh $ID quick $PROP "$@" 2>&1 | grep -v "^WARNING"
