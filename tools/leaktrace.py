#!/usr/bin/env python3
"""debug aid: find who allocated the blocks the counting build reports as leaked (replay json -> gdb backtraces)"""
import sys, os, json, subprocess, re
sys.path.insert(0, os.path.dirname(os.path.abspath(__file__)))
import vlib
o = json.load(open(sys.argv[1]))
stream, ops = o["replay"]["stream"], o["replay"]["ops"]
h = vlib.build_harness("cnt")
env = dict(os.environ, VF_DUMP="1")
open("/tmp/leak_ops.txt", "w").write("\n".join(ops) + "\n")
r = subprocess.run([h, stream], stdin=open("/tmp/leak_ops.txt"), capture_output=True, text=True, env=env)
seqs = [int(x) for x in re.findall(r"leaked seq=(\d+)", r.stdout)]
seqs = sorted(set(seqs))[:3]
print("leaked seqs", seqs)
for sq in seqs:
    cmds = ["break vf_enter if vf_total==%d" % sq, "run %s < /tmp/leak_ops.txt > /dev/null" % stream, "bt 10"]
    args = ["gdb", "-batch"]
    for c in cmds:
        args += ["-ex", c]
    args.append(h)
    g = subprocess.run(args, capture_output=True, text=True, env=env)
    print("\n".join(l for l in g.stdout.split("\n") if l.startswith("#"))[:1500])
    print("----")
