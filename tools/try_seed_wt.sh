#!/bin/bash
# usage: try_seed_wt.sh <seed-id> <tier> <Cxx> [<Cyy> ...]
# like try_seed.sh but leaves /repo alone: the patch is applied in a scratch worktree of /repo's HEAD (outside /repo and /verif) and the
# checks are pointed at it through VERIF_REPO; the worktree is removed afterwards
ID=$1; TIER=$2; shift 2
P=/verif/seeded/$ID/patch.diff
WT=/tmp/mrepo_$ID
git -C /repo worktree remove --force $WT 2>/dev/null
git -C /repo worktree add -q --detach $WT HEAD || exit 2
git -C $WT apply $P || { echo "patch does not apply"; git -C /repo worktree remove --force $WT; exit 2; }
for C in "$@"; do
  VERIF_REPO=$WT timeout 3000 python3 /verif/tools/check.py $C --tier $TIER > /tmp/seed_${ID}_$C.log 2>&1; rc=$?
  echo "$ID $C tier=$TIER exit=$rc $(grep -c '^VIOLATION' /tmp/seed_${ID}_$C.log) violation lines"
  grep '^VIOLATION' /tmp/seed_${ID}_$C.log | head -2
done
git -C /repo worktree remove --force $WT; git -C /repo worktree prune
