#!/usr/bin/env python3
"""Calibration of C06's per-cell error bounds on the tree VERIF_REPO (default /repo) points at: for every cell
(signal class, channels, rate, mode, quality / nominal bitrate) the minimum over channels, three signal lengths and (noise class) two
seeds of the whole-signal SNR and of the worst-256-sample-window figure, in tenths of dB, and the maximum output/input peak ratio.  Writes checks/c06_cal.json.
Run on the unchanged tree only; the check never runs it."""
import sys, os, json
sys.path.insert(0, os.path.dirname(os.path.abspath(__file__)))
sys.path.insert(0, os.path.dirname(os.path.dirname(os.path.abspath(__file__))))
import vlib
from checks import c06

cases, metas = [], []
k = 0
for cls in (0, 1, 2, 3, 4, 5, 6, 7, 8):
    for ch in c06.CHANNELS:
        for rate in c06.RATES:
            settings = [(0, q) for q in c06.ALLQ] + [(1, nom * max(1, ch // 2)) for nom in c06.NOMINALS]
            for mode, q in settings:
                for n in c06.LENGTHS:
                    for sd in ((101, 202, 303) if cls in (2, 6) else (101,)):
                        cases.append(["case %d" % k, "sig %d %d %d %s %d %d %d" % (ch, rate, mode, q, n, cls, sd)])
                        metas.append((cls, ch, rate, mode, q))
                        k += 1
print(len(cases), "runs", file=sys.stderr)
res = vlib.run_harness_only("c06", cases, variant="plain", timeout=20000, jobs=16)
cal = {}
for r, meta in zip(res, metas):
    if r["c"] is None:
        print("failed:", r["ops"], file=sys.stderr)
        continue
    line = next((l for l in r["c"] if l.startswith("sig ")), None)
    f = c06.kv(line)
    if f.get("rc") != "0":
        continue
    cls, ch, rate, mode, q = meta
    lfe = 5 if (ch == 6 and rate >= 40000) else None
    s = [int(x) for c, x in enumerate(f["snr"].split(",")) if not x.startswith("S") and c != lfe]
    w = [int(x) for c, x in enumerate(f["wwin"].split(",")) if not x.startswith("S") and c != lfe]
    key = c06.cell_key(cls, ch, rate, mode, q)
    cur = cal.get(key, [10 ** 9, 10 ** 9, -10 ** 9, -10 ** 9, 0.0])
    pin, pout = float(f["peakin"]), float(f["peakout"])
    if pin > 0:
        cur[4] = max(cur[4], round(pout / pin, 3))
    if s:
        cur[0] = min(cur[0], min(s)); cur[2] = max(cur[2], min(s))
    if w:
        cur[1] = min(cur[1], min(w)); cur[3] = max(cur[3], min(w))
    cal[key] = cur
json.dump(cal, open(os.path.join(os.path.dirname(os.path.abspath(c06.__file__)), "c06_cal.json"), "w"), indent=0, sort_keys=True)
print(len(cal), "cells", file=sys.stderr)
