#!/bin/bash
# every stored seeded change against the quick check of its own property (scratch worktree, VERIF_REPO): prints one line per change
V=$(cd "$(dirname "$0")/.." && pwd)
for d in $V/seeded/*/; do
  ID=$(basename $d); PROP=$(python3 -c "import json;print(json.load(open('$d/meta.json'))['property'])")
  WT=/tmp/sreg_$ID
  git -C /repo worktree remove --force $WT 2>/dev/null
  git -C /repo worktree add -q --detach $WT HEAD || continue
  if git -C $WT apply $d/patch.diff 2>/dev/null; then
    VERIF_REPO=$WT timeout 3000 python3 $V/tools/check.py $PROP --tier quick > /tmp/sreg_$ID.log 2>&1; rc=$?
    echo "$ID $PROP exit=$rc violations=$(grep -c '^VIOLATION' /tmp/sreg_$ID.log) nofail=$(grep -c 'no-failing-input-found' /tmp/sreg_$ID.log)"
  else
    echo "$ID $PROP patch-does-not-apply"
  fi
  git -C /repo worktree remove --force $WT; git -C /repo worktree prune
done
echo SEEDS-DONE
