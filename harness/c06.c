/* stream c06: encode a parametrised test signal, decode it through the packet API, and measure what C06 talks about:
     case <id>
     sig <ch> <rate> <mode> <q|nominal bps> <n> <class> <seed> [<vis>]    mode 0: VBR quality, 1: managed nominal bitrate; vis 0: every packet carries its
                                                                    granule position, 1: only the last one (a stream of one Ogg page), k>=2: every k-th
   classes: 0 multitone (distinct partials per channel), 1 linear sweep, 2 low-passed noise (independent per channel), 3 click train (distinct offsets),
            4 like 0 but channel 0 silent, 5 tone bursts separated by exact zeros on channel 0 and steady tones elsewhere, 6 noise bursts (for the lag test),
            7 sharp-onset bursts between exact zeros on channel 0 only, steady tones on every other channel (transient detection must not depend on which channel has the onset),
            9 one speaker at a time (channel c sounds in its own slot, the others are exactly zero meanwhile: chained coupling steps see silent partners),
            8 a loud tone on channel 0 and a 60 Hz tone 48 dB below it on the others (mono: loud for half a second, then the quiet tone): a channel's threshold must not depend on another channel's level
   answer: sig rc= n= out= finite= peakin= peakout= lag=<per channel best lag over the probe set> self=<per channel: input channel it correlates best with>
           snr=<per channel, tenths of dB; 'S' for a silent input channel with its leak in tenths of dB relative to the loudest channel> */
#include "mkstream.h"

static double c6_u(uint32_t *st){ uint32_t x=*st; x^=x<<13; x^=x>>17; x^=x<<5; *st=x?x:1; return (double)(*st&0xffffff)/16777216.0-0.5; }

static void c6_make(float **in,int ch,long rate,long n,int cls,long seed){
  int c; long i;
  for(c=0;c<ch;c++){
    uint32_t st=(uint32_t)(seed*2654435761u+c*40503u+cls)|1; double lp=0,lp2=0;
    /* partials as fractions of the sample rate, all below 0.18 (36% of Nyquist): band-limited at every rate and quality */
    double f1=0.0113+0.0061*c, f2=0.0417+0.0093*c, f3=0.0931+0.0107*c;
    for(i=0;i<n;i++){
      double t=(double)i,v=0;
      switch(cls){
      case 0: v=0.25*sin(2*M_PI*f1*t+c)+0.2*sin(2*M_PI*f2*t+0.3*c)+0.15*sin(2*M_PI*f3*t); break;
      case 1: { double fr=(200.0+100*c+ (0.25*rate-300.0)*t/(double)n)/rate; v=0.5*sin(2*M_PI*(200.0+100*c)/rate*t+M_PI*(fr-(200.0+100*c)/rate)*t); } break;
      case 2: { double w=c6_u(&st); lp+=0.2*(w-lp); lp2+=0.2*(lp-lp2); v=3.0*lp2; } break;
      case 3: v=((i+37*c)%1777==0)?0.8:0.0; break;
      case 4: v=(c==0)?0.0:0.3*sin(2*M_PI*f1*t+c)+0.2*sin(2*M_PI*f2*t); break;
      case 5: if(c==0){ long ph=i%(rate/4>0?rate/4:1); v=(ph<rate/16)?0.4*sin(2*M_PI*f2*t):0.0; } else v=0.3*sin(2*M_PI*f1*t+c)+0.2*sin(2*M_PI*f3*t); break;
      case 7: if(c==0){ long ph=i%(rate/3>0?rate/3:1); v=(ph<200)?0.6*sin(2*M_PI*0.07*(double)ph+1.0):0.0; } else v=0.3*sin(2*M_PI*f1*t+c); break;
      case 8: if(ch==1) v=(i<rate/2)?0.8*sin(2*M_PI*1000.0/(double)rate*t):0.003*sin(2*M_PI*60.0/(double)rate*t);
              else v=(c==0)?0.8*sin(2*M_PI*1000.0/(double)rate*t):0.003*sin(2*M_PI*60.0/(double)rate*t+c); break;
      case 9: { /* one speaker at a time: channel c sounds in its own slot of the signal (256-sample ramps), every other channel is exactly zero meanwhile */
        long slot=n/(ch>0?ch:1),a=c*slot,b=a+slot,r=256; double g=0;
        if(i>=a&&i<b){ g=1.0; if(i-a<r)g=(double)(i-a)/r; if(b-i<r)g=(double)(b-i)/r; }
        v=g*(0.3*sin(2*M_PI*f1*t+c)+0.2*sin(2*M_PI*f2*t)); } break;
      default: { double w=c6_u(&st); long ph=(i+211*c)%(rate/5>0?rate/5:1); lp+=0.3*(w-lp); v=(ph<rate/40)?2.5*lp:0.0; } break;
      }
      in[c][i]=(float)v;
    }
  }
}

static const int c6_lags[]={0,1,-1,2,-2,3,-3,4,-4,8,-8,16,-16,32,-32,64,-64,128,-128,256,-256,512,-512,1024,-1024,2048,-2048};

static int c06_main(int argc,char **argv){
  char *line; char *tok[16];
  while((line=readline_(stdin))){
    int n=split(line,tok,16);
    if(n==0){ free(line); continue; }
    if(!strcmp(tok[0],"case")){ printf("== case %s\n",n>1?tok[1]:"?"); fflush(stdout); case_watchdog(); }
    else if(!strcmp(tok[0],"sig")&&n>=8){
      int ch=atoi(tok[1]); long rate=atol(tok[2]); int mode=atoi(tok[3]); double qv=atof(tok[4]); long N=atol(tok[5]); int cls=atoi(tok[6]); long seed=atol(tok[7]); int vis=(n>=9)?atoi(tok[8]):0;
      vorbis_info vi,dvi; vorbis_comment vc,dvc; vorbis_dsp_state vd,dvd; vorbis_block vb,dvb; ogg_packet op,h[3]; int rc,c,k,eos=0,finite=1; long done=0,outn=0;
      float **in=calloc(ch>0?ch:1,sizeof(*in)),**out=calloc(ch>0?ch:1,sizeof(*out));
      vorbis_info_init(&vi);
      rc=mode?vorbis_encode_init(&vi,ch,rate,-1,(long)qv,-1):vorbis_encode_init_vbr(&vi,ch,rate,(float)qv);
      if(rc){ printf("sig rc=%s\n",ovname(rc)); vorbis_info_clear(&vi); free(in); free(out); free(line); continue; }
      for(c=0;c<ch;c++){ in[c]=calloc(N+16,sizeof(float)); out[c]=calloc(N+8192+16,sizeof(float)); }
      c6_make(in,ch,rate,N,cls,seed);
      vorbis_comment_init(&vc); vorbis_analysis_init(&vd,&vi); vorbis_block_init(&vd,&vb);
      vorbis_analysis_headerout(&vd,&vc,&h[0],&h[1],&h[2]);
      vorbis_info_init(&dvi); vorbis_comment_init(&dvc);
      for(k=0;k<3;k++) if(vorbis_synthesis_headerin(&dvi,&dvc,&h[k])<0){ rc=-1; }
      vorbis_synthesis_init(&dvd,&dvi); vorbis_block_init(&dvd,&dvb);
      while(!eos&&rc==0){
        long todo=N-done,i; if(todo>4096)todo=4096;
        if(todo>0){ float **b=vorbis_analysis_buffer(&vd,todo); for(c=0;c<ch;c++)for(i=0;i<todo;i++)b[c][i]=in[c][done+i]; vorbis_analysis_wrote(&vd,todo); done+=todo; }
        else vorbis_analysis_wrote(&vd,0);
        while(vorbis_analysis_blockout(&vd,&vb)==1){
          vorbis_analysis(&vb,NULL); vorbis_bitrate_addblock(&vb);
          while(vorbis_bitrate_flushpacket(&vd,&op)){
            float **pcm; int s;
            if(op.e_o_s)eos=1;
            if(vis==1&&!op.e_o_s)op.granulepos=-1;   /* what a demuxer hands over when the whole stream sits on one Ogg page: only the page's last packet has a position */
            if(vis>=2&&!op.e_o_s&&(op.packetno%vis))op.granulepos=-1;   /* pages of <vis> packets */
            if(vorbis_synthesis(&dvb,&op)==0)vorbis_synthesis_blockin(&dvd,&dvb);
            while((s=vorbis_synthesis_pcmout(&dvd,&pcm))>0){ int j; for(c=0;c<ch;c++)for(j=0;j<s&&outn+j<N+8192;j++)out[c][outn+j]=pcm[c][j]; outn+=s; vorbis_synthesis_read(&dvd,s); }
          }
        }
        if(todo<=0&&!eos)break;
      }
      {
        double peakin=0,peakout=0,emax=0; double *ein=calloc(ch,sizeof(double)); long i,m=outn<N?outn:N;
        for(c=0;c<ch;c++){ for(i=0;i<N;i++){ double a=fabs(in[c][i]); if(a>peakin)peakin=a; ein[c]+=(double)in[c][i]*in[c][i]; } if(ein[c]>emax)emax=ein[c]; }
        for(c=0;c<ch;c++)for(i=0;i<outn&&i<N+8192;i++){ double a=fabs(out[c][i]); if(!(a<1e30))finite=0; if(a>peakout)peakout=a; }
        printf("sig rc=0 n=%ld out=%ld finite=%d peakin=%.4f peakout=%.4f lag=",N,outn,finite,peakin,peakout);
        for(c=0;c<ch;c++){ /* best lag of out[c] against in[c] over the probe set */
          double best=-1e300; int bl=0; unsigned q;
          for(q=0;q<sizeof(c6_lags)/sizeof(int);q++){ int L=c6_lags[q]; double acc=0; for(i=2048;i+2048<m;i++)acc+=(double)out[c][i+L]*in[c][i]; if(acc>best*(1+1e-9)+1e-12){ best=acc; bl=L; } }
          printf("%s%d",c?",":"",ein[c]>0?bl:0);
        }
        printf(" self=");
        for(c=0;c<ch;c++){ double best=-1e300; int bc=c,c2; for(c2=0;c2<ch;c2++){ double acc=0; if(ein[c2]<=0)continue; for(i=0;i<m;i++)acc+=(double)out[c][i]*in[c2][i]; acc/=sqrt(ein[c2]); if(acc>best){ best=acc; bc=c2; } } printf("%s%d",c?",":"",ein[c]>0?bc:c); }
        printf(" snr=");
        for(c=0;c<ch;c++){ double err=0,eo=0; for(i=0;i<m;i++){ double d=(double)in[c][i]-out[c][i]; err+=d*d; eo+=(double)out[c][i]*out[c][i]; }
          if(ein[c]>0) printf("%s%d",c?",":"",(int)floor(100.0*log10((ein[c]+1e-30)/(err+1e-30))));
          else printf("%sS%d",c?",":"",(int)floor(100.0*log10((eo+1e-30)/(emax+1e-30)))); }
        /* worst 256-sample window: error energy of the window against the channel's mean energy per 256 samples, tenths of dB (an error burst
           that the whole-signal SNR averages away) */
        printf(" pk=");
        for(c=0;c<ch;c++){ double pk=0; long at=0; for(i=0;i<outn&&i<N+8192;i++){ double a=fabs(out[c][i]); if(a>pk){pk=a;at=i;} } printf("%s%.3f@%ld",c?",":"",pk,at); }
        printf(" wwin=");
        for(c=0;c<ch;c++){ double worst=0; long w0; for(w0=2048;w0+256+2048<=m;w0+=128){ double e=0; for(i=w0;i<w0+256;i++){ double d=(double)in[c][i]-out[c][i]; e+=d*d; } if(e>worst)worst=e; }
          if(ein[c]>0&&m>8192) printf("%s%d",c?",":"",(int)floor(100.0*log10((ein[c]/(double)N*256.0+1e-30)/(worst+1e-30))));
          else printf("%sS",c?",":""); }
        /* the two ends of the signal (first and last 1024 samples), which the figures above leave out: SNR in tenths of dB against the input at
           the same positions — the end of the stream is where the decoder trims the last block against the granule position */
        printf(" ends=");
        for(c=0;c<ch;c++){ long T=(m>=4096)?1024:256,j; double eh=0,et=0,sh=0,st=0;
          if(m<4*T||outn!=N||!(ein[c]>0)){ printf("%sS",c?",":""); continue; }
          for(j=0;j<T;j++){ double d=(double)in[c][j]-out[c][j]; eh+=d*d; sh+=(double)in[c][j]*in[c][j]; d=(double)in[c][N-T+j]-out[c][N-T+j]; et+=d*d; st+=(double)in[c][N-T+j]*in[c][N-T+j]; }
          printf("%s%d/%d",c?",":"",sh>0?(int)floor(100.0*log10((sh+1e-30)/(eh+1e-30))):9999,st>0?(int)floor(100.0*log10((st+1e-30)/(et+1e-30))):9999); }
        putchar('\n'); free(ein);
      }
      vorbis_block_clear(&dvb); vorbis_dsp_clear(&dvd); vorbis_comment_clear(&dvc); vorbis_info_clear(&dvi);
      vorbis_block_clear(&vb); vorbis_dsp_clear(&vd); vorbis_comment_clear(&vc); vorbis_info_clear(&vi);
      for(c=0;c<ch;c++){ free(in[c]); free(out[c]); } free(in); free(out);
    }else printf("bad-op %s\n",tok[0]);
    free(line);
  }
  return 0;
}
