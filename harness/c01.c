/* stream c01: the packet-level decoder on arbitrary set-ups, samples printed exactly (float bit patterns)
     case <id> | new | hdr <bos> <hex> | init | pkt <hex>
   pkt answers: "pkt rc=0 n=<samples per channel>" followed by one "pcm <channel> <hex32> ..." line per channel,
   or "pkt rc=bad" when vorbis_synthesis refuses the packet */
#include "common.h"
#include "registry.h"
static vorbis_info c1vi; static vorbis_comment c1vc; static vorbis_dsp_state c1vd; static vorbis_block c1vb; static int c1_have=0,c1_init=0; static long c1_seq=3;
static void c1_clear(void){ if(c1_init){ vorbis_block_clear(&c1vb); vorbis_dsp_clear(&c1vd); c1_init=0; } if(c1_have){ vorbis_comment_clear(&c1vc); vorbis_info_clear(&c1vi); c1_have=0; } }
static int c01_main(int argc,char **argv){
  char *line; char *tok[8];
  while((line=readline_(stdin))){
    int n=split(line,tok,8);
    if(n==0){ free(line); continue; }
    if(!strcmp(tok[0],"case")){ printf("== case %s\n",n>1?tok[1]:"?"); fflush(stdout); case_watchdog(); c1_clear(); }
    else if(!strcmp(tok[0],"new")){ c1_clear(); vorbis_info_init(&c1vi); vorbis_comment_init(&c1vc); c1_have=1; c1_seq=3; }
    else if(!strcmp(tok[0],"hdr")&&n>=3&&c1_have){
      bytes_t b=unhex(tok[2]); ogg_packet op; int rc; memset(&op,0,sizeof op); op.packet=b.p; op.bytes=b.n; op.b_o_s=atoi(tok[1]);
      rc=vorbis_synthesis_headerin(&c1vi,&c1vc,&op); printf("hdr rc=%s\n",ovname(rc)); free(b.p);
    }else if(!strcmp(tok[0],"init")&&c1_have&&!c1_init){
      int rc=vorbis_synthesis_init(&c1vd,&c1vi); if(rc==0){ vorbis_block_init(&c1vd,&c1vb); c1_init=1; } printf("init rc=%d\n",rc?1:0);
    }else if(!strcmp(tok[0],"pkt")&&n>=2){
      if(!c1_init)printf("pkt skipped\n"); else{
        bytes_t b=unhex(tok[1]); ogg_packet op; int rc; memset(&op,0,sizeof op); op.packet=b.p; op.bytes=b.n; op.granulepos=-1; op.packetno=c1_seq++;
        rc=vorbis_synthesis(&c1vb,&op);
        if(rc)printf("pkt rc=bad\n"); else{
          float **pcm; int s,c,total=0; vorbis_synthesis_blockin(&c1vd,&c1vb);
          s=vorbis_synthesis_pcmout(&c1vd,&pcm);
          printf("pkt rc=0 n=%d\n",s);
          for(c=0;c<c1vi.channels;c++){ int i; printf("pcm %d",c); for(i=0;i<s;i++){ uint32_t u; memcpy(&u,&pcm[c][i],4); printf(" %08x",u); } putchar('\n'); }
          vorbis_synthesis_read(&c1vd,s); (void)total;
        }
        free(b.p);
      }
    }else if(!strcmp(tok[0],"dbg")&&n>=2){
      /* the stages of mapping0_inverse one by one (same calls, same order), each printed: floor used flags, residue vectors before and after
         the inverse coupling, spectrum after the floor was applied */
      if(!c1_init)printf("dbg skipped\n"); else{
        bytes_t bb=unhex(tok[1]); vorbis_block *vb=&c1vb; vorbis_dsp_state *vd=&c1vd; vorbis_info *vi=&c1vi; codec_setup_info *ci=vi->codec_setup; private_state *b=vd->backend_state;
        oggpack_buffer *opb=&vb->opb; int mode,i,j; vorbis_info_mapping0 *info; long nn; void *memo[256]; int nonzero[256];
        _vorbis_block_ripcord(vb); oggpack_readinit(opb,bb.p,bb.n);
        if(oggpack_read(opb,1)!=0){ printf("dbg notaudio\n"); free(bb.p); free(line); continue; }
        mode=oggpack_read(opb,b->modebits);
        if(mode==-1||!ci->mode_param[mode]){ printf("dbg badmode\n"); free(bb.p); free(line); continue; }
        vb->mode=mode; vb->W=ci->mode_param[mode]->blockflag;
        if(vb->W){ vb->lW=oggpack_read(opb,1); vb->nW=oggpack_read(opb,1); if(vb->nW==-1){ printf("dbg eop\n"); free(bb.p); free(line); continue; } } else { vb->lW=0; vb->nW=0; }
        vb->pcmend=ci->blocksizes[vb->W]; nn=vb->pcmend;
        vb->pcm=_vorbis_block_alloc(vb,sizeof(*vb->pcm)*vi->channels);
        for(i=0;i<vi->channels;i++)vb->pcm[i]=_vorbis_block_alloc(vb,vb->pcmend*sizeof(*vb->pcm[i]));
        info=(vorbis_info_mapping0*)ci->map_param[ci->mode_param[mode]->mapping];
        printf("dbg mode=%d W=%d lW=%ld nW=%ld n=%ld\n",mode,(int)vb->W,(long)vb->lW,(long)vb->nW,nn);
        for(i=0;i<vi->channels;i++){ int sm=info->chmuxlist[i]; memo[i]=_floor_P[ci->floor_type[info->floorsubmap[sm]]]->inverse1(vb,b->flr[info->floorsubmap[sm]]); nonzero[i]=memo[i]?1:0;
          memset(vb->pcm[i],0,sizeof(float)*nn/2); printf("flr %d used=%d type=%d pos=%ld\n",i,nonzero[i],ci->floor_type[info->floorsubmap[sm]],(long)oggpack_bits(opb)); }
        for(i=0;i<info->coupling_steps;i++) if(nonzero[info->coupling_mag[i]]||nonzero[info->coupling_ang[i]]){ nonzero[info->coupling_mag[i]]=1; nonzero[info->coupling_ang[i]]=1; }
        for(i=0;i<info->submaps;i++){ float *bundle[256]; int zb[256],cb=0;
          for(j=0;j<vi->channels;j++) if(info->chmuxlist[j]==i){ zb[cb]=nonzero[j]; bundle[cb++]=vb->pcm[j]; }
          _residue_P[ci->residue_type[info->residuesubmap[i]]]->inverse(vb,b->residue[info->residuesubmap[i]],bundle,zb,cb); }
        for(i=0;i<vi->channels;i++){ printf("res %d",i); for(j=0;j<nn/2;j++){ uint32_t u; memcpy(&u,&vb->pcm[i][j],4); printf(" %08x",u); } putchar('\n'); }
        for(i=info->coupling_steps-1;i>=0;i--){ float *pM=vb->pcm[info->coupling_mag[i]],*pA=vb->pcm[info->coupling_ang[i]];
          for(j=0;j<nn/2;j++){ float mag=pM[j],ang=pA[j]; if(mag>0){ if(ang>0){ pM[j]=mag; pA[j]=mag-ang; }else{ pA[j]=mag; pM[j]=mag+ang; } }else{ if(ang>0){ pM[j]=mag; pA[j]=mag+ang; }else{ pA[j]=mag; pM[j]=mag-ang; } } } }
        for(i=0;i<vi->channels;i++){ int sm=info->chmuxlist[i]; _floor_P[ci->floor_type[info->floorsubmap[sm]]]->inverse2(vb,b->flr[info->floorsubmap[sm]],memo[i],vb->pcm[i]); }
        for(i=0;i<vi->channels;i++){ printf("spec %d",i); for(j=0;j<nn/2;j++){ uint32_t u; memcpy(&u,&vb->pcm[i][j],4); printf(" %08x",u); } putchar('\n'); }
        free(bb.p);
      }
    }else printf("bad-op %s\n",tok[0]);
    free(line);
  }
  c1_clear();
  return 0;
}
