/* stream c14: the rate manager (lib/bitrate.c)
   ops:
     case <id>
     cfg <ch> <rate> <nominal> <max_kbps> <avg_kbps> <min_kbps> <reservoir_bits> <bias> [<damp>]
           vorbis_encode_setup_managed + OV_ECTL_RATEMANAGE2_SET + setup_init + analysis_init
     blk <W> <b0> ... <b14>       direct mode: fill the 15 packet blobs with these byte counts, addblock, flush
     encode <n> <sig> <seed>      real mode: encode n samples, log every block the same way
   answers:
     cfg rc=.. minb=.. maxb=.. avgb=.. spl=.. RB=.. desired=.. R0=.. bs0=.. bs1=.. rate=..
     blk W=.. c0=.. choice=.. bytes=.. R=.. blobs=b0,..,b14
*/
#include "mkstream.h"

typedef struct { vorbis_info vi; vorbis_dsp_state vd; vorbis_block vb; int live; } c14_enc;
static c14_enc E14;

static void c14_close(void){
  if(E14.live){ vorbis_block_clear(&E14.vb); vorbis_dsp_clear(&E14.vd); vorbis_info_clear(&E14.vi); E14.live=0; }
}
static bitrate_manager_state *c14_bm(void){ return &((private_state*)E14.vd.backend_state)->bms; }

static void c14_logblk(int W,long *blobs,long bytes){
  bitrate_manager_state *bm=c14_bm(); int i;
  printf("blk W=%d c0=%d choice=%d bytes=%ld R=%ld blobs=",W,(int)rint(bm->avgfloat),bm->choice,bytes,bm->minmax_reservoir);
  for(i=0;i<PACKETBLOBS;i++)printf("%s%ld",i?",":"",blobs[i]);
  putchar('\n');
}

static int c14_main(int argc,char **argv){
  char *line; char *tok[32];
  memset(&E14,0,sizeof E14);
  while((line=readline_(stdin))){
    int n=split(line,tok,32);
    if(n==0){ free(line); continue; }
    if(!strcmp(tok[0],"case")){
      printf("== case %s\n",n>1?tok[1]:"?"); fflush(stdout); case_watchdog();
    }else if(!strcmp(tok[0],"cfg")&&n>=9){
      struct ovectl_ratemanage2_arg ai; int rc; int refused=0,hasref=0;
      int ch=atoi(tok[1]); long rate=atol(tok[2]), nom=atol(tok[3]);
      c14_close();
      vorbis_info_init(&E14.vi);
      rc=vorbis_encode_setup_managed(&E14.vi,ch,rate,-1,nom,-1);
      if(!rc){
        rc=vorbis_encode_ctl(&E14.vi,OV_ECTL_RATEMANAGE2_GET,&ai);
        ai.management_active=1;
        ai.bitrate_limit_max_kbps=atol(tok[4]); ai.bitrate_average_kbps=atol(tok[5]); ai.bitrate_limit_min_kbps=atol(tok[6]);
        ai.bitrate_limit_reservoir_bits=atol(tok[7]); ai.bitrate_limit_reservoir_bias=atof(tok[8]);
        if(n>=10&&tok[9][0]!='X'&&tok[9][0]!='K') ai.bitrate_average_damping=atof(tok[9]);
        if(!rc) rc=vorbis_encode_ctl(&E14.vi,OV_ECTL_RATEMANAGE2_SET,&ai);
        /* X<max>:<avg>:<min>:<kind>: a second request with other (consistent) limits and one tuning value out of range: it must be refused
           and leave the accepted configuration as it is */
        if(!rc&&tok[n-1][0]=='X'){ struct ovectl_ratemanage2_arg a2=ai; long mx=0,av=0,mn=0; int kind=0;
          sscanf(tok[n-1]+1,"%ld:%ld:%ld:%d",&mx,&av,&mn,&kind);
          a2.bitrate_limit_max_kbps=mx; a2.bitrate_average_kbps=av; a2.bitrate_limit_min_kbps=mn;
          if(kind==0)a2.bitrate_limit_reservoir_bias=1.5; else if(kind==1)a2.bitrate_average_damping=0.; else if(kind==2)a2.bitrate_limit_reservoir_bits=-5; else a2.bitrate_limit_reservoir_bias=NAN;
          refused=vorbis_encode_ctl(&E14.vi,OV_ECTL_RATEMANAGE2_SET,&a2); hasref=1; }
        /* K<mask>: other control requests between the accepted rate request and setup_init, each restating the value it reads back
           (1 coupling, 2 lowpass, 4 impulse block bias): none of them is about rate management, the accepted limits and tuning must survive */
        { int j,mask=0; for(j=9;j<n;j++)if(tok[j][0]=='K')mask=atoi(tok[j]+1);
          if(!rc&&(mask&1)){ int v=1; vorbis_encode_ctl(&E14.vi,OV_ECTL_COUPLING_GET,&v); vorbis_encode_ctl(&E14.vi,OV_ECTL_COUPLING_SET,&v); }
          if(!rc&&(mask&2)){ double v=0; vorbis_encode_ctl(&E14.vi,OV_ECTL_LOWPASS_GET,&v); vorbis_encode_ctl(&E14.vi,OV_ECTL_LOWPASS_SET,&v); }
          if(!rc&&(mask&4)){ double v=0; vorbis_encode_ctl(&E14.vi,OV_ECTL_IBLOCK_GET,&v); vorbis_encode_ctl(&E14.vi,OV_ECTL_IBLOCK_SET,&v); } }
        if(!rc) rc=vorbis_encode_setup_init(&E14.vi);
      }
      if(rc){ printf("cfg rc=%s\n",ovname(rc)); vorbis_info_clear(&E14.vi); }
      else{
        codec_setup_info *ci; bitrate_manager_state *bm;
        vorbis_analysis_init(&E14.vd,&E14.vi); vorbis_block_init(&E14.vd,&E14.vb); E14.live=1;
        ci=E14.vi.codec_setup; bm=c14_bm();
        printf("cfg rc=0 managed=%d minb=%ld maxb=%ld avgb=%ld spl=%ld RB=%ld desired=%ld R0=%ld bs0=%ld bs1=%ld rate=%ld maxrate=%ld minrate=%ld\n",
               bm->managed,bm->min_bitsper,bm->max_bitsper,bm->avg_bitsper,bm->short_per_long,ci->bi.reservoir_bits,
               (long)(ci->bi.reservoir_bits*ci->bi.reservoir_bias),bm->minmax_reservoir,ci->blocksizes[0],ci->blocksizes[1],E14.vi.rate,
               ci->bi.max_rate,ci->bi.min_rate);
        if(hasref)printf("cfg2 refused=%s\n",ovname(refused));
      }
    }else if(!strcmp(tok[0],"cfgd")&&n>=6){
      /* cfgd <ch> <rate> <max_bps> <nominal_bps> <min_bps>: vorbis_encode_setup_managed alone (every tuning value left at its default) */
      int rc; int ch=atoi(tok[1]); long rate=atol(tok[2]);
      c14_close();
      vorbis_info_init(&E14.vi);
      rc=vorbis_encode_setup_managed(&E14.vi,ch,rate,atol(tok[3]),atol(tok[4]),atol(tok[5]));
      if(!rc) rc=vorbis_encode_setup_init(&E14.vi);
      if(rc){ printf("cfg rc=%s\n",ovname(rc)); vorbis_info_clear(&E14.vi); }
      else{
        codec_setup_info *ci; bitrate_manager_state *bm;
        vorbis_analysis_init(&E14.vd,&E14.vi); vorbis_block_init(&E14.vd,&E14.vb); E14.live=1;
        ci=E14.vi.codec_setup; bm=c14_bm();
        printf("cfg rc=0 managed=%d minb=%ld maxb=%ld avgb=%ld spl=%ld RB=%ld desired=%ld R0=%ld bs0=%ld bs1=%ld rate=%ld maxrate=%ld minrate=%ld\n",
               bm->managed,bm->min_bitsper,bm->max_bitsper,bm->avg_bitsper,bm->short_per_long,ci->bi.reservoir_bits,
               (long)(ci->bi.reservoir_bits*ci->bi.reservoir_bias),bm->minmax_reservoir,ci->blocksizes[0],ci->blocksizes[1],E14.vi.rate,
               ci->bi.max_rate,ci->bi.min_rate);
      }
    }else if(!strcmp(tok[0],"blk")&&n>=2+PACKETBLOBS&&E14.live){
      vorbis_block_internal *vbi=E14.vb.internal; long blobs[PACKETBLOBS]; int i; long k; ogg_packet op;
      E14.vb.W=atoi(tok[1]);
      for(i=0;i<PACKETBLOBS;i++){
        blobs[i]=atol(tok[2+i]);
        oggpack_reset(vbi->packetblob[i]);
        for(k=0;k<blobs[i];k++)oggpack_write(vbi->packetblob[i],0xA5,8);
      }
      if(vorbis_bitrate_addblock(&E14.vb)){ printf("blk addblock-refused\n"); }
      else{
        memset(&op,0,sizeof op);
        vorbis_bitrate_flushpacket(&E14.vd,&op);
        c14_logblk(E14.vb.W,blobs,op.bytes);
      }
    }else if(!strcmp(tok[0],"encode")&&n>=4&&E14.live){
      long total=atol(tok[1]),done=0; int sig=atoi(tok[2]); mk_params P; int eos=0;
      memset(&P,0,sizeof P); P.sig=sig; P.channels=E14.vi.channels;
      mk_rng_state=(uint32_t)(atol(tok[3])*2654435761u+7u); if(!mk_rng_state)mk_rng_state=1;
      while(!eos){
        long todo=total-done,i; int c;
        if(todo>4096)todo=4096;
        if(todo>0){
          float **b=vorbis_analysis_buffer(&E14.vd,todo);
          for(c=0;c<E14.vi.channels;c++)for(i=0;i<todo;i++)b[c][i]=mk_sample(&P,c,done+i);
          vorbis_analysis_wrote(&E14.vd,todo); done+=todo;
        }else vorbis_analysis_wrote(&E14.vd,0);
        while(vorbis_analysis_blockout(&E14.vd,&E14.vb)==1){
          vorbis_block_internal *vbi=E14.vb.internal; long blobs[PACKETBLOBS]; int i; ogg_packet op;
          vorbis_analysis(&E14.vb,NULL);
          for(i=0;i<PACKETBLOBS;i++)blobs[i]=oggpack_bytes(vbi->packetblob[i]);
          vorbis_bitrate_addblock(&E14.vb);
          while(vorbis_bitrate_flushpacket(&E14.vd,&op)){
            c14_logblk(E14.vb.W,blobs,op.bytes);
            if(op.e_o_s)eos=1;
          }
        }
        if(todo<=0&&!eos)break;
      }
      printf("encode done eos=%d\n",eos);
    }else{
      printf("bad-op %s\n",tok[0]);
    }
    free(line);
  }
  c14_close();
  return 0;
}
