/* stream c17: integer PCM path of ov_read (lib/vorbisfile.c, lib/os.h)
   ops:
     case <id>
     stream <ch> <rate> <q> <n> <sig> <seed> [<ch2> <rate2> <q2> <n2>]   encode in memory (optionally a second link) and open with vorbisfile
     halfrate <0|1>
     skip <frames>                               ov_read_float up to <frames> frames (moves the position)
     read <word> <sgned> <be> <len> [<hexfloats>|- [np]]  ov_read_filter; optional injected bit patterns; np: no priming read before it
   answer of read:
     read word=.. sgned=.. be=.. len=.. ch=.. avail=.. hs=.. rc=.. adv=.. intact=.. in=<hex> out=<hex>
*/
#include "mkstream.h"

typedef struct { bytes_t inj; buf_t rec; long frames; int ch; } c17_filt;
static void c17_filter(float **pcm,long channels,long samples,void *param){
  c17_filt *f=param; long j; int i; long k=0;
  f->frames=samples; f->ch=channels;
  for(j=0;j<samples;j++)
    for(i=0;i<channels;i++){
      uint32_t bits; unsigned char be[4];
      if(f->inj.n>=4){
        long o=(k*4)%(f->inj.n-(f->inj.n%4));
        bits=((uint32_t)f->inj.p[o]<<24)|((uint32_t)f->inj.p[o+1]<<16)|((uint32_t)f->inj.p[o+2]<<8)|f->inj.p[o+3];
        memcpy(&pcm[i][j],&bits,4);
      }else memcpy(&bits,&pcm[i][j],4);
      be[0]=bits>>24; be[1]=bits>>16; be[2]=bits>>8; be[3]=bits;
      buf_add(&f->rec,be,4);
      k++;
    }
}

static int c17_main(int argc,char **argv){
  char *line; char *tok[16];
  OggVorbis_File vf; int open=0; memsrc ms; buf_t stream={0,0,0};
  while((line=readline_(stdin))){
    int n=split(line,tok,16);
    if(n==0){ free(line); continue; }
    if(!strcmp(tok[0],"case")){
      printf("== case %s\n",n>1?tok[1]:"?"); fflush(stdout); case_watchdog();
    }else if(!strcmp(tok[0],"stream")&&n>=7){
      mk_params P; int rc;
      if(open){ ov_clear(&vf); open=0; }
      memset(&P,0,sizeof P);
      P.channels=atoi(tok[1]); P.rate=atol(tok[2]); P.quality=atof(tok[3]); P.n=atol(tok[4]); P.sig=atoi(tok[5]); P.seed=atol(tok[6]);
      P.serial=777; P.chunk=4096;
      stream.n=0;
      rc=mk_encode(&P,&stream);
      if(!rc&&n>=11){ /* a second link with its own channel count: the boundary is crossed inside a read */
        mk_params Q; memset(&Q,0,sizeof Q);
        Q.channels=atoi(tok[7]); Q.rate=atol(tok[8]); Q.quality=atof(tok[9]); Q.n=atol(tok[10]); Q.sig=P.sig; Q.seed=P.seed+1; Q.serial=778; Q.chunk=4096;
        rc=mk_encode(&Q,&stream);
      }
      if(rc){ printf("stream enc_rc=%s\n",ovname(rc)); }
      else{
        ms_init(&ms,stream.p,stream.n,1);
        rc=ov_open_callbacks(&ms,&vf,NULL,0,ms_callbacks(1));
        printf("stream open_rc=%s total=%lld\n",ovname(rc),rc?0LL:(long long)ov_pcm_total(&vf,-1));
        if(!rc)open=1;
      }
    }else if(!strcmp(tok[0],"halfrate")&&open){
      printf("halfrate rc=%d\n",ov_halfrate(&vf,atoi(tok[1])));
    }else if(!strcmp(tok[0],"skip")&&open){
      float **pcm; long r=ov_read_float(&vf,&pcm,atol(tok[1]),NULL);
      printf("skip rc=%ld\n",r);
    }else if(!strcmp(tok[0],"read")&&open&&n>=5){
      int word=atoi(tok[1]),sgned=atoi(tok[2]),be=atoi(tok[3]); long len=atol(tok[4]);
      float **pcm; long avail=0; long rc; int bs=-1,hs,ch; ogg_int64_t t0,t1;
      c17_filt F; unsigned char *buf; long alloc=(len>0?len:0)+64,i; int intact=1;
      memset(&F,0,sizeof F);
      int noprime=(n>=7&&!strcmp(tok[6],"np"));
      int wrapper=(n>=7&&!strcmp(tok[6],"wr"));   /* through the public ov_read (no filter: the input floats are not recorded) */
      if(n>=6&&strcmp(tok[5],"-")) F.inj=unhex(tok[5]);
      if(!noprime){
        ov_read_float(&vf,&pcm,0,NULL);           /* prime: fetches packets, consumes nothing */
        if(vf.ready_state==INITSET) avail=vorbis_synthesis_pcmout(&vf.vd,NULL);
      }else avail=-1;                              /* the call itself fetches (and may cross into the next link) */
      hs=ov_halfrate_p(&vf); ch=ov_info(&vf,-1)->channels;
      t0=ov_pcm_tell(&vf);
      buf=malloc(alloc); memset(buf,0xAA,alloc);
      if(wrapper) rc=ov_read(&vf,(char*)buf,(int)len,be,word,sgned,&bs);
      else rc=ov_read_filter(&vf,(char*)buf,(int)len,be,word,sgned,&bs,c17_filter,&F);
      t1=ov_pcm_tell(&vf);
      if(noprime&&rc>0&&bs>=0&&bs<ov_streams(&vf)) ch=ov_info(&vf,bs)->channels;   /* the link the data came from, as reported by the call */
      for(i=(rc>0?rc:0);i<alloc;i++) if(buf[i]!=0xAA){ intact=0; break; }
      printf("read word=%d sgned=%d be=%d len=%ld ch=%d avail=%ld hs=%d wr=%d rc=%s adv=%lld intact=%d in=",
             word,sgned,be,len,ch,avail,hs,wrapper,ovname(rc),(long long)(t1-t0),intact);
      puthex(F.rec.p,F.rec.n); printf(" out="); puthex(buf,rc>0?rc:0); putchar('\n');
      free(buf); free(F.rec.p); if(F.inj.p)free(F.inj.p);
    }else{
      printf("bad-op %s\n",tok[0]);
    }
    free(line);
  }
  if(open)ov_clear(&vf);
  free(stream.p);
  return 0;
}
